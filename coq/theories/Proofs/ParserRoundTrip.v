(* Proofs/ParserRoundTrip.v - the parser reads back every rendering:  parse (tokens (print e)) = norm e.

   Part 1 (no section): the value printers are plain ASCII, integer literals, token algebra, the continuation class of a
   token (cont), big-step rules for the fuelled parser ("Ev P v r": with enough fuel P returns POk v r), the level
   structure PL / LoopL / Beh and the lifting lemma, paths, identifiers.
   Part 2 (Section RT): token lists of the renderings, the first token of a rendering, the unary prefix, children and
   parentheses, expression lists and records, values, the main induction, parse_print_expr.
   Part 3 (Section POL): entities, scopes, annotations, conditions, parse_print_policy, parse_print_policies. *)
From Coq Require Import ZArith List Bool String Lia Arith.
Import ListNotations.
From Cedar Require Import Base.Int64 Base.Utf8 Base.Utf8Enc Lang.Value Impl.Like Lang.Expr Impl.Eval Impl.Text Impl.Decimal Impl.Duration Impl.Datetime
  Impl.Scanner Impl.Tokenizer Impl.Quote Impl.Parser Impl.Printer Lang.RoundTrip Generated.Tables.
From Cedar Require Import Proofs.QuoteProofs Proofs.ParserFuel Proofs.DecimalProofs.

(* ------------------------------------------------------------------------------------------------------------ *)
(* plain strings: what string_value_plain wants                                                                    *)
(* ------------------------------------------------------------------------------------------------------------ *)
Definition plain (c : Z) : Prop := (32 <= c < 127 /\ c <> 34 /\ c <> 92)%Z.

Lemma digits_plain : forall s, Forall (fun c => is_digit c = true) s -> Forall plain s.
Proof.
  intros s H. eapply Forall_impl; [|exact H]. intros c Hc. cbv beta in Hc.
  apply is_digit_range in Hc. unfold plain. lia.
Qed.

Lemma print_nat_all_digits : forall z, Forall (fun c => is_digit c = true) (print_nat z).
Proof. intros z. unfold print_nat. apply digits_of_digits. constructor. Qed.

Lemma print_nat_plain : forall z, Forall plain (print_nat z).
Proof. intros z. apply digits_plain, print_nat_all_digits. Qed.

Lemma repeat_plain : forall n, Forall plain (repeat 48%Z n).
Proof. induction n as [|n IH]; cbn [repeat]; constructor; [unfold plain; lia | exact IH]. Qed.

Lemma print_padded_plain : forall w z, Forall plain (print_padded w z).
Proof. intros w z. unfold print_padded. apply Forall_app. split; [apply repeat_plain | apply print_nat_plain]. Qed.

Lemma match48 : forall (A : Type) (Q : A -> Prop) (c : Z) (x y : A), Q x -> Q y -> Q (match c with 48%Z => x | _ => y end).
Proof.
  intros A Q c x y Hx Hy. destruct c as [|p|p]; auto.
  do 6 (try (destruct p as [p|p|]; auto)).
Qed.

Lemma trim_zeros_Forall : forall (P : Z -> Prop) n rs, Forall P rs -> Forall P (trim_zeros n rs).
Proof.
  intros P. induction n as [|n IH]; intros rs H; [destruct rs; exact H|].
  destruct rs as [|c rs']; [exact H|]. cbn [trim_zeros].
  apply match48; [|exact H]. apply IH. inversion H; assumption.
Qed.

Lemma Forall_rev' : forall (A : Type) (P : A -> Prop) l, Forall P l -> Forall P (rev l).
Proof. intros A P l H. apply Forall_forall. intros x Hx. apply in_rev in Hx. rewrite Forall_forall in H. auto. Qed.

Lemma plain_cons : forall c l, plain c -> Forall plain l -> Forall plain (c :: l).
Proof. intros; constructor; assumption. Qed.

Lemma print_decimal_plain : forall z, Forall plain (print_decimal z).
Proof.
  intros z. unfold print_decimal. apply Forall_rev', trim_zeros_Forall, Forall_rev'.
  destruct (z <? 0)%Z.
  - apply plain_cons; [unfold plain; lia|]. apply Forall_app. split; [apply print_nat_plain|].
    apply plain_cons; [unfold plain; lia | apply print_padded_plain].
  - apply Forall_app. split; [apply print_nat_plain|].
    apply plain_cons; [unfold plain; lia | apply print_padded_plain].
Qed.

Lemma print_duration_plain : forall z, Forall plain (print_duration z).
Proof.
  intros z. unfold print_duration.
  destruct (z =? 0)%Z; [repeat (apply plain_cons; [unfold plain; lia|]); constructor|].
  cbv zeta.
  assert (Hpart : forall q suffix, Forall plain suffix -> Forall plain (if (q >? 0)%Z then print_nat q ++ suffix else [])).
  { intros q suffix Hs. destruct (q >? 0)%Z; [|constructor]. apply Forall_app. split; [apply print_nat_plain | exact Hs]. }
  repeat (apply Forall_app; split).
  - destruct (z <? 0)%Z; [apply plain_cons; [unfold plain; lia|]|]; constructor.
  - apply Hpart. repeat (apply plain_cons; [unfold plain; lia|]); constructor.
  - apply Hpart. repeat (apply plain_cons; [unfold plain; lia|]); constructor.
  - apply Hpart. repeat (apply plain_cons; [unfold plain; lia|]); constructor.
  - apply Hpart. repeat (apply plain_cons; [unfold plain; lia|]); constructor.
  - apply Hpart. repeat (apply plain_cons; [unfold plain; lia|]); constructor.
Qed.

Lemma print_datetime_plain : forall z, Forall plain (print_datetime z).
Proof.
  intros z. unfold print_datetime. cbv zeta.
  destruct (civil_from_days (z / MillisPerDay)) as [[y m] d].
  apply Forall_app. split.
  - destruct ((0 <=? y)%Z && (y <=? 9999)%Z); [apply print_padded_plain|].
    apply plain_cons; [destruct (y <? 0)%Z; unfold plain; lia | apply print_padded_plain].
  - repeat (first [ apply plain_cons; [unfold plain; lia|]
                  | apply Forall_app; split; [apply print_padded_plain|]
                  | constructor ]).
Qed.

(* ------------------------------------------------------------------------------------------------------------ *)
(* integer literals                                                                                              *)
(* ------------------------------------------------------------------------------------------------------------ *)
Lemma digits_val_acc_fold : forall s acc v, digits_val_acc s acc = Some v ->
  fold_left (fun a c => (a * 10 + (c - 48))%Z) s acc = v.
Proof.
  induction s as [|c s IH]; intros acc v H; cbn [digits_val_acc fold_left] in *.
  - congruence.
  - destruct (is_digit c); [|discriminate]. apply IH. exact H.
Qed.

Lemma digits_val_print_nat : forall z, (0 <= z < 10 ^ 40)%Z -> digits_val (print_nat z) = z.
Proof.
  intros z Hz. unfold digits_val. apply digits_val_acc_fold.
  destruct (parse_digits_some _ _ (parse_print_nat z Hz)) as [_ H]. exact H.
Qed.

Lemma in64_small : forall z, in64b z = true -> (- 10 ^ 40 < z < 10 ^ 40)%Z.
Proof.
  intros z H. apply in64b_spec in H. unfold in64, min64, max64, two63 in H.
  assert (9223372036854775808 < 10 ^ 40)%Z by reflexivity. lia.
Qed.

Lemma int_value_pos : forall z, (0 <= z)%Z -> in64b z = true -> int_value false (print_nat z) = Some z.
Proof.
  intros z Hz Hi. unfold int_value. pose proof (in64_small z Hi).
  rewrite digits_val_print_nat by lia. rewrite Hi. reflexivity.
Qed.

Lemma int_value_neg : forall z, (z < 0)%Z -> in64b z = true -> int_value true (print_nat (- z)) = Some z.
Proof.
  intros z Hz Hi. unfold int_value. pose proof (in64_small z Hi).
  rewrite digits_val_print_nat by lia. rewrite Z.opp_involutive, Hi. reflexivity.
Qed.

(* ------------------------------------------------------------------------------------------------------------ *)
(* tokens                                                                                                        *)
(* ------------------------------------------------------------------------------------------------------------ *)
Definition O (s : string) : token := mk (TOperator, s_of s).
Definition K (s : string) : token := mk (TReserved, s_of s).
Definition I (s : string) : token := mk (TIdent, s_of s).
Definition Id (s : str) : token := mk (TIdent, s).
Definition St (s : str) : token := mk (TString, s).
Definition Nt (s : str) : token := mk (TInt, s).

Lemma toks_of_app : forall a b, toks_of (a ++ b) = toks_of a ++ toks_of b.
Proof. intros a b. unfold toks_of, toks. rewrite flat_map_app, map_app. reflexivity. Qed.
Lemma toks_of_nil : toks_of [] = [].
Proof. reflexivity. Qed.
Lemma toks_of_T : forall ty s l, toks_of (T ty s :: l) = mk (ty, s) :: toks_of l.
Proof. reflexivity. Qed.
Lemma toks_of_Sp : forall s l, toks_of (Sp s :: l) = toks_of l.
Proof. reflexivity. Qed.
Lemma toks_of_op : forall s l, toks_of (op s :: l) = O s :: toks_of l.
Proof. reflexivity. Qed.
Lemma toks_of_kw : forall s l, toks_of (kw s :: l) = K s :: toks_of l.
Proof. reflexivity. Qed.
Lemma toks_of_idt : forall s l, toks_of (idt s :: l) = I s :: toks_of l.
Proof. reflexivity. Qed.
Lemma toks_of_sp : forall l, toks_of (sp :: l) = toks_of l.
Proof. reflexivity. Qed.
Lemma toks_of_nl : forall l, toks_of (nl :: l) = toks_of l.
Proof. reflexivity. Qed.
Lemma toks_of_indent : forall l, toks_of (indent :: l) = toks_of l.
Proof. reflexivity. Qed.

Lemma adv_cons : forall t l, l <> [] -> adv (t :: l) = l.
Proof. intros t l H. destruct l; [congruence | reflexivity]. Qed.
Lemma peek_cons : forall t l, peek (t :: l) = t.
Proof. reflexivity. Qed.
Lemma app_ne_r : forall (A : Type) (a b : list A), b <> [] -> a ++ b <> [].
Proof. intros A a b H E. apply app_eq_nil in E. destruct E; contradiction. Qed.
Lemma cons_ne : forall (A : Type) (x : A) l, x :: l <> [].
Proof. intros; discriminate. Qed.

Ltac ne := solve [ repeat first [ assumption | apply cons_ne | apply app_ne_r ] ].

Lemma exact_cons : forall t l s, tx t s = true -> l <> [] -> exact (t :: l) s = Some l.
Proof. intros t l s H Hl. unfold exact. cbn [peek]. rewrite H, adv_cons by exact Hl. reflexivity. Qed.

Lemma tx_eq : forall t s, tx t s = true -> t_text t = s_of s.
Proof. intros t s H. unfold tx in H. apply str_eqb_eq in H. symmetry. exact H. Qed.

(* ------------------------------------------------------------------------------------------------------------ *)
(* continuation class of a token: which operator loop of the parser consumes it (0 = none)                         *)
(* ------------------------------------------------------------------------------------------------------------ *)
Definition cont_table : list (string * nat) :=
  [("||", 1); ("&&", 2); ("<", 3); ("<=", 3); (">", 3); (">=", 3); ("!=", 3); ("==", 3); ("in", 3); ("has", 3); ("like", 3); ("is", 3);
   ("+", 4); ("-", 4); ("*", 5); (".", 7); ("[", 7); ("(", 9); ("::", 9)]%string.

Definition contx (text : str) : nat :=
  match find (fun e => str_eqb (s_of (fst e)) text) cont_table with Some e => snd e | None => 0 end.
Definition cont (t : token) : nat := contx (t_text t).

Lemma cont_tx : forall t s, tx t s = true -> cont t = contx (s_of s).
Proof. intros t s H. unfold cont. rewrite (tx_eq _ _ H). reflexivity. Qed.

Lemma stop_cont : forall t, stop_tok t = true -> cont t = 0.
Proof.
  intros t H. unfold stop_tok in H. apply negb_true_iff in H.
  unfold cont, contx, cont_table. cbn [existsb] in H. unfold tx in H.
  cbn [find fst snd].
  repeat (apply orb_false_iff in H; destruct H as [H0 H]; rewrite H0; clear H0).
  reflexivity.
Qed.

(* tx t s = false from a bound on cont t in the context *)
Ltac txf :=
  match goal with
  | |- tx ?t ?s = false =>
    let E := fresh "E" in
    destruct (tx t s) eqn:E;
    [ exfalso; apply cont_tx in E;
      let n := eval vm_compute in (contx (s_of s)) in change (contx (s_of s)) with n in E; lia
    | reflexivity ]
  end.

(* cont of a closed token *)
Ltac contc :=
  cbn [peek];
  repeat match goal with
         | |- context [cont ?t] => let n := eval vm_compute in (cont t) in
                                   lazymatch n with 0%nat => idtac | S _ => idtac end; change (cont t) with n
         end;
  lia.

(* ------------------------------------------------------------------------------------------------------------ *)
(* "with enough fuel, P returns POk v r"                                                                          *)
(* ------------------------------------------------------------------------------------------------------------ *)
Definition Ev {A : Type} (P : nat -> pres A) (v : A) (r : list token) : Prop :=
  exists f0 : nat, forall f : nat, f0 <= f -> P f = POk v r.

Lemma ev_ret : forall (A : Type) (v : A) r, Ev (fun _ => POk v r) v r.
Proof. intros A v r. exists 0. intros f _. reflexivity. Qed.

Lemma ev_det : forall (A : Type) (P : nat -> pres A) v r v' r', Ev P v r -> Ev P v' r' -> v = v' /\ r = r'.
Proof.
  intros A P v r v' r' [f1 H1] [f2 H2].
  specialize (H1 (f1 + f2) ltac:(lia)). specialize (H2 (f1 + f2) ltac:(lia)).
  rewrite H1 in H2. inversion H2. split; reflexivity.
Qed.

Lemma ev_ret_inv : forall (A : Type) (v w : A) r r', Ev (fun _ => POk v r) w r' -> v = w /\ r = r'.
Proof. intros A v w r r' H. apply (ev_det _ (fun _ => POk v r)); [apply ev_ret | exact H]. Qed.

Lemma ev_ext : forall (A : Type) (P Q : nat -> pres A) v r, (forall f, P f = Q f) -> Ev P v r -> Ev Q v r.
Proof. intros A P Q v r H [f0 H0]. exists f0. intros f Hf. rewrite <- H. apply H0. exact Hf. Qed.

(* open all Ev hypotheses, choose a fuel above all of them plus one, and expose one constructor of the fuel *)
Ltac ev_go :=
  let rec collect acc :=
    lazymatch goal with
    | H : Ev _ _ _ |- _ => let f := fresh "f0" in destruct H as [f H]; collect (acc + f)%nat
    | _ => exists (S acc)
    end in
  collect 0%nat;
  let f := fresh "f" in let Hf := fresh "Hf" in
  intros f Hf; destruct f as [|f]; [exfalso; lia|].

(* ------------------------------------------------------------------------------------------------------------ *)
(* evaluating token tests                                                                                        *)
(* ------------------------------------------------------------------------------------------------------------ *)
Ltac tx_eval :=
  repeat match goal with
         | |- context [tx ?t ?k] =>
           let b := eval vm_compute in (tx t k) in
           lazymatch b with true => idtac | false => idtac end;
           change (tx t k) with b
         end.

Lemma is_int_Id s : is_int (Id s) = false. Proof. reflexivity. Qed.
Lemma is_string_Id s : is_string (Id s) = false. Proof. reflexivity. Qed.
Lemma is_ident_Id s : is_ident (Id s) = true. Proof. reflexivity. Qed.
Lemma t_text_Id s : t_text (Id s) = s. Proof. reflexivity. Qed.
Lemma is_int_St s : is_int (St s) = false. Proof. reflexivity. Qed.
Lemma is_string_St s : is_string (St s) = true. Proof. reflexivity. Qed.
Lemma is_ident_St s : is_ident (St s) = false. Proof. reflexivity. Qed.
Lemma t_text_St s : t_text (St s) = s. Proof. reflexivity. Qed.
Lemma is_int_Nt s : is_int (Nt s) = true. Proof. reflexivity. Qed.
Lemma is_string_Nt s : is_string (Nt s) = false. Proof. reflexivity. Qed.
Lemma is_ident_Nt s : is_ident (Nt s) = false. Proof. reflexivity. Qed.
Lemma t_text_Nt s : t_text (Nt s) = s. Proof. reflexivity. Qed.
Lemma is_int_O s : is_int (O s) = false. Proof. reflexivity. Qed.
Lemma is_string_O s : is_string (O s) = false. Proof. reflexivity. Qed.
Lemma is_ident_O s : is_ident (O s) = false. Proof. reflexivity. Qed.
Lemma is_int_K s : is_int (K s) = false. Proof. reflexivity. Qed.
Lemma is_string_K s : is_string (K s) = false. Proof. reflexivity. Qed.
Lemma is_ident_K s : is_ident (K s) = false. Proof. reflexivity. Qed.
Lemma is_int_I s : is_int (I s) = false. Proof. reflexivity. Qed.
Lemma is_string_I s : is_string (I s) = false. Proof. reflexivity. Qed.
Lemma is_ident_I s : is_ident (I s) = true. Proof. reflexivity. Qed.
Lemma t_text_I s : t_text (I s) = s_of s. Proof. reflexivity. Qed.
#[export] Hint Rewrite is_int_Id is_string_Id is_ident_Id t_text_Id is_int_St is_string_St is_ident_St t_text_St
  is_int_Nt is_string_Nt is_ident_Nt t_text_Nt is_int_O is_string_O is_ident_O is_int_K is_string_K is_ident_K
  is_int_I is_string_I is_ident_I t_text_I : tokty.

Ltac tok_eval := cbv zeta; cbn [peek]; tx_eval; autorewrite with tokty; cbn [negb orb andb].

(* ------------------------------------------------------------------------------------------------------------ *)
(* the relation tail and the unary tail as functions of their own                                                  *)
(* ------------------------------------------------------------------------------------------------------------ *)
Definition rel_tail (f : nat) (lhs : expr) (r : list token) : pres expr :=
  let t := peek r in
  if tx t "has" then
    let r1 := adv r in
    let t1 := peek r1 in
    if is_ident t1 then p_has_chain f (EHas lhs (t_text t1)) (EAccess lhs (t_text t1)) (adv r1)
    else if is_string t1 then match string_value (t_text t1) with Some s => POk (EHas lhs s) (adv r1) | None => PErr end
    else PErr
  else if tx t "like" then
    let r1 := adv r in
    let t1 := peek r1 in
    if is_string t1 then match parse_pattern (trim_quotes (t_text t1)) with Some p => POk (ELike lhs p) (adv r1) | None => PErr end
    else PErr
  else if tx t "is" then
    match p_path f (adv r) with
    | POk ty r2 =>
      if tx (peek r2) "in" then
        match p_add f (adv r2) with POk b r3 => POk (EIsIn lhs ty b) r3 | PErr => PErr | PFuel => PFuel end
      else POk (EIs lhs ty) r2
    | PErr => PErr | PFuel => PFuel
    end
  else match relop t with
       | Some op => match p_add f (adv r) with POk rhs r2 => POk (op lhs rhs) r2 | PErr => PErr | PFuel => PFuel end
       | None => POk lhs r
       end.

Lemma p_relation_S' : forall f ts,
  p_relation (S f) ts = match p_add f ts with POk lhs r => rel_tail f lhs r | PErr => PErr | PFuel => PFuel end.
Proof. reflexivity. Qed.

Definition unary_tail (f : nat) (ops : list bool) (r : list token) : pres expr :=
  let tok := peek r in
  match rev ops with
  | true :: ops_rev' =>
    if is_int tok then
      match int_value true (t_text tok) with
      | Some i => POk (apply_ops (rev ops_rev') (ELit (VLong i))) (adv r)
      | None => PErr
      end
    else match p_member f r with POk e r2 => POk (apply_ops ops e) r2 | PErr => PErr | PFuel => PFuel end
  | _ => match p_member f r with POk e r2 => POk (apply_ops ops e) r2 | PErr => PErr | PFuel => PFuel end
  end.

Lemma p_unary_S' : forall f ts,
  p_unary (S f) ts = match unary_ops (S (List.length ts)) ts [] with None => PFuel | Some (ops, r) => unary_tail f ops r end.
Proof. reflexivity. Qed.

Lemma p_unary_prefix : forall f ts, has_non_op ts = true ->
  p_unary (S f) ts = unary_tail f (fst (ops_prefix ts)) (snd (ops_prefix ts)).
Proof.
  intros f ts H. rewrite p_unary_S'.
  rewrite (unary_ops_result ts [] (S (List.length ts))); [reflexivity | lia | right; exact H].
Qed.

(* ------------------------------------------------------------------------------------------------------------ *)
(* levels                                                                                                        *)
(* ------------------------------------------------------------------------------------------------------------ *)
Definition PL (L : nat) : nat -> list token -> pres expr :=
  match L with
  | 0 => p_expression | 1 => p_or | 2 => p_and | 3 => p_relation | 4 => p_add | 5 => p_mult | 6 => p_unary | 7 => p_member
  | _ => p_primary
  end.
Definition LoopL (L : nat) : nat -> expr -> list token -> pres expr :=
  match L with
  | 1 => p_or_loop | 2 => p_and_loop | 3 => rel_tail | 4 => p_add_loop | 5 => p_mult_loop | 7 => p_access_loop
  | _ => fun _ v r => POk v r
  end.
Definition bnd (L : nat) : nat := match L with 3 => 2 | _ => L end.

Definition Beh (L : nat) (X : list token) (v : expr) : Prop :=
  forall R w r, R <> [] -> cont (peek R) <= bnd L ->
    Ev (fun g => LoopL L g v R) w r -> Ev (fun f => PL L f (X ++ R)) w r.

(* a loop stops at a token of lower class *)
Lemma loop_stop : forall L v R, cont (peek R) < L \/ L = 0 -> Ev (fun g => LoopL L g v R) v R.
Proof.
  intros L v R H.
  destruct L as [|[|[|[|[|[|[|[|L]]]]]]]]; cbn [LoopL]; try apply ev_ret; (destruct H as [H|H]; [|discriminate H]).
  - exists 1. intros f Hf. destruct f as [|f]; [lia|]. rewrite p_or_loop_S.
    replace (tx (peek R) "||") with false by (symmetry; txf). reflexivity.
  - exists 1. intros f Hf. destruct f as [|f]; [lia|]. rewrite p_and_loop_S.
    replace (tx (peek R) "&&") with false by (symmetry; txf). reflexivity.
  - exists 1. intros f Hf. unfold rel_tail, relop. cbv zeta.
    replace (tx (peek R) "has") with false by (symmetry; txf).
    replace (tx (peek R) "like") with false by (symmetry; txf).
    replace (tx (peek R) "is") with false by (symmetry; txf).
    replace (tx (peek R) "<") with false by (symmetry; txf).
    replace (tx (peek R) "<=") with false by (symmetry; txf).
    replace (tx (peek R) ">") with false by (symmetry; txf).
    replace (tx (peek R) ">=") with false by (symmetry; txf).
    replace (tx (peek R) "!=") with false by (symmetry; txf).
    replace (tx (peek R) "==") with false by (symmetry; txf).
    replace (tx (peek R) "in") with false by (symmetry; txf).
    reflexivity.
  - exists 1. intros f Hf. destruct f as [|f]; [lia|]. rewrite p_add_loop_S. cbv zeta.
    replace (tx (peek R) "+") with false by (symmetry; txf).
    replace (tx (peek R) "-") with false by (symmetry; txf). reflexivity.
  - exists 1. intros f Hf. destruct f as [|f]; [lia|]. rewrite p_mult_loop_S.
    replace (tx (peek R) "*") with false by (symmetry; txf). reflexivity.
  - exists 1. intros f Hf. destruct f as [|f]; [lia|]. rewrite p_access_loop_S. cbv zeta.
    replace (tx (peek R) ".") with false by (symmetry; txf).
    replace (tx (peek R) "[") with false by (symmetry; txf). reflexivity.
Qed.

(* one level down: p_L = p_{L+1} followed by the level-L loop *)
Lemma ev_level : forall L ts v R w r, L <= 7 ->
  (L = 0 -> tx (peek ts) "if" = false) ->
  (L = 6 -> is_op (peek ts) = false) ->
  Ev (fun f => PL (S L) f ts) v R -> Ev (fun g => LoopL L g v R) w r -> Ev (fun f => PL L f ts) w r.
Proof.
  intros L ts v R w r HL Hif Hop H1 H2.
  destruct L as [|[|[|[|[|[|[|[|L]]]]]]]]; [| | | | | | | |lia]; cbn [PL LoopL] in *.
  - apply ev_ret_inv in H2. destruct H2 as [-> ->]. destruct H1 as [f1 H1].
    exists (S f1). intros f Hf. destruct f as [|f]; [lia|]. rewrite p_expression_S.
    rewrite (Hif eq_refl). apply H1. lia.
  - ev_go. rewrite p_or_S. rewrite H1 by lia. apply H2. lia.
  - ev_go. rewrite p_and_S. rewrite H1 by lia. apply H2. lia.
  - ev_go. rewrite p_relation_S'. rewrite H1 by lia. apply H2. lia.
  - ev_go. rewrite p_add_S. rewrite H1 by lia. apply H2. lia.
  - ev_go. rewrite p_mult_S. rewrite H1 by lia. apply H2. lia.
  - apply ev_ret_inv in H2. destruct H2 as [-> ->]. destruct H1 as [f1 H1].
    exists (S f1). intros f Hf. destruct f as [|f]; [lia|]. rewrite p_unary_S'.
    specialize (Hop eq_refl). unfold is_op in Hop. apply orb_false_iff in Hop. destruct Hop as [Hm Hb].
    cbn [unary_ops]. cbv zeta. rewrite Hm, Hb. unfold unary_tail. cbn [rev]. rewrite H1 by lia. reflexivity.
  - ev_go. rewrite p_member_S. rewrite H1 by lia. apply H2. lia.
Qed.

Lemma bnd_le : forall L, bnd L <= L.
Proof. intros L. destruct L as [|[|[|[|L]]]]; cbn; lia. Qed.

Lemma lift1 : forall L X h tl v, L <= 7 -> X = h :: tl ->
  (L = 0 -> tx h "if" = false) -> (L = 6 -> is_op h = false) ->
  Beh (S L) X v -> Beh L X v.
Proof.
  intros L X h tl v HL HX Hif Hop HB R w r HR Hc Hloop.
  pose proof (bnd_le L) as Hb.
  assert (Hc' : cont (peek R) <= bnd (S L)).
  { destruct L as [|[|[|[|L]]]]; cbn [bnd] in *; lia. }
  eapply ev_level; [exact HL | | | | exact Hloop].
  - intros E. subst X. cbn [app peek]. apply Hif. exact E.
  - intros E. subst X. cbn [app peek]. apply Hop. exact E.
  - apply HB; [exact HR | exact Hc' |]. apply loop_stop. left. lia.
Qed.

Lemma lift : forall d L X h tl v, L + d <= 8 -> X = h :: tl ->
  (L = 0 -> 0 < d -> tx h "if" = false) -> (L <= 6 -> 6 < L + d -> is_op h = false) ->
  Beh (L + d) X v -> Beh L X v.
Proof.
  induction d as [|d IH]; intros L X h tl v HL HX Hif Hop HB.
  - rewrite Nat.add_0_r in HB. exact HB.
  - apply (lift1 L X h tl v); [lia | exact HX | intros E; apply Hif; [exact E | lia] | |].
    + intros E. apply Hop; lia.
    + replace (L + S d) with (S L + d) in HB by lia.
      apply (IH (S L) X h tl v); [lia | exact HX | intros E; discriminate E | | exact HB].
      intros H1 H2. apply Hop; lia.
Qed.

(* value form *)
Lemma beh_val : forall L X v R, Beh L X v -> R <> [] -> cont (peek R) <= bnd L ->
  (cont (peek R) < L \/ L = 0 \/ L = 6 \/ 8 <= L) -> Ev (fun f => PL L f (X ++ R)) v R.
Proof.
  intros L X v R HB HR Hc Hs. apply HB; [exact HR | exact Hc |].
  destruct Hs as [Hs|[Hs|[Hs|Hs]]].
  - apply loop_stop. left. exact Hs.
  - apply loop_stop. right. exact Hs.
  - subst L. apply ev_ret.
  - do 8 (destruct L as [|L]; [lia|]). apply ev_ret.
Qed.

(* at the levels whose "loop" is no loop, behaviour is the value form *)
Lemma beh_of_val : forall L X v, (L = 0 \/ L = 3 \/ L = 6 \/ 8 <= L) ->
  (forall R, R <> [] -> cont (peek R) <= bnd L -> Ev (fun f => PL L f (X ++ R)) v R) -> Beh L X v.
Proof.
  intros L X v HL H R w r HR Hc Hloop.
  assert (Hst : Ev (fun g => LoopL L g v R) v R).
  { destruct HL as [HL|[HL|[HL|HL]]].
    - apply loop_stop. right. exact HL.
    - subst L. apply loop_stop. left. cbn [bnd] in Hc. lia.
    - subst L. apply ev_ret.
    - do 8 (destruct L as [|L]; [lia|]). apply ev_ret. }
  destruct (ev_det _ _ _ _ _ _ Hst Hloop) as [<- <-]. apply H; assumption.
Qed.

(* ------------------------------------------------------------------------------------------------------------ *)
(* big-step rules                                                                                                *)
(* ------------------------------------------------------------------------------------------------------------ *)
Lemma ev_expression_if : forall l c r1 r2 a r3 r4 b r5, l <> [] ->
  Ev (fun f => p_expression f l) c r1 -> exact r1 "then" = Some r2 ->
  Ev (fun f => p_expression f r2) a r3 -> exact r3 "else" = Some r4 ->
  Ev (fun f => p_expression f r4) b r5 ->
  Ev (fun f => p_expression f (K "if" :: l)) (EIf c a b) r5.
Proof.
  intros l c r1 r2 a r3 r4 b r5 Hl H1 E1 H2 E2 H3. ev_go.
  rewrite p_expression_S. tok_eval. rewrite adv_cons by exact Hl.
  rewrite H1 by lia. rewrite E1. rewrite H2 by lia. rewrite E2. rewrite H3 by lia. reflexivity.
Qed.

Lemma ev_or_loop : forall l rhs r1 lhs w r, l <> [] ->
  Ev (fun f => p_and f l) rhs r1 -> Ev (fun f => p_or_loop f (EOr lhs rhs) r1) w r ->
  Ev (fun f => p_or_loop f lhs (O "||" :: l)) w r.
Proof.
  intros l rhs r1 lhs w r Hl H1 H2. ev_go. rewrite p_or_loop_S. tok_eval. rewrite adv_cons by exact Hl.
  rewrite H1 by lia. apply H2. lia.
Qed.

Lemma ev_and_loop : forall l rhs r1 lhs w r, l <> [] ->
  Ev (fun f => p_relation f l) rhs r1 -> Ev (fun f => p_and_loop f (EAnd lhs rhs) r1) w r ->
  Ev (fun f => p_and_loop f lhs (O "&&" :: l)) w r.
Proof.
  intros l rhs r1 lhs w r Hl H1 H2. ev_go. rewrite p_and_loop_S. tok_eval. rewrite adv_cons by exact Hl.
  rewrite H1 by lia. apply H2. lia.
Qed.

Lemma ev_add_loop_plus : forall l rhs r1 lhs w r, l <> [] ->
  Ev (fun f => p_mult f l) rhs r1 -> Ev (fun f => p_add_loop f (EAdd lhs rhs) r1) w r ->
  Ev (fun f => p_add_loop f lhs (O "+" :: l)) w r.
Proof.
  intros l rhs r1 lhs w r Hl H1 H2. ev_go. rewrite p_add_loop_S. tok_eval. rewrite adv_cons by exact Hl.
  rewrite H1 by lia. apply H2. lia.
Qed.

Lemma ev_add_loop_minus : forall l rhs r1 lhs w r, l <> [] ->
  Ev (fun f => p_mult f l) rhs r1 -> Ev (fun f => p_add_loop f (ESub lhs rhs) r1) w r ->
  Ev (fun f => p_add_loop f lhs (O "-" :: l)) w r.
Proof.
  intros l rhs r1 lhs w r Hl H1 H2. ev_go. rewrite p_add_loop_S. tok_eval. rewrite adv_cons by exact Hl.
  rewrite H1 by lia. apply H2. lia.
Qed.

Lemma ev_mult_loop : forall l rhs r1 lhs w r, l <> [] ->
  Ev (fun f => p_unary f l) rhs r1 -> Ev (fun f => p_mult_loop f (EMul lhs rhs) r1) w r ->
  Ev (fun f => p_mult_loop f lhs (O "*" :: l)) w r.
Proof.
  intros l rhs r1 lhs w r Hl H1 H2. ev_go. rewrite p_mult_loop_S. tok_eval. rewrite adv_cons by exact Hl.
  rewrite H1 by lia. apply H2. lia.
Qed.

(* relation tails *)
Lemma ev_rel_op : forall t l opf lhs rhs r2,
  relop t = Some opf -> tx t "has" = false -> tx t "like" = false -> tx t "is" = false -> l <> [] ->
  Ev (fun f => p_add f l) rhs r2 -> Ev (fun f => rel_tail f lhs (t :: l)) (opf lhs rhs) r2.
Proof.
  intros t l opf lhs rhs r2 Hop H1 H2 H3 Hl H. ev_go. unfold rel_tail. cbv zeta. cbn [peek].
  rewrite H1, H2, H3, Hop. rewrite adv_cons by exact Hl. rewrite H by lia. reflexivity.
Qed.

Lemma ev_rel_has_ident : forall k R lhs, R <> [] -> tx (peek R) "." = false ->
  Ev (fun f => rel_tail f lhs (K "has" :: Id k :: R)) (EHas lhs k) R.
Proof.
  intros k R lhs HR Hdot. exists 1. intros f Hf. destruct f as [|f]; [lia|].
  unfold rel_tail. tok_eval. rewrite adv_cons by ne. tok_eval. rewrite adv_cons by exact HR.
  rewrite p_has_chain_S. rewrite Hdot. reflexivity.
Qed.

Lemma ev_rel_has_str : forall s k R lhs, string_value s = Some k -> R <> [] ->
  Ev (fun f => rel_tail f lhs (K "has" :: St s :: R)) (EHas lhs k) R.
Proof.
  intros s k R lhs Hs HR. exists 0. intros f Hf.
  unfold rel_tail. tok_eval. rewrite adv_cons by ne. tok_eval. rewrite adv_cons by exact HR.
  rewrite Hs. reflexivity.
Qed.

Lemma ev_rel_like : forall s p R lhs, parse_pattern (trim_quotes s) = Some p -> R <> [] ->
  Ev (fun f => rel_tail f lhs (K "like" :: St s :: R)) (ELike lhs p) R.
Proof.
  intros s p R lhs Hs HR. exists 0. intros f Hf.
  unfold rel_tail. tok_eval. rewrite adv_cons by ne. tok_eval. rewrite adv_cons by exact HR.
  rewrite Hs. reflexivity.
Qed.

Lemma ev_rel_is : forall l ty r2 lhs, l <> [] -> Ev (fun f => p_path f l) ty r2 -> tx (peek r2) "in" = false ->
  Ev (fun f => rel_tail f lhs (K "is" :: l)) (EIs lhs ty) r2.
Proof.
  intros l ty r2 lhs Hl H Hin. destruct H as [f0 H]. exists f0. intros f Hf.
  unfold rel_tail. tok_eval. rewrite adv_cons by exact Hl. rewrite H by lia. rewrite Hin. reflexivity.
Qed.

Lemma ev_rel_isin : forall l ty l2 b r3 lhs, l <> [] -> Ev (fun f => p_path f l) ty (K "in" :: l2) -> l2 <> [] ->
  Ev (fun f => p_add f l2) b r3 ->
  Ev (fun f => rel_tail f lhs (K "is" :: l)) (EIsIn lhs ty b) r3.
Proof.
  intros l ty l2 b r3 lhs Hl H Hl2 H2. destruct H as [f0 H]. destruct H2 as [f1 H2]. exists (f0 + f1). intros f Hf.
  unfold rel_tail. tok_eval. rewrite adv_cons by exact Hl. rewrite H by lia. tok_eval.
  rewrite adv_cons by exact Hl2. rewrite H2 by lia. reflexivity.
Qed.

(* access loop *)
Lemma ev_access_field : forall k R lhs w r, R <> [] -> tx (peek R) "(" = false ->
  Ev (fun f => p_access_loop f (EAccess lhs k) R) w r ->
  Ev (fun f => p_access_loop f lhs (O "." :: Id k :: R)) w r.
Proof.
  intros k R lhs w r HR Hp H. ev_go. rewrite p_access_loop_S. tok_eval.
  rewrite adv_cons by ne. tok_eval. rewrite adv_cons by exact HR. rewrite Hp. apply H. lia.
Qed.

Lemma ev_access_index : forall s k R lhs w r, string_value s = Some k -> R <> [] ->
  Ev (fun f => p_access_loop f (EAccess lhs k) R) w r ->
  Ev (fun f => p_access_loop f lhs (O "[" :: St s :: O "]" :: R)) w r.
Proof.
  intros s k R lhs w r Hs HR H. ev_go. rewrite p_access_loop_S. tok_eval.
  rewrite adv_cons by ne. tok_eval. rewrite Hs. rewrite adv_cons by ne.
  rewrite exact_cons by (reflexivity || exact HR). apply H. lia.
Qed.

Lemma ev_access_method : forall n l args R e lhs w r, l <> [] ->
  Ev (fun f => p_expressions f ")" l []) args (O ")" :: R) -> R <> [] ->
  method_call n lhs args = Some e ->
  Ev (fun f => p_access_loop f e R) w r ->
  Ev (fun f => p_access_loop f lhs (O "." :: Id n :: O "(" :: l)) w r.
Proof.
  intros n l args R e lhs w r Hl H1 HR Hm H2. ev_go. rewrite p_access_loop_S. tok_eval.
  rewrite adv_cons by ne. tok_eval. rewrite adv_cons by ne. tok_eval. rewrite adv_cons by exact Hl.
  rewrite H1 by lia. rewrite Hm. rewrite adv_cons by exact HR. apply H2. lia.
Qed.

(* primaries *)
Lemma ev_primary_int : forall s z R, int_value false s = Some z -> R <> [] ->
  Ev (fun f => p_primary f (Nt s :: R)) (ELit (VLong z)) R.
Proof.
  intros s z R Hs HR. exists 1. intros f Hf. destruct f as [|f]; [lia|].
  rewrite p_primary_S. tok_eval. rewrite Hs, adv_cons by exact HR. reflexivity.
Qed.

Lemma ev_primary_str : forall s k R, string_value s = Some k -> R <> [] ->
  Ev (fun f => p_primary f (St s :: R)) (ELit (VString k)) R.
Proof.
  intros s k R Hs HR. exists 1. intros f Hf. destruct f as [|f]; [lia|].
  rewrite p_primary_S. tok_eval. rewrite Hs, adv_cons by exact HR. reflexivity.
Qed.

Lemma ev_primary_true : forall R, R <> [] -> Ev (fun f => p_primary f (K "true" :: R)) (ELit (VBool true)) R.
Proof.
  intros R HR. exists 1. intros f Hf. destruct f as [|f]; [lia|].
  rewrite p_primary_S. tok_eval. rewrite adv_cons by exact HR. reflexivity.
Qed.

Lemma ev_primary_false : forall R, R <> [] -> Ev (fun f => p_primary f (K "false" :: R)) (ELit (VBool false)) R.
Proof.
  intros R HR. exists 1. intros f Hf. destruct f as [|f]; [lia|].
  rewrite p_primary_S. tok_eval. rewrite adv_cons by exact HR. reflexivity.
Qed.

Definition var_tok (x : var) : token :=
  match x with VPrincipal => I "principal" | VAction => I "action" | VResource => I "resource" | VContext => I "context" end.

Lemma ev_primary_var : forall x R, R <> [] -> tx (peek R) "::" = false -> tx (peek R) "(" = false ->
  Ev (fun f => p_primary f (var_tok x :: R)) (EVar x) R.
Proof.
  intros x R HR H1 H2. exists 1. intros f Hf. destruct f as [|f]; [lia|].
  rewrite p_primary_S. destruct x; cbn [var_tok]; tok_eval; rewrite adv_cons by exact HR; rewrite H1, H2; reflexivity.
Qed.

Lemma ev_primary_ident : forall s R w r, tx (Id s) "true" = false -> tx (Id s) "false" = false ->
  tx (peek R) "::" || tx (peek R) "(" = true -> R <> [] ->
  Ev (fun f => p_entity_or_extfun f s R) w r -> Ev (fun f => p_primary f (Id s :: R)) w r.
Proof.
  intros s R w r H1 H2 H3 HR H. ev_go. rewrite p_primary_S. tok_eval.
  rewrite H1, H2. rewrite adv_cons by exact HR. rewrite H3. apply H. lia.
Qed.

Lemma ev_primary_paren : forall l e r1 r2, l <> [] -> Ev (fun f => p_expression f l) e r1 -> exact r1 ")" = Some r2 ->
  Ev (fun f => p_primary f (O "(" :: l)) e r2.
Proof.
  intros l e r1 r2 Hl H E. ev_go. rewrite p_primary_S. tok_eval. rewrite adv_cons by exact Hl.
  rewrite H by lia. rewrite E. reflexivity.
Qed.

Lemma ev_primary_set : forall l es R, l <> [] -> Ev (fun f => p_expressions f "]" l []) es (O "]" :: R) -> R <> [] ->
  Ev (fun f => p_primary f (O "[" :: l)) (ESet es) R.
Proof.
  intros l es R Hl H HR. ev_go. rewrite p_primary_S. tok_eval. rewrite adv_cons by exact Hl.
  rewrite H by lia. rewrite adv_cons by exact HR. reflexivity.
Qed.

Lemma ev_primary_record : forall l w r, l <> [] -> Ev (fun f => p_record f l []) w r ->
  Ev (fun f => p_primary f (O "{" :: l)) w r.
Proof.
  intros l w r Hl H. ev_go. rewrite p_primary_S. tok_eval. rewrite adv_cons by exact Hl. apply H. lia.
Qed.

(* entity or extension function *)
Lemma ev_eoe_ident : forall pre c l w r, l <> [] ->
  Ev (fun f => p_entity_or_extfun f (pre ++ path_sep ++ c) l) w r ->
  Ev (fun f => p_entity_or_extfun f pre (O "::" :: Id c :: l)) w r.
Proof.
  intros pre c l w r Hl H. ev_go. rewrite p_entity_or_extfun_S. tok_eval.
  rewrite adv_cons by ne. tok_eval. rewrite adv_cons by exact Hl. apply H. lia.
Qed.

Lemma ev_eoe_str : forall pre s id R, string_value s = Some id -> R <> [] ->
  Ev (fun f => p_entity_or_extfun f pre (O "::" :: St s :: R)) (ELit (VEntity pre id)) R.
Proof.
  intros pre s id R Hs HR. exists 1. intros f Hf. destruct f as [|f]; [lia|].
  rewrite p_entity_or_extfun_S. tok_eval. rewrite adv_cons by ne. tok_eval. rewrite Hs.
  rewrite adv_cons by exact HR. reflexivity.
Qed.

Lemma ev_eoe_call : forall pre l args R ar, ext_lookup pre = Some (ar, false) -> l <> [] ->
  Ev (fun f => p_expressions f ")" l []) args (O ")" :: R) -> R <> [] ->
  Ev (fun f => p_entity_or_extfun f pre (O "(" :: l)) (ECall pre args) R.
Proof.
  intros pre l args R ar He Hl H HR. ev_go. rewrite p_entity_or_extfun_S. tok_eval. rewrite He.
  rewrite adv_cons by exact Hl. rewrite H by lia. rewrite adv_cons by exact HR. reflexivity.
Qed.

(* expression lists *)
Lemma ev_exprs_stop : forall close ts acc, tx (peek ts) close = true ->
  Ev (fun f => p_expressions f close ts acc) acc ts.
Proof.
  intros close ts acc H. exists 1. intros f Hf. destruct f as [|f]; [lia|].
  rewrite p_expressions_S. rewrite H. reflexivity.
Qed.

Lemma ev_exprs_comma : forall close ts e l acc w r, tx (peek ts) close = false ->
  Ev (fun f => p_expression f ts) e (O "," :: l) -> l <> [] ->
  Ev (fun f => p_expressions f close l (acc ++ [e])) w r ->
  Ev (fun f => p_expressions f close ts acc) w r.
Proof.
  intros close ts e l acc w r Hc H1 Hl H2. ev_go. rewrite p_expressions_S. rewrite Hc.
  rewrite H1 by lia. tok_eval. rewrite adv_cons by exact Hl. apply H2. lia.
Qed.

Lemma ev_exprs_last : forall close ts e r1 acc, tx (peek ts) close = false ->
  Ev (fun f => p_expression f ts) e r1 -> tx (peek r1) "," = false -> tx (peek r1) close = true ->
  Ev (fun f => p_expressions f close ts acc) (acc ++ [e]) r1.
Proof.
  intros close ts e r1 acc Hc H1 Hcm Hcl. destruct H1 as [f1 H1]. exists (S (S f1)). intros f Hf.
  destruct f as [|f]; [lia|]. rewrite p_expressions_S. rewrite Hc. rewrite H1 by lia. rewrite Hcm, Hcl.
  destruct f as [|f]; [lia|]. rewrite p_expressions_S. rewrite Hcl. reflexivity.
Qed.

(* records *)
Lemma ev_record_end : forall R acc, R <> [] -> Ev (fun f => p_record f (O "}" :: R) acc) (ERecord acc) R.
Proof.
  intros R acc HR. exists 1. intros f Hf. destruct f as [|f]; [lia|].
  rewrite p_record_S. tok_eval. rewrite adv_cons by exact HR. reflexivity.
Qed.

Lemma ev_record_comma : forall s k l v l2 acc w r, tx (St s) "}" = false -> string_value s = Some k -> l <> [] ->
  Ev (fun f => p_expression f l) v (O "," :: l2) -> key_mem k acc = false -> l2 <> [] ->
  Ev (fun f => p_record f l2 (acc ++ [(k, v)])) w r ->
  Ev (fun f => p_record f (St s :: O ":" :: l) acc) w r.
Proof.
  intros s k l v l2 acc w r Hb Hs Hl H1 Hk Hl2 H2. ev_go. rewrite p_record_S. cbv zeta. cbn [peek]. rewrite Hb.
  autorewrite with tokty. rewrite Hs. rewrite adv_cons by ne. rewrite exact_cons by (reflexivity || exact Hl).
  rewrite H1 by lia. rewrite Hk. tok_eval. rewrite adv_cons by exact Hl2. apply H2. lia.
Qed.

Lemma ev_record_last : forall s k l v R acc, tx (St s) "}" = false -> string_value s = Some k -> l <> [] ->
  Ev (fun f => p_expression f l) v (O "}" :: R) -> key_mem k acc = false -> R <> [] ->
  Ev (fun f => p_record f (St s :: O ":" :: l) acc) (ERecord (acc ++ [(k, v)])) R.
Proof.
  intros s k l v R acc Hb Hs Hl H1 Hk HR. destruct H1 as [f1 H1]. exists (S (S f1)). intros f Hf.
  destruct f as [|f]; [lia|]. rewrite p_record_S. cbv zeta. cbn [peek]. rewrite Hb.
  autorewrite with tokty. rewrite Hs. rewrite adv_cons by ne. rewrite exact_cons by (reflexivity || exact Hl).
  rewrite H1 by lia. rewrite Hk. tok_eval.
  destruct f as [|f]; [lia|]. rewrite p_record_S. tok_eval. rewrite adv_cons by exact HR. reflexivity.
Qed.

(* unary tails *)
Lemma ev_utail_member : forall ops r e r2,
  (forall ops', rev ops = true :: ops' -> is_int (peek r) = false) ->
  Ev (fun f => p_member f r) e r2 -> Ev (fun f => unary_tail f ops r) (apply_ops ops e) r2.
Proof.
  intros ops r e r2 Hc H. destruct H as [f0 H]. exists f0. intros f Hf. unfold unary_tail. cbv zeta.
  destruct (rev ops) as [|[|] ops'] eqn:E.
  - rewrite H by lia. reflexivity.
  - rewrite (Hc ops' eq_refl). rewrite H by lia. reflexivity.
  - rewrite H by lia. reflexivity.
Qed.

Lemma ev_utail_lit : forall pre s z R, int_value true s = Some z -> R <> [] ->
  Ev (fun f => unary_tail f (pre ++ [true]) (Nt s :: R)) (apply_ops pre (ELit (VLong z))) R.
Proof.
  intros pre s z R Hs HR. exists 0. intros f Hf. unfold unary_tail. cbv zeta. rewrite rev_app_distr. cbn [rev app].
  cbn [peek]. autorewrite with tokty. rewrite Hs. rewrite rev_involutive. rewrite adv_cons by exact HR. reflexivity.
Qed.

(* ------------------------------------------------------------------------------------------------------------ *)
(* paths                                                                                                         *)
(* ------------------------------------------------------------------------------------------------------------ *)
Lemma split_path_acc_cons : forall c r cur,
  split_path_acc (c :: r) cur =
  if (c =? 58)%Z then
    match r with
    | c2 :: r' => if (c2 =? 58)%Z then cur :: split_path_acc r' [] else split_path_acc r (cur ++ [c])
    | [] => split_path_acc r (cur ++ [c])
    end
  else split_path_acc r (cur ++ [c]).
Proof.
  intros c r cur. cbn [split_path_acc].
  destruct c as [|p|p]; try reflexivity.
  do 6 (destruct p as [p|p|]; try reflexivity).
  destruct r as [|c2 r']; [reflexivity|].
  destruct c2 as [|p|p]; try reflexivity.
  do 6 (destruct p as [p|p|]; try reflexivity).
Qed.

Lemma split_path_acc_ne : forall s cur, split_path_acc s cur <> [].
Proof.
  assert (H : forall s, (forall cur, split_path_acc s cur <> []) /\ (forall c cur, split_path_acc (c :: s) cur <> [])).
  { induction s as [|c s [IH1 IH2]].
    - split; [intros cur; discriminate|]. intros c cur. rewrite split_path_acc_cons. destruct (c =? 58)%Z; discriminate.
    - split; [intros cur; apply IH2|]. intros c' cur. rewrite split_path_acc_cons.
      destruct (c' =? 58)%Z; [|apply IH2]. destruct (c =? 58)%Z; [discriminate | apply IH2]. }
  intros s. apply H.
Qed.

Fixpoint join_path (cs : list str) : str :=
  match cs with
  | [] => []
  | c :: r => match r with [] => c | _ => c ++ path_sep ++ join_path r end
  end.

Lemma join_split_acc : forall s cur, join_path (split_path_acc s cur) = cur ++ s.
Proof.
  assert (H : forall s, (forall cur, join_path (split_path_acc s cur) = cur ++ s) /\
                        (forall c cur, join_path (split_path_acc (c :: s) cur) = cur ++ c :: s)).
  { induction s as [|c s [IH1 IH2]].
    - split; [intros cur; cbn; rewrite app_nil_r; reflexivity|]. intros c cur. rewrite split_path_acc_cons.
      destruct (c =? 58)%Z; reflexivity.
    - split; [intros cur; apply IH2|]. intros c' cur. rewrite split_path_acc_cons.
      destruct (Z.eqb_spec c' 58) as [->|N1].
      + destruct (Z.eqb_spec c 58) as [->|N2].
        * cbn [join_path]. destruct (split_path_acc s []) eqn:E; [exfalso; exact (split_path_acc_ne s [] E)|].
          rewrite <- E. rewrite IH1. reflexivity.
        * rewrite IH2. rewrite <- app_assoc. reflexivity.
      + rewrite IH2. rewrite <- app_assoc. reflexivity. }
  intros s. apply H.
Qed.

Lemma join_split : forall ty, join_path (split_path ty) = ty.
Proof. intros ty. unfold split_path. apply join_split_acc. Qed.

Lemma split_path_plain : forall s cur, Forall (fun c => c <> 58%Z) s -> split_path_acc s cur = [cur ++ s].
Proof.
  induction s as [|c s IH]; intros cur H.
  - cbn. rewrite app_nil_r. reflexivity.
  - inversion H as [|c' s' Hc Hs]; subst. rewrite split_path_acc_cons.
    destruct (Z.eqb_spec c 58) as [E|N]; [contradiction|]. rewrite IH by exact Hs. rewrite <- app_assoc. reflexivity.
Qed.

Definition jf (a c : str) : str := a ++ path_sep ++ c.

Lemma fold_jf_pre : forall r pre a, fold_left jf r (pre ++ a) = pre ++ fold_left jf r a.
Proof.
  induction r as [|c r IH]; intros pre a; [reflexivity|].
  cbn [fold_left]. unfold jf at 2 4. rewrite <- app_assoc. apply IH.
Qed.

Lemma fold_jf_join : forall r c, fold_left jf r c = join_path (c :: r).
Proof.
  induction r as [|c2 r IH]; intros c; [reflexivity|].
  cbn [fold_left]. change (jf c c2) with (c ++ (path_sep ++ c2)). rewrite !fold_jf_pre. rewrite IH. reflexivity.
Qed.

Fixpoint sep_toks (cs : list str) : list token :=
  match cs with [] => [] | c :: r => O "::" :: Id c :: sep_toks r end.

Lemma toks_path_items_of : forall r c, toks_of (path_items_of (c :: r)) = Id c :: sep_toks r.
Proof.
  induction r as [|c2 r IH]; intros c; [reflexivity|].
  change (path_items_of (c :: c2 :: r)) with (T TIdent c :: op "::" :: path_items_of (c2 :: r)).
  rewrite toks_of_T, toks_of_op, IH. reflexivity.
Qed.

Lemma ev_path_rest : forall r acc R, R <> [] -> tx (peek R) "::" = false ->
  Ev (fun f => path_rest f acc (sep_toks r ++ R)) (fold_left jf r acc) R.
Proof.
  induction r as [|c r IH]; intros acc R HR Hc.
  - exists 1. intros f Hf. destruct f as [|f]; [lia|]. cbn [sep_toks app path_rest fold_left]. rewrite Hc. reflexivity.
  - destruct (IH (jf acc c) R HR Hc) as [f0 H]. exists (S f0). intros f Hf. destruct f as [|f]; [lia|].
    cbn [sep_toks app path_rest fold_left]. tok_eval. rewrite adv_cons by ne. tok_eval. rewrite adv_cons by ne.
    apply H. lia.
Qed.

Lemma ev_p_path : forall c r R, R <> [] -> tx (peek R) "::" = false ->
  Ev (fun f => p_path f (Id c :: sep_toks r ++ R)) (join_path (c :: r)) R.
Proof.
  intros c r R HR Hc. destruct (ev_path_rest r c R HR Hc) as [f0 H]. exists f0. intros f Hf.
  unfold p_path. tok_eval. rewrite adv_cons by ne. rewrite <- fold_jf_join. apply H. exact Hf.
Qed.

Lemma ev_eoe_path : forall r pre s id R, string_value s = Some id -> R <> [] ->
  Ev (fun f => p_entity_or_extfun f pre (sep_toks r ++ O "::" :: St s :: R)) (ELit (VEntity (fold_left jf r pre) id)) R.
Proof.
  induction r as [|c r IH]; intros pre s id R Hs HR.
  - cbn [sep_toks app fold_left]. apply ev_eoe_str; assumption.
  - cbn [sep_toks app fold_left]. apply ev_eoe_ident; [ne|]. apply IH; assumption.
Qed.

(* ------------------------------------------------------------------------------------------------------------ *)
(* identifiers                                                                                                   *)
(* ------------------------------------------------------------------------------------------------------------ *)
Lemma can_ident_inv : forall s, can_ident s = true ->
  exists c r, s = c :: r /\ is_reserved s = false /\ is_ident_rune c true = true /\ forallb (fun x => is_ident_rune x false) r = true.
Proof.
  intros s H. destruct s as [|c r]; [discriminate|]. cbn [can_ident] in H.
  apply andb_true_iff in H. destruct H as [H H3]. apply andb_true_iff in H. destruct H as [H1 H2].
  apply negb_true_iff in H1. exists c, r. repeat split; assumption.
Qed.

Lemma ident_rune_not_colon : forall c b, is_ident_rune c b = true -> c <> 58%Z.
Proof.
  intros c b H E. subst c. destruct b; discriminate H.
Qed.

Lemma can_ident_no_colon : forall s, can_ident s = true -> Forall (fun c => c <> 58%Z) s.
Proof.
  intros s H. destruct (can_ident_inv s H) as (c & r & -> & _ & Hc & Hr).
  constructor; [eapply ident_rune_not_colon; exact Hc|].
  rewrite forallb_forall in Hr. apply Forall_forall. intros x Hx. eapply ident_rune_not_colon. apply Hr. exact Hx.
Qed.

Lemma split_path_ident : forall s, can_ident s = true -> split_path s = [s].
Proof. intros s H. unfold split_path. rewrite split_path_plain by (apply can_ident_no_colon; exact H). reflexivity. Qed.

(* an identifier token is none of the fixed tokens the parser tests for, unless that token is itself an
   identifier-shaped non-reserved word *)
Lemma tx_ident_first : forall s k c0 k', can_ident s = true -> s_of k = c0 :: k' -> is_ident_rune c0 true = false ->
  tx (Id s) k = false.
Proof.
  intros s k c0 k' H Hk Hc. destruct (can_ident_inv s H) as (c & r & -> & _ & Hc1 & _).
  unfold tx. rewrite t_text_Id, Hk. cbn [str_eqb].
  destruct (Z.eqb_spec c0 c) as [->|N]; [congruence | reflexivity].
Qed.

Lemma tx_ident_reserved : forall s k, can_ident s = true -> is_reserved (s_of k) = true -> tx (Id s) k = false.
Proof.
  intros s k H Hk. destruct (can_ident_inv s H) as (c & r & E & Hr & _ & _).
  unfold tx. rewrite t_text_Id. destruct (str_eqb (s_of k) s) eqn:Eq; [|reflexivity].
  apply str_eqb_eq in Eq. rewrite Eq in Hk. congruence.
Qed.

Lemma tx_string_tok : forall b k c0 k', s_of k = c0 :: k' -> c0 <> 34%Z -> tx (St (34%Z :: b)) k = false.
Proof.
  intros b k c0 k' Hk Hc. unfold tx. rewrite t_text_St, Hk. cbn [str_eqb].
  destruct (Z.eqb_spec c0 34) as [->|N]; [congruence | reflexivity].
Qed.

Lemma tx_int_tok : forall s k c0 k', s <> [] -> Forall (fun c => is_digit c = true) s -> s_of k = c0 :: k' -> is_digit c0 = false ->
  tx (Nt s) k = false.
Proof.
  intros s k c0 k' Hne Hd Hk Hc. destruct s as [|c r]; [congruence|]. inversion Hd as [|c' r' Hc' Hr']; subst.
  unfold tx. rewrite t_text_Nt, Hk. cbn [str_eqb].
  destruct (Z.eqb_spec c0 c) as [->|N]; [congruence | reflexivity].
Qed.

(* ext_lookup facts *)
Lemma ext_lookup_decimal : ext_lookup (s_of "decimal") = Some (1%Z, false). Proof. vm_compute. reflexivity. Qed.
Lemma ext_lookup_datetime : ext_lookup (s_of "datetime") = Some (1%Z, false). Proof. vm_compute. reflexivity. Qed.
Lemma ext_lookup_duration : ext_lookup (s_of "duration") = Some (1%Z, false). Proof. vm_compute. reflexivity. Qed.
Lemma ext_lookup_ip : ext_lookup (s_of "ip") = Some (1%Z, false). Proof. vm_compute. reflexivity. Qed.

(* ============================================================================================================ *)
(* Part 2: renderings                                                                                             *)
(* ============================================================================================================ *)
Ltac contb := cbn [bnd]; contc.

Fixpoint tcommas (l : list (list token)) : list token :=
  match l with
  | [] => []
  | x :: r => match r with [] => x | _ => x ++ O "," :: tcommas r end
  end.

Section RT.
  Variables (is_printable is_gext : Z -> bool) (set_order : list value -> list nat) (print_ip : bool -> Z -> Z -> str) (extra : expr -> bool).
  Hypothesis print_ip_plain : forall v6 a p, Forall (fun c => 32 <= c < 127 /\ c <> 34 /\ c <> 92)%Z (print_ip v6 a p).

  Notation EI := (expr_items is_printable is_gext set_order print_ip extra).
  Notation VI := (value_items is_printable is_gext set_order print_ip).
  Definition TE (e : expr) : list token := toks_of (EI e).
  Definition TV (v : value) : list token := toks_of (VI v).
  Definition lev (e : expr) : nat := prec_n (prec_of e).
  Definition TC (this : prec) (c : expr) : list token := toks_of (child extra this c (EI c)).
  Definition Sq (s : str) : token := St (quote_string is_printable is_gext s).
  Definition TP (ty : str) : list token := toks_of (path_items ty).

  Lemma toks_commas : forall l, toks_of (commas l) = tcommas (map toks_of l).
  Proof.
    induction l as [|x r IH]; [reflexivity|].
    destruct r as [|y r']; [reflexivity|].
    change (commas (x :: y :: r')) with (x ++ [op ","; sp] ++ commas (y :: r')).
    rewrite toks_of_app, toks_of_app, IH. reflexivity.
  Qed.

  Lemma TC_eq : forall this c,
    TC this c = if Nat.ltb (lev c) (prec_n this) || extra c then O "(" :: TE c ++ [O ")"] else TE c.
  Proof.
    intros this c. unfold TC, child, lev. destruct (Nat.ltb _ _ || extra c); [|reflexivity].
    unfold parens. rewrite !toks_of_app. reflexivity.
  Qed.

  Definition TA (k : str) : list token := if can_ident k then [O "."; Id k] else [O "["; Sq k; O "]"].

  Lemma TE_lit v : TE (ELit v) = TV v. Proof. reflexivity. Qed.
  Lemma TE_var x : TE (EVar x) = [var_tok x]. Proof. destruct x; reflexivity. Qed.
  Lemma TE_not a : TE (ENot a) = O "!" :: TC PUnary a. Proof. reflexivity. Qed.
  Lemma TE_neg a : TE (ENeg a) = O "-" :: (if starts_with_int a then TC PAbovePrimary a else TC PUnary a).
  Proof. unfold TE. cbn [expr_items]. rewrite toks_of_app. destruct (starts_with_int a); reflexivity. Qed.
  Lemma TE_access a k : TE (EAccess a k) = TC PAccess a ++ TA k.
  Proof. unfold TE. cbn [expr_items]. rewrite toks_of_app. unfold TA, attr_items. destruct (can_ident k); reflexivity. Qed.

  Ltac teq := unfold TE, TC, TP; cbn [expr_items]; unfold infix; repeat (rewrite ?toks_of_app, ?toks_of_op, ?toks_of_kw, ?toks_of_sp, ?toks_of_idt, ?toks_of_T); try reflexivity.

  Lemma TE_or a b : TE (EOr a b) = TC POr a ++ O "||" :: TC PAnd b. Proof. teq. Qed.
  Lemma TE_and a b : TE (EAnd a b) = TC PAnd a ++ O "&&" :: TC PRel b. Proof. teq. Qed.
  Lemma TE_add a b : TE (EAdd a b) = TC PAdd a ++ O "+" :: TC PMul b. Proof. teq. Qed.
  Lemma TE_sub a b : TE (ESub a b) = TC PAdd a ++ O "-" :: TC PMul b. Proof. teq. Qed.
  Lemma TE_mul a b : TE (EMul a b) = TC PMul a ++ O "*" :: TC PUnary b. Proof. teq. Qed.
  Lemma TE_lt a b : TE (ELt a b) = TC PAdd a ++ O "<" :: TC PAdd b. Proof. teq. Qed.
  Lemma TE_le a b : TE (ELe a b) = TC PAdd a ++ O "<=" :: TC PAdd b. Proof. teq. Qed.
  Lemma TE_gt a b : TE (EGt a b) = TC PAdd a ++ O ">" :: TC PAdd b. Proof. teq. Qed.
  Lemma TE_ge a b : TE (EGe a b) = TC PAdd a ++ O ">=" :: TC PAdd b. Proof. teq. Qed.
  Lemma TE_eq a b : TE (EEq a b) = TC PAdd a ++ O "==" :: TC PAdd b. Proof. teq. Qed.
  Lemma TE_ne a b : TE (ENe a b) = TC PAdd a ++ O "!=" :: TC PAdd b. Proof. teq. Qed.
  Lemma TE_in a b : TE (EIn a b) = TC PAdd a ++ K "in" :: TC PAdd b. Proof. teq. Qed.
  Lemma TE_has a k : TE (EHas a k) = TC PAdd a ++ K "has" :: (if can_ident k then [Id k] else [Sq k]).
  Proof. teq. destruct (can_ident k); reflexivity. Qed.
  Lemma TE_is a ty : TE (EIs a ty) = TC PAdd a ++ K "is" :: TP ty. Proof. teq. Qed.
  Lemma TE_isin a ty b : TE (EIsIn a ty b) = TC PAdd a ++ K "is" :: TP ty ++ K "in" :: TC PAdd b. Proof. teq. Qed.
  Lemma TE_like a p : TE (ELike a p) = TC PAdd a ++ [K "like"; St (quote_pattern is_printable is_gext p)]. Proof. teq. Qed.
  Lemma TE_if c t f : TE (EIf c t f) = K "if" :: TC PIf c ++ K "then" :: TC PIf t ++ K "else" :: TC PIf f. Proof. teq. Qed.
  Lemma TE_contains a b : TE (EContains a b) = TC PAccess a ++ O "." :: I "contains" :: O "(" :: TC PAccess b ++ [O ")"]. Proof. teq. Qed.
  Lemma TE_containsAll a b : TE (EContainsAll a b) = TC PAccess a ++ O "." :: I "containsAll" :: O "(" :: TC PAccess b ++ [O ")"]. Proof. teq. Qed.
  Lemma TE_containsAny a b : TE (EContainsAny a b) = TC PAccess a ++ O "." :: I "containsAny" :: O "(" :: TC PAccess b ++ [O ")"]. Proof. teq. Qed.
  Lemma TE_getTag a b : TE (EGetTag a b) = TC PAccess a ++ O "." :: I "getTag" :: O "(" :: TC PAccess b ++ [O ")"]. Proof. teq. Qed.
  Lemma TE_hasTag a b : TE (EHasTag a b) = TC PAccess a ++ O "." :: I "hasTag" :: O "(" :: TC PAccess b ++ [O ")"]. Proof. teq. Qed.
  Lemma TE_isEmpty a : TE (EIsEmpty a) = TC PAccess a ++ [O "."; I "isEmpty"; O "("; O ")"]. Proof. teq. Qed.

  Lemma args_items_map : forall this l,
    (fix go (this : prec) (l : list expr) {struct l} : list (list item) :=
       match l with [] => [] | x :: r => child extra this x (EI x) :: go this r end) this l
    = map (fun x => child extra this x (EI x)) l.
  Proof. intros this. induction l as [|x r IH]; [reflexivity|]. cbn [map]. rewrite <- IH. reflexivity. Qed.

  Lemma TE_set es : TE (ESet es) = O "[" :: tcommas (map (TC PUnary) es) ++ [O "]"].
  Proof. teq. rewrite args_items_map. rewrite toks_commas, map_map. reflexivity. Qed.

  Lemma TE_call_fn n args : is_method n = false ->
    TE (ECall n args) = TP n ++ O "(" :: tcommas (map (TC PAccess) args) ++ [O ")"].
  Proof. intros H. teq. rewrite H. teq. rewrite args_items_map. rewrite toks_commas, map_map. reflexivity. Qed.

  Lemma TE_call_method n a rest : is_method n = true ->
    TE (ECall n (a :: rest)) = TC PAccess a ++ O "." :: Id n :: O "(" :: tcommas (map (TC PAccess) rest) ++ [O ")"].
  Proof. intros H. teq. rewrite H. teq. rewrite args_items_map. rewrite toks_commas, map_map. reflexivity. Qed.

  Lemma rec_items_map : forall l,
    (fix go (l : list (str * expr)) : list (list item) :=
       match l with [] => [] | (k, x) :: r => ([str_item is_printable is_gext k; op ":"] ++ child extra PUnary x (EI x)) :: go r end) l
    = map (fun kv => [str_item is_printable is_gext (fst kv); op ":"] ++ child extra PUnary (snd kv) (EI (snd kv))) l.
  Proof. induction l as [|[k x] r IH]; [reflexivity|]. cbn [map fst snd]. rewrite <- IH. reflexivity. Qed.

  Lemma TE_record kvs : TE (ERecord kvs) = O "{" :: tcommas (map (fun kv => Sq (fst kv) :: O ":" :: TC PUnary (snd kv)) kvs) ++ [O "}"].
  Proof. teq. rewrite rec_items_map. rewrite toks_commas, map_map. reflexivity. Qed.

  (* ---- values ---- *)
  Lemma value_set_items_map : forall l,
    (fix go (l : list value) : list (list item) := match l with [] => [] | x :: r => VI x :: go r end) l = map VI l.
  Proof. induction l as [|x r IH]; [reflexivity|]. cbn [map]. rewrite <- IH. reflexivity. Qed.

  Lemma value_rec_items_map : forall l,
    (fix go (l : list (str * value)) : list (list item) :=
       match l with [] => [] | (k, x) :: r => ([str_item is_printable is_gext k; op ":"] ++ VI x) :: go r end) l
    = map (fun kv => [str_item is_printable is_gext (fst kv); op ":"] ++ VI (snd kv)) l.
  Proof. induction l as [|[k x] r IH]; [reflexivity|]. cbn [map fst snd]. rewrite <- IH. reflexivity. Qed.

  Lemma TV_true : TV (VBool true) = [K "true"]. Proof. reflexivity. Qed.
  Lemma TV_false : TV (VBool false) = [K "false"]. Proof. reflexivity. Qed.
  Lemma TV_long z : TV (VLong z) = if (z <? 0)%Z then [O "-"; Nt (print_nat (- z))] else [Nt (print_nat z)].
  Proof. unfold TV. cbn [value_items]. destruct (z <? 0)%Z; reflexivity. Qed.
  Lemma TV_string s : TV (VString s) = [Sq s]. Proof. reflexivity. Qed.
  Lemma TV_entity ty id : TV (VEntity ty id) = TP ty ++ [O "::"; Sq id].
  Proof. unfold TV, TP. cbn [value_items]. rewrite toks_of_app. reflexivity. Qed.
  Lemma TV_set l : TV (VSet l) = O "[" :: tcommas (map (fun i => nth i (map TV l) []) (set_order l)) ++ [O "]"].
  Proof.
    unfold TV. cbn [value_items]. rewrite value_set_items_map.
    rewrite !toks_of_app, toks_of_op, toks_commas, map_map.
    assert (E : map (fun x => toks_of (nth x (map VI l) [])) (set_order l) = map (fun i => nth i (map TV l) []) (set_order l)).
    { apply map_ext. intros i. change (@nil token) with (toks_of []). rewrite <- (map_map VI toks_of). rewrite map_nth. reflexivity. }
    rewrite E. reflexivity.
  Qed.
  Lemma TV_record kvs : TV (VRecord kvs) = O "{" :: tcommas (map (fun kv => Sq (fst kv) :: O ":" :: TV (snd kv)) kvs) ++ [O "}"].
  Proof.
    unfold TV. cbn [value_items]. rewrite value_rec_items_map.
    rewrite !toks_of_app, toks_of_op, toks_commas, map_map. reflexivity.
  Qed.
  Definition ext_toks (fn : string) (arg : str) : list token := [I fn; O "("; St ([34%Z] ++ arg ++ [34%Z]); O ")"].
  Lemma TV_decimal z : TV (VDecimal z) = ext_toks "decimal" (print_decimal z). Proof. reflexivity. Qed.
  Lemma TV_datetime z : TV (VDatetime z) = ext_toks "datetime" (print_datetime z). Proof. reflexivity. Qed.
  Lemma TV_duration z : TV (VDuration z) = ext_toks "duration" (print_duration z). Proof. reflexivity. Qed.
  Lemma TV_ip v6 a p : TV (VIP v6 a p) = ext_toks "ip" (print_ip v6 a p). Proof. reflexivity. Qed.

  Notation nv := (norm_value set_order print_ip).
  Notation nm := (norm set_order print_ip).
  Notation eok := (expr_ok set_order).
  Notation vok := (value_ok set_order).

  Lemma norm_value_set l : nv (VSet l) = ESet (map (fun i => nth i (map nv l) (ELit (VBool false))) (set_order l)).
  Proof.
    cbn [norm_value].
    assert (E : (fix go (l : list value) : list expr := match l with [] => [] | x :: r => nv x :: go r end) l = map nv l).
    { induction l as [|x r IH]; [reflexivity|]. cbn [map]. rewrite <- IH. reflexivity. }
    rewrite E. reflexivity.
  Qed.
  Lemma norm_value_record kvs : nv (VRecord kvs) = ERecord (map (fun kv => (fst kv, nv (snd kv))) kvs).
  Proof.
    cbn [norm_value]. f_equal. induction kvs as [|[k x] r IH]; [reflexivity|]. cbn [map fst snd]. rewrite <- IH. reflexivity.
  Qed.
  Lemma norm_set es : nm (ESet es) = ESet (map nm es).
  Proof. reflexivity. Qed.
  Lemma norm_call n args : nm (ECall n args) = ECall n (map nm args).
  Proof. reflexivity. Qed.
  Lemma norm_record kvs : nm (ERecord kvs) = ERecord (map (fun kv => (fst kv, nm (snd kv))) kvs).
  Proof. cbn [norm]. f_equal. induction kvs as [|[k x] r IH]; [reflexivity|]. cbn [map fst snd]. rewrite <- IH. reflexivity. Qed.

  Lemma value_ok_set l : vok (VSet l) = order_ok set_order l && forallb vok l.
  Proof. reflexivity. Qed.
  Lemma value_ok_record kvs : vok (VRecord kvs) =
    distinct_keys kvs && forallb (fun kv : str * value => str_ok2 (fst kv)) kvs && forallb (fun kv => vok (snd kv)) kvs.
  Proof. cbn [value_ok]. f_equal. induction kvs as [|[k x] r IH]; [reflexivity|]. cbn [forallb snd]. rewrite <- IH. reflexivity. Qed.
  Lemma expr_ok_list : forall l,
    (fix go (l : list expr) : bool := match l with [] => true | x :: r => eok x && go r end) l = forallb eok l.
  Proof. reflexivity. Qed.
  Lemma expr_ok_set es : eok (ESet es) = forallb eok es.
  Proof. cbn [expr_ok]. apply expr_ok_list. Qed.
  Lemma expr_ok_record kvs : eok (ERecord kvs) =
    distinct_keys kvs && forallb (fun kv : str * expr => str_ok2 (fst kv)) kvs && forallb (fun kv => eok (snd kv)) kvs.
  Proof. cbn [expr_ok]. f_equal. induction kvs as [|[k x] r IH]; [reflexivity|]. cbn [forallb snd]. rewrite <- IH. reflexivity. Qed.
  Lemma expr_ok_call n args : eok (ECall n args) =
    match ext_lookup n with
    | Some (_, true) => negb (builtin_method n) && can_ident n && (match args with [] => false | _ => true end) && forallb eok args
    | Some (_, false) => can_ident n && forallb eok args
    | None => false
    end.
  Proof. cbn [expr_ok]. rewrite expr_ok_list. reflexivity. Qed.

  (* ---- the first token of a rendering ---- *)
  Definition HG (e : expr) (h : token) : Prop :=
    tx h ")" = false /\ tx h "]" = false /\ (1 <= lev e -> tx h "if" = false) /\
    (7 <= lev e -> is_op h = false /\ (is_int h = true -> starts_with_int e = true)).
  Definition Hd (e : expr) : Prop := exists h tl, TE e = h :: tl /\ HG e h.

  Ltac hg_split := unfold HG; split; [|split; [|split; [intros ?|intros ?; split; [|intros ?]]]].
  Ltac hg_closed :=
    unfold HG; repeat split; intros;
    try (vm_compute; reflexivity);
    try (match goal with H : is_int _ = true |- _ => vm_compute in H; discriminate H end).

  Lemma HG_ident : forall e c, can_ident c = true -> starts_with_int e = false \/ True -> HG e (Id c).
  Proof.
    intros e c H _. hg_split.
    - apply (tx_ident_first c ")" 41%Z []); [exact H | reflexivity | reflexivity].
    - apply (tx_ident_first c "]" 93%Z []); [exact H | reflexivity | reflexivity].
    - apply tx_ident_reserved; [exact H | reflexivity].
    - unfold is_op. rewrite (tx_ident_first c "-" 45%Z []), (tx_ident_first c "!" 33%Z []); try reflexivity; exact H.
    - match goal with Hi : is_int _ = true |- _ => rewrite is_int_Id in Hi; discriminate Hi end.
  Qed.

  Lemma HG_string : forall e s, HG e (Sq s).
  Proof.
    intros e s. unfold Sq, quote_string. cbn [app]. hg_split.
    - reflexivity.
    - reflexivity.
    - reflexivity.
    - reflexivity.
    - match goal with Hi : is_int _ = true |- _ => rewrite is_int_St in Hi; discriminate Hi end.
  Qed.

  Lemma print_nat_ne : forall z, print_nat z <> [].
  Proof. intros z. unfold print_nat. apply digits_of_nonempty. Qed.

  Lemma HG_int : forall e z, (7 <= lev e -> starts_with_int e = true) -> HG e (Nt (print_nat z)).
  Proof.
    intros e z Hs. pose proof (print_nat_ne z) as Hne. pose proof (print_nat_all_digits z) as Hd0.
    hg_split.
    - apply (tx_int_tok _ ")" 41%Z []); [exact Hne | exact Hd0 | reflexivity | reflexivity].
    - apply (tx_int_tok _ "]" 93%Z []); [exact Hne | exact Hd0 | reflexivity | reflexivity].
    - apply (tx_int_tok _ "if" 105%Z [102%Z]); [exact Hne | exact Hd0 | reflexivity | reflexivity].
    - unfold is_op. rewrite (tx_int_tok _ "-" 45%Z []), (tx_int_tok _ "!" 33%Z []); try reflexivity; assumption.
    - apply Hs. assumption.
  Qed.

  Lemma HG_paren : forall e, HG e (O "(").
  Proof. intros e. hg_closed. Qed.

  Lemma head_child : forall this a, Hd a ->
    exists h tl, TC this a = h :: tl /\ (h = O "(" \/ (prec_n this <= lev a /\ HG a h)).
  Proof.
    intros this a (h & tl & E & HGa). rewrite TC_eq.
    destruct (Nat.ltb (lev a) (prec_n this)) eqn:E1; cbn [orb].
    - exists (O "("), (TE a ++ [O ")"]). split; [reflexivity | left; reflexivity].
    - destruct (extra a).
      + exists (O "("), (TE a ++ [O ")"]). split; [reflexivity | left; reflexivity].
      + exists h, tl. split; [exact E|]. right. apply Nat.ltb_ge in E1. split; assumption.
  Qed.

  Lemma HG_from_child : forall e a this h, (h = O "(" \/ (prec_n this <= lev a /\ HG a h)) -> 1 <= prec_n this ->
    (7 <= lev e -> 7 <= prec_n this /\ starts_with_int e = starts_with_int a) -> HG e h.
  Proof.
    intros e a this h [->|[Hle (H1 & H2 & H3 & H4)]] Hthis He; [apply HG_paren|].
    unfold HG. split; [exact H1|]. split; [exact H2|]. split.
    - intros _. apply H3. lia.
    - intros H7. destruct (He H7) as [Ht Es]. destruct (H4 ltac:(lia)) as [Hop Hint]. split; [exact Hop|].
      intros Hi. rewrite Es. apply Hint. exact Hi.
  Qed.

  Lemma Hd_child : forall e a this rest, Hd a -> TE e = TC this a ++ rest -> 1 <= prec_n this ->
    (7 <= lev e -> 7 <= prec_n this /\ starts_with_int e = starts_with_int a) -> Hd e.
  Proof.
    intros e a this rest Ha E Hthis He. destruct (head_child this a Ha) as (h & tl & E2 & Hh).
    exists h, (tl ++ rest). split; [rewrite E, E2; reflexivity|]. eapply HG_from_child; eassumption.
  Qed.

  Ltac okd := repeat match goal with H : _ && _ = true |- _ => apply andb_true_iff in H; destruct H end.

  Ltac hd_ih a := match goal with IH : eok a = true -> Hd a |- _ => apply IH; assumption end.
  Ltac hd_lev := unfold lev; cbn [prec_of prec_n]; intros; lia.
  Ltac hd_lev7 := unfold lev; cbn [prec_of prec_n starts_with_int]; intros; split; [lia | reflexivity].

  Lemma head_expr : forall e, eok e = true -> Hd e.
  Proof.
    induction e using expr_ind'; intros Hok; cbn [expr_ok] in Hok; okd;
      idtac.
    all: try (lazymatch goal with
      | |- Hd (EOr ?a ?b) => apply (Hd_child _ a POr (O "||" :: TC PAnd b)); [hd_ih a | apply TE_or | cbn [prec_n]; lia | hd_lev]
      | |- Hd (EAnd ?a ?b) => apply (Hd_child _ a PAnd (O "&&" :: TC PRel b)); [hd_ih a | apply TE_and | cbn [prec_n]; lia | hd_lev]
      | |- Hd (EAdd ?a ?b) => apply (Hd_child _ a PAdd (O "+" :: TC PMul b)); [hd_ih a | apply TE_add | cbn [prec_n]; lia | hd_lev]
      | |- Hd (ESub ?a ?b) => apply (Hd_child _ a PAdd (O "-" :: TC PMul b)); [hd_ih a | apply TE_sub | cbn [prec_n]; lia | hd_lev]
      | |- Hd (EMul ?a ?b) => apply (Hd_child _ a PMul (O "*" :: TC PUnary b)); [hd_ih a | apply TE_mul | cbn [prec_n]; lia | hd_lev]
      | |- Hd (ELt ?a ?b) => apply (Hd_child _ a PAdd (O "<" :: TC PAdd b)); [hd_ih a | apply TE_lt | cbn [prec_n]; lia | hd_lev]
      | |- Hd (ELe ?a ?b) => apply (Hd_child _ a PAdd (O "<=" :: TC PAdd b)); [hd_ih a | apply TE_le | cbn [prec_n]; lia | hd_lev]
      | |- Hd (EGt ?a ?b) => apply (Hd_child _ a PAdd (O ">" :: TC PAdd b)); [hd_ih a | apply TE_gt | cbn [prec_n]; lia | hd_lev]
      | |- Hd (EGe ?a ?b) => apply (Hd_child _ a PAdd (O ">=" :: TC PAdd b)); [hd_ih a | apply TE_ge | cbn [prec_n]; lia | hd_lev]
      | |- Hd (EEq ?a ?b) => apply (Hd_child _ a PAdd (O "==" :: TC PAdd b)); [hd_ih a | apply TE_eq | cbn [prec_n]; lia | hd_lev]
      | |- Hd (ENe ?a ?b) => apply (Hd_child _ a PAdd (O "!=" :: TC PAdd b)); [hd_ih a | apply TE_ne | cbn [prec_n]; lia | hd_lev]
      | |- Hd (EIn ?a ?b) => apply (Hd_child _ a PAdd (K "in" :: TC PAdd b)); [hd_ih a | apply TE_in | cbn [prec_n]; lia | hd_lev]
      | |- Hd (EContains ?a ?b) => eapply (Hd_child _ a PAccess); [hd_ih a | apply TE_contains | cbn [prec_n]; lia | hd_lev7]
      | |- Hd (EContainsAll ?a ?b) => eapply (Hd_child _ a PAccess); [hd_ih a | apply TE_containsAll | cbn [prec_n]; lia | hd_lev7]
      | |- Hd (EContainsAny ?a ?b) => eapply (Hd_child _ a PAccess); [hd_ih a | apply TE_containsAny | cbn [prec_n]; lia | hd_lev7]
      | |- Hd (EGetTag ?a ?b) => eapply (Hd_child _ a PAccess); [hd_ih a | apply TE_getTag | cbn [prec_n]; lia | hd_lev7]
      | |- Hd (EHasTag ?a ?b) => eapply (Hd_child _ a PAccess); [hd_ih a | apply TE_hasTag | cbn [prec_n]; lia | hd_lev7]
      end).
    - (* ELit *)
      unfold Hd. destruct v as [[|]|z|s|ty id|l|kvs|z|z|z|v6 a p].
      + exists (K "true"), []. split; [reflexivity | hg_closed].
      + exists (K "false"), []. split; [reflexivity | hg_closed].
      + rewrite TE_lit, TV_long. destruct (z <? 0)%Z eqn:Ez.
        * exists (O "-"), [Nt (print_nat (- z))]. split; [reflexivity|].
          unfold HG, lev. cbn [prec_of]. rewrite Ez. cbn [prec_n]. repeat split; intros; try (vm_compute; reflexivity); lia.
        * exists (Nt (print_nat z)), []. split; [reflexivity|]. apply HG_int. intros _. cbn [starts_with_int].
          apply Z.leb_le. apply Z.ltb_ge in Ez. exact Ez.
      + exists (Sq s), []. split; [reflexivity | apply HG_string].
      + rewrite TE_lit, TV_entity. unfold TP, path_items. cbn [value_ok] in Hok. okd.
        destruct (split_path ty) as [|c r] eqn:Es; [exfalso; exact (split_path_acc_ne ty [] Es)|].
        rewrite toks_path_items_of. exists (Id c), (sep_toks r ++ [O "::"; Sq id]). split; [reflexivity|].
        apply HG_ident; [|right; exact Logic.I].
        match goal with Hp : path_ok ty = true |- _ => unfold path_ok in Hp; rewrite Es in Hp; cbn [forallb] in Hp; okd; assumption end.
      + rewrite TE_lit, TV_set. eexists (O "["), _. split; [reflexivity | hg_closed].
      + rewrite TE_lit, TV_record. eexists (O "{"), _. split; [reflexivity | hg_closed].
      + eexists (I "decimal"), _. split; [reflexivity | hg_closed].
      + eexists (I "datetime"), _. split; [reflexivity | hg_closed].
      + eexists (I "duration"), _. split; [reflexivity | hg_closed].
      + eexists (I "ip"), _. split; [reflexivity | hg_closed].
    - (* EVar *) destruct x; eexists _, []; (split; [reflexivity | hg_closed]).
    - (* ENot *) eexists (O "!"), _. split; [apply TE_not | hg_closed; unfold lev in *; cbn in *; lia].
    - (* ENeg *) eexists (O "-"), _. split; [apply TE_neg | hg_closed; unfold lev in *; cbn in *; lia].
    - (* EIsEmpty *)
      eapply (Hd_child _ e PAccess); [apply IHe; assumption | apply TE_isEmpty | cbn; lia | unfold lev; cbn; intros; split; [lia | reflexivity]].
    - (* EAccess *)
      eapply (Hd_child _ e PAccess); [apply IHe; assumption | apply TE_access | cbn; lia | unfold lev; cbn; intros; split; [lia | reflexivity]].
    - (* EHas *)
      eapply (Hd_child _ e PAdd); [apply IHe; assumption | apply TE_has | cbn; lia | unfold lev; cbn; intros; lia].
    - (* ELike *)
      eapply (Hd_child _ e PAdd); [apply IHe; assumption | apply TE_like | cbn; lia | unfold lev; cbn; intros; lia].
    - (* EIs *)
      eapply (Hd_child _ e PAdd); [apply IHe; assumption | apply TE_is | cbn; lia | unfold lev; cbn; intros; lia].
    - (* EIsIn *)
      eapply (Hd_child _ e1 PAdd); [apply IHe1; assumption | apply TE_isin | cbn; lia | unfold lev; cbn; intros; lia].
    - (* EIf *) eexists (K "if"), _. split; [apply TE_if | hg_closed; unfold lev in *; cbn in *; lia].
    - (* ESet *) eexists (O "["), _. split; [apply TE_set | hg_closed].
    - (* ERecord *) eexists (O "{"), _. split; [apply TE_record | hg_closed].
    - (* ECall *)
      destruct (ext_lookup n) as [[ar [|]]|] eqn:El; [| |discriminate Hok].
      + okd. assert (Hm : is_method n = true) by (unfold is_method; rewrite El; reflexivity).
        destruct args as [|a rest]; [discriminate|].
        inversion H as [|a' rest' IHa IHrest]; subst. cbn [forallb] in *. okd.
        eapply (Hd_child _ a PAccess); [apply IHa; assumption | apply TE_call_method; exact Hm | cbn; lia |].
        unfold lev; cbn [prec_of prec_n starts_with_int]. rewrite Hm. intros; split; [lia | reflexivity].
      + okd. assert (Hm : is_method n = false) by (unfold is_method; rewrite El; reflexivity).
        exists (Id n), (O "(" :: tcommas (map (TC PAccess) args) ++ [O ")"]). split.
        * rewrite TE_call_fn by exact Hm. unfold TP, path_items. rewrite split_path_ident by assumption. reflexivity.
        * apply HG_ident; [assumption | right; exact Logic.I].
    - (* EPartialError *) discriminate Hok.
  Qed.

  (* ---- strings ---- *)
  Lemma byte_str_nonneg : forall s, byte_str s = true -> nonneg s.
  Proof.
    intros s H. unfold byte_str in H. rewrite forallb_forall in H. apply Forall_forall. intros b Hb.
    specialize (H b Hb). apply andb_true_iff in H. destruct H as [H _]. apply Z.leb_le in H. exact H.
  Qed.

  Lemma sv_quote : forall s, str_ok2 s = true -> string_value (quote_string is_printable is_gext s) = Some s.
  Proof.
    intros s H. unfold str_ok2 in H. apply andb_true_iff in H. destruct H as [H1 H2].
    apply string_value_quote; [apply byte_str_nonneg; exact H1 | exact H2].
  Qed.

  Lemma pp_quote : forall p, pat_ok2 p = true -> parse_pattern (trim_quotes (quote_pattern is_printable is_gext p)) = Some p.
  Proof.
    intros p H. unfold pat_ok2 in H. apply andb_true_iff in H. destruct H as [H1 H2].
    apply parse_pattern_quote; [|exact H2]. unfold lits_nonneg. rewrite forallb_forall in H1.
    apply Forall_forall. intros c Hc. apply byte_str_nonneg. apply H1. exact Hc.
  Qed.

  (* ---- the unary prefix ---- *)
  Definition UN (X : list token) (v : expr) : Prop :=
    forall R, R <> [] -> cont (peek R) <= 6 ->
      has_non_op (X ++ R) = true /\
      exists ops r, ops_prefix (X ++ R) = (ops, r) /\
        forall pre, Ev (fun f => unary_tail f (pre ++ ops) r) (apply_ops pre v) R.

  Lemma un_beh6 : forall X v, UN X v -> Beh 6 X v.
  Proof.
    intros X v H. apply beh_of_val; [right; right; left; reflexivity|]. intros R HR Hc. cbn [bnd] in Hc.
    destruct (H R HR Hc) as (Hn & ops & r & E & Hev). destruct (Hev []) as [f0 Hf0].
    exists (S f0). intros f Hf. destruct f as [|f]; [lia|]. cbn [PL]. rewrite p_unary_prefix by exact Hn.
    rewrite E. cbn [fst snd]. apply Hf0. lia.
  Qed.

  Lemma apply_ops_snoc : forall pre b v, apply_ops (pre ++ [b]) v = apply_ops pre (if b then ENeg v else ENot v).
  Proof. intros pre b v. unfold apply_ops. rewrite fold_right_app. reflexivity. Qed.

  Definition optok (neg : bool) : token := if neg then O "-" else O "!".
  Definition opcon (neg : bool) (v : expr) : expr := if neg then ENeg v else ENot v.

  Lemma ops_prefix_op : forall neg l, ops_prefix (optok neg :: l) = (neg :: fst (ops_prefix l), snd (ops_prefix l)).
  Proof. intros neg l. destruct neg; reflexivity. Qed.
  Lemma has_non_op_op : forall neg l, has_non_op (optok neg :: l) = has_non_op l.
  Proof. intros neg l. destruct neg; reflexivity. Qed.

  Lemma un_op : forall neg X v, UN X v -> UN (optok neg :: X) (opcon neg v).
  Proof.
    intros neg X v H R HR Hc. destruct (H R HR Hc) as (Hn & ops & r & E & Hev).
    cbn [app]. rewrite has_non_op_op, ops_prefix_op, E. cbn [fst snd]. split; [exact Hn|].
    exists (neg :: ops), r. split; [reflexivity|]. intros pre.
    replace (pre ++ neg :: ops) with ((pre ++ [neg]) ++ ops) by (rewrite <- app_assoc; reflexivity).
    unfold opcon. rewrite <- apply_ops_snoc. apply Hev.
  Qed.

  Lemma un_base : forall neg X h tl v, Beh 7 X v -> X = h :: tl -> is_op h = false -> (neg = true -> is_int h = false) ->
    UN (optok neg :: X) (opcon neg v).
  Proof.
    intros neg X h tl v HB HX Hop Hint R HR Hc. cbn [app]. rewrite has_non_op_op, ops_prefix_op.
    assert (E : ops_prefix (X ++ R) = ([], X ++ R)).
    { subst X. cbn [app ops_prefix]. unfold is_op in Hop. apply orb_false_iff in Hop. destruct Hop as [-> ->]. reflexivity. }
    rewrite E. cbn [fst snd]. split.
    - subst X. cbn [app]. unfold has_non_op. cbn [existsb]. rewrite Hop. reflexivity.
    - exists [neg], (X ++ R). split; [reflexivity|]. intros pre. unfold opcon. rewrite <- apply_ops_snoc.
      apply ev_utail_member.
      + intros ops' Hr. rewrite rev_app_distr in Hr. cbn [rev app] in Hr. inversion Hr; subst. cbn [app peek]. apply Hint. reflexivity.
      + apply (beh_val 7 X v R HB HR); [cbn [bnd]; lia | left; lia].
  Qed.

  Lemma is_op_int : forall z, is_op (Nt (print_nat z)) = false.
  Proof.
    intros z. unfold is_op.
    rewrite (tx_int_tok _ "-" 45%Z []), (tx_int_tok _ "!" 33%Z []); try reflexivity; first [apply print_nat_ne | apply print_nat_all_digits].
  Qed.

  Lemma un_neglit : forall z, (z < 0)%Z -> in64b z = true -> UN [O "-"; Nt (print_nat (- z))] (ELit (VLong z)).
  Proof.
    intros z Hz Hi R HR Hc. cbn [app]. change (O "-") with (optok true). pose proof (is_op_int (- z)) as Hop. split.
    { rewrite has_non_op_op. unfold has_non_op. cbn [existsb]. rewrite Hop. reflexivity. }
    exists [true], (Nt (print_nat (- z)) :: R). split.
    - rewrite ops_prefix_op.
      assert (E : ops_prefix (Nt (print_nat (- z)) :: R) = ([], Nt (print_nat (- z)) :: R)).
      { cbn [ops_prefix]. unfold is_op in Hop. apply orb_false_iff in Hop. destruct Hop as [-> ->]. reflexivity. }
      rewrite E. reflexivity.
    - intros pre. apply ev_utail_lit; [apply int_value_neg; assumption | exact HR].
  Qed.

  (* ---- parentheses and children ---- *)
  Lemma paren_beh : forall X v, Beh 0 X v -> Beh 8 (O "(" :: X ++ [O ")"]) v.
  Proof.
    intros X v H. apply beh_of_val; [right; right; right; lia|]. intros R HR _. cbn [PL].
    rewrite <- app_comm_cons, <- app_assoc. cbn [app].
    apply (ev_primary_paren _ v (O ")" :: R) R); [ne | | apply exact_cons; [reflexivity | exact HR]].
    apply (beh_val 0 X v (O ")" :: R) H); [ne | contb | right; left; reflexivity].
  Qed.

  Lemma lev_le8 : forall e, lev e <= 8.
  Proof.
    intros e. unfold lev. destruct e; cbn [prec_of prec_n]; try lia.
    destruct v; cbn [prec_n]; try lia. destruct (z <? 0)%Z; cbn [prec_n]; lia.
  Qed.

  Definition M (e : expr) : Prop := Beh (lev e) (TE e) (nm e) /\ (lev e = 6 -> UN (TE e) (nm e)).

  Lemma beh_down : forall e L, eok e = true -> L <= lev e -> Beh (lev e) (TE e) (nm e) -> Beh L (TE e) (nm e).
  Proof.
    intros e L Hok HL HB. destruct (head_expr e Hok) as (h & tl & E & (_ & _ & Hif & Hop)).
    pose proof (lev_le8 e) as H8.
    apply (lift (lev e - L) L (TE e) h tl); [lia | exact E | | |].
    - intros _ Hd0. apply Hif. lia.
    - intros H6 H7. apply Hop. lia.
    - replace (L + (lev e - L)) with (lev e) by lia. exact HB.
  Qed.

  Lemma paren_down : forall X v L, L <= 8 -> Beh 0 X v -> Beh L (O "(" :: X ++ [O ")"]) v.
  Proof.
    intros X v L HL H. apply (lift (8 - L) L _ (O "(") (X ++ [O ")"])); [lia | reflexivity | | |].
    - intros; reflexivity.
    - intros; reflexivity.
    - replace (L + (8 - L)) with 8 by lia. apply paren_beh. exact H.
  Qed.

  Lemma child_beh : forall a this L, eok a = true -> M a -> L <= prec_n this -> L <= 8 -> Beh L (TC this a) (nm a).
  Proof.
    intros a this L Hok [HB _] HL H8. rewrite TC_eq.
    destruct (Nat.ltb (lev a) (prec_n this)) eqn:E1; cbn [orb].
    - apply paren_down; [exact H8|]. apply beh_down; [exact Hok | lia | exact HB].
    - destruct (extra a).
      + apply paren_down; [exact H8|]. apply beh_down; [exact Hok | lia | exact HB].
      + apply Nat.ltb_ge in E1. apply beh_down; [exact Hok | lia | exact HB].
  Qed.

  Lemma child_val : forall a this L R, eok a = true -> M a -> L <= prec_n this -> L <= 8 -> R <> [] ->
    cont (peek R) <= bnd L -> (cont (peek R) < L \/ L = 0 \/ L = 6 \/ 8 <= L) ->
    Ev (fun f => PL L f (TC this a ++ R)) (nm a) R.
  Proof. intros a this L R Hok HM HL H8 HR Hc Hs. apply beh_val; [apply child_beh; assumption | exact HR | exact Hc | exact Hs]. Qed.

  Lemma child_unary : forall a this neg, eok a = true -> M a ->
    (this = PAbovePrimary \/ (this = PUnary /\ (neg = true -> starts_with_int a = false))) ->
    UN (optok neg :: TC this a) (opcon neg (nm a)).
  Proof.
    intros a this neg Hok [HB HU] Hthis. rewrite TC_eq.
    assert (Hpar : UN (optok neg :: O "(" :: TE a ++ [O ")"]) (opcon neg (nm a))).
    { apply (un_base neg _ (O "(") (TE a ++ [O ")"])); [|reflexivity|reflexivity|intros; reflexivity].
      apply paren_down; [lia|]. apply beh_down; [exact Hok | lia | exact HB]. }
    destruct (Nat.ltb (lev a) (prec_n this)) eqn:E1; cbn [orb]; [exact Hpar|].
    destruct (extra a); [exact Hpar|].
    apply Nat.ltb_ge in E1. pose proof (lev_le8 a) as H8.
    destruct Hthis as [->|[-> Hs]]; [cbn [prec_n] in E1; lia|]. cbn [prec_n] in E1.
    destruct (Nat.eq_dec (lev a) 6) as [E6|N6].
    - apply un_op. apply HU. exact E6.
    - destruct (head_expr a Hok) as (h & tl & E & (_ & _ & _ & Hop)). destruct (Hop ltac:(lia)) as [Hop1 Hop2].
      apply (un_base neg _ h tl); [apply beh_down; [exact Hok | lia | exact HB] | exact E | exact Hop1 |].
      intros Hn. destruct (is_int h) eqn:Ei; [|reflexivity]. rewrite (Hop2 eq_refl) in Hs. specialize (Hs Hn). discriminate Hs.
  Qed.

  (* ---- lists of expressions ---- *)
  Definition good_item (close : string) (it : list token * expr) : Prop :=
    Beh 0 (fst it) (snd it) /\ exists h tl, fst it = h :: tl /\ tx h close = false.

  Lemma ev_exprs_list : forall close items acc R,
    tx (O close) close = true -> cont (O close) = 0 -> tx (O close) "," = false ->
    Forall (good_item close) items ->
    Ev (fun f => p_expressions f close (tcommas (map fst items) ++ O close :: R) acc) (acc ++ map snd items) (O close :: R).
  Proof.
    intros close items acc R Hc1 Hc2 Hc3 H. revert acc. induction H as [|[X v] items [HB (h & tl & EX & Hh)] Hrest IH]; intros acc.
    - cbn [map tcommas app]. rewrite app_nil_r. apply ev_exprs_stop. exact Hc1.
    - cbn [fst snd] in *. destruct items as [|it2 items'].
      + cbn [map fst snd tcommas app]. apply ev_exprs_last.
        * subst X. exact Hh.
        * apply (beh_val 0 X v _ HB); [ne | cbn [peek bnd]; lia | right; left; reflexivity].
        * exact Hc3.
        * exact Hc1.
      + change (tcommas (map fst ((X, v) :: it2 :: items'))) with (X ++ O "," :: tcommas (map fst (it2 :: items'))).
        change (map snd ((X, v) :: it2 :: items')) with (v :: map snd (it2 :: items')).
        rewrite <- app_assoc. cbn [app].
        apply (ev_exprs_comma close _ v (tcommas (map fst (it2 :: items')) ++ O close :: R)).
        * subst X. exact Hh.
        * apply (beh_val 0 X v _ HB); [ne | contb | right; left; reflexivity].
        * ne.
        * specialize (IH (acc ++ [v])). rewrite <- app_assoc in IH. exact IH.
  Qed.

  (* ---- records ---- *)
  Fixpoint fresh_keys (ks : list str) (seen : list str) : bool :=
    match ks with [] => true | k :: r => negb (existsb (str_eqb k) seen) && fresh_keys r (k :: seen) end.

  Lemma distinct_keys_fresh : forall (A : Type) (kvs : list (str * A)), distinct_keys kvs = fresh_keys (map fst kvs) [].
  Proof.
    intros A kvs. unfold distinct_keys. generalize (@nil str) as seen.
    induction kvs as [|[k x] r IH]; intros seen; [reflexivity|]. cbn [map fst fresh_keys]. rewrite <- IH. reflexivity.
  Qed.

  Lemma str_eqb_sym : forall a b, str_eqb a b = str_eqb b a.
  Proof.
    intros a b. destruct (str_eqb a b) eqn:E.
    - apply str_eqb_eq in E. subst. symmetry. apply str_eqb_refl.
    - symmetry. apply str_eqb_neq. apply str_eqb_neq in E. congruence.
  Qed.

  Definition entry := (str * list token * expr)%type.
  Definition e_key (en : entry) : str := fst (fst en).
  Definition e_toks (en : entry) : list token := Sq (e_key en) :: O ":" :: snd (fst en).
  Definition e_kv (en : entry) : str * expr := (e_key en, snd en).
  Definition good_entry (en : entry) : Prop := str_ok2 (e_key en) = true /\ Beh 0 (snd (fst en)) (snd en).

  Lemma tx_Sq_close : forall k, tx (Sq k) "}" = false.
  Proof. intros k. reflexivity. Qed.

  Lemma ev_record_list : forall ens acc seen R, R <> [] ->
    Forall good_entry ens -> fresh_keys (map e_key ens) seen = true ->
    (forall k, key_mem k acc = existsb (str_eqb k) seen) ->
    Ev (fun f => p_record f (tcommas (map e_toks ens) ++ O "}" :: R) acc) (ERecord (acc ++ map e_kv ens)) R.
  Proof.
    intros ens acc seen R HR H. revert acc seen. induction H as [|[[k X] v] ens [Hk HB] Hrest IH]; intros acc seen Hf Hinv.
    - cbn [map tcommas app]. rewrite app_nil_r. apply ev_record_end. exact HR.
    - unfold e_key in Hk. cbn [fst snd] in Hk, HB. cbn [map fresh_keys] in Hf. unfold e_key at 1 in Hf. cbn [fst] in Hf.
      apply andb_true_iff in Hf. destruct Hf as [Hf1 Hf2]. apply negb_true_iff in Hf1.
      assert (Hinv' : forall k0, key_mem k0 (acc ++ [(k, v)]) = existsb (str_eqb k0) (k :: seen)).
      { intros k0. unfold key_mem. rewrite existsb_app. cbn [existsb fst]. fold (key_mem k0 acc). rewrite Hinv.
        rewrite orb_false_r, orb_comm, (str_eqb_sym k k0). reflexivity. }
      destruct ens as [|en2 ens'].
      + cbn [map tcommas app]. unfold e_toks, e_kv, e_key. cbn [fst snd]. apply (ev_record_last _ k).
        * apply tx_Sq_close.
        * apply sv_quote. exact Hk.
        * ne.
        * apply (beh_val 0 X v _ HB); [ne | contb | right; left; reflexivity].
        * rewrite Hinv. exact Hf1.
        * exact HR.
      + change (tcommas (map e_toks ((k, X, v) :: en2 :: ens'))) with ((Sq k :: O ":" :: X) ++ O "," :: tcommas (map e_toks (en2 :: ens'))).
        change (map e_kv ((k, X, v) :: en2 :: ens')) with ((k, v) :: map e_kv (en2 :: ens')).
        rewrite <- app_assoc. cbn [app].
        apply (ev_record_comma _ k _ v (tcommas (map e_toks (en2 :: ens')) ++ O "}" :: R)).
        * apply tx_Sq_close.
        * apply sv_quote. exact Hk.
        * ne.
        * apply (beh_val 0 X v _ HB); [ne | contb | right; left; reflexivity].
        * rewrite Hinv. exact Hf1.
        * ne.
        * specialize (IH (acc ++ [(k, v)]) (k :: seen) Hf2 Hinv'). rewrite <- app_assoc in IH. exact IH.
  Qed.

  (* ---- operators ---- *)
  Lemma beh_binop : forall L tokop (mkop : expr -> expr -> expr) A B na nb,
    bnd L = L -> L <= bnd (S L) -> cont tokop = L ->
    (forall l rhs r1 lhs w r, l <> [] -> Ev (fun f => PL (S L) f l) rhs r1 -> Ev (fun f => LoopL L f (mkop lhs rhs) r1) w r ->
       Ev (fun f => LoopL L f lhs (tokop :: l)) w r) ->
    Beh L A na -> Beh (S L) B nb -> Beh L (A ++ tokop :: B) (mkop na nb).
  Proof.
    intros L tokop mkop A B na nb Hb1 Hb2 Hct Hrule HA HB R w r HR Hc Hloop.
    rewrite <- app_assoc. cbn [app]. apply HA; [ne | cbn [peek]; rewrite Hct, Hb1; lia |].
    apply (Hrule _ nb R); [ne | | exact Hloop].
    apply (beh_val (S L) B nb R HB HR); [lia | left; lia].
  Qed.

  Lemma beh_relop : forall tokop opf A B na nb,
    relop tokop = Some opf -> tx tokop "has" = false -> tx tokop "like" = false -> tx tokop "is" = false -> cont tokop = 3 ->
    Beh 4 A na -> Beh 4 B nb -> Beh 3 (A ++ tokop :: B) (opf na nb).
  Proof.
    intros tokop opf A B na nb Hop H1 H2 H3 Hct HA HB.
    apply beh_of_val; [right; left; reflexivity|]. intros R HR Hc. cbn [bnd] in Hc.
    rewrite <- app_assoc. cbn [app].
    apply (ev_level 3 _ na (tokop :: B ++ R)); [lia | discriminate | discriminate | |].
    - apply (beh_val 4 A na _ HA); [ne | cbn [peek bnd]; lia | left; cbn [peek]; lia].
    - cbn [LoopL]. apply ev_rel_op; [exact Hop | exact H1 | exact H2 | exact H3 | ne |].
      apply (beh_val 4 B nb R HB HR); [cbn [bnd]; lia | left; lia].
  Qed.

  (* after the left operand (at level PAdd), a relation tail that leaves R *)
  Lemma beh_reltail : forall A na tail w, 
    Beh 4 A na -> (forall R, R <> [] -> cont (peek R) <= 2 -> (tail ++ R) <> [] /\ cont (peek (tail ++ R)) = 3 /\
                     Ev (fun f => rel_tail f na (tail ++ R)) w R) ->
    Beh 3 (A ++ tail) w.
  Proof.
    intros A na tail w HA Ht. apply beh_of_val; [right; left; reflexivity|]. intros R HR Hc. cbn [bnd] in Hc.
    destruct (Ht R HR Hc) as (Hne & Hct & Hev). rewrite <- app_assoc.
    apply (ev_level 3 _ na (tail ++ R)); [lia | discriminate | discriminate | | exact Hev].
    apply (beh_val 4 A na _ HA); [exact Hne | cbn [bnd]; lia | left; lia].
  Qed.

  Lemma beh_access : forall A na tail e',
    Beh 7 A na ->
    (forall R w r, R <> [] -> cont (peek R) <= 7 -> Ev (fun f => p_access_loop f e' R) w r ->
       (tail ++ R) <> [] /\ cont (peek (tail ++ R)) <= 7 /\ Ev (fun f => p_access_loop f na (tail ++ R)) w r) ->
    Beh 7 (A ++ tail) e'.
  Proof.
    intros A na tail e' HA Ht R w r HR Hc Hloop. cbn [bnd LoopL] in *.
    destruct (Ht R w r HR Hc Hloop) as (Hne & Hct & Hev). rewrite <- app_assoc.
    apply HA; [exact Hne | cbn [bnd]; exact Hct | exact Hev].
  Qed.

  Lemma beh_method : forall A na n items e',
    Beh 7 A na -> Forall (good_item ")") items -> method_call n na (map snd items) = Some e' ->
    Beh 7 (A ++ O "." :: Id n :: O "(" :: tcommas (map fst items) ++ [O ")"]) e'.
  Proof.
    intros A na n items e' HA Hit Hm. apply (beh_access A na _ e' HA). intros R w r HR Hc Hloop.
    split; [discriminate|]. split; [cbn [app]; contc|]. cbn [app]. rewrite <- app_assoc. cbn [app].
    apply (ev_access_method n _ (map snd items) R e'); [ne | | exact HR | exact Hm | exact Hloop].
    apply (ev_exprs_list ")" items [] R); [reflexivity | reflexivity | reflexivity | exact Hit].
  Qed.

  Lemma TP_shape : forall ty, exists c r, split_path ty = c :: r /\ TP ty = Id c :: sep_toks r.
  Proof.
    intros ty. unfold TP, path_items. destruct (split_path ty) as [|c r] eqn:E; [exfalso; exact (split_path_acc_ne ty [] E)|].
    exists c, r. split; [reflexivity | apply toks_path_items_of].
  Qed.

  Lemma ev_TP : forall ty R, R <> [] -> tx (peek R) "::" = false -> Ev (fun f => p_path f (TP ty ++ R)) ty R.
  Proof.
    intros ty R HR Hc. destruct (TP_shape ty) as (c & r & Es & Et). rewrite Et. cbn [app].
    rewrite <- (join_split ty) at 1. rewrite Es. apply ev_p_path; assumption.
  Qed.

  Lemma child_head : forall this a, eok a = true ->
    exists h tl, TC this a = h :: tl /\ tx h ")" = false /\ tx h "]" = false.
  Proof.
    intros this a Hok. destruct (head_child this a (head_expr a Hok)) as (h & tl & E & [->|[_ (H1 & H2 & _)]]).
    - exists (O "("), tl. split; [exact E | split; reflexivity].
    - exists h, tl. split; [exact E | split; assumption].
  Qed.

  Lemma good_child : forall close this a, eok a = true -> M a -> (close = ")"%string \/ close = "]"%string) ->
    good_item close (TC this a, nm a).
  Proof.
    intros close this a Hok HM Hcl. split; cbn [fst snd].
    - apply child_beh; [exact Hok | exact HM | lia | lia].
    - destruct (child_head this a Hok) as (h & tl & E & H1 & H2). exists h, tl. split; [exact E|].
      destruct Hcl as [->| ->]; assumption.
  Qed.

  Lemma good_children : forall close this l, (close = ")"%string \/ close = "]"%string) ->
    Forall (fun a => eok a = true -> M a) l -> forallb eok l = true ->
    Forall (good_item close) (map (fun a => (TC this a, nm a)) l).
  Proof.
    intros close this l Hcl H. induction H as [|a l Ha Hl IH]; intros Hok; cbn [map]; constructor.
    - cbn [forallb] in Hok. apply andb_true_iff in Hok. destruct Hok as [Hok _]. apply good_child; auto.
    - cbn [forallb] in Hok. apply andb_true_iff in Hok. destruct Hok as [_ Hok]. apply IH. exact Hok.
  Qed.

  Lemma M_non6 : forall e, lev e <> 6 -> Beh (lev e) (TE e) (nm e) -> M e.
  Proof. intros e H HB. split; [exact HB | intros E; contradiction]. Qed.

  (* ---- values ---- *)
  Ltac not6 := let E := fresh "E" in intros E; unfold lev in E; cbn [prec_of prec_n] in E; discriminate E.

  Definition MV (v : value) : Prop := Beh (lev (ELit v)) (TV v) (nv v) /\ (lev (ELit v) = 6 -> UN (TV v) (nv v)).

  Lemma beh_prim_down : forall t v L, L <= 8 -> tx t "if" = false -> is_op t = false ->
    (forall R, R <> [] -> cont (peek R) <= 8 -> Ev (fun f => p_primary f (t :: R)) v R) -> Beh L [t] v.
  Proof.
    intros t v L HL H1 H2 H. apply (lift (8 - L) L [t] t []); [lia | reflexivity | intros; exact H1 | intros; exact H2 |].
    replace (L + (8 - L)) with 8 by lia. apply beh_of_val; [right; right; right; lia|]. intros R HR Hc. cbn [bnd] in Hc.
    cbn [app PL]. apply H; assumption.
  Qed.

  Lemma beh_plain_str : forall arg L, L <= 8 -> Forall plain arg -> Beh L [St ([34%Z] ++ arg ++ [34%Z])] (ELit (VString arg)).
  Proof.
    intros arg L HL Hp. apply beh_prim_down; [exact HL | reflexivity | reflexivity |]. intros R HR _.
    apply ev_primary_str; [apply string_value_plain; exact Hp | exact HR].
  Qed.

  Lemma beh_ext : forall fn arg ar, ext_lookup (s_of fn) = Some (ar, false) ->
    tx (I fn) "true" = false -> tx (I fn) "false" = false -> Forall plain arg ->
    Beh 7 (ext_toks fn arg) (ext1 fn arg).
  Proof.
    intros fn arg ar He H1 H2 Hp R w r HR Hc Hloop. cbn [LoopL PL bnd] in *.
    apply (ev_level 7 _ (ext1 fn arg) R); [lia | discriminate | discriminate | | exact Hloop]. cbn [PL].
    unfold ext_toks. cbn [app].
    apply (ev_primary_ident (s_of fn)); [exact H1 | exact H2 | reflexivity | ne |].
    apply (ev_eoe_call (s_of fn) _ [ELit (VString arg)] R ar); [exact He | ne | | exact HR].
    apply (ev_exprs_list ")" [([St ([34%Z] ++ arg ++ [34%Z])], ELit (VString arg))] [] R); [reflexivity | reflexivity | reflexivity |].
    constructor; [|constructor]. split; cbn [fst snd].
    - apply beh_plain_str; [lia | exact Hp].
    - eexists _, _. split; [reflexivity | reflexivity].
  Qed.

  Lemma nth_map_lt : forall (A B : Type) (f : A -> B) l i d d', i < List.length l -> nth i (map f l) d' = f (nth i l d).
  Proof.
    intros A B f l i d d' H. rewrite (nth_indep (map f l) d' (f d)) by (rewrite map_length; exact H). apply map_nth.
  Qed.

  Lemma MV_beh0 : forall x, vok x = true -> MV x -> good_item "]" (TV x, nv x).
  Proof.
    intros x Hok [HB _]. split; cbn [fst snd].
    - apply (beh_down (ELit x) 0); [exact Hok | lia | exact HB].
    - destruct (head_expr (ELit x) Hok) as (h & tl & E & (_ & H2 & _)). exists h, tl. split; [exact E | exact H2].
  Qed.

  Lemma main_value : forall v, vok v = true -> MV v.
  Proof.
    induction v using value_ind'; intros Hok.
    - (* bool *)
      split; [|not6]. change (lev (ELit (VBool b))) with 8.
      apply beh_of_val; [right; right; right; lia|]. intros R HR _. cbn [PL].
      destruct b; [apply ev_primary_true | apply ev_primary_false]; exact HR.
    - (* long *)
      cbn [value_ok] in Hok. unfold MV, lev. cbn [prec_of]. rewrite TV_long. destruct (z <? 0)%Z eqn:Ez; cbn [prec_n].
      + apply Z.ltb_lt in Ez. pose proof (un_neglit z Ez Hok) as HU. split; [apply un_beh6; exact HU | intros _; exact HU].
      + apply Z.ltb_ge in Ez. split; [|intros; lia].
        apply beh_of_val; [right; right; right; lia|]. intros R HR _. cbn [PL app].
        apply ev_primary_int; [apply int_value_pos; assumption | exact HR].
    - (* string *)
      cbn [value_ok] in Hok. split; [|not6]. change (lev (ELit (VString s))) with 8.
      apply beh_of_val; [right; right; right; lia|]. intros R HR _. cbn [PL]. rewrite TV_string. cbn [app].
      apply ev_primary_str; [apply sv_quote; exact Hok | exact HR].
    - (* entity *)
      cbn [value_ok] in Hok. apply andb_true_iff in Hok. destruct Hok as [Hp Hid].
      split; [|not6]. change (lev (ELit (VEntity t i))) with 8.
      apply beh_of_val; [right; right; right; lia|]. intros R HR _. cbn [PL]. rewrite TV_entity.
      destruct (TP_shape t) as (c & r & Es & Et). rewrite Et. rewrite <- app_assoc. cbn [app].
      assert (Hc : can_ident c = true).
      { unfold path_ok in Hp. rewrite Es in Hp. cbn [forallb] in Hp. apply andb_true_iff in Hp. destruct Hp as [Hp _]. exact Hp. }
      apply ev_primary_ident.
      + apply tx_ident_reserved; [exact Hc | reflexivity].
      + apply tx_ident_reserved; [exact Hc | reflexivity].
      + destruct r; reflexivity.
      + ne.
      + change (nv (VEntity t i)) with (ELit (VEntity t i)). rewrite <- (join_split t) at 1. rewrite Es, <- fold_jf_join.
        apply ev_eoe_path; [apply sv_quote; exact Hid | exact HR].
    - (* set *)
      rewrite value_ok_set in Hok. apply andb_true_iff in Hok. destruct Hok as [Ho Hl].
      split; [|not6]. change (lev (ELit (VSet l))) with 8.
      apply beh_of_val; [right; right; right; lia|]. intros R HR _. cbn [PL]. rewrite TV_set, norm_value_set.
      set (items := map (fun i => (nth i (map TV l) [], nth i (map nv l) (ELit (VBool false)))) (set_order l)).
      assert (E1 : map (fun i => nth i (map TV l) []) (set_order l) = map fst items).
      { unfold items. rewrite map_map. reflexivity. }
      assert (E2 : map (fun i => nth i (map nv l) (ELit (VBool false))) (set_order l) = map snd items).
      { unfold items. rewrite map_map. reflexivity. }
      rewrite E1, E2. rewrite <- app_comm_cons, <- app_assoc. cbn [app].
      apply ev_primary_set; [ne | | exact HR].
      apply (ev_exprs_list "]" items [] R); [reflexivity | reflexivity | reflexivity |].
      unfold items. apply Forall_forall. intros it Hit. apply in_map_iff in Hit. destruct Hit as (i & <- & Hi).
      unfold order_ok in Ho. apply andb_true_iff in Ho. destruct Ho as [_ Ho]. rewrite forallb_forall in Ho.
      specialize (Ho i Hi). apply Nat.ltb_lt in Ho.
      rewrite (nth_map_lt _ _ TV l i (VBool false)) by exact Ho. rewrite (nth_map_lt _ _ nv l i (VBool false)) by exact Ho.
      pose proof (nth_In l (VBool false) Ho) as Hin.
      rewrite forallb_forall in Hl. rewrite Forall_forall in H. apply MV_beh0; [apply Hl; exact Hin | apply H; [exact Hin | apply Hl; exact Hin]].
    - (* record *)
      rewrite value_ok_record in Hok. apply andb_true_iff in Hok. destruct Hok as [Hok Hvs]. apply andb_true_iff in Hok. destruct Hok as [Hd Hks].
      split; [|not6]. change (lev (ELit (VRecord l))) with 8.
      apply beh_of_val; [right; right; right; lia|]. intros R HR _. cbn [PL]. rewrite TV_record, norm_value_record.
      set (ens := map (fun kv : str * value => (fst kv, TV (snd kv), nv (snd kv))) l : list entry).
      assert (E1 : map (fun kv : str * value => Sq (fst kv) :: O ":" :: TV (snd kv)) l = map e_toks ens).
      { unfold ens. rewrite map_map. reflexivity. }
      assert (E2 : map (fun kv : str * value => (fst kv, nv (snd kv))) l = map e_kv ens).
      { unfold ens. rewrite map_map. reflexivity. }
      assert (E3 : map fst l = map e_key ens).
      { unfold ens. rewrite map_map. reflexivity. }
      rewrite E1, E2. rewrite <- app_comm_cons, <- app_assoc. cbn [app].
      apply ev_primary_record; [ne|].
      apply (ev_record_list ens [] [] R HR).
      + unfold ens. apply Forall_forall. intros en Hen. apply in_map_iff in Hen. destruct Hen as (kv & <- & Hkv).
        rewrite forallb_forall in Hks, Hvs. rewrite Forall_forall in H.
        split; cbn [e_key fst snd]; [apply Hks; exact Hkv|].
        destruct (MV_beh0 (snd kv) (Hvs kv Hkv) (H kv Hkv (Hvs kv Hkv))) as [HB _]. exact HB.
      + rewrite <- E3, <- distinct_keys_fresh. exact Hd.
      + intros k. reflexivity.
    - (* decimal *)
      split; [|not6]. change (lev (ELit (VDecimal z))) with 7.
      rewrite TV_decimal. apply (beh_ext "decimal" _ 1%Z); [reflexivity | reflexivity | reflexivity | apply print_decimal_plain].
    - split; [|not6]. change (lev (ELit (VDatetime z))) with 7.
      rewrite TV_datetime. apply (beh_ext "datetime" _ 1%Z); [reflexivity | reflexivity | reflexivity | apply print_datetime_plain].
    - split; [|not6]. change (lev (ELit (VDuration z))) with 7.
      rewrite TV_duration. apply (beh_ext "duration" _ 1%Z); [reflexivity | reflexivity | reflexivity | apply print_duration_plain].
    - split; [|not6]. change (lev (ELit (VIP b a p))) with 7.
      rewrite TV_ip. apply (beh_ext "ip" _ 1%Z); [reflexivity | reflexivity | reflexivity | apply print_ip_plain].
  Qed.

  (* ---- the main induction ---- *)
  Ltac chb := apply child_beh; [assumption | auto | cbn [prec_n]; lia | lia].

  Lemma method_call_ext : forall n lhs args ar, builtin_method n = false -> ext_lookup n = Some (ar, true) ->
    method_call n lhs args = Some (ECall n (lhs :: args)).
  Proof.
    intros n lhs args ar Hb He. unfold builtin_method in Hb. cbn [existsb] in Hb.
    repeat (apply orb_false_iff in Hb; destruct Hb as [?H Hb]).
    unfold method_call. rewrite H, H0, H1, H2, H3, H4, He. reflexivity.
  Qed.

  Lemma beh_call_fn : forall n items ar, ext_lookup n = Some (ar, false) -> can_ident n = true ->
    Forall (good_item ")") items ->
    Beh 7 (Id n :: O "(" :: tcommas (map fst items) ++ [O ")"]) (ECall n (map snd items)).
  Proof.
    intros n items ar He Hc Hit R w r HR Hct Hloop. cbn [LoopL PL bnd] in *.
    apply (ev_level 7 _ (ECall n (map snd items)) R); [lia | discriminate | discriminate | | exact Hloop]. cbn [PL].
    rewrite <- !app_comm_cons, <- app_assoc. cbn [app].
    apply ev_primary_ident; [apply tx_ident_reserved; [exact Hc | reflexivity] | apply tx_ident_reserved; [exact Hc | reflexivity] | reflexivity | ne |].
    apply (ev_eoe_call n _ (map snd items) R ar); [exact He | ne | | exact HR].
    apply (ev_exprs_list ")" items [] R); [reflexivity | reflexivity | reflexivity | exact Hit].
  Qed.

  Lemma main_expr : forall e, eok e = true -> M e.
  Proof.
    induction e using expr_ind'; intros Hok; cbn [expr_ok] in Hok; okd.
    - (* ELit *) apply (main_value v Hok).
    - (* EVar *)
      apply M_non6; [unfold lev; cbn [prec_of prec_n]; lia|]. change (lev (EVar x)) with 8. rewrite TE_var.
      apply beh_of_val; [right; right; right; lia|]. intros R HR Hc. cbn [bnd] in Hc. cbn [PL app].
      apply ev_primary_var; [exact HR | txf | txf].
    - (* EAnd *)
      apply M_non6; [unfold lev; cbn [prec_of prec_n]; lia|]. change (lev (EAnd e1 e2)) with 2. rewrite TE_and.
      apply (beh_binop 2 (O "&&") EAnd); [reflexivity | cbn [bnd]; lia | reflexivity | exact ev_and_loop | chb | chb].
    - (* EOr *)
      apply M_non6; [unfold lev; cbn [prec_of prec_n]; lia|]. change (lev (EOr e1 e2)) with 1. rewrite TE_or.
      apply (beh_binop 1 (O "||") EOr); [reflexivity | cbn [bnd]; lia | reflexivity | exact ev_or_loop | chb | chb].
    - (* ENot *)
      assert (HU : UN (TE (ENot e)) (nm (ENot e))).
      { rewrite TE_not. apply (child_unary e PUnary false); [assumption | auto | right; split; [reflexivity | discriminate]]. }
      split; [apply un_beh6; exact HU | intros _; exact HU].
    - (* ENeg *)
      assert (HU : UN (TE (ENeg e)) (nm (ENeg e))).
      { rewrite TE_neg. destruct (starts_with_int e) eqn:Es.
        - apply (child_unary e PAbovePrimary true); [assumption | auto | left; reflexivity].
        - apply (child_unary e PUnary true); [assumption | auto | right; split; [reflexivity | intros _; exact Es]]. }
      split; [apply un_beh6; exact HU | intros _; exact HU].
    - (* EAdd *)
      apply M_non6; [unfold lev; cbn [prec_of prec_n]; lia|]. change (lev (EAdd e1 e2)) with 4. rewrite TE_add.
      apply (beh_binop 4 (O "+") EAdd); [reflexivity | cbn [bnd]; lia | reflexivity | exact ev_add_loop_plus | chb | chb].
    - (* ESub *)
      apply M_non6; [unfold lev; cbn [prec_of prec_n]; lia|]. change (lev (ESub e1 e2)) with 4. rewrite TE_sub.
      apply (beh_binop 4 (O "-") ESub); [reflexivity | cbn [bnd]; lia | reflexivity | exact ev_add_loop_minus | chb | chb].
    - (* EMul *)
      apply M_non6; [unfold lev; cbn [prec_of prec_n]; lia|]. change (lev (EMul e1 e2)) with 5. rewrite TE_mul.
      apply (beh_binop 5 (O "*") EMul); [reflexivity | cbn [bnd]; lia | reflexivity | exact ev_mult_loop | chb | chb].
    - (* EEq *)
      apply M_non6; [unfold lev; cbn [prec_of prec_n]; lia|]. change (lev (EEq e1 e2)) with 3. rewrite TE_eq.
      apply (beh_relop (O "==") EEq); [reflexivity | reflexivity | reflexivity | reflexivity | reflexivity | chb | chb].
    - (* ENe *)
      apply M_non6; [unfold lev; cbn [prec_of prec_n]; lia|]. change (lev (ENe e1 e2)) with 3. rewrite TE_ne.
      apply (beh_relop (O "!=") ENe); [reflexivity | reflexivity | reflexivity | reflexivity | reflexivity | chb | chb].
    - (* ELt *)
      apply M_non6; [unfold lev; cbn [prec_of prec_n]; lia|]. change (lev (ELt e1 e2)) with 3. rewrite TE_lt.
      apply (beh_relop (O "<") ELt); [reflexivity | reflexivity | reflexivity | reflexivity | reflexivity | chb | chb].
    - (* ELe *)
      apply M_non6; [unfold lev; cbn [prec_of prec_n]; lia|]. change (lev (ELe e1 e2)) with 3. rewrite TE_le.
      apply (beh_relop (O "<=") ELe); [reflexivity | reflexivity | reflexivity | reflexivity | reflexivity | chb | chb].
    - (* EGt *)
      apply M_non6; [unfold lev; cbn [prec_of prec_n]; lia|]. change (lev (EGt e1 e2)) with 3. rewrite TE_gt.
      apply (beh_relop (O ">") EGt); [reflexivity | reflexivity | reflexivity | reflexivity | reflexivity | chb | chb].
    - (* EGe *)
      apply M_non6; [unfold lev; cbn [prec_of prec_n]; lia|]. change (lev (EGe e1 e2)) with 3. rewrite TE_ge.
      apply (beh_relop (O ">=") EGe); [reflexivity | reflexivity | reflexivity | reflexivity | reflexivity | chb | chb].
    - (* EIn *)
      apply M_non6; [unfold lev; cbn [prec_of prec_n]; lia|]. change (lev (EIn e1 e2)) with 3. rewrite TE_in.
      apply (beh_relop (K "in") EIn); [reflexivity | reflexivity | reflexivity | reflexivity | reflexivity | chb | chb].
    - (* EContains *)
      apply M_non6; [unfold lev; cbn [prec_of prec_n]; lia|]. change (lev (EContains e1 e2)) with 7. rewrite TE_contains.
      apply (beh_method _ (nm e1) (s_of "contains") [(TC PAccess e2, nm e2)]); [chb | constructor; [apply good_child; auto | constructor] | reflexivity].
    - (* EContainsAll *)
      apply M_non6; [unfold lev; cbn [prec_of prec_n]; lia|]. change (lev (EContainsAll e1 e2)) with 7. rewrite TE_containsAll.
      apply (beh_method _ (nm e1) (s_of "containsAll") [(TC PAccess e2, nm e2)]); [chb | constructor; [apply good_child; auto | constructor] | reflexivity].
    - (* EContainsAny *)
      apply M_non6; [unfold lev; cbn [prec_of prec_n]; lia|]. change (lev (EContainsAny e1 e2)) with 7. rewrite TE_containsAny.
      apply (beh_method _ (nm e1) (s_of "containsAny") [(TC PAccess e2, nm e2)]); [chb | constructor; [apply good_child; auto | constructor] | reflexivity].
    - (* EIsEmpty *)
      apply M_non6; [unfold lev; cbn [prec_of prec_n]; lia|]. change (lev (EIsEmpty e)) with 7. rewrite TE_isEmpty.
      apply (beh_method _ (nm e) (s_of "isEmpty") []); [chb | constructor | reflexivity].
    - (* EAccess *)
      apply M_non6; [unfold lev; cbn [prec_of prec_n]; lia|]. change (lev (EAccess e k)) with 7. rewrite TE_access.
      apply (beh_access _ (nm e)); [chb|]. intros R w r HR Hc Hloop. unfold TA. destruct (can_ident k).
      + split; [discriminate|]. split; [cbn [app]; contc|]. cbn [app].
        apply ev_access_field; [exact HR | txf | exact Hloop].
      + split; [discriminate|]. split; [cbn [app]; contc|]. cbn [app].
        apply (ev_access_index _ k); [apply sv_quote; assumption | exact HR | exact Hloop].
    - (* EHas *)
      apply M_non6; [unfold lev; cbn [prec_of prec_n]; lia|]. change (lev (EHas e k)) with 3. rewrite TE_has.
      apply (beh_reltail _ (nm e)); [chb|]. intros R HR Hc. destruct (can_ident k).
      + split; [discriminate|]. split; [cbn [app]; contc|]. cbn [app]. apply ev_rel_has_ident; [exact HR | txf].
      + split; [discriminate|]. split; [cbn [app]; contc|]. cbn [app]. apply ev_rel_has_str; [apply sv_quote; assumption | exact HR].
    - (* EGetTag *)
      apply M_non6; [unfold lev; cbn [prec_of prec_n]; lia|]. change (lev (EGetTag e1 e2)) with 7. rewrite TE_getTag.
      apply (beh_method _ (nm e1) (s_of "getTag") [(TC PAccess e2, nm e2)]); [chb | constructor; [apply good_child; auto | constructor] | reflexivity].
    - (* EHasTag *)
      apply M_non6; [unfold lev; cbn [prec_of prec_n]; lia|]. change (lev (EHasTag e1 e2)) with 7. rewrite TE_hasTag.
      apply (beh_method _ (nm e1) (s_of "hasTag") [(TC PAccess e2, nm e2)]); [chb | constructor; [apply good_child; auto | constructor] | reflexivity].
    - (* ELike *)
      apply M_non6; [unfold lev; cbn [prec_of prec_n]; lia|]. change (lev (ELike e p)) with 3. rewrite TE_like.
      apply (beh_reltail _ (nm e)); [chb|]. intros R HR Hc.
      split; [discriminate|]. split; [cbn [app]; contc|]. cbn [app]. apply ev_rel_like; [apply pp_quote; assumption | exact HR].
    - (* EIs *)
      apply M_non6; [unfold lev; cbn [prec_of prec_n]; lia|]. change (lev (EIs e ty)) with 3. rewrite TE_is.
      apply (beh_reltail _ (nm e)); [chb|]. intros R HR Hc.
      split; [discriminate|]. split; [cbn [app]; contc|]. cbn [app].
      apply ev_rel_is; [ne | apply ev_TP; [exact HR | txf] | txf].
    - (* EIsIn *)
      apply M_non6; [unfold lev; cbn [prec_of prec_n]; lia|]. change (lev (EIsIn e1 ty e2)) with 3. rewrite TE_isin.
      apply (beh_reltail _ (nm e1)); [chb|]. intros R HR Hc.
      split; [discriminate|]. split; [cbn [app]; contc|]. cbn [app]. rewrite <- app_assoc. cbn [app].
      apply (ev_rel_isin _ ty (TC PAdd e2 ++ R)); [ne | apply ev_TP; [ne | reflexivity] | ne |].
      apply (child_val e2 PAdd 4 R); [assumption | auto | cbn [prec_n]; lia | lia | exact HR | cbn [bnd]; lia | left; lia].
    - (* EIf *)
      apply M_non6; [unfold lev; cbn [prec_of prec_n]; lia|]. change (lev (EIf e1 e2 e3)) with 0. rewrite TE_if.
      apply beh_of_val; [left; reflexivity|]. intros R HR Hc. cbn [PL]. cbn [app]. rewrite <- !app_assoc. cbn [app]. rewrite <- !app_assoc. cbn [app].
      apply (ev_expression_if _ (nm e1) (K "then" :: TC PIf e2 ++ K "else" :: TC PIf e3 ++ R) (TC PIf e2 ++ K "else" :: TC PIf e3 ++ R)
               (nm e2) (K "else" :: TC PIf e3 ++ R) (TC PIf e3 ++ R) (nm e3) R).
      + ne.
      + apply (child_val e1 PIf 0); [assumption | auto | cbn [prec_n]; lia | lia | ne | contb | right; left; reflexivity].
      + apply exact_cons; [reflexivity | ne].
      + apply (child_val e2 PIf 0); [assumption | auto | cbn [prec_n]; lia | lia | ne | contb | right; left; reflexivity].
      + apply exact_cons; [reflexivity | ne].
      + apply (child_val e3 PIf 0); [assumption | auto | cbn [prec_n]; lia | lia | exact HR | exact Hc | right; left; reflexivity].
    - (* ESet *)
      rewrite expr_ok_list in Hok.
      apply M_non6; [unfold lev; cbn [prec_of prec_n]; lia|]. change (lev (ESet es)) with 8. rewrite TE_set, norm_set.
      apply beh_of_val; [right; right; right; lia|]. intros R HR _. cbn [PL].
      set (items := map (fun a => (TC PUnary a, nm a)) es).
      assert (E1 : map (TC PUnary) es = map fst items) by (unfold items; rewrite map_map; reflexivity).
      assert (E2 : map nm es = map snd items) by (unfold items; rewrite map_map; reflexivity).
      rewrite E1, E2. rewrite <- app_comm_cons, <- app_assoc. cbn [app].
      apply ev_primary_set; [ne | | exact HR].
      apply (ev_exprs_list "]" items [] R); [reflexivity | reflexivity | reflexivity |].
      unfold items. apply good_children; [right; reflexivity | exact H | exact Hok].
    - (* ERecord *)
      assert (Hall : eok (ERecord kvs) = true) by (cbn [expr_ok]; repeat (apply andb_true_iff; split); assumption).
      rewrite expr_ok_record in Hall. apply andb_true_iff in Hall. destruct Hall as [Hall Hvs].
      apply andb_true_iff in Hall. destruct Hall as [Hd Hks].
      apply M_non6; [unfold lev; cbn [prec_of prec_n]; lia|]. change (lev (ERecord kvs)) with 8. rewrite TE_record, norm_record.
      apply beh_of_val; [right; right; right; lia|]. intros R HR _. cbn [PL].
      set (ens := map (fun kv : str * expr => (fst kv, TC PUnary (snd kv), nm (snd kv))) kvs : list entry).
      assert (E1 : map (fun kv : str * expr => Sq (fst kv) :: O ":" :: TC PUnary (snd kv)) kvs = map e_toks ens).
      { unfold ens. rewrite map_map. reflexivity. }
      assert (E2 : map (fun kv : str * expr => (fst kv, nm (snd kv))) kvs = map e_kv ens).
      { unfold ens. rewrite map_map. reflexivity. }
      assert (E3 : map fst kvs = map e_key ens).
      { unfold ens. rewrite map_map. reflexivity. }
      rewrite E1, E2. rewrite <- app_comm_cons, <- app_assoc. cbn [app].
      apply ev_primary_record; [ne|].
      apply (ev_record_list ens [] [] R HR).
      + unfold ens. apply Forall_forall. intros en Hen. apply in_map_iff in Hen. destruct Hen as (kv & <- & Hkv).
        rewrite forallb_forall in Hks, Hvs. rewrite Forall_forall in H.
        split; cbn [e_key fst snd]; [apply Hks; exact Hkv|].
        apply child_beh; [apply Hvs; exact Hkv | apply H; [exact Hkv | apply Hvs; exact Hkv] | lia | lia].
      + rewrite <- E3, <- distinct_keys_fresh. exact Hd.
      + intros k. reflexivity.
    - (* ECall *)
      change (eok (ECall n args) = true) in Hok. rewrite expr_ok_call in Hok.
      apply M_non6; [unfold lev; cbn [prec_of prec_n]; lia|]. change (lev (ECall n args)) with 7.
      destruct (ext_lookup n) as [[ar [|]]|] eqn:El; [| |discriminate Hok].
      + okd. assert (Hm : is_method n = true) by (unfold is_method; rewrite El; reflexivity).
        destruct args as [|a rest]; [discriminate|].
        inversion H as [|a' rest' IHa IHrest]; subst. cbn [forallb] in *. okd.
        rewrite (TE_call_method n a rest Hm), norm_call. cbn [map].
        set (items := map (fun x => (TC PAccess x, nm x)) rest).
        assert (E1 : map (TC PAccess) rest = map fst items) by (unfold items; rewrite map_map; reflexivity).
        assert (E2 : map nm rest = map snd items) by (unfold items; rewrite map_map; reflexivity).
        rewrite E1, E2.
        apply (beh_method _ (nm a) n items); [chb | unfold items; apply good_children; [left; reflexivity | assumption | assumption] |].
        apply (method_call_ext n _ _ ar); [apply negb_true_iff; assumption | exact El].
      + okd. assert (Hm : is_method n = false) by (unfold is_method; rewrite El; reflexivity).
        rewrite (TE_call_fn n args Hm), norm_call. unfold TP, path_items. rewrite split_path_ident by assumption.
        cbn [path_items_of]. rewrite toks_of_T, toks_of_nil. cbn [app]. fold (Id n).
        set (items := map (fun x => (TC PAccess x, nm x)) args).
        assert (E1 : map (TC PAccess) args = map fst items) by (unfold items; rewrite map_map; reflexivity).
        assert (E2 : map nm args = map snd items) by (unfold items; rewrite map_map; reflexivity).
        rewrite E1, E2.
        apply (beh_call_fn n items ar); [exact El | assumption |].
        unfold items. apply good_children; [left; reflexivity | assumption | assumption].
    - (* EPartialError *) discriminate Hok.
  Qed.

  Theorem parse_print_expr : forall e rest,
      expr_ok set_order e = true -> rest <> [] -> stop_tok (peek rest) = true ->
      exists f0, forall f, (f0 <= f)%nat ->
        p_expression f (toks_of (expr_items is_printable is_gext set_order print_ip extra e) ++ rest) = POk (norm set_order print_ip e) rest.
  Proof.
    intros e rest Hok Hr Hs. destruct (main_expr e Hok) as [HB _].
    pose proof (beh_down e 0 Hok ltac:(lia) HB) as H0.
    apply (beh_val 0 (TE e) (nm e) rest H0 Hr); [rewrite (stop_cont _ Hs); cbn [bnd]; lia | right; left; reflexivity].
  Qed.
End RT.

(* ------------------------------------------------------------------------------------------------------------ *)
(* policies: entities, scopes, annotations, conditions                                                            *)
(* ------------------------------------------------------------------------------------------------------------ *)
Lemma ev_entity_rest : forall r acc s id R, string_value s = Some id -> R <> [] ->
  Ev (fun f => entity_rest f acc (sep_toks r ++ O "::" :: St s :: R)) (fold_left jf r acc, id) R.
Proof.
  induction r as [|c r IH]; intros acc s id R Hs HR.
  - exists 1. intros f Hf. destruct f as [|f]; [lia|]. cbn [sep_toks app entity_rest fold_left].
    rewrite exact_cons by (reflexivity || ne). tok_eval. rewrite Hs, adv_cons by exact HR. reflexivity.
  - destruct (IH (jf acc c) s id R Hs HR) as [f0 H]. exists (S f0). intros f Hf. destruct f as [|f]; [lia|].
    cbn [sep_toks app entity_rest fold_left]. rewrite exact_cons by (reflexivity || ne). tok_eval.
    rewrite adv_cons by ne. apply H. lia.
Qed.

Lemma ev_p_entity : forall c r s id R, string_value s = Some id -> R <> [] ->
  Ev (fun f => p_entity f (Id c :: sep_toks r ++ O "::" :: St s :: R)) (join_path (c :: r), id) R.
Proof.
  intros c r s id R Hs HR. destruct (ev_entity_rest r c s id R Hs HR) as [f0 H]. exists f0. intros f Hf.
  unfold p_entity. tok_eval. rewrite adv_cons by ne. rewrite <- fold_jf_join. apply H. exact Hf.
Qed.

Definition good_ent (it : list token * uid) : Prop :=
  (forall R, R <> [] -> Ev (fun f => p_entity f (fst it ++ R)) (snd it) R) /\
  exists h tl, fst it = h :: tl /\ tx h "]" = false.

Lemma ev_entlist : forall items acc R, Forall good_ent items ->
  Ev (fun f => p_entlist f (tcommas (map fst items) ++ O "]" :: R) acc) (acc ++ map snd items) (O "]" :: R).
Proof.
  intros items acc R H. revert acc. induction H as [|[X u] items [HE (h & tl & EX & Hh)] Hrest IH]; intros acc.
  - cbn [map tcommas app]. rewrite app_nil_r. exists 1. intros f Hf. destruct f as [|f]; [lia|].
    cbn [p_entlist]. tok_eval. reflexivity.
  - cbn [fst snd] in *. destruct items as [|it2 items'].
    + cbn [map fst snd tcommas app]. destruct (HE (O "]" :: R) ltac:(ne)) as [f0 H0].
      exists (S (S f0)). intros f Hf. destruct f as [|f]; [lia|]. cbn [p_entlist].
      replace (tx (peek (X ++ O "]" :: R)) "]") with false by (subst X; symmetry; exact Hh).
      rewrite H0 by lia. tok_eval. destruct f as [|f]; [lia|]. cbn [p_entlist]. tok_eval. reflexivity.
    + change (tcommas (map fst ((X, u) :: it2 :: items'))) with (X ++ O "," :: tcommas (map fst (it2 :: items'))).
      change (map snd ((X, u) :: it2 :: items')) with (u :: map snd (it2 :: items')).
      rewrite <- app_assoc. cbn [app].
      destruct (HE (O "," :: tcommas (map fst (it2 :: items')) ++ O "]" :: R) ltac:(ne)) as [f0 H0].
      destruct (IH (acc ++ [u])) as [f1 H1].
      exists (S (f0 + f1)). intros f Hf. destruct f as [|f]; [lia|]. cbn [p_entlist].
      replace (tx (peek (X ++ O "," :: tcommas (map fst (it2 :: items')) ++ O "]" :: R)) "]") with false by (subst X; symmetry; exact Hh).
      rewrite H0 by lia. tok_eval. rewrite adv_cons by ne. rewrite <- app_assoc in H1. apply H1. lia.
Qed.

(* scopes *)
Lemma ev_scope_pr_all : forall ts, tx (peek ts) "==" = false -> tx (peek ts) "is" = false -> tx (peek ts) "in" = false ->
  Ev (fun f => p_scope_pr f ts) SAll ts.
Proof. intros ts H1 H2 H3. exists 0. intros f _. unfold p_scope_pr. cbv zeta. rewrite H1, H2, H3. reflexivity. Qed.

Lemma ev_scope_pr_eq : forall l u R, l <> [] -> Ev (fun f => p_entity f l) u R -> Ev (fun f => p_scope_pr f (O "==" :: l)) (SEq u) R.
Proof.
  intros l u R Hl [f0 H]. exists f0. intros f Hf. unfold p_scope_pr. tok_eval. rewrite adv_cons by exact Hl.
  rewrite H by exact Hf. reflexivity.
Qed.

Lemma ev_scope_pr_in : forall l u R, l <> [] -> Ev (fun f => p_entity f l) u R -> Ev (fun f => p_scope_pr f (K "in" :: l)) (SIn u) R.
Proof.
  intros l u R Hl [f0 H]. exists f0. intros f Hf. unfold p_scope_pr. tok_eval. rewrite adv_cons by exact Hl.
  rewrite H by exact Hf. reflexivity.
Qed.

Lemma ev_scope_pr_is : forall l ty R, l <> [] -> Ev (fun f => p_path f l) ty R -> tx (peek R) "in" = false ->
  Ev (fun f => p_scope_pr f (K "is" :: l)) (SIs ty) R.
Proof.
  intros l ty R Hl [f0 H] Hin. exists f0. intros f Hf. unfold p_scope_pr. tok_eval. rewrite adv_cons by exact Hl.
  rewrite H by exact Hf. rewrite Hin. reflexivity.
Qed.

Lemma ev_scope_pr_isin : forall l ty l2 u R, l <> [] -> Ev (fun f => p_path f l) ty (K "in" :: l2) -> l2 <> [] ->
  Ev (fun f => p_entity f l2) u R -> Ev (fun f => p_scope_pr f (K "is" :: l)) (SIsIn ty u) R.
Proof.
  intros l ty l2 u R Hl [f0 H] Hl2 [f1 H1]. exists (f0 + f1). intros f Hf. unfold p_scope_pr. tok_eval.
  rewrite adv_cons by exact Hl. rewrite H by lia. tok_eval. rewrite adv_cons by exact Hl2. rewrite H1 by lia. reflexivity.
Qed.

Lemma ev_scope_act_all : forall ts, tx (peek ts) "==" = false -> tx (peek ts) "in" = false ->
  Ev (fun f => p_scope_action f ts) SAll ts.
Proof. intros ts H1 H3. exists 0. intros f _. unfold p_scope_action. cbv zeta. rewrite H1, H3. reflexivity. Qed.

Lemma ev_scope_act_eq : forall l u R, l <> [] -> Ev (fun f => p_entity f l) u R -> Ev (fun f => p_scope_action f (O "==" :: l)) (SEq u) R.
Proof.
  intros l u R Hl [f0 H]. exists f0. intros f Hf. unfold p_scope_action. tok_eval. rewrite adv_cons by exact Hl.
  rewrite H by exact Hf. reflexivity.
Qed.

Lemma ev_scope_act_in : forall l u R, l <> [] -> tx (peek l) "[" = false -> Ev (fun f => p_entity f l) u R ->
  Ev (fun f => p_scope_action f (K "in" :: l)) (SIn u) R.
Proof.
  intros l u R Hl Hb [f0 H]. exists f0. intros f Hf. unfold p_scope_action. tok_eval. rewrite adv_cons by exact Hl.
  rewrite Hb. rewrite H by exact Hf. reflexivity.
Qed.

Lemma ev_scope_act_inset : forall l es R, l <> [] -> Ev (fun f => p_entlist f l []) es (O "]" :: R) -> R <> [] ->
  Ev (fun f => p_scope_action f (K "in" :: O "[" :: l)) (SInSet es) R.
Proof.
  intros l es R Hl [f0 H] HR. exists f0. intros f Hf. unfold p_scope_action. tok_eval. rewrite adv_cons by ne. tok_eval.
  rewrite adv_cons by exact Hl. rewrite H by exact Hf. rewrite adv_cons by exact HR. reflexivity.
Qed.

(* annotations *)
Definition aitem := (str * str * str)%type.   (* key, quoted text, value *)
Definition a_toks (it : aitem) : list token := [O "@"; Id (fst (fst it)); O "("; St (snd (fst it)); O ")"].
Definition a_kv (it : aitem) : str * str := (fst (fst it), snd it).

Lemma ev_annots : forall l acc seen R, R <> [] -> tx (peek R) "@" = false ->
  Forall (fun it : aitem => string_value (snd (fst it)) = Some (snd it)) l ->
  fresh_keys (map (fun it : aitem => fst (fst it)) l) seen = true ->
  (forall k, existsb (fun kv : str * str => str_eqb (fst kv) k) acc = existsb (str_eqb k) seen) ->
  Ev (fun f => p_annotations f (flat_map a_toks l ++ R) acc) (acc ++ map a_kv l) R.
Proof.
  intros l acc seen R HR Hat H. revert acc seen. induction H as [|[[k s] v] l Hs Hrest IH]; intros acc seen Hf Hinv.
  - cbn [flat_map map app]. rewrite app_nil_r. exists 1. intros f Hf0. destruct f as [|f]; [lia|].
    cbn [p_annotations]. rewrite Hat. reflexivity.
  - cbn [fst snd] in Hs. cbn [map fresh_keys fst] in Hf. apply andb_true_iff in Hf. destruct Hf as [Hf1 Hf2].
    apply negb_true_iff in Hf1.
    assert (Hinv' : forall k0, existsb (fun kv : str * str => str_eqb (fst kv) k0) (acc ++ [(k, v)]) = existsb (str_eqb k0) (k :: seen)).
    { intros k0. rewrite existsb_app. cbn [existsb fst]. rewrite Hinv.
      rewrite orb_false_r, orb_comm, (str_eqb_sym k k0). reflexivity. }
    destruct (IH (acc ++ [(k, v)]) (k :: seen) Hf2 Hinv') as [f0 H0].
    exists (S f0). intros f Hf0. destruct f as [|f]; [lia|].
    cbn [flat_map a_toks fst snd app map a_kv]. cbn [p_annotations]. tok_eval.
    rewrite adv_cons by ne. tok_eval. rewrite adv_cons by ne. rewrite exact_cons by (reflexivity || ne).
    rewrite Hinv, Hf1. tok_eval. rewrite Hs. rewrite adv_cons by ne. rewrite exact_cons by (reflexivity || ne).
    rewrite <- app_assoc in H0. apply H0. lia.
Qed.

(* conditions *)
Definition citem := (bool * list token * expr)%type.
Definition c_toks (it : citem) : list token := I (if fst (fst it) then "when" else "unless") :: O "{" :: snd (fst it) ++ [O "}"].
Definition c_kv (it : citem) : bool * expr := (fst (fst it), snd it).
Definition good_cond (it : citem) : Prop :=
  forall R, Ev (fun f => p_expression f (snd (fst it) ++ O "}" :: R)) (snd it) (O "}" :: R).

Lemma ev_conds : forall l acc R, R <> [] -> tx (peek R) "when" = false -> tx (peek R) "unless" = false ->
  Forall good_cond l ->
  Ev (fun f => p_conditions f (flat_map c_toks l ++ R) acc) (acc ++ map c_kv l) R.
Proof.
  intros l acc R HR H1 H2 H. revert acc. induction H as [|[[k X] v] l Hg Hrest IH]; intros acc.
  - cbn [flat_map map app]. rewrite app_nil_r. exists 1. intros f Hf0. destruct f as [|f]; [lia|].
    cbn [p_conditions]. cbv zeta. rewrite H1, H2. reflexivity.
  - destruct (IH (acc ++ [(k, v)])) as [f0 H0]. destruct (Hg (flat_map c_toks l ++ R)) as [f1 Hg1]. cbn [fst snd] in Hg1.
    exists (S (f0 + f1)). intros f Hf0. destruct f as [|f]; [lia|].
    cbn [flat_map map]. unfold c_toks at 1, c_kv at 1. cbn [fst snd]. rewrite <- !app_comm_cons. rewrite <- !app_assoc. cbn [app].
    cbn [p_conditions]. destruct k; tok_eval; rewrite adv_cons by ne; rewrite exact_cons by (reflexivity || ne);
      rewrite Hg1 by lia; rewrite exact_cons by (reflexivity || ne); rewrite <- app_assoc in H0; apply H0; lia.
Qed.

Lemma toks_of_flat_map : forall (A : Type) (f : A -> list item) l, toks_of (flat_map f l) = flat_map (fun x => toks_of (f x)) l.
Proof. intros A f l. induction l as [|x l IH]; [reflexivity|]. cbn [flat_map]. rewrite toks_of_app, IH. reflexivity. Qed.

Lemma flat_map_map : forall (A B C : Type) (g : B -> list C) (h : A -> B) l, flat_map g (map h l) = flat_map (fun x => g (h x)) l.
Proof. intros A B C g h l. induction l as [|x l IH]; [reflexivity|]. cbn [map flat_map]. rewrite IH. reflexivity. Qed.

Section POL.
  Variables (is_printable is_gext : Z -> bool) (set_order : list value -> list nat) (print_ip : bool -> Z -> Z -> str) (extra : expr -> bool).
  Hypothesis print_ip_plain : forall v6 a p, Forall (fun c => 32 <= c < 127 /\ c <> 34 /\ c <> 92)%Z (print_ip v6 a p).

  Notation Sq' := (Sq is_printable is_gext).
  Notation TEx := (TE is_printable is_gext set_order print_ip).
  Notation TCx := (TC is_printable is_gext set_order print_ip).
  Notation nm := (norm set_order print_ip).

  Definition TU (u : uid) : list token := TP (fst u) ++ [O "::"; Sq' (snd u)].

  Definition STail (s : scope) : list token :=
    match s with
    | SAll => []
    | SEq u => O "==" :: TU u
    | SIn u => K "in" :: TU u
    | SInSet us => K "in" :: O "[" :: tcommas (map TU us) ++ [O "]"]
    | SIs ty => K "is" :: TP ty
    | SIsIn ty u => K "is" :: TP ty ++ K "in" :: TU u
    end.

  Lemma TC_prim_noextra : forall this e, prec_n this <= lev e -> TCx no_extra this e = TEx no_extra e.
  Proof.
    intros this e H. rewrite TC_eq. unfold no_extra. rewrite orb_false_r.
    destruct (Nat.ltb_spec (lev e) (prec_n this)) as [Hlt|Hge]; [lia | reflexivity].
  Qed.

  Definition ent (u : uid) : expr := ELit (VEntity (fst u) (snd u)).

  Lemma TE_ent : forall ex u, TEx ex (ent u) = TU u.
  Proof. intros ex u. unfold ent. rewrite TE_lit, TV_entity. reflexivity. Qed.

  Lemma scope_toks : forall x s, toks_of (scope_items is_printable is_gext set_order print_ip x s) = var_tok x :: STail s.
  Proof.
    intros x s. unfold scope_items. destruct s as [|u|u|us|ty|ty u]; cbn [scope_expr STail].
    - destruct x; reflexivity.
    - fold (ent u). change (toks_of (expr_items is_printable is_gext set_order print_ip no_extra (EEq (EVar x) (ent u)))) with (TEx no_extra (EEq (EVar x) (ent u))).
      rewrite TE_eq, !TC_prim_noextra by (unfold lev; cbn [ent prec_of prec_n]; lia). rewrite TE_var, TE_ent. reflexivity.
    - fold (ent u). change (toks_of (expr_items is_printable is_gext set_order print_ip no_extra (EIn (EVar x) (ent u)))) with (TEx no_extra (EIn (EVar x) (ent u))).
      rewrite TE_in, !TC_prim_noextra by (unfold lev; cbn [ent prec_of prec_n]; lia). rewrite TE_var, TE_ent. reflexivity.
    - change (map (fun u : uid => ELit (VEntity (fst u) (snd u))) us) with (map ent us).
      change (toks_of (expr_items is_printable is_gext set_order print_ip no_extra (EIn (EVar x) (ESet (map ent us))))) with (TEx no_extra (EIn (EVar x) (ESet (map ent us)))).
      rewrite TE_in, !TC_prim_noextra by (unfold lev; cbn [prec_of prec_n]; lia). rewrite TE_var, TE_set. rewrite map_map.
      assert (E : map (fun u => TCx no_extra PUnary (ent u)) us = map TU us).
      { apply map_ext. intros u. rewrite TC_prim_noextra by (unfold lev; cbn [ent prec_of prec_n]; lia). apply TE_ent. }
      rewrite E. reflexivity.
    - change (toks_of (expr_items is_printable is_gext set_order print_ip no_extra (EIs (EVar x) ty))) with (TEx no_extra (EIs (EVar x) ty)).
      rewrite TE_is, !TC_prim_noextra by (unfold lev; cbn [prec_of prec_n]; lia). rewrite TE_var. reflexivity.
    - fold (ent u). change (toks_of (expr_items is_printable is_gext set_order print_ip no_extra (EIsIn (EVar x) ty (ent u)))) with (TEx no_extra (EIsIn (EVar x) ty (ent u))).
      rewrite TE_isin, !TC_prim_noextra by (unfold lev; cbn [ent prec_of prec_n]; lia). rewrite TE_var, TE_ent. reflexivity.
  Qed.

  Lemma uid_ok_inv : forall u, uid_ok u = true ->
    exists c r, split_path (fst u) = c :: r /\ can_ident c = true /\ TU u = Id c :: sep_toks r ++ [O "::"; Sq' (snd u)] /\
                string_value (quote_string is_printable is_gext (snd u)) = Some (snd u).
  Proof.
    intros u H. unfold uid_ok in H. apply andb_true_iff in H. destruct H as [Hp Hid].
    destruct (TP_shape (fst u)) as (c & r & Es & Et). exists c, r. split; [exact Es|]. split.
    - unfold path_ok in Hp. rewrite Es in Hp. cbn [forallb] in Hp. apply andb_true_iff in Hp. destruct Hp as [Hp _]. exact Hp.
    - split; [unfold TU; rewrite Et; reflexivity | apply sv_quote; exact Hid].
  Qed.

  Lemma ev_TU : forall u R, uid_ok u = true -> R <> [] -> Ev (fun f => p_entity f (TU u ++ R)) u R.
  Proof.
    intros u R H HR. destruct (uid_ok_inv u H) as (c & r & Es & Hc & Et & Hs). rewrite Et.
    rewrite <- app_comm_cons, <- app_assoc. cbn [app].
    pose proof (ev_p_entity c r _ (snd u) R Hs HR) as H0. rewrite <- Es, join_split in H0.
    destruct u as [ty id]. exact H0.
  Qed.

  Lemma TU_head : forall u, uid_ok u = true -> exists h tl, TU u = h :: tl /\ tx h "]" = false /\ tx h "[" = false.
  Proof.
    intros u H. destruct (uid_ok_inv u H) as (c & r & Es & Hc & Et & Hs). rewrite Et. eexists _, _. split; [reflexivity|]. split.
    - apply (tx_ident_first c "]" 93%Z []); [exact Hc | reflexivity | reflexivity].
    - apply (tx_ident_first c "[" 91%Z []); [exact Hc | reflexivity | reflexivity].
  Qed.

  Lemma ev_scope_pr_tail : forall s R, principal_scope_ok s = true -> R <> [] -> cont (peek R) <= 0 ->
    Ev (fun f => p_scope_pr f (STail s ++ R)) s R.
  Proof.
    intros s R Hok HR Hc. destruct s as [|u|u|us|ty|ty u]; cbn [principal_scope_ok scope_ok STail] in *.
    - cbn [app]. apply ev_scope_pr_all; txf.
    - cbn [app]. apply ev_scope_pr_eq; [destruct (TU_head u Hok) as (h & tl & -> & _); discriminate | apply ev_TU; assumption].
    - cbn [app]. apply ev_scope_pr_in; [destruct (TU_head u Hok) as (h & tl & -> & _); discriminate | apply ev_TU; assumption].
    - discriminate Hok.
    - cbn [app]. apply ev_scope_pr_is; [ne | apply ev_TP; [exact HR | txf] | txf].
    - apply andb_true_iff in Hok. destruct Hok as [Hty Hu]. cbn [app]. rewrite <- app_assoc. cbn [app].
      apply (ev_scope_pr_isin _ ty (TU u ++ R)); [ne | apply ev_TP; [ne | reflexivity] | ne | apply ev_TU; assumption].
  Qed.

  Lemma ev_scope_act_tail : forall s R, action_scope_ok s = true -> R <> [] -> cont (peek R) <= 0 ->
    Ev (fun f => p_scope_action f (STail s ++ R)) s R.
  Proof.
    intros s R Hok HR Hc. destruct s as [|u|u|us|ty|ty u]; cbn [action_scope_ok scope_ok STail] in *.
    - cbn [app]. apply ev_scope_act_all; txf.
    - cbn [app]. apply ev_scope_act_eq; [destruct (TU_head u Hok) as (h & tl & -> & _); discriminate | apply ev_TU; assumption].
    - cbn [app]. destruct (TU_head u Hok) as (h & tl & E & _ & Hb).
      apply ev_scope_act_in; [rewrite E; discriminate | rewrite E; exact Hb | apply ev_TU; assumption].
    - cbn [app]. rewrite <- app_assoc. cbn [app].
      apply ev_scope_act_inset; [ne | | exact HR].
      assert (HF : Forall good_ent (map (fun u => (TU u, u)) us)).
      { apply Forall_forall. intros it Hit. apply in_map_iff in Hit. destruct Hit as (u & <- & Hu).
        rewrite forallb_forall in Hok. specialize (Hok u Hu). split; cbn [fst snd].
        + intros R' HR'. apply ev_TU; assumption.
        + destruct (TU_head u Hok) as (h & tl & E & Hb & _). exists h, tl. split; assumption. }
      pose proof (ev_entlist (map (fun u => (TU u, u)) us) [] R HF) as H0.
      rewrite !map_map in H0. cbn [fst snd app] in H0. rewrite map_id in H0. exact H0.
    - discriminate Hok.
    - discriminate Hok.
  Qed.

  (* ---- the token list of a policy ---- *)
  Definition AT (annots : list (str * str)) : list token :=
    flat_map a_toks (map (fun kv : str * str => (fst kv, quote_string is_printable is_gext (snd kv), snd kv)) annots).
  Definition CT (conds : list (bool * expr)) : list token :=
    flat_map c_toks (map (fun c : bool * expr => (fst c, TEx extra (snd c), nm (snd c))) conds).
  Definition PT (annots : list (str * str)) (p : policy) (rest : list token) : list token :=
    AT annots ++ I (if p_effect p then "permit" else "forbid") :: O "(" :: var_tok VPrincipal :: STail (p_principal p) ++
    O "," :: var_tok VAction :: STail (p_action p) ++ O "," :: var_tok VResource :: STail (p_resource p) ++
    O ")" :: CT (p_conds p) ++ O ";" :: rest.

  Notation SIx := (scope_items is_printable is_gext set_order print_ip).

  Lemma scope_general_toks : forall s1 s2 s3,
      toks_of ([op "("; indent] ++ SIx VPrincipal s1 ++ [op ","; indent] ++ SIx VAction s2
               ++ [op ","; indent] ++ SIx VResource s3 ++ [nl; op ")"])
      = O "(" :: var_tok VPrincipal :: STail s1 ++ O "," :: var_tok VAction :: STail s2 ++ O "," :: var_tok VResource :: STail s3 ++ [O ")"].
  Proof. intros s1 s2 s3. rewrite !toks_of_app, !scope_toks. reflexivity. Qed.

  Lemma policy_toks : forall annots p rest,
    toks_of (policy_items is_printable is_gext set_order print_ip extra annots p) ++ rest = PT annots p rest.
  Proof.
    intros annots p rest. destruct p as [eff s1 s2 s3 conds]. unfold policy_items, PT.
    cbn [p_effect p_principal p_action p_resource p_conds]. rewrite !toks_of_app.
    match goal with
    | |- (_ ++ (_ ++ (toks_of ?m ++ _))) ++ _ = _ =>
      assert (ES : toks_of m = O "(" :: var_tok VPrincipal :: STail s1 ++ O "," :: var_tok VAction :: STail s2 ++ O "," :: var_tok VResource :: STail s3 ++ [O ")"])
    end.
    { destruct s1; [destruct s2; [destruct s3; [reflexivity|..]|..]|..]; cbv zeta; apply scope_general_toks. }
    rewrite ES. clear ES.
    rewrite !toks_of_flat_map.
    assert (EA : flat_map (fun x : str * str => toks_of [op "@"; T TIdent (fst x); op "("; str_item is_printable is_gext (snd x); op ")"; nl]) annots
                 = AT annots).
    { unfold AT. rewrite flat_map_map. apply flat_map_ext. intros kv. reflexivity. }
    assert (EC : flat_map (fun x : bool * expr => toks_of ([nl; idt (if fst x then "when" else "unless"); sp; op "{"; sp]
                    ++ expr_items is_printable is_gext set_order print_ip extra (snd x) ++ [sp; op "}"])) conds
                 = CT conds).
    { unfold CT. rewrite flat_map_map. apply flat_map_ext. intros c. rewrite !toks_of_app. unfold c_toks. cbn [fst snd].
      destruct (fst c); reflexivity. }
    rewrite EA, EC. repeat first [rewrite <- app_assoc | progress cbn [app]].
    destruct eff; reflexivity.
  Qed.

  Lemma map_pair_id : forall (A B : Type) (l : list (A * B)), map (fun kv => (fst kv, snd kv)) l = l.
  Proof. intros A B l. induction l as [|[a b] l IH]; [reflexivity|]. cbn [map fst snd]. rewrite IH. reflexivity. Qed.

  Lemma first_pos : forall annots t l, 
    let first := peek (AT annots ++ mk t :: l) in (t_off first, t_line first, t_col first) = (0, 0, 0)%Z.
  Proof. intros annots t l. destruct annots as [|kv annots]; reflexivity. Qed.

  Theorem parse_print_policy : forall annots p rest,
      policy_ok set_order annots p = true -> rest <> [] ->
      exists f0, forall f, (f0 <= f)%nat ->
        p_policy f (toks_of (policy_items is_printable is_gext set_order print_ip extra annots p) ++ rest)
        = POk {| pp_annots := annots; pp_pos := (0, 0, 0)%Z; pp_policy := norm_policy set_order print_ip p |} rest.
  Proof.
    intros annots p rest Hok Hrest. rewrite policy_toks. destruct p as [eff s1 s2 s3 conds].
    unfold policy_ok in Hok. cbn [p_effect p_principal p_action p_resource p_conds] in Hok.
    apply andb_true_iff in Hok. destruct Hok as [Hok Hconds]. apply andb_true_iff in Hok. destruct Hok as [Hok Hs3].
    apply andb_true_iff in Hok. destruct Hok as [Hok Hs2]. apply andb_true_iff in Hok. destruct Hok as [Han Hs1].
    unfold annots_ok in Han. apply andb_true_iff in Han. destruct Han as [Hdist Hvals].
    unfold PT, norm_policy. cbn [p_effect p_principal p_action p_resource p_conds].
    set (rc := CT conds ++ O ";" :: rest).
    set (r3 := STail s3 ++ O ")" :: rc).
    set (r2 := STail s2 ++ O "," :: var_tok VResource :: r3).
    set (r1 := STail s1 ++ O "," :: var_tok VAction :: r2).
    set (tk := I (if eff then "permit" else "forbid")).
    assert (Nrc : rc <> []) by (unfold rc; ne).
    assert (N3 : r3 <> []) by (unfold r3; ne).
    assert (N2 : r2 <> []) by (unfold r2; ne).
    assert (N1 : r1 <> []) by (unfold r1; ne).
    assert (HA : Ev (fun f => p_annotations f (AT annots ++ tk :: O "(" :: var_tok VPrincipal :: r1) []) annots
                    (tk :: O "(" :: var_tok VPrincipal :: r1)).
    { unfold AT.
      pose proof (ev_annots (map (fun kv : str * str => (fst kv, quote_string is_printable is_gext (snd kv), snd kv)) annots) [] []
                            (tk :: O "(" :: var_tok VPrincipal :: r1)) as H0.
      rewrite !map_map in H0. cbn [a_kv fst snd app] in H0. unfold a_kv in H0. cbn [fst snd] in H0. rewrite map_pair_id in H0.
      apply H0.
      - ne.
      - unfold tk. destruct eff; reflexivity.
      - apply Forall_forall. intros it Hit. apply in_map_iff in Hit. destruct Hit as (kv & <- & Hkv). cbn [fst snd].
        rewrite forallb_forall in Hvals. specialize (Hvals kv Hkv). apply andb_true_iff in Hvals. destruct Hvals as [_ Hv].
        apply sv_quote. exact Hv.
      - rewrite <- distinct_keys_fresh. exact Hdist.
      - intros k. reflexivity. }
    assert (HS1 : Ev (fun f => p_scope_pr f r1) s1 (O "," :: var_tok VAction :: r2)).
    { unfold r1. apply ev_scope_pr_tail; [exact Hs1 | ne | contc]. }
    assert (HS2 : Ev (fun f => p_scope_action f r2) s2 (O "," :: var_tok VResource :: r3)).
    { unfold r2. apply ev_scope_act_tail; [exact Hs2 | ne | contc]. }
    assert (HS3 : Ev (fun f => p_scope_pr f r3) s3 (O ")" :: rc)).
    { unfold r3. apply ev_scope_pr_tail; [exact Hs3 | ne | contc]. }
    assert (HC : Ev (fun f => p_conditions f rc []) (map (fun c : bool * expr => (fst c, nm (snd c))) conds) (O ";" :: rest)).
    { unfold rc, CT.
      pose proof (ev_conds (map (fun c : bool * expr => (fst c, TEx extra (snd c), nm (snd c))) conds) [] (O ";" :: rest)) as H0.
      rewrite !map_map in H0. unfold c_kv in H0. cbn [fst snd app] in H0. apply H0.
      - ne.
      - reflexivity.
      - reflexivity.
      - apply Forall_forall. intros it Hit. apply in_map_iff in Hit. destruct Hit as (c & <- & Hc).
        rewrite forallb_forall in Hconds. specialize (Hconds c Hc). intros R. cbn [fst snd].
        apply (parse_print_expr is_printable is_gext set_order print_ip extra print_ip_plain (snd c) (O "}" :: R) Hconds);
          [discriminate | reflexivity]. }
    destruct HA as [fa HA]. destruct HS1 as [f1 HS1]. destruct HS2 as [f2 HS2]. destruct HS3 as [f3 HS3]. destruct HC as [fc HC].
    exists (fa + f1 + f2 + f3 + fc). intros f Hf.
    unfold p_policy, bind, bexact.
    rewrite HA by lia. cbv beta zeta. cbn [peek].
    assert (Etk : (if tx tk "permit" then Some true else if tx tk "forbid" then Some false else None) = Some eff).
    { unfold tk. destruct eff; reflexivity. }
    rewrite Etk. rewrite adv_cons by ne. rewrite exact_cons by (reflexivity || ne).
    rewrite exact_cons by (reflexivity || exact N1). rewrite HS1 by lia.
    rewrite exact_cons by (reflexivity || ne). rewrite exact_cons by (reflexivity || exact N2). rewrite HS2 by lia.
    rewrite exact_cons by (reflexivity || ne). rewrite exact_cons by (reflexivity || exact N3). rewrite HS3 by lia.
    tok_eval. rewrite exact_cons by (reflexivity || exact Nrc). rewrite HC by lia.
    rewrite exact_cons by (reflexivity || exact Hrest).
    unfold tk. change (I (if eff then "permit"%string else "forbid"%string)) with (mk (TIdent, s_of (if eff then "permit"%string else "forbid"%string))).
    rewrite first_pos. reflexivity.
  Qed.

  (* ---- a whole document: several policies followed by the EOF token ---- *)
  Definition doc_toks (ps : list (list (str * str) * policy)) : list token :=
    flat_map (fun ap => toks_of (policy_items is_printable is_gext set_order print_ip extra (fst ap) (snd ap))) ps ++ [eof_token].
  Definition doc_result (ap : list (str * str) * policy) : ppolicy :=
    {| pp_annots := fst ap; pp_pos := (0, 0, 0)%Z; pp_policy := norm_policy set_order print_ip (snd ap) |}.

  Lemma PT_head : forall annots p rest, t_type (peek (PT annots p rest)) = TOperator \/ t_type (peek (PT annots p rest)) = TIdent.
  Proof.
    intros annots p rest. unfold PT. destruct annots as [|kv annots]; [right|left]; reflexivity.
  Qed.

  Lemma parse_print_policies_acc : forall ps acc,
    Forall (fun ap => policy_ok set_order (fst ap) (snd ap) = true) ps ->
    Ev (fun f => p_policies f (doc_toks ps) acc) (acc ++ map doc_result ps) [eof_token].
  Proof.
    induction ps as [|[an p] ps IH]; intros acc Hok.
    - exists 1. intros f Hf. destruct f as [|f]; [lia|]. cbn [map]. rewrite app_nil_r. reflexivity.
    - inversion Hok as [|ap ps' Hp Hps]; subst. cbn [fst snd] in Hp.
      assert (Hne : doc_toks ps <> []) by (unfold doc_toks; ne).
      destruct (parse_print_policy an p (doc_toks ps) Hp Hne) as [f1 H1].
      destruct (IH (acc ++ [doc_result (an, p)]) Hps) as [f2 H2].
      exists (S (f1 + f2)). intros f Hf. destruct f as [|f]; [lia|].
      assert (E : doc_toks ((an, p) :: ps) = toks_of (policy_items is_printable is_gext set_order print_ip extra an p) ++ doc_toks ps).
      { unfold doc_toks. cbn [flat_map fst snd]. rewrite <- app_assoc. reflexivity. }
      rewrite E. cbn [p_policies].
      assert (Hhd : t_type (peek (toks_of (policy_items is_printable is_gext set_order print_ip extra an p) ++ doc_toks ps)) = TOperator
                    \/ t_type (peek (toks_of (policy_items is_printable is_gext set_order print_ip extra an p) ++ doc_toks ps)) = TIdent).
      { rewrite policy_toks. apply PT_head. }
      unfold bind. rewrite H1 by lia. cbn [map]. rewrite <- app_assoc in H2. cbn [app] in H2.
      destruct Hhd as [-> | ->]; apply H2; lia.
  Qed.

  Theorem parse_print_policies : forall ps,
    Forall (fun ap => policy_ok set_order (fst ap) (snd ap) = true) ps ->
    exists f0, forall f, (f0 <= f)%nat -> p_policies f (doc_toks ps) [] = POk (map doc_result ps) [eof_token].
  Proof. intros ps H. apply (parse_print_policies_acc ps [] H). Qed.
End POL.

Print Assumptions parse_print_expr.
Print Assumptions parse_print_policy.
Print Assumptions parse_print_policies.
