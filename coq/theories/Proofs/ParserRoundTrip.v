(* Parser round trip, part 2: parse (tokens (print e)) = norm e *)
From Coq Require Import ZArith List Bool String Lia Arith.
Import ListNotations.
From Cedar Require Import Base.Int64 Base.Utf8 Base.Utf8Enc Lang.Value Impl.Like Lang.Expr Impl.Eval Impl.Text Impl.Decimal Impl.Duration Impl.Datetime
  Impl.Scanner Impl.Tokenizer Impl.Quote Impl.Parser Impl.Printer Lang.RoundTrip Generated.Tables.
From Cedar Require Import Proofs.QuoteProofs Proofs.ParserFuel Proofs.DecimalProofs Proofs.ParserRoundTrip1.

Ltac contb := cbn [bnd]; contc.

Fixpoint tcommas (l : list (list token)) : list token :=
  match l with
  | [] => []
  | x :: r => match r with [] => x | _ => x ++ O "," :: tcommas r end
  end.

Section RT.
  Variables (is_printable is_gext : Z -> bool) (set_order : list value -> list nat) (print_ip : bool -> Z -> Z -> str) (extra : expr -> bool).
  Hypothesis print_ip_plain : forall v6 a p, Forall (fun c => 32 <= c < 127 /\ c <> 34 /\ c <> 92)%Z (print_ip v6 a p).

  Notation EI := (expr_items is_printable is_gext set_order print_ip extra).
  Notation VI := (value_items is_printable is_gext set_order print_ip).
  Notation commas' := (commas).
  Definition TE (e : expr) : list token := toks_of (EI e).
  Definition TV (v : value) : list token := toks_of (VI v).
  Definition lev (e : expr) : nat := prec_n (prec_of e).
  Definition TC (this : prec) (c : expr) : list token := toks_of (child extra this c (EI c)).
  Definition Sq (s : str) : token := St (quote_string is_printable is_gext s).
  Definition TP (ty : str) : list token := toks_of (path_items ty).

  Lemma toks_commas : forall l, toks_of (commas l) = tcommas (map toks_of l).
  Proof.
    induction l as [|x r IH]; [reflexivity|].
    destruct r as [|y r']; [reflexivity|].
    change (commas (x :: y :: r')) with (x ++ [op ","; sp] ++ commas (y :: r')).
    rewrite toks_of_app, toks_of_app, IH. reflexivity.
  Qed.

  Lemma TC_eq : forall this c,
    TC this c = if Nat.ltb (lev c) (prec_n this) || extra c then O "(" :: TE c ++ [O ")"] else TE c.
  Proof.
    intros this c. unfold TC, child, lev. destruct (Nat.ltb _ _ || extra c); [|reflexivity].
    unfold parens. rewrite !toks_of_app. reflexivity.
  Qed.

  Definition TA (k : str) : list token := if can_ident k then [O "."; Id k] else [O "["; Sq k; O "]"].

  Lemma TE_lit v : TE (ELit v) = TV v. Proof. reflexivity. Qed.
  Lemma TE_var x : TE (EVar x) = [var_tok x]. Proof. destruct x; reflexivity. Qed.
  Lemma TE_not a : TE (ENot a) = O "!" :: TC PUnary a. Proof. reflexivity. Qed.
  Lemma TE_neg a : TE (ENeg a) = O "-" :: (if starts_with_int a then TC PAbovePrimary a else TC PUnary a).
  Proof. unfold TE. cbn [expr_items]. rewrite toks_of_app. destruct (starts_with_int a); reflexivity. Qed.
  Lemma TE_access a k : TE (EAccess a k) = TC PAccess a ++ TA k.
  Proof. unfold TE. cbn [expr_items]. rewrite toks_of_app. unfold TA, attr_items. destruct (can_ident k); reflexivity. Qed.

  Ltac teq := unfold TE, TC, TP; cbn [expr_items]; unfold infix; repeat (rewrite ?toks_of_app, ?toks_of_op, ?toks_of_kw, ?toks_of_sp, ?toks_of_idt, ?toks_of_T); try reflexivity.

  Lemma TE_or a b : TE (EOr a b) = TC POr a ++ O "||" :: TC PAnd b. Proof. teq. Qed.
  Lemma TE_and a b : TE (EAnd a b) = TC PAnd a ++ O "&&" :: TC PRel b. Proof. teq. Qed.
  Lemma TE_add a b : TE (EAdd a b) = TC PAdd a ++ O "+" :: TC PMul b. Proof. teq. Qed.
  Lemma TE_sub a b : TE (ESub a b) = TC PAdd a ++ O "-" :: TC PMul b. Proof. teq. Qed.
  Lemma TE_mul a b : TE (EMul a b) = TC PMul a ++ O "*" :: TC PUnary b. Proof. teq. Qed.
  Lemma TE_lt a b : TE (ELt a b) = TC PAdd a ++ O "<" :: TC PAdd b. Proof. teq. Qed.
  Lemma TE_le a b : TE (ELe a b) = TC PAdd a ++ O "<=" :: TC PAdd b. Proof. teq. Qed.
  Lemma TE_gt a b : TE (EGt a b) = TC PAdd a ++ O ">" :: TC PAdd b. Proof. teq. Qed.
  Lemma TE_ge a b : TE (EGe a b) = TC PAdd a ++ O ">=" :: TC PAdd b. Proof. teq. Qed.
  Lemma TE_eq a b : TE (EEq a b) = TC PAdd a ++ O "==" :: TC PAdd b. Proof. teq. Qed.
  Lemma TE_ne a b : TE (ENe a b) = TC PAdd a ++ O "!=" :: TC PAdd b. Proof. teq. Qed.
  Lemma TE_in a b : TE (EIn a b) = TC PAdd a ++ K "in" :: TC PAdd b. Proof. teq. Qed.
  Lemma TE_has a k : TE (EHas a k) = TC PAdd a ++ K "has" :: (if can_ident k then [Id k] else [Sq k]).
  Proof. teq. destruct (can_ident k); reflexivity. Qed.
  Lemma TE_is a ty : TE (EIs a ty) = TC PAdd a ++ K "is" :: TP ty. Proof. teq. Qed.
  Lemma TE_isin a ty b : TE (EIsIn a ty b) = TC PAdd a ++ K "is" :: TP ty ++ K "in" :: TC PAdd b. Proof. teq. Qed.
  Lemma TE_like a p : TE (ELike a p) = TC PAdd a ++ [K "like"; St (quote_pattern is_printable is_gext p)]. Proof. teq. Qed.
  Lemma TE_if c t f : TE (EIf c t f) = K "if" :: TC PIf c ++ K "then" :: TC PIf t ++ K "else" :: TC PIf f. Proof. teq. Qed.
  Lemma TE_contains a b : TE (EContains a b) = TC PAccess a ++ O "." :: I "contains" :: O "(" :: TC PAccess b ++ [O ")"]. Proof. teq. Qed.
  Lemma TE_containsAll a b : TE (EContainsAll a b) = TC PAccess a ++ O "." :: I "containsAll" :: O "(" :: TC PAccess b ++ [O ")"]. Proof. teq. Qed.
  Lemma TE_containsAny a b : TE (EContainsAny a b) = TC PAccess a ++ O "." :: I "containsAny" :: O "(" :: TC PAccess b ++ [O ")"]. Proof. teq. Qed.
  Lemma TE_getTag a b : TE (EGetTag a b) = TC PAccess a ++ O "." :: I "getTag" :: O "(" :: TC PAccess b ++ [O ")"]. Proof. teq. Qed.
  Lemma TE_hasTag a b : TE (EHasTag a b) = TC PAccess a ++ O "." :: I "hasTag" :: O "(" :: TC PAccess b ++ [O ")"]. Proof. teq. Qed.
  Lemma TE_isEmpty a : TE (EIsEmpty a) = TC PAccess a ++ [O "."; I "isEmpty"; O "("; O ")"]. Proof. teq. Qed.

  Lemma args_items_map : forall this l,
    (fix go (this : prec) (l : list expr) {struct l} : list (list item) :=
       match l with [] => [] | x :: r => child extra this x (EI x) :: go this r end) this l
    = map (fun x => child extra this x (EI x)) l.
  Proof. intros this. induction l as [|x r IH]; [reflexivity|]. cbn [map]. rewrite <- IH. reflexivity. Qed.

  Lemma TE_set es : TE (ESet es) = O "[" :: tcommas (map (TC PUnary) es) ++ [O "]"].
  Proof. teq. rewrite args_items_map. rewrite toks_commas, map_map. reflexivity. Qed.

  Lemma TE_call_fn n args : is_method n = false ->
    TE (ECall n args) = TP n ++ O "(" :: tcommas (map (TC PAccess) args) ++ [O ")"].
  Proof. intros H. teq. rewrite H. teq. rewrite args_items_map. rewrite toks_commas, map_map. reflexivity. Qed.

  Lemma TE_call_method n a rest : is_method n = true ->
    TE (ECall n (a :: rest)) = TC PAccess a ++ O "." :: Id n :: O "(" :: tcommas (map (TC PAccess) rest) ++ [O ")"].
  Proof. intros H. teq. rewrite H. teq. rewrite args_items_map. rewrite toks_commas, map_map. reflexivity. Qed.

  Lemma rec_items_map : forall l,
    (fix go (l : list (str * expr)) : list (list item) :=
       match l with [] => [] | (k, x) :: r => ([str_item is_printable is_gext k; op ":"] ++ child extra PUnary x (EI x)) :: go r end) l
    = map (fun kv => [str_item is_printable is_gext (fst kv); op ":"] ++ child extra PUnary (snd kv) (EI (snd kv))) l.
  Proof. induction l as [|[k x] r IH]; [reflexivity|]. cbn [map fst snd]. rewrite <- IH. reflexivity. Qed.

  Lemma TE_record kvs : TE (ERecord kvs) = O "{" :: tcommas (map (fun kv => Sq (fst kv) :: O ":" :: TC PUnary (snd kv)) kvs) ++ [O "}"].
  Proof. teq. rewrite rec_items_map. rewrite toks_commas, map_map. reflexivity. Qed.

  (* ---- values ---- *)
  Lemma value_set_items_map : forall l,
    (fix go (l : list value) : list (list item) := match l with [] => [] | x :: r => VI x :: go r end) l = map VI l.
  Proof. induction l as [|x r IH]; [reflexivity|]. cbn [map]. rewrite <- IH. reflexivity. Qed.

  Lemma value_rec_items_map : forall l,
    (fix go (l : list (str * value)) : list (list item) :=
       match l with [] => [] | (k, x) :: r => ([str_item is_printable is_gext k; op ":"] ++ VI x) :: go r end) l
    = map (fun kv => [str_item is_printable is_gext (fst kv); op ":"] ++ VI (snd kv)) l.
  Proof. induction l as [|[k x] r IH]; [reflexivity|]. cbn [map fst snd]. rewrite <- IH. reflexivity. Qed.

  Lemma TV_true : TV (VBool true) = [K "true"]. Proof. reflexivity. Qed.
  Lemma TV_false : TV (VBool false) = [K "false"]. Proof. reflexivity. Qed.
  Lemma TV_long z : TV (VLong z) = if (z <? 0)%Z then [O "-"; Nt (print_nat (- z))] else [Nt (print_nat z)].
  Proof. unfold TV. cbn [value_items]. destruct (z <? 0)%Z; reflexivity. Qed.
  Lemma TV_string s : TV (VString s) = [Sq s]. Proof. reflexivity. Qed.
  Lemma TV_entity ty id : TV (VEntity ty id) = TP ty ++ [O "::"; Sq id].
  Proof. unfold TV, TP. cbn [value_items]. rewrite toks_of_app. reflexivity. Qed.
  Lemma TV_set l : TV (VSet l) = O "[" :: tcommas (map (fun i => nth i (map TV l) []) (set_order l)) ++ [O "]"].
  Proof.
    unfold TV. cbn [value_items]. rewrite value_set_items_map.
    rewrite !toks_of_app, toks_of_op, toks_commas, map_map.
    assert (E : map (fun x => toks_of (nth x (map VI l) [])) (set_order l) = map (fun i => nth i (map TV l) []) (set_order l)).
    { apply map_ext. intros i. change (@nil token) with (toks_of []). rewrite <- (map_map VI toks_of). rewrite map_nth. reflexivity. }
    rewrite E. reflexivity.
  Qed.
  Lemma TV_record kvs : TV (VRecord kvs) = O "{" :: tcommas (map (fun kv => Sq (fst kv) :: O ":" :: TV (snd kv)) kvs) ++ [O "}"].
  Proof.
    unfold TV. cbn [value_items]. rewrite value_rec_items_map.
    rewrite !toks_of_app, toks_of_op, toks_commas, map_map. reflexivity.
  Qed.
  Definition ext_toks (fn : string) (arg : str) : list token := [I fn; O "("; St ([34%Z] ++ arg ++ [34%Z]); O ")"].
  Lemma TV_decimal z : TV (VDecimal z) = ext_toks "decimal" (print_decimal z). Proof. reflexivity. Qed.
  Lemma TV_datetime z : TV (VDatetime z) = ext_toks "datetime" (print_datetime z). Proof. reflexivity. Qed.
  Lemma TV_duration z : TV (VDuration z) = ext_toks "duration" (print_duration z). Proof. reflexivity. Qed.
  Lemma TV_ip v6 a p : TV (VIP v6 a p) = ext_toks "ip" (print_ip v6 a p). Proof. reflexivity. Qed.

  Notation nv := (norm_value set_order print_ip).
  Notation nm := (norm set_order print_ip).
  Notation eok := (expr_ok set_order).
  Notation vok := (value_ok set_order).

  Lemma norm_value_set l : nv (VSet l) = ESet (map (fun i => nth i (map nv l) (ELit (VBool false))) (set_order l)).
  Proof.
    cbn [norm_value].
    assert (E : (fix go (l : list value) : list expr := match l with [] => [] | x :: r => nv x :: go r end) l = map nv l).
    { induction l as [|x r IH]; [reflexivity|]. cbn [map]. rewrite <- IH. reflexivity. }
    rewrite E. reflexivity.
  Qed.
  Lemma norm_value_record kvs : nv (VRecord kvs) = ERecord (map (fun kv => (fst kv, nv (snd kv))) kvs).
  Proof.
    cbn [norm_value]. f_equal. induction kvs as [|[k x] r IH]; [reflexivity|]. cbn [map fst snd]. rewrite <- IH. reflexivity.
  Qed.
  Lemma norm_set es : nm (ESet es) = ESet (map nm es).
  Proof. reflexivity. Qed.
  Lemma norm_call n args : nm (ECall n args) = ECall n (map nm args).
  Proof. reflexivity. Qed.
  Lemma norm_record kvs : nm (ERecord kvs) = ERecord (map (fun kv => (fst kv, nm (snd kv))) kvs).
  Proof. cbn [norm]. f_equal. induction kvs as [|[k x] r IH]; [reflexivity|]. cbn [map fst snd]. rewrite <- IH. reflexivity. Qed.

  Lemma value_ok_set l : vok (VSet l) = order_ok set_order l && forallb vok l.
  Proof. reflexivity. Qed.
  Lemma value_ok_record kvs : vok (VRecord kvs) =
    distinct_keys kvs && forallb (fun kv : str * value => str_ok2 (fst kv)) kvs && forallb (fun kv => vok (snd kv)) kvs.
  Proof. cbn [value_ok]. f_equal. induction kvs as [|[k x] r IH]; [reflexivity|]. cbn [forallb snd]. rewrite <- IH. reflexivity. Qed.
  Lemma expr_ok_list : forall l,
    (fix go (l : list expr) : bool := match l with [] => true | x :: r => eok x && go r end) l = forallb eok l.
  Proof. reflexivity. Qed.
  Lemma expr_ok_set es : eok (ESet es) = forallb eok es.
  Proof. cbn [expr_ok]. apply expr_ok_list. Qed.
  Lemma expr_ok_record kvs : eok (ERecord kvs) =
    distinct_keys kvs && forallb (fun kv : str * expr => str_ok2 (fst kv)) kvs && forallb (fun kv => eok (snd kv)) kvs.
  Proof. cbn [expr_ok]. f_equal. induction kvs as [|[k x] r IH]; [reflexivity|]. cbn [forallb snd]. rewrite <- IH. reflexivity. Qed.
  Lemma expr_ok_call n args : eok (ECall n args) =
    match ext_lookup n with
    | Some (_, true) => negb (builtin_method n) && can_ident n && (match args with [] => false | _ => true end) && forallb eok args
    | Some (_, false) => can_ident n && forallb eok args
    | None => false
    end.
  Proof. cbn [expr_ok]. rewrite expr_ok_list. reflexivity. Qed.

  (* ---- the first token of a rendering ---- *)
  Definition HG (e : expr) (h : token) : Prop :=
    tx h ")" = false /\ tx h "]" = false /\ (1 <= lev e -> tx h "if" = false) /\
    (7 <= lev e -> is_op h = false /\ (is_int h = true -> starts_with_int e = true)).
  Definition Hd (e : expr) : Prop := exists h tl, TE e = h :: tl /\ HG e h.

  Ltac hg_split := unfold HG; split; [|split; [|split; [intros ?|intros ?; split; [|intros ?]]]].
  Ltac hg_closed :=
    unfold HG; repeat split; intros;
    try (vm_compute; reflexivity);
    try (match goal with H : is_int _ = true |- _ => vm_compute in H; discriminate H end).

  Lemma HG_ident : forall e c, can_ident c = true -> starts_with_int e = false \/ True -> HG e (Id c).
  Proof.
    intros e c H _. hg_split.
    - apply (tx_ident_first c ")" 41%Z []); [exact H | reflexivity | reflexivity].
    - apply (tx_ident_first c "]" 93%Z []); [exact H | reflexivity | reflexivity].
    - apply tx_ident_reserved; [exact H | reflexivity].
    - unfold is_op. rewrite (tx_ident_first c "-" 45%Z []), (tx_ident_first c "!" 33%Z []); try reflexivity; exact H.
    - match goal with Hi : is_int _ = true |- _ => rewrite is_int_Id in Hi; discriminate Hi end.
  Qed.

  Lemma HG_string : forall e s, HG e (Sq s).
  Proof.
    intros e s. unfold Sq, quote_string. cbn [app]. hg_split.
    - reflexivity.
    - reflexivity.
    - reflexivity.
    - reflexivity.
    - match goal with Hi : is_int _ = true |- _ => rewrite is_int_St in Hi; discriminate Hi end.
  Qed.

  Lemma print_nat_ne : forall z, print_nat z <> [].
  Proof. intros z. unfold print_nat. apply digits_of_nonempty. Qed.

  Lemma HG_int : forall e z, (7 <= lev e -> starts_with_int e = true) -> HG e (Nt (print_nat z)).
  Proof.
    intros e z Hs. pose proof (print_nat_ne z) as Hne. pose proof (print_nat_all_digits z) as Hd0.
    hg_split.
    - apply (tx_int_tok _ ")" 41%Z []); [exact Hne | exact Hd0 | reflexivity | reflexivity].
    - apply (tx_int_tok _ "]" 93%Z []); [exact Hne | exact Hd0 | reflexivity | reflexivity].
    - apply (tx_int_tok _ "if" 105%Z [102%Z]); [exact Hne | exact Hd0 | reflexivity | reflexivity].
    - unfold is_op. rewrite (tx_int_tok _ "-" 45%Z []), (tx_int_tok _ "!" 33%Z []); try reflexivity; assumption.
    - apply Hs. assumption.
  Qed.

  Lemma HG_paren : forall e, HG e (O "(").
  Proof. intros e. hg_closed. Qed.

  Lemma head_child : forall this a, Hd a ->
    exists h tl, TC this a = h :: tl /\ (h = O "(" \/ (prec_n this <= lev a /\ HG a h)).
  Proof.
    intros this a (h & tl & E & HGa). rewrite TC_eq.
    destruct (Nat.ltb (lev a) (prec_n this)) eqn:E1; cbn [orb].
    - exists (O "("), (TE a ++ [O ")"]). split; [reflexivity | left; reflexivity].
    - destruct (extra a).
      + exists (O "("), (TE a ++ [O ")"]). split; [reflexivity | left; reflexivity].
      + exists h, tl. split; [exact E|]. right. apply Nat.ltb_ge in E1. split; assumption.
  Qed.

  Lemma HG_from_child : forall e a this h, (h = O "(" \/ (prec_n this <= lev a /\ HG a h)) -> 1 <= prec_n this ->
    (7 <= lev e -> 7 <= prec_n this /\ starts_with_int e = starts_with_int a) -> HG e h.
  Proof.
    intros e a this h [->|[Hle (H1 & H2 & H3 & H4)]] Hthis He; [apply HG_paren|].
    unfold HG. split; [exact H1|]. split; [exact H2|]. split.
    - intros _. apply H3. lia.
    - intros H7. destruct (He H7) as [Ht Es]. destruct (H4 ltac:(lia)) as [Hop Hint]. split; [exact Hop|].
      intros Hi. rewrite Es. apply Hint. exact Hi.
  Qed.

  Lemma Hd_child : forall e a this rest, Hd a -> TE e = TC this a ++ rest -> 1 <= prec_n this ->
    (7 <= lev e -> 7 <= prec_n this /\ starts_with_int e = starts_with_int a) -> Hd e.
  Proof.
    intros e a this rest Ha E Hthis He. destruct (head_child this a Ha) as (h & tl & E2 & Hh).
    exists h, (tl ++ rest). split; [rewrite E, E2; reflexivity|]. eapply HG_from_child; eassumption.
  Qed.

  Ltac okd := repeat match goal with H : _ && _ = true |- _ => apply andb_true_iff in H; destruct H end.

  Lemma head_expr : forall e, eok e = true -> Hd e.
  Proof.
    induction e using expr_ind'; intros Hok; cbn [expr_ok] in Hok; okd;
      idtac.
    all: try (match goal with
           | |- Hd (?C ?a ?b) =>
             match goal with IH : eok a = true -> Hd a |- _ =>
               first [ apply (Hd_child _ a POr (O "||" :: TC PAnd b)); [apply IH; assumption | apply TE_or | cbn; lia | unfold lev; cbn; intros; lia]
                     | apply (Hd_child _ a PAnd (O "&&" :: TC PRel b)); [apply IH; assumption | apply TE_and | cbn; lia | unfold lev; cbn; intros; lia]
                     | apply (Hd_child _ a PAdd (O "+" :: TC PMul b)); [apply IH; assumption | apply TE_add | cbn; lia | unfold lev; cbn; intros; lia]
                     | apply (Hd_child _ a PAdd (O "-" :: TC PMul b)); [apply IH; assumption | apply TE_sub | cbn; lia | unfold lev; cbn; intros; lia]
                     | apply (Hd_child _ a PMul (O "*" :: TC PUnary b)); [apply IH; assumption | apply TE_mul | cbn; lia | unfold lev; cbn; intros; lia]
                     | apply (Hd_child _ a PAdd (O "<" :: TC PAdd b)); [apply IH; assumption | apply TE_lt | cbn; lia | unfold lev; cbn; intros; lia]
                     | apply (Hd_child _ a PAdd (O "<=" :: TC PAdd b)); [apply IH; assumption | apply TE_le | cbn; lia | unfold lev; cbn; intros; lia]
                     | apply (Hd_child _ a PAdd (O ">" :: TC PAdd b)); [apply IH; assumption | apply TE_gt | cbn; lia | unfold lev; cbn; intros; lia]
                     | apply (Hd_child _ a PAdd (O ">=" :: TC PAdd b)); [apply IH; assumption | apply TE_ge | cbn; lia | unfold lev; cbn; intros; lia]
                     | apply (Hd_child _ a PAdd (O "==" :: TC PAdd b)); [apply IH; assumption | apply TE_eq | cbn; lia | unfold lev; cbn; intros; lia]
                     | apply (Hd_child _ a PAdd (O "!=" :: TC PAdd b)); [apply IH; assumption | apply TE_ne | cbn; lia | unfold lev; cbn; intros; lia]
                     | apply (Hd_child _ a PAdd (K "in" :: TC PAdd b)); [apply IH; assumption | apply TE_in | cbn; lia | unfold lev; cbn; intros; lia]
                     | eapply (Hd_child _ a PAccess); [apply IH; assumption | first [apply TE_contains | apply TE_containsAll | apply TE_containsAny | apply TE_getTag | apply TE_hasTag] | cbn; lia | unfold lev; cbn; intros; split; [lia | reflexivity]]
                     ]
             end
           end).
    - (* ELit *)
      unfold Hd. destruct v as [[|]|z|s|ty id|l|kvs|z|z|z|v6 a p].
      + exists (K "true"), []. split; [reflexivity | hg_closed].
      + exists (K "false"), []. split; [reflexivity | hg_closed].
      + rewrite TE_lit, TV_long. destruct (z <? 0)%Z eqn:Ez.
        * exists (O "-"), [Nt (print_nat (- z))]. split; [reflexivity|].
          unfold HG, lev. cbn [prec_of]. rewrite Ez. cbn [prec_n]. repeat split; intros; try (vm_compute; reflexivity); lia.
        * exists (Nt (print_nat z)), []. split; [reflexivity|]. apply HG_int. intros _. cbn [starts_with_int].
          apply Z.leb_le. apply Z.ltb_ge in Ez. exact Ez.
      + exists (Sq s), []. split; [reflexivity | apply HG_string].
      + rewrite TE_lit, TV_entity. unfold TP, path_items. cbn [value_ok] in Hok. okd.
        destruct (split_path ty) as [|c r] eqn:Es; [exfalso; exact (split_path_acc_ne ty [] Es)|].
        rewrite toks_path_items_of. exists (Id c), (sep_toks r ++ [O "::"; Sq id]). split; [reflexivity|].
        apply HG_ident; [|right; exact Logic.I].
        match goal with Hp : path_ok ty = true |- _ => unfold path_ok in Hp; rewrite Es in Hp; cbn [forallb] in Hp; okd; assumption end.
      + rewrite TE_lit, TV_set. eexists (O "["), _. split; [reflexivity | hg_closed].
      + rewrite TE_lit, TV_record. eexists (O "{"), _. split; [reflexivity | hg_closed].
      + eexists (I "decimal"), _. split; [reflexivity | hg_closed].
      + eexists (I "datetime"), _. split; [reflexivity | hg_closed].
      + eexists (I "duration"), _. split; [reflexivity | hg_closed].
      + eexists (I "ip"), _. split; [reflexivity | hg_closed].
    - (* EVar *) destruct x; eexists _, []; (split; [reflexivity | hg_closed]).
    - (* ENot *) eexists (O "!"), _. split; [apply TE_not | hg_closed; unfold lev in *; cbn in *; lia].
    - (* ENeg *) eexists (O "-"), _. split; [apply TE_neg | hg_closed; unfold lev in *; cbn in *; lia].
    - (* EIsEmpty *)
      eapply (Hd_child _ e PAccess); [apply IHe; assumption | apply TE_isEmpty | cbn; lia | unfold lev; cbn; intros; split; [lia | reflexivity]].
    - (* EAccess *)
      eapply (Hd_child _ e PAccess); [apply IHe; assumption | apply TE_access | cbn; lia | unfold lev; cbn; intros; split; [lia | reflexivity]].
    - (* EHas *)
      eapply (Hd_child _ e PAdd); [apply IHe; assumption | apply TE_has | cbn; lia | unfold lev; cbn; intros; lia].
    - (* ELike *)
      eapply (Hd_child _ e PAdd); [apply IHe; assumption | apply TE_like | cbn; lia | unfold lev; cbn; intros; lia].
    - (* EIs *)
      eapply (Hd_child _ e PAdd); [apply IHe; assumption | apply TE_is | cbn; lia | unfold lev; cbn; intros; lia].
    - (* EIsIn *)
      eapply (Hd_child _ e1 PAdd); [apply IHe1; assumption | apply TE_isin | cbn; lia | unfold lev; cbn; intros; lia].
    - (* EIf *) eexists (K "if"), _. split; [apply TE_if | hg_closed; unfold lev in *; cbn in *; lia].
    - (* ESet *) eexists (O "["), _. split; [apply TE_set | hg_closed].
    - (* ERecord *) eexists (O "{"), _. split; [apply TE_record | hg_closed].
    - (* ECall *)
      destruct (ext_lookup n) as [[ar [|]]|] eqn:El; [| |discriminate Hok].
      + okd. assert (Hm : is_method n = true) by (unfold is_method; rewrite El; reflexivity).
        destruct args as [|a rest]; [discriminate|].
        inversion H as [|a' rest' IHa IHrest]; subst. cbn [forallb] in *. okd.
        eapply (Hd_child _ a PAccess); [apply IHa; assumption | apply TE_call_method; exact Hm | cbn; lia |].
        unfold lev; cbn [prec_of prec_n starts_with_int]. rewrite Hm. intros; split; [lia | reflexivity].
      + okd. assert (Hm : is_method n = false) by (unfold is_method; rewrite El; reflexivity).
        exists (Id n), (O "(" :: tcommas (map (TC PAccess) args) ++ [O ")"]). split.
        * rewrite TE_call_fn by exact Hm. unfold TP, path_items. rewrite split_path_ident by assumption. reflexivity.
        * apply HG_ident; [assumption | right; exact Logic.I].
    - (* EPartialError *) discriminate Hok.
  Qed.

  (* ---- strings ---- *)
  Lemma byte_str_nonneg : forall s, byte_str s = true -> nonneg s.
  Proof.
    intros s H. unfold byte_str in H. rewrite forallb_forall in H. apply Forall_forall. intros b Hb.
    specialize (H b Hb). apply andb_true_iff in H. destruct H as [H _]. apply Z.leb_le in H. exact H.
  Qed.

  Lemma sv_quote : forall s, str_ok2 s = true -> string_value (quote_string is_printable is_gext s) = Some s.
  Proof.
    intros s H. unfold str_ok2 in H. apply andb_true_iff in H. destruct H as [H1 H2].
    apply string_value_quote; [apply byte_str_nonneg; exact H1 | exact H2].
  Qed.

  Lemma pp_quote : forall p, pat_ok2 p = true -> parse_pattern (trim_quotes (quote_pattern is_printable is_gext p)) = Some p.
  Proof.
    intros p H. unfold pat_ok2 in H. apply andb_true_iff in H. destruct H as [H1 H2].
    apply parse_pattern_quote; [|exact H2]. unfold lits_nonneg. rewrite forallb_forall in H1.
    apply Forall_forall. intros c Hc. apply byte_str_nonneg. apply H1. exact Hc.
  Qed.

  (* ---- the unary prefix ---- *)
  Definition UN (X : list token) (v : expr) : Prop :=
    forall R, R <> [] -> cont (peek R) <= 6 ->
      has_non_op (X ++ R) = true /\
      exists ops r, ops_prefix (X ++ R) = (ops, r) /\
        forall pre, Ev (fun f => unary_tail f (pre ++ ops) r) (apply_ops pre v) R.

  Lemma un_beh6 : forall X v, UN X v -> Beh 6 X v.
  Proof.
    intros X v H. apply beh_of_val; [right; right; left; reflexivity|]. intros R HR Hc. cbn [bnd] in Hc.
    destruct (H R HR Hc) as (Hn & ops & r & E & Hev). destruct (Hev []) as [f0 Hf0].
    exists (S f0). intros f Hf. destruct f as [|f]; [lia|]. cbn [PL]. rewrite p_unary_prefix by exact Hn.
    rewrite E. cbn [fst snd]. apply Hf0. lia.
  Qed.

  Lemma apply_ops_snoc : forall pre b v, apply_ops (pre ++ [b]) v = apply_ops pre (if b then ENeg v else ENot v).
  Proof. intros pre b v. unfold apply_ops. rewrite fold_right_app. reflexivity. Qed.

  Definition optok (neg : bool) : token := if neg then O "-" else O "!".
  Definition opcon (neg : bool) (v : expr) : expr := if neg then ENeg v else ENot v.

  Lemma ops_prefix_op : forall neg l, ops_prefix (optok neg :: l) = (neg :: fst (ops_prefix l), snd (ops_prefix l)).
  Proof. intros neg l. destruct neg; reflexivity. Qed.
  Lemma has_non_op_op : forall neg l, has_non_op (optok neg :: l) = has_non_op l.
  Proof. intros neg l. destruct neg; reflexivity. Qed.

  Lemma un_op : forall neg X v, UN X v -> UN (optok neg :: X) (opcon neg v).
  Proof.
    intros neg X v H R HR Hc. destruct (H R HR Hc) as (Hn & ops & r & E & Hev).
    cbn [app]. rewrite has_non_op_op, ops_prefix_op, E. cbn [fst snd]. split; [exact Hn|].
    exists (neg :: ops), r. split; [reflexivity|]. intros pre.
    replace (pre ++ neg :: ops) with ((pre ++ [neg]) ++ ops) by (rewrite <- app_assoc; reflexivity).
    unfold opcon. rewrite <- apply_ops_snoc. apply Hev.
  Qed.

  Lemma un_base : forall neg X h tl v, Beh 7 X v -> X = h :: tl -> is_op h = false -> (neg = true -> is_int h = false) ->
    UN (optok neg :: X) (opcon neg v).
  Proof.
    intros neg X h tl v HB HX Hop Hint R HR Hc. cbn [app]. rewrite has_non_op_op, ops_prefix_op.
    assert (E : ops_prefix (X ++ R) = ([], X ++ R)).
    { subst X. cbn [app ops_prefix]. unfold is_op in Hop. apply orb_false_iff in Hop. destruct Hop as [-> ->]. reflexivity. }
    rewrite E. cbn [fst snd]. split.
    - subst X. cbn [app]. unfold has_non_op. cbn [existsb]. rewrite Hop. reflexivity.
    - exists [neg], (X ++ R). split; [reflexivity|]. intros pre. unfold opcon. rewrite <- apply_ops_snoc.
      apply ev_utail_member.
      + intros ops' Hr. rewrite rev_app_distr in Hr. cbn [rev app] in Hr. inversion Hr; subst. cbn [app peek]. apply Hint. reflexivity.
      + apply (beh_val 7 X v R HB HR); [cbn [bnd]; lia | left; lia].
  Qed.

  Lemma is_op_int : forall z, is_op (Nt (print_nat z)) = false.
  Proof.
    intros z. unfold is_op.
    rewrite (tx_int_tok _ "-" 45%Z []), (tx_int_tok _ "!" 33%Z []); try reflexivity; first [apply print_nat_ne | apply print_nat_all_digits].
  Qed.

  Lemma un_neglit : forall z, (z < 0)%Z -> in64b z = true -> UN [O "-"; Nt (print_nat (- z))] (ELit (VLong z)).
  Proof.
    intros z Hz Hi R HR Hc. cbn [app]. change (O "-") with (optok true). pose proof (is_op_int (- z)) as Hop. split.
    { rewrite has_non_op_op. unfold has_non_op. cbn [existsb]. rewrite Hop. reflexivity. }
    exists [true], (Nt (print_nat (- z)) :: R). split.
    - rewrite ops_prefix_op.
      assert (E : ops_prefix (Nt (print_nat (- z)) :: R) = ([], Nt (print_nat (- z)) :: R)).
      { cbn [ops_prefix]. unfold is_op in Hop. apply orb_false_iff in Hop. destruct Hop as [-> ->]. reflexivity. }
      rewrite E. reflexivity.
    - intros pre. apply ev_utail_lit; [apply int_value_neg; assumption | exact HR].
  Qed.

  (* ---- parentheses and children ---- *)
  Lemma paren_beh : forall X v, Beh 0 X v -> Beh 8 (O "(" :: X ++ [O ")"]) v.
  Proof.
    intros X v H. apply beh_of_val; [right; right; right; lia|]. intros R HR _. cbn [PL].
    rewrite <- app_comm_cons, <- app_assoc. cbn [app].
    apply (ev_primary_paren _ v (O ")" :: R) R); [ne | | apply exact_cons; [reflexivity | exact HR]].
    apply (beh_val 0 X v (O ")" :: R) H); [ne | contb | right; left; reflexivity].
  Qed.

  Lemma lev_le8 : forall e, lev e <= 8.
  Proof.
    intros e. unfold lev. destruct e; cbn [prec_of prec_n]; try lia.
    destruct v; cbn [prec_n]; try lia. destruct (z <? 0)%Z; cbn [prec_n]; lia.
  Qed.

  Definition M (e : expr) : Prop := Beh (lev e) (TE e) (nm e) /\ (lev e = 6 -> UN (TE e) (nm e)).

  Lemma beh_down : forall e L, eok e = true -> L <= lev e -> Beh (lev e) (TE e) (nm e) -> Beh L (TE e) (nm e).
  Proof.
    intros e L Hok HL HB. destruct (head_expr e Hok) as (h & tl & E & (_ & _ & Hif & Hop)).
    pose proof (lev_le8 e) as H8.
    apply (lift (lev e - L) L (TE e) h tl); [lia | exact E | | |].
    - intros _ Hd0. apply Hif. lia.
    - intros H6 H7. apply Hop. lia.
    - replace (L + (lev e - L)) with (lev e) by lia. exact HB.
  Qed.

  Lemma paren_down : forall X v L, L <= 8 -> Beh 0 X v -> Beh L (O "(" :: X ++ [O ")"]) v.
  Proof.
    intros X v L HL H. apply (lift (8 - L) L _ (O "(") (X ++ [O ")"])); [lia | reflexivity | | |].
    - intros; reflexivity.
    - intros; reflexivity.
    - replace (L + (8 - L)) with 8 by lia. apply paren_beh. exact H.
  Qed.

  Lemma child_beh : forall a this L, eok a = true -> M a -> L <= prec_n this -> L <= 8 -> Beh L (TC this a) (nm a).
  Proof.
    intros a this L Hok [HB _] HL H8. rewrite TC_eq.
    destruct (Nat.ltb (lev a) (prec_n this)) eqn:E1; cbn [orb].
    - apply paren_down; [exact H8|]. apply beh_down; [exact Hok | lia | exact HB].
    - destruct (extra a).
      + apply paren_down; [exact H8|]. apply beh_down; [exact Hok | lia | exact HB].
      + apply Nat.ltb_ge in E1. apply beh_down; [exact Hok | lia | exact HB].
  Qed.

  Lemma child_val : forall a this L R, eok a = true -> M a -> L <= prec_n this -> L <= 8 -> R <> [] ->
    cont (peek R) <= bnd L -> (cont (peek R) < L \/ L = 0 \/ L = 6 \/ 8 <= L) ->
    Ev (fun f => PL L f (TC this a ++ R)) (nm a) R.
  Proof. intros a this L R Hok HM HL H8 HR Hc Hs. apply beh_val; [apply child_beh; assumption | exact HR | exact Hc | exact Hs]. Qed.

  Lemma child_unary : forall a this neg, eok a = true -> M a ->
    (this = PAbovePrimary \/ (this = PUnary /\ (neg = true -> starts_with_int a = false))) ->
    UN (optok neg :: TC this a) (opcon neg (nm a)).
  Proof.
    intros a this neg Hok [HB HU] Hthis. rewrite TC_eq.
    assert (Hpar : UN (optok neg :: O "(" :: TE a ++ [O ")"]) (opcon neg (nm a))).
    { apply (un_base neg _ (O "(") (TE a ++ [O ")"])); [|reflexivity|reflexivity|intros; reflexivity].
      apply paren_down; [lia|]. apply beh_down; [exact Hok | lia | exact HB]. }
    destruct (Nat.ltb (lev a) (prec_n this)) eqn:E1; cbn [orb]; [exact Hpar|].
    destruct (extra a); [exact Hpar|].
    apply Nat.ltb_ge in E1. pose proof (lev_le8 a) as H8.
    destruct Hthis as [->|[-> Hs]]; [cbn [prec_n] in E1; lia|]. cbn [prec_n] in E1.
    destruct (Nat.eq_dec (lev a) 6) as [E6|N6].
    - apply un_op. apply HU. exact E6.
    - destruct (head_expr a Hok) as (h & tl & E & (_ & _ & _ & Hop)). destruct (Hop ltac:(lia)) as [Hop1 Hop2].
      apply (un_base neg _ h tl); [apply beh_down; [exact Hok | lia | exact HB] | exact E | exact Hop1 |].
      intros Hn. destruct (is_int h) eqn:Ei; [|reflexivity]. rewrite (Hop2 eq_refl) in Hs. specialize (Hs Hn). discriminate Hs.
  Qed.

  (* ---- lists of expressions ---- *)
  Definition good_item (close : string) (it : list token * expr) : Prop :=
    Beh 0 (fst it) (snd it) /\ exists h tl, fst it = h :: tl /\ tx h close = false.

  Lemma ev_exprs_list : forall close items acc R,
    tx (O close) close = true -> cont (O close) = 0 -> tx (O close) "," = false ->
    Forall (good_item close) items ->
    Ev (fun f => p_expressions f close (tcommas (map fst items) ++ O close :: R) acc) (acc ++ map snd items) (O close :: R).
  Proof.
    intros close items acc R Hc1 Hc2 Hc3 H. revert acc. induction H as [|[X v] items [HB (h & tl & EX & Hh)] Hrest IH]; intros acc.
    - cbn [map tcommas app]. rewrite app_nil_r. apply ev_exprs_stop. exact Hc1.
    - cbn [fst snd] in *. destruct items as [|it2 items'].
      + cbn [map fst snd tcommas app]. apply ev_exprs_last.
        * subst X. exact Hh.
        * apply (beh_val 0 X v _ HB); [ne | cbn [peek bnd]; lia | right; left; reflexivity].
        * exact Hc3.
        * exact Hc1.
      + change (tcommas (map fst ((X, v) :: it2 :: items'))) with (X ++ O "," :: tcommas (map fst (it2 :: items'))).
        change (map snd ((X, v) :: it2 :: items')) with (v :: map snd (it2 :: items')).
        rewrite <- app_assoc. cbn [app].
        apply (ev_exprs_comma close _ v (tcommas (map fst (it2 :: items')) ++ O close :: R)).
        * subst X. exact Hh.
        * apply (beh_val 0 X v _ HB); [ne | contb | right; left; reflexivity].
        * ne.
        * specialize (IH (acc ++ [v])). rewrite <- app_assoc in IH. exact IH.
  Qed.

  (* ---- records ---- *)
  Fixpoint fresh_keys (ks : list str) (seen : list str) : bool :=
    match ks with [] => true | k :: r => negb (existsb (str_eqb k) seen) && fresh_keys r (k :: seen) end.

  Lemma distinct_keys_fresh : forall (A : Type) (kvs : list (str * A)), distinct_keys kvs = fresh_keys (map fst kvs) [].
  Proof.
    intros A kvs. unfold distinct_keys. generalize (@nil str) as seen.
    induction kvs as [|[k x] r IH]; intros seen; [reflexivity|]. cbn [map fst fresh_keys]. rewrite <- IH. reflexivity.
  Qed.

  Lemma str_eqb_sym : forall a b, str_eqb a b = str_eqb b a.
  Proof.
    intros a b. destruct (str_eqb a b) eqn:E.
    - apply str_eqb_eq in E. subst. symmetry. apply str_eqb_refl.
    - symmetry. apply str_eqb_neq. apply str_eqb_neq in E. congruence.
  Qed.

  Definition entry := (str * list token * expr)%type.
  Definition e_key (en : entry) : str := fst (fst en).
  Definition e_toks (en : entry) : list token := Sq (e_key en) :: O ":" :: snd (fst en).
  Definition e_kv (en : entry) : str * expr := (e_key en, snd en).
  Definition good_entry (en : entry) : Prop := str_ok2 (e_key en) = true /\ Beh 0 (snd (fst en)) (snd en).

  Lemma tx_Sq_close : forall k, tx (Sq k) "}" = false.
  Proof. intros k. reflexivity. Qed.

  Lemma ev_record_list : forall ens acc seen R, R <> [] ->
    Forall good_entry ens -> fresh_keys (map e_key ens) seen = true ->
    (forall k, key_mem k acc = existsb (str_eqb k) seen) ->
    Ev (fun f => p_record f (tcommas (map e_toks ens) ++ O "}" :: R) acc) (ERecord (acc ++ map e_kv ens)) R.
  Proof.
    intros ens acc seen R HR H. revert acc seen. induction H as [|[[k X] v] ens [Hk HB] Hrest IH]; intros acc seen Hf Hinv.
    - cbn [map tcommas app]. rewrite app_nil_r. apply ev_record_end. exact HR.
    - unfold e_key in Hk. cbn [fst snd] in Hk, HB. cbn [map fresh_keys] in Hf. unfold e_key at 1 in Hf. cbn [fst] in Hf.
      apply andb_true_iff in Hf. destruct Hf as [Hf1 Hf2]. apply negb_true_iff in Hf1.
      assert (Hinv' : forall k0, key_mem k0 (acc ++ [(k, v)]) = existsb (str_eqb k0) (k :: seen)).
      { intros k0. unfold key_mem. rewrite existsb_app. cbn [existsb fst]. fold (key_mem k0 acc). rewrite Hinv.
        rewrite orb_false_r, orb_comm, (str_eqb_sym k k0). reflexivity. }
      destruct ens as [|en2 ens'].
      + cbn [map tcommas app]. unfold e_toks, e_kv, e_key. cbn [fst snd]. apply (ev_record_last _ k).
        * apply tx_Sq_close.
        * apply sv_quote. exact Hk.
        * ne.
        * apply (beh_val 0 X v _ HB); [ne | contb | right; left; reflexivity].
        * rewrite Hinv. exact Hf1.
        * exact HR.
      + change (tcommas (map e_toks ((k, X, v) :: en2 :: ens'))) with ((Sq k :: O ":" :: X) ++ O "," :: tcommas (map e_toks (en2 :: ens'))).
        change (map e_kv ((k, X, v) :: en2 :: ens')) with ((k, v) :: map e_kv (en2 :: ens')).
        rewrite <- app_assoc. cbn [app].
        apply (ev_record_comma _ k _ v (tcommas (map e_toks (en2 :: ens')) ++ O "}" :: R)).
        * apply tx_Sq_close.
        * apply sv_quote. exact Hk.
        * ne.
        * apply (beh_val 0 X v _ HB); [ne | contb | right; left; reflexivity].
        * rewrite Hinv. exact Hf1.
        * ne.
        * specialize (IH (acc ++ [(k, v)]) (k :: seen) Hf2 Hinv'). rewrite <- app_assoc in IH. exact IH.
  Qed.

  (* ---- operators ---- *)
  Lemma beh_binop : forall L tokop (mkop : expr -> expr -> expr) A B na nb,
    bnd L = L -> L <= bnd (S L) -> cont tokop = L ->
    (forall l rhs r1 lhs w r, l <> [] -> Ev (fun f => PL (S L) f l) rhs r1 -> Ev (fun f => LoopL L f (mkop lhs rhs) r1) w r ->
       Ev (fun f => LoopL L f lhs (tokop :: l)) w r) ->
    Beh L A na -> Beh (S L) B nb -> Beh L (A ++ tokop :: B) (mkop na nb).
  Proof.
    intros L tokop mkop A B na nb Hb1 Hb2 Hct Hrule HA HB R w r HR Hc Hloop.
    rewrite <- app_assoc. cbn [app]. apply HA; [ne | cbn [peek]; rewrite Hct, Hb1; lia |].
    apply (Hrule _ nb R); [ne | | exact Hloop].
    apply (beh_val (S L) B nb R HB HR); [lia | left; lia].
  Qed.

  Lemma beh_relop : forall tokop opf A B na nb,
    relop tokop = Some opf -> tx tokop "has" = false -> tx tokop "like" = false -> tx tokop "is" = false -> cont tokop = 3 ->
    Beh 4 A na -> Beh 4 B nb -> Beh 3 (A ++ tokop :: B) (opf na nb).
  Proof.
    intros tokop opf A B na nb Hop H1 H2 H3 Hct HA HB.
    apply beh_of_val; [right; left; reflexivity|]. intros R HR Hc. cbn [bnd] in Hc.
    rewrite <- app_assoc. cbn [app].
    apply (ev_level 3 _ na (tokop :: B ++ R)); [lia | discriminate | discriminate | |].
    - apply (beh_val 4 A na _ HA); [ne | cbn [peek bnd]; lia | left; cbn [peek]; lia].
    - cbn [LoopL]. apply ev_rel_op; [exact Hop | exact H1 | exact H2 | exact H3 | ne |].
      apply (beh_val 4 B nb R HB HR); [cbn [bnd]; lia | left; lia].
  Qed.

  (* after the left operand (at level PAdd), a relation tail that leaves R *)
  Lemma beh_reltail : forall A na tail w, 
    Beh 4 A na -> (forall R, R <> [] -> cont (peek R) <= 2 -> (tail ++ R) <> [] /\ cont (peek (tail ++ R)) = 3 /\
                     Ev (fun f => rel_tail f na (tail ++ R)) w R) ->
    Beh 3 (A ++ tail) w.
  Proof.
    intros A na tail w HA Ht. apply beh_of_val; [right; left; reflexivity|]. intros R HR Hc. cbn [bnd] in Hc.
    destruct (Ht R HR Hc) as (Hne & Hct & Hev). rewrite <- app_assoc.
    apply (ev_level 3 _ na (tail ++ R)); [lia | discriminate | discriminate | | exact Hev].
    apply (beh_val 4 A na _ HA); [exact Hne | cbn [bnd]; lia | left; lia].
  Qed.

  Lemma beh_access : forall A na tail e',
    Beh 7 A na ->
    (forall R w r, R <> [] -> cont (peek R) <= 7 -> Ev (fun f => p_access_loop f e' R) w r ->
       (tail ++ R) <> [] /\ cont (peek (tail ++ R)) <= 7 /\ Ev (fun f => p_access_loop f na (tail ++ R)) w r) ->
    Beh 7 (A ++ tail) e'.
  Proof.
    intros A na tail e' HA Ht R w r HR Hc Hloop. cbn [bnd LoopL] in *.
    destruct (Ht R w r HR Hc Hloop) as (Hne & Hct & Hev). rewrite <- app_assoc.
    apply HA; [exact Hne | cbn [bnd]; exact Hct | exact Hev].
  Qed.

  Lemma beh_method : forall A na n items e',
    Beh 7 A na -> Forall (good_item ")") items -> method_call n na (map snd items) = Some e' ->
    Beh 7 (A ++ O "." :: Id n :: O "(" :: tcommas (map fst items) ++ [O ")"]) e'.
  Proof.
    intros A na n items e' HA Hit Hm. apply (beh_access A na _ e' HA). intros R w r HR Hc Hloop.
    split; [discriminate|]. split; [cbn [app]; contc|]. cbn [app]. rewrite <- app_assoc. cbn [app].
    apply (ev_access_method n _ (map snd items) R e'); [ne | | exact HR | exact Hm | exact Hloop].
    apply (ev_exprs_list ")" items [] R); [reflexivity | reflexivity | reflexivity | exact Hit].
  Qed.

  Lemma TP_shape : forall ty, exists c r, split_path ty = c :: r /\ TP ty = Id c :: sep_toks r.
  Proof.
    intros ty. unfold TP, path_items. destruct (split_path ty) as [|c r] eqn:E; [exfalso; exact (split_path_acc_ne ty [] E)|].
    exists c, r. split; [reflexivity | apply toks_path_items_of].
  Qed.

  Lemma ev_TP : forall ty R, R <> [] -> tx (peek R) "::" = false -> Ev (fun f => p_path f (TP ty ++ R)) ty R.
  Proof.
    intros ty R HR Hc. destruct (TP_shape ty) as (c & r & Es & Et). rewrite Et. cbn [app].
    rewrite <- (join_split ty) at 1. rewrite Es. apply ev_p_path; assumption.
  Qed.

  Lemma child_head : forall this a, eok a = true ->
    exists h tl, TC this a = h :: tl /\ tx h ")" = false /\ tx h "]" = false.
  Proof.
    intros this a Hok. destruct (head_child this a (head_expr a Hok)) as (h & tl & E & [->|[_ (H1 & H2 & _)]]).
    - exists (O "("), tl. split; [exact E | split; reflexivity].
    - exists h, tl. split; [exact E | split; assumption].
  Qed.

  Lemma good_child : forall close this a, eok a = true -> M a -> (close = ")"%string \/ close = "]"%string) ->
    good_item close (TC this a, nm a).
  Proof.
    intros close this a Hok HM Hcl. split; cbn [fst snd].
    - apply child_beh; [exact Hok | exact HM | lia | lia].
    - destruct (child_head this a Hok) as (h & tl & E & H1 & H2). exists h, tl. split; [exact E|].
      destruct Hcl as [->| ->]; assumption.
  Qed.

  Lemma good_children : forall close this l, (close = ")"%string \/ close = "]"%string) ->
    Forall (fun a => eok a = true -> M a) l -> forallb eok l = true ->
    Forall (good_item close) (map (fun a => (TC this a, nm a)) l).
  Proof.
    intros close this l Hcl H. induction H as [|a l Ha Hl IH]; intros Hok; cbn [map]; constructor.
    - cbn [forallb] in Hok. apply andb_true_iff in Hok. destruct Hok as [Hok _]. apply good_child; auto.
    - cbn [forallb] in Hok. apply andb_true_iff in Hok. destruct Hok as [_ Hok]. apply IH. exact Hok.
  Qed.

  Lemma M_non6 : forall e, lev e <> 6 -> Beh (lev e) (TE e) (nm e) -> M e.
  Proof. intros e H HB. split; [exact HB | intros E; contradiction]. Qed.

  (* ---- values ---- *)
  Ltac not6 := let E := fresh "E" in intros E; unfold lev in E; cbn [prec_of prec_n] in E; discriminate E.

  Definition MV (v : value) : Prop := Beh (lev (ELit v)) (TV v) (nv v) /\ (lev (ELit v) = 6 -> UN (TV v) (nv v)).

  Lemma beh_prim_down : forall t v L, L <= 8 -> tx t "if" = false -> is_op t = false ->
    (forall R, R <> [] -> cont (peek R) <= 8 -> Ev (fun f => p_primary f (t :: R)) v R) -> Beh L [t] v.
  Proof.
    intros t v L HL H1 H2 H. apply (lift (8 - L) L [t] t []); [lia | reflexivity | intros; exact H1 | intros; exact H2 |].
    replace (L + (8 - L)) with 8 by lia. apply beh_of_val; [right; right; right; lia|]. intros R HR Hc. cbn [bnd] in Hc.
    cbn [app PL]. apply H; assumption.
  Qed.

  Lemma beh_plain_str : forall arg L, L <= 8 -> Forall plain arg -> Beh L [St ([34%Z] ++ arg ++ [34%Z])] (ELit (VString arg)).
  Proof.
    intros arg L HL Hp. apply beh_prim_down; [exact HL | reflexivity | reflexivity |]. intros R HR _.
    apply ev_primary_str; [apply string_value_plain; exact Hp | exact HR].
  Qed.

  Lemma beh_ext : forall fn arg ar, ext_lookup (s_of fn) = Some (ar, false) ->
    tx (I fn) "true" = false -> tx (I fn) "false" = false -> Forall plain arg ->
    Beh 7 (ext_toks fn arg) (ext1 fn arg).
  Proof.
    intros fn arg ar He H1 H2 Hp R w r HR Hc Hloop. cbn [LoopL PL bnd] in *.
    apply (ev_level 7 _ (ext1 fn arg) R); [lia | discriminate | discriminate | | exact Hloop]. cbn [PL].
    unfold ext_toks. cbn [app].
    apply (ev_primary_ident (s_of fn)); [exact H1 | exact H2 | reflexivity | ne |].
    apply (ev_eoe_call (s_of fn) _ [ELit (VString arg)] R ar); [exact He | ne | | exact HR].
    apply (ev_exprs_list ")" [([St ([34%Z] ++ arg ++ [34%Z])], ELit (VString arg))] [] R); [reflexivity | reflexivity | reflexivity |].
    constructor; [|constructor]. split; cbn [fst snd].
    - apply beh_plain_str; [lia | exact Hp].
    - eexists _, _. split; [reflexivity | reflexivity].
  Qed.

  Lemma nth_map_lt : forall (A B : Type) (f : A -> B) l i d d', i < List.length l -> nth i (map f l) d' = f (nth i l d).
  Proof.
    intros A B f l i d d' H. rewrite (nth_indep (map f l) d' (f d)) by (rewrite map_length; exact H). apply map_nth.
  Qed.

  Lemma MV_beh0 : forall x, vok x = true -> MV x -> good_item "]" (TV x, nv x).
  Proof.
    intros x Hok [HB _]. split; cbn [fst snd].
    - apply (beh_down (ELit x) 0); [exact Hok | lia | exact HB].
    - destruct (head_expr (ELit x) Hok) as (h & tl & E & (_ & H2 & _)). exists h, tl. split; [exact E | exact H2].
  Qed.

  Lemma main_value : forall v, vok v = true -> MV v.
  Proof.
    induction v using value_ind'; intros Hok.
    - (* bool *)
      split; [|not6]. change (lev (ELit (VBool b))) with 8.
      apply beh_of_val; [right; right; right; lia|]. intros R HR _. cbn [PL].
      destruct b; [apply ev_primary_true | apply ev_primary_false]; exact HR.
    - (* long *)
      cbn [value_ok] in Hok. unfold MV, lev. cbn [prec_of]. rewrite TV_long. destruct (z <? 0)%Z eqn:Ez; cbn [prec_n].
      + apply Z.ltb_lt in Ez. pose proof (un_neglit z Ez Hok) as HU. split; [apply un_beh6; exact HU | intros _; exact HU].
      + apply Z.ltb_ge in Ez. split; [|intros; lia].
        apply beh_of_val; [right; right; right; lia|]. intros R HR _. cbn [PL app].
        apply ev_primary_int; [apply int_value_pos; assumption | exact HR].
    - (* string *)
      cbn [value_ok] in Hok. split; [|not6]. change (lev (ELit (VString s))) with 8.
      apply beh_of_val; [right; right; right; lia|]. intros R HR _. cbn [PL]. rewrite TV_string. cbn [app].
      apply ev_primary_str; [apply sv_quote; exact Hok | exact HR].
    - (* entity *)
      cbn [value_ok] in Hok. apply andb_true_iff in Hok. destruct Hok as [Hp Hid].
      split; [|not6]. change (lev (ELit (VEntity t i))) with 8.
      apply beh_of_val; [right; right; right; lia|]. intros R HR _. cbn [PL]. rewrite TV_entity.
      destruct (TP_shape t) as (c & r & Es & Et). rewrite Et. rewrite <- app_assoc. cbn [app].
      assert (Hc : can_ident c = true).
      { unfold path_ok in Hp. rewrite Es in Hp. cbn [forallb] in Hp. apply andb_true_iff in Hp. destruct Hp as [Hp _]. exact Hp. }
      apply ev_primary_ident.
      + apply tx_ident_reserved; [exact Hc | reflexivity].
      + apply tx_ident_reserved; [exact Hc | reflexivity].
      + destruct r; reflexivity.
      + ne.
      + change (nv (VEntity t i)) with (ELit (VEntity t i)). rewrite <- (join_split t) at 1. rewrite Es, <- fold_jf_join.
        apply ev_eoe_path; [apply sv_quote; exact Hid | exact HR].
    - (* set *)
      rewrite value_ok_set in Hok. apply andb_true_iff in Hok. destruct Hok as [Ho Hl].
      split; [|not6]. change (lev (ELit (VSet l))) with 8.
      apply beh_of_val; [right; right; right; lia|]. intros R HR _. cbn [PL]. rewrite TV_set, norm_value_set.
      set (items := map (fun i => (nth i (map TV l) [], nth i (map nv l) (ELit (VBool false)))) (set_order l)).
      assert (E1 : map (fun i => nth i (map TV l) []) (set_order l) = map fst items).
      { unfold items. rewrite map_map. reflexivity. }
      assert (E2 : map (fun i => nth i (map nv l) (ELit (VBool false))) (set_order l) = map snd items).
      { unfold items. rewrite map_map. reflexivity. }
      rewrite E1, E2. rewrite <- app_comm_cons, <- app_assoc. cbn [app].
      apply ev_primary_set; [ne | | exact HR].
      apply (ev_exprs_list "]" items [] R); [reflexivity | reflexivity | reflexivity |].
      unfold items. apply Forall_forall. intros it Hit. apply in_map_iff in Hit. destruct Hit as (i & <- & Hi).
      unfold order_ok in Ho. apply andb_true_iff in Ho. destruct Ho as [_ Ho]. rewrite forallb_forall in Ho.
      specialize (Ho i Hi). apply Nat.ltb_lt in Ho.
      rewrite (nth_map_lt _ _ TV l i (VBool false)) by exact Ho. rewrite (nth_map_lt _ _ nv l i (VBool false)) by exact Ho.
      pose proof (nth_In l (VBool false) Ho) as Hin.
      rewrite forallb_forall in Hl. rewrite Forall_forall in H. apply MV_beh0; [apply Hl; exact Hin | apply H; [exact Hin | apply Hl; exact Hin]].
    - (* record *)
      rewrite value_ok_record in Hok. apply andb_true_iff in Hok. destruct Hok as [Hok Hvs]. apply andb_true_iff in Hok. destruct Hok as [Hd Hks].
      split; [|not6]. change (lev (ELit (VRecord l))) with 8.
      apply beh_of_val; [right; right; right; lia|]. intros R HR _. cbn [PL]. rewrite TV_record, norm_value_record.
      set (ens := map (fun kv : str * value => (fst kv, TV (snd kv), nv (snd kv))) l : list entry).
      assert (E1 : map (fun kv : str * value => Sq (fst kv) :: O ":" :: TV (snd kv)) l = map e_toks ens).
      { unfold ens. rewrite map_map. reflexivity. }
      assert (E2 : map (fun kv : str * value => (fst kv, nv (snd kv))) l = map e_kv ens).
      { unfold ens. rewrite map_map. reflexivity. }
      assert (E3 : map fst l = map e_key ens).
      { unfold ens. rewrite map_map. reflexivity. }
      rewrite E1, E2. rewrite <- app_comm_cons, <- app_assoc. cbn [app].
      apply ev_primary_record; [ne|].
      apply (ev_record_list ens [] [] R HR).
      + unfold ens. apply Forall_forall. intros en Hen. apply in_map_iff in Hen. destruct Hen as (kv & <- & Hkv).
        rewrite forallb_forall in Hks, Hvs. rewrite Forall_forall in H.
        split; cbn [e_key fst snd]; [apply Hks; exact Hkv|].
        destruct (MV_beh0 (snd kv) (Hvs kv Hkv) (H kv Hkv (Hvs kv Hkv))) as [HB _]. exact HB.
      + rewrite <- E3, <- distinct_keys_fresh. exact Hd.
      + intros k. reflexivity.
    - (* decimal *)
      split; [|not6]. change (lev (ELit (VDecimal z))) with 7.
      rewrite TV_decimal. apply (beh_ext "decimal" _ 1%Z); [reflexivity | reflexivity | reflexivity | apply print_decimal_plain].
    - split; [|not6]. change (lev (ELit (VDatetime z))) with 7.
      rewrite TV_datetime. apply (beh_ext "datetime" _ 1%Z); [reflexivity | reflexivity | reflexivity | apply print_datetime_plain].
    - split; [|not6]. change (lev (ELit (VDuration z))) with 7.
      rewrite TV_duration. apply (beh_ext "duration" _ 1%Z); [reflexivity | reflexivity | reflexivity | apply print_duration_plain].
    - split; [|not6]. change (lev (ELit (VIP b a p))) with 7.
      rewrite TV_ip. apply (beh_ext "ip" _ 1%Z); [reflexivity | reflexivity | reflexivity | apply print_ip_plain].
  Qed.

  (* ---- the main induction ---- *)
  Ltac chb := apply child_beh; [assumption | auto | cbn [prec_n]; lia | lia].

  Lemma method_call_ext : forall n lhs args ar, builtin_method n = false -> ext_lookup n = Some (ar, true) ->
    method_call n lhs args = Some (ECall n (lhs :: args)).
  Proof.
    intros n lhs args ar Hb He. unfold builtin_method in Hb. cbn [existsb] in Hb.
    repeat (apply orb_false_iff in Hb; destruct Hb as [?H Hb]).
    unfold method_call. rewrite H, H0, H1, H2, H3, H4, He. reflexivity.
  Qed.

  Lemma beh_call_fn : forall n items ar, ext_lookup n = Some (ar, false) -> can_ident n = true ->
    Forall (good_item ")") items ->
    Beh 7 (Id n :: O "(" :: tcommas (map fst items) ++ [O ")"]) (ECall n (map snd items)).
  Proof.
    intros n items ar He Hc Hit R w r HR Hct Hloop. cbn [LoopL PL bnd] in *.
    apply (ev_level 7 _ (ECall n (map snd items)) R); [lia | discriminate | discriminate | | exact Hloop]. cbn [PL].
    rewrite <- !app_comm_cons, <- app_assoc. cbn [app].
    apply ev_primary_ident; [apply tx_ident_reserved; [exact Hc | reflexivity] | apply tx_ident_reserved; [exact Hc | reflexivity] | reflexivity | ne |].
    apply (ev_eoe_call n _ (map snd items) R ar); [exact He | ne | | exact HR].
    apply (ev_exprs_list ")" items [] R); [reflexivity | reflexivity | reflexivity | exact Hit].
  Qed.

  Lemma main_expr : forall e, eok e = true -> M e.
  Proof.
    induction e using expr_ind'; intros Hok; cbn [expr_ok] in Hok; okd.
    - (* ELit *) apply (main_value v Hok).
    - (* EVar *)
      apply M_non6; [unfold lev; cbn [prec_of prec_n]; lia|]. change (lev (EVar x)) with 8. rewrite TE_var.
      apply beh_of_val; [right; right; right; lia|]. intros R HR Hc. cbn [bnd] in Hc. cbn [PL app].
      apply ev_primary_var; [exact HR | txf | txf].
    - (* EAnd *)
      apply M_non6; [unfold lev; cbn [prec_of prec_n]; lia|]. change (lev (EAnd e1 e2)) with 2. rewrite TE_and.
      apply (beh_binop 2 (O "&&") EAnd); [reflexivity | cbn [bnd]; lia | reflexivity | exact ev_and_loop | chb | chb].
    - (* EOr *)
      apply M_non6; [unfold lev; cbn [prec_of prec_n]; lia|]. change (lev (EOr e1 e2)) with 1. rewrite TE_or.
      apply (beh_binop 1 (O "||") EOr); [reflexivity | cbn [bnd]; lia | reflexivity | exact ev_or_loop | chb | chb].
    - (* ENot *)
      assert (HU : UN (TE (ENot e)) (nm (ENot e))).
      { rewrite TE_not. apply (child_unary e PUnary false); [assumption | auto | right; split; [reflexivity | discriminate]]. }
      split; [apply un_beh6; exact HU | intros _; exact HU].
    - (* ENeg *)
      assert (HU : UN (TE (ENeg e)) (nm (ENeg e))).
      { rewrite TE_neg. destruct (starts_with_int e) eqn:Es.
        - apply (child_unary e PAbovePrimary true); [assumption | auto | left; reflexivity].
        - apply (child_unary e PUnary true); [assumption | auto | right; split; [reflexivity | intros _; exact Es]]. }
      split; [apply un_beh6; exact HU | intros _; exact HU].
    - (* EAdd *)
      apply M_non6; [unfold lev; cbn [prec_of prec_n]; lia|]. change (lev (EAdd e1 e2)) with 4. rewrite TE_add.
      apply (beh_binop 4 (O "+") EAdd); [reflexivity | cbn [bnd]; lia | reflexivity | exact ev_add_loop_plus | chb | chb].
    - (* ESub *)
      apply M_non6; [unfold lev; cbn [prec_of prec_n]; lia|]. change (lev (ESub e1 e2)) with 4. rewrite TE_sub.
      apply (beh_binop 4 (O "-") ESub); [reflexivity | cbn [bnd]; lia | reflexivity | exact ev_add_loop_minus | chb | chb].
    - (* EMul *)
      apply M_non6; [unfold lev; cbn [prec_of prec_n]; lia|]. change (lev (EMul e1 e2)) with 5. rewrite TE_mul.
      apply (beh_binop 5 (O "*") EMul); [reflexivity | cbn [bnd]; lia | reflexivity | exact ev_mult_loop | chb | chb].
    - (* EEq *)
      apply M_non6; [unfold lev; cbn [prec_of prec_n]; lia|]. change (lev (EEq e1 e2)) with 3. rewrite TE_eq.
      apply (beh_relop (O "==") EEq); [reflexivity | reflexivity | reflexivity | reflexivity | reflexivity | chb | chb].
    - (* ENe *)
      apply M_non6; [unfold lev; cbn [prec_of prec_n]; lia|]. change (lev (ENe e1 e2)) with 3. rewrite TE_ne.
      apply (beh_relop (O "!=") ENe); [reflexivity | reflexivity | reflexivity | reflexivity | reflexivity | chb | chb].
    - (* ELt *)
      apply M_non6; [unfold lev; cbn [prec_of prec_n]; lia|]. change (lev (ELt e1 e2)) with 3. rewrite TE_lt.
      apply (beh_relop (O "<") ELt); [reflexivity | reflexivity | reflexivity | reflexivity | reflexivity | chb | chb].
    - (* ELe *)
      apply M_non6; [unfold lev; cbn [prec_of prec_n]; lia|]. change (lev (ELe e1 e2)) with 3. rewrite TE_le.
      apply (beh_relop (O "<=") ELe); [reflexivity | reflexivity | reflexivity | reflexivity | reflexivity | chb | chb].
    - (* EGt *)
      apply M_non6; [unfold lev; cbn [prec_of prec_n]; lia|]. change (lev (EGt e1 e2)) with 3. rewrite TE_gt.
      apply (beh_relop (O ">") EGt); [reflexivity | reflexivity | reflexivity | reflexivity | reflexivity | chb | chb].
    - (* EGe *)
      apply M_non6; [unfold lev; cbn [prec_of prec_n]; lia|]. change (lev (EGe e1 e2)) with 3. rewrite TE_ge.
      apply (beh_relop (O ">=") EGe); [reflexivity | reflexivity | reflexivity | reflexivity | reflexivity | chb | chb].
    - (* EIn *)
      apply M_non6; [unfold lev; cbn [prec_of prec_n]; lia|]. change (lev (EIn e1 e2)) with 3. rewrite TE_in.
      apply (beh_relop (K "in") EIn); [reflexivity | reflexivity | reflexivity | reflexivity | reflexivity | chb | chb].
    - (* EContains *)
      apply M_non6; [unfold lev; cbn [prec_of prec_n]; lia|]. change (lev (EContains e1 e2)) with 7. rewrite TE_contains.
      apply (beh_method _ (nm e1) (s_of "contains") [(TC PAccess e2, nm e2)]); [chb | constructor; [apply good_child; auto | constructor] | reflexivity].
    - (* EContainsAll *)
      apply M_non6; [unfold lev; cbn [prec_of prec_n]; lia|]. change (lev (EContainsAll e1 e2)) with 7. rewrite TE_containsAll.
      apply (beh_method _ (nm e1) (s_of "containsAll") [(TC PAccess e2, nm e2)]); [chb | constructor; [apply good_child; auto | constructor] | reflexivity].
    - (* EContainsAny *)
      apply M_non6; [unfold lev; cbn [prec_of prec_n]; lia|]. change (lev (EContainsAny e1 e2)) with 7. rewrite TE_containsAny.
      apply (beh_method _ (nm e1) (s_of "containsAny") [(TC PAccess e2, nm e2)]); [chb | constructor; [apply good_child; auto | constructor] | reflexivity].
    - (* EIsEmpty *)
      apply M_non6; [unfold lev; cbn [prec_of prec_n]; lia|]. change (lev (EIsEmpty e)) with 7. rewrite TE_isEmpty.
      apply (beh_method _ (nm e) (s_of "isEmpty") []); [chb | constructor | reflexivity].
    - (* EAccess *)
      apply M_non6; [unfold lev; cbn [prec_of prec_n]; lia|]. change (lev (EAccess e k)) with 7. rewrite TE_access.
      apply (beh_access _ (nm e)); [chb|]. intros R w r HR Hc Hloop. unfold TA. destruct (can_ident k).
      + split; [discriminate|]. split; [cbn [app]; contc|]. cbn [app].
        apply ev_access_field; [exact HR | txf | exact Hloop].
      + split; [discriminate|]. split; [cbn [app]; contc|]. cbn [app].
        apply (ev_access_index _ k); [apply sv_quote; assumption | exact HR | exact Hloop].
    - (* EHas *)
      apply M_non6; [unfold lev; cbn [prec_of prec_n]; lia|]. change (lev (EHas e k)) with 3. rewrite TE_has.
      apply (beh_reltail _ (nm e)); [chb|]. intros R HR Hc. destruct (can_ident k).
      + split; [discriminate|]. split; [cbn [app]; contc|]. cbn [app]. apply ev_rel_has_ident; [exact HR | txf].
      + split; [discriminate|]. split; [cbn [app]; contc|]. cbn [app]. apply ev_rel_has_str; [apply sv_quote; assumption | exact HR].
    - (* EGetTag *)
      apply M_non6; [unfold lev; cbn [prec_of prec_n]; lia|]. change (lev (EGetTag e1 e2)) with 7. rewrite TE_getTag.
      apply (beh_method _ (nm e1) (s_of "getTag") [(TC PAccess e2, nm e2)]); [chb | constructor; [apply good_child; auto | constructor] | reflexivity].
    - (* EHasTag *)
      apply M_non6; [unfold lev; cbn [prec_of prec_n]; lia|]. change (lev (EHasTag e1 e2)) with 7. rewrite TE_hasTag.
      apply (beh_method _ (nm e1) (s_of "hasTag") [(TC PAccess e2, nm e2)]); [chb | constructor; [apply good_child; auto | constructor] | reflexivity].
    - (* ELike *)
      apply M_non6; [unfold lev; cbn [prec_of prec_n]; lia|]. change (lev (ELike e p)) with 3. rewrite TE_like.
      apply (beh_reltail _ (nm e)); [chb|]. intros R HR Hc.
      split; [discriminate|]. split; [cbn [app]; contc|]. cbn [app]. apply ev_rel_like; [apply pp_quote; assumption | exact HR].
    - (* EIs *)
      apply M_non6; [unfold lev; cbn [prec_of prec_n]; lia|]. change (lev (EIs e ty)) with 3. rewrite TE_is.
      apply (beh_reltail _ (nm e)); [chb|]. intros R HR Hc.
      split; [discriminate|]. split; [cbn [app]; contc|]. cbn [app].
      apply ev_rel_is; [ne | apply ev_TP; [exact HR | txf] | txf].
    - (* EIsIn *)
      apply M_non6; [unfold lev; cbn [prec_of prec_n]; lia|]. change (lev (EIsIn e1 ty e2)) with 3. rewrite TE_isin.
      apply (beh_reltail _ (nm e1)); [chb|]. intros R HR Hc.
      split; [discriminate|]. split; [cbn [app]; contc|]. cbn [app]. rewrite <- app_assoc. cbn [app].
      apply (ev_rel_isin _ ty (TC PAdd e2 ++ R)); [ne | apply ev_TP; [ne | reflexivity] | ne |].
      apply (child_val e2 PAdd 4 R); [assumption | auto | cbn [prec_n]; lia | lia | exact HR | cbn [bnd]; lia | left; lia].
    - (* EIf *)
      apply M_non6; [unfold lev; cbn [prec_of prec_n]; lia|]. change (lev (EIf e1 e2 e3)) with 0. rewrite TE_if.
      apply beh_of_val; [left; reflexivity|]. intros R HR Hc. cbn [PL]. cbn [app]. rewrite <- !app_assoc. cbn [app]. rewrite <- !app_assoc. cbn [app].
      apply (ev_expression_if _ (nm e1) (K "then" :: TC PIf e2 ++ K "else" :: TC PIf e3 ++ R) (TC PIf e2 ++ K "else" :: TC PIf e3 ++ R)
               (nm e2) (K "else" :: TC PIf e3 ++ R) (TC PIf e3 ++ R) (nm e3) R).
      + ne.
      + apply (child_val e1 PIf 0); [assumption | auto | cbn [prec_n]; lia | lia | ne | contb | right; left; reflexivity].
      + apply exact_cons; [reflexivity | ne].
      + apply (child_val e2 PIf 0); [assumption | auto | cbn [prec_n]; lia | lia | ne | contb | right; left; reflexivity].
      + apply exact_cons; [reflexivity | ne].
      + apply (child_val e3 PIf 0); [assumption | auto | cbn [prec_n]; lia | lia | exact HR | exact Hc | right; left; reflexivity].
    - (* ESet *)
      rewrite expr_ok_list in Hok.
      apply M_non6; [unfold lev; cbn [prec_of prec_n]; lia|]. change (lev (ESet es)) with 8. rewrite TE_set, norm_set.
      apply beh_of_val; [right; right; right; lia|]. intros R HR _. cbn [PL].
      set (items := map (fun a => (TC PUnary a, nm a)) es).
      assert (E1 : map (TC PUnary) es = map fst items) by (unfold items; rewrite map_map; reflexivity).
      assert (E2 : map nm es = map snd items) by (unfold items; rewrite map_map; reflexivity).
      rewrite E1, E2. rewrite <- app_comm_cons, <- app_assoc. cbn [app].
      apply ev_primary_set; [ne | | exact HR].
      apply (ev_exprs_list "]" items [] R); [reflexivity | reflexivity | reflexivity |].
      unfold items. apply good_children; [right; reflexivity | exact H | exact Hok].
    - (* ERecord *)
      assert (Hall : eok (ERecord kvs) = true) by (cbn [expr_ok]; repeat (apply andb_true_iff; split); assumption).
      rewrite expr_ok_record in Hall. apply andb_true_iff in Hall. destruct Hall as [Hall Hvs].
      apply andb_true_iff in Hall. destruct Hall as [Hd Hks].
      apply M_non6; [unfold lev; cbn [prec_of prec_n]; lia|]. change (lev (ERecord kvs)) with 8. rewrite TE_record, norm_record.
      apply beh_of_val; [right; right; right; lia|]. intros R HR _. cbn [PL].
      set (ens := map (fun kv : str * expr => (fst kv, TC PUnary (snd kv), nm (snd kv))) kvs : list entry).
      assert (E1 : map (fun kv : str * expr => Sq (fst kv) :: O ":" :: TC PUnary (snd kv)) kvs = map e_toks ens).
      { unfold ens. rewrite map_map. reflexivity. }
      assert (E2 : map (fun kv : str * expr => (fst kv, nm (snd kv))) kvs = map e_kv ens).
      { unfold ens. rewrite map_map. reflexivity. }
      assert (E3 : map fst kvs = map e_key ens).
      { unfold ens. rewrite map_map. reflexivity. }
      rewrite E1, E2. rewrite <- app_comm_cons, <- app_assoc. cbn [app].
      apply ev_primary_record; [ne|].
      apply (ev_record_list ens [] [] R HR).
      + unfold ens. apply Forall_forall. intros en Hen. apply in_map_iff in Hen. destruct Hen as (kv & <- & Hkv).
        rewrite forallb_forall in Hks, Hvs. rewrite Forall_forall in H.
        split; cbn [e_key fst snd]; [apply Hks; exact Hkv|].
        apply child_beh; [apply Hvs; exact Hkv | apply H; [exact Hkv | apply Hvs; exact Hkv] | lia | lia].
      + rewrite <- E3, <- distinct_keys_fresh. exact Hd.
      + intros k. reflexivity.
    - (* ECall *)
      change (eok (ECall n args) = true) in Hok. rewrite expr_ok_call in Hok.
      apply M_non6; [unfold lev; cbn [prec_of prec_n]; lia|]. change (lev (ECall n args)) with 7.
      destruct (ext_lookup n) as [[ar [|]]|] eqn:El; [| |discriminate Hok].
      + okd. assert (Hm : is_method n = true) by (unfold is_method; rewrite El; reflexivity).
        destruct args as [|a rest]; [discriminate|].
        inversion H as [|a' rest' IHa IHrest]; subst. cbn [forallb] in *. okd.
        rewrite (TE_call_method n a rest Hm), norm_call. cbn [map].
        set (items := map (fun x => (TC PAccess x, nm x)) rest).
        assert (E1 : map (TC PAccess) rest = map fst items) by (unfold items; rewrite map_map; reflexivity).
        assert (E2 : map nm rest = map snd items) by (unfold items; rewrite map_map; reflexivity).
        rewrite E1, E2.
        apply (beh_method _ (nm a) n items); [chb | unfold items; apply good_children; [left; reflexivity | assumption | assumption] |].
        apply (method_call_ext n _ _ ar); [apply negb_true_iff; assumption | exact El].
      + okd. assert (Hm : is_method n = false) by (unfold is_method; rewrite El; reflexivity).
        rewrite (TE_call_fn n args Hm), norm_call. unfold TP, path_items. rewrite split_path_ident by assumption.
        cbn [path_items_of]. rewrite toks_of_T, toks_of_nil. cbn [app]. fold (Id n).
        set (items := map (fun x => (TC PAccess x, nm x)) args).
        assert (E1 : map (TC PAccess) args = map fst items) by (unfold items; rewrite map_map; reflexivity).
        assert (E2 : map nm args = map snd items) by (unfold items; rewrite map_map; reflexivity).
        rewrite E1, E2.
        apply (beh_call_fn n items ar); [exact El | assumption |].
        unfold items. apply good_children; [left; reflexivity | assumption | assumption].
    - (* EPartialError *) discriminate Hok.
  Qed.

  Theorem parse_print_expr : forall e rest,
      expr_ok set_order e = true -> rest <> [] -> stop_tok (peek rest) = true ->
      exists f0, forall f, (f0 <= f)%nat ->
        p_expression f (toks_of (expr_items is_printable is_gext set_order print_ip extra e) ++ rest) = POk (norm set_order print_ip e) rest.
  Proof.
    intros e rest Hok Hr Hs. destruct (main_expr e Hok) as [HB _].
    pose proof (beh_down e 0 Hok ltac:(lia) HB) as H0.
    apply (beh_val 0 (TE e) (nm e) rest H0 Hr); [rewrite (stop_cont _ Hs); cbn [bnd]; lia | right; left; reflexivity].
  Qed.
End RT.

Print Assumptions parse_print_expr.
