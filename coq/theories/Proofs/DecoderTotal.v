(* The modelled decoders terminate on EVERY input (the model half of C10).
   "Does not terminate" shows up in the models as the out-of-fuel results PFuel / DFuel / None.  Here: these are never
   produced when the fuel is a simple function of the input size, for ARBITRARY inputs.
     1. the parser (Impl/Parser.v) on EOF-terminated token lists, with fuel 12 * length ts + 100 (the fuel of the driver);
     2. the policy-JSON decoder (Impl/PolicyJson.v) with fuel S (jdepth j);
     3. string / pattern literals (Impl/Quote.v): more fuel than the one handed out never changes the result. *)
From Coq Require Import ZArith List Bool String Lia.
Import ListNotations.
From Cedar Require Import Base.Int64 Base.Json Lang.Value Impl.Like Lang.Expr Impl.Eval Impl.Scanner Impl.Tokenizer Impl.Quote
  Impl.Parser Impl.ValueJson Impl.PolicyJson.
From Cedar Require Import Proofs.ParserFuel.

(* ============================================================================================================ *)
(* 1. The parser                                                                                                *)
(* ============================================================================================================ *)

(* token lists as the tokenizer produces them end with the EOF token (empty text) *)
Definition eof_terminated (ts : list token) : Prop := ts <> [] /\ t_text (last ts eof_token) = [].

Lemma good_adv : forall ts, eof_terminated ts -> eof_terminated (adv ts).
Proof.
  intros ts [Hne Hl]. destruct ts as [|t [|t' ts']]; [congruence | split; assumption |].
  cbn [adv]. split; [discriminate | exact Hl].
Qed.

Lemma adv_le : forall ts, List.length (adv ts) <= List.length ts.
Proof. intros ts. destruct ts as [|t [|t' ts']]; cbn [adv List.length]; lia. Qed.

Lemma good_len : forall ts, eof_terminated ts -> 1 <= List.length ts.
Proof. intros ts [Hne _]. destruct ts; [congruence | cbn [List.length]; lia]. Qed.

(* a token whose text matches a non-empty string is not the last one: advancing really consumes it *)
Lemma adv_lt : forall ts s, eof_terminated ts -> s <> EmptyString -> tx (peek ts) s = true ->
  S (List.length (adv ts)) <= List.length ts.
Proof.
  intros ts s [Hne Hl] Hs Htx. destruct ts as [|t [|t' ts']]; [congruence | |].
  - cbn [last] in Hl. cbn [peek] in Htx. rewrite (tx_empty_text t s Hl Hs) in Htx. discriminate.
  - cbn [adv List.length]. lia.
Qed.

(* ... and if the token AFTER the current one matches a non-empty string, the current one is not the last either *)
Lemma adv_lt2 : forall ts s, eof_terminated ts -> s <> EmptyString -> tx (peek (adv ts)) s = true ->
  S (List.length (adv ts)) <= List.length ts.
Proof.
  intros ts s [Hne Hl] Hs Htx. destruct ts as [|t [|t' ts']]; [congruence | |].
  - cbn [last] in Hl. cbn [adv peek] in Htx. rewrite (tx_empty_text t s Hl Hs) in Htx. discriminate.
  - cbn [adv List.length]. lia.
Qed.

(* ------------------------------------------------------------------------------------------------------------ *)
(* Tactics shared by the "rest" lemmas and the totality lemmas *)

Ltac solve_good := repeat apply good_adv; assumption.

(* bring  length (adv x) <= length x  into the context for every  adv x  whose length is mentioned *)
Ltac adv_facts :=
  repeat match goal with
  | |- context [List.length (adv ?x)] =>
      lazymatch goal with
      | _ : List.length (adv x) <= List.length x |- _ => fail
      | _ => pose proof (adv_le x)
      end
  | _ : context [List.length (adv ?x)] |- _ =>
      lazymatch goal with
      | _ : List.length (adv x) <= List.length x |- _ => fail
      | _ => pose proof (adv_le x)
      end
  end.

Ltac solve_len := adv_facts; lia.

Ltac has_fuel f c := match c with context [f] => idtac end.

(* E : call = POk v r ; find the rest lemma / induction hypothesis that applies *)
Ltac use_rest E :=
  match goal with
  | R : forall _, _ |- _ => eapply R in E; [destruct E as [? ?] | solve_good]
  end.

(* ------------------------------------------------------------------------------------------------------------ *)
(* POk returns a suffix: the rest is again EOF-terminated and not longer than the input.
   Goal shape:  X = POk v r -> eof_terminated r /\ length r <= length ts. *)
Ltac rest_leaf :=
  let H := fresh "Hleaf" in
  intros H; inversion H; subst; clear H; split; [solve_good | solve_len].

Ltac rest_tail :=
  let H := fresh "Htail" in
  intros H; use_rest H; split; [assumption | solve_len].

Ltac rest_call c :=
  let E := fresh "Ecall" in
  destruct c as [? ?| |] eqn:E; [use_rest E | | ].

(* E : tx (peek x) s = true : record that advancing over x (and over y when x = adv y) really consumes a token *)
Ltac tx_facts x s E :=
  try (pose proof (adv_lt x s ltac:(solve_good) ltac:(discriminate) E));
  try (lazymatch x with adv ?y => pose proof (adv_lt2 y s ltac:(solve_good) ltac:(discriminate) E) end).

Ltac destruct_tx c x s :=
  let E := fresh "Etx" in destruct c eqn:E; [tx_facts x s E|].

Ltac rest_scrut f c :=
  lazymatch c with
  | context [if ?b then adv ?x else ?x] => destruct b
  | match ?c' with _ => _ end => rest_scrut f c'
  | exact _ _ => unfold exact
  | tx (peek ?x) ?s => destruct_tx c x s
  | unary_ops _ _ _ =>
      let E := fresh "Eops" in
      destruct c as [[? ?]|] eqn:E; [use_rest E|]
  | _ => tryif has_fuel f c then rest_call c else destruct c
  end.

Ltac rest_step f :=
  cbv beta iota zeta;
  lazymatch goal with
  | |- ?X = POk _ _ -> _ =>
    lazymatch X with
    | match ?c with _ => _ end => rest_scrut f c
    | POk _ _ => rest_leaf
    | PErr => discriminate
    | PFuel => discriminate
    | _ => rest_tail
    end
  end.

Ltac rest f := repeat (rest_step f).

Lemma entity_rest_rest_le : forall f ty ts v r, eof_terminated ts -> entity_rest f ty ts = POk v r ->
  eof_terminated r /\ List.length r <= List.length ts.
Proof.
  induction f as [|f IH]; intros ty ts v r Hg; [discriminate|].
  cbn [entity_rest]. rest f.
Qed.

Lemma p_entity_rest_le : forall f ts v r, eof_terminated ts -> p_entity f ts = POk v r ->
  eof_terminated r /\ List.length r <= List.length ts.
Proof.
  intros f ts v r Hg. pose proof (entity_rest_rest_le f) as R1. unfold p_entity. rest f.
Qed.

Lemma path_rest_rest_le : forall f ty ts v r, eof_terminated ts -> path_rest f ty ts = POk v r ->
  eof_terminated r /\ List.length r <= List.length ts.
Proof.
  induction f as [|f IH]; intros ty ts v r Hg; [discriminate|].
  cbn [path_rest]. rest f.
Qed.

Lemma p_path_rest_le : forall f ts v r, eof_terminated ts -> p_path f ts = POk v r ->
  eof_terminated r /\ List.length r <= List.length ts.
Proof.
  intros f ts v r Hg. pose proof (path_rest_rest_le f) as R1. unfold p_path. rest f.
Qed.

Lemma p_entlist_rest_le : forall f ts acc v r, eof_terminated ts -> p_entlist f ts acc = POk v r ->
  eof_terminated r /\ List.length r <= List.length ts.
Proof.
  induction f as [|f IH]; intros ts acc v r Hg; [discriminate|].
  pose proof (p_entity_rest_le f) as R1.
  cbn [p_entlist]. rest f.
Qed.

Lemma p_scope_pr_rest_le : forall f ts v r, eof_terminated ts -> p_scope_pr f ts = POk v r ->
  eof_terminated r /\ List.length r <= List.length ts.
Proof.
  intros f ts v r Hg. pose proof (p_entity_rest_le f) as R1. pose proof (p_path_rest_le f) as R2.
  unfold p_scope_pr. rest f.
Qed.

Lemma p_scope_action_rest_le : forall f ts v r, eof_terminated ts -> p_scope_action f ts = POk v r ->
  eof_terminated r /\ List.length r <= List.length ts.
Proof.
  intros f ts v r Hg. pose proof (p_entity_rest_le f) as R1. pose proof (p_entlist_rest_le f) as R2.
  unfold p_scope_action. rest f.
Qed.

Lemma unary_ops_rest_le : forall f ts acc ops r, eof_terminated ts -> unary_ops f ts acc = Some (ops, r) ->
  eof_terminated r /\ List.length r <= List.length ts.
Proof.
  induction f as [|f IH]; intros ts acc ops r Hg; [discriminate|].
  cbn [unary_ops]. cbv zeta.
  destruct (tx (peek ts) "-").
  - intros H. apply IH in H; [|solve_good]. destruct H as [H1 H2]. split; [assumption | solve_len].
  - destruct (tx (peek ts) "!").
    + intros H. apply IH in H; [|solve_good]. destruct H as [H1 H2]. split; [assumption | solve_len].
    + intros H. inversion H; subst. split; [assumption | lia].
Qed.

(* the mutual block *)
Lemma expr_block_rest_le : forall f,
  (forall ts v r, eof_terminated ts -> p_expression f ts = POk v r -> eof_terminated r /\ List.length r <= List.length ts) /\
  (forall ts v r, eof_terminated ts -> p_or f ts = POk v r -> eof_terminated r /\ List.length r <= List.length ts) /\
  (forall l ts v r, eof_terminated ts -> p_or_loop f l ts = POk v r -> eof_terminated r /\ List.length r <= List.length ts) /\
  (forall ts v r, eof_terminated ts -> p_and f ts = POk v r -> eof_terminated r /\ List.length r <= List.length ts) /\
  (forall l ts v r, eof_terminated ts -> p_and_loop f l ts = POk v r -> eof_terminated r /\ List.length r <= List.length ts) /\
  (forall ts v r, eof_terminated ts -> p_relation f ts = POk v r -> eof_terminated r /\ List.length r <= List.length ts) /\
  (forall res cur ts v r, eof_terminated ts -> p_has_chain f res cur ts = POk v r -> eof_terminated r /\ List.length r <= List.length ts) /\
  (forall ts v r, eof_terminated ts -> p_add f ts = POk v r -> eof_terminated r /\ List.length r <= List.length ts) /\
  (forall l ts v r, eof_terminated ts -> p_add_loop f l ts = POk v r -> eof_terminated r /\ List.length r <= List.length ts) /\
  (forall ts v r, eof_terminated ts -> p_mult f ts = POk v r -> eof_terminated r /\ List.length r <= List.length ts) /\
  (forall l ts v r, eof_terminated ts -> p_mult_loop f l ts = POk v r -> eof_terminated r /\ List.length r <= List.length ts) /\
  (forall ts v r, eof_terminated ts -> p_unary f ts = POk v r -> eof_terminated r /\ List.length r <= List.length ts) /\
  (forall ts v r, eof_terminated ts -> p_member f ts = POk v r -> eof_terminated r /\ List.length r <= List.length ts) /\
  (forall l ts v r, eof_terminated ts -> p_access_loop f l ts = POk v r -> eof_terminated r /\ List.length r <= List.length ts) /\
  (forall ts v r, eof_terminated ts -> p_primary f ts = POk v r -> eof_terminated r /\ List.length r <= List.length ts) /\
  (forall pre ts v r, eof_terminated ts -> p_entity_or_extfun f pre ts = POk v r -> eof_terminated r /\ List.length r <= List.length ts) /\
  (forall close ts acc v r, eof_terminated ts -> p_expressions f close ts acc = POk v r -> eof_terminated r /\ List.length r <= List.length ts) /\
  (forall ts acc v r, eof_terminated ts -> p_record f ts acc = POk v r -> eof_terminated r /\ List.length r <= List.length ts).
Proof.
  induction f as [|f IH].
  - repeat match goal with |- _ /\ _ => split end; intros; discriminate.
  - pose proof (p_path_rest_le f) as Rpath. pose proof unary_ops_rest_le as Rops.
    destruct IH as (IH1 & IH2 & IH3 & IH4 & IH5 & IH6 & IH7 & IH8 & IH9 & IH10 & IH11 & IH12 & IH13 & IH14 & IH15 & IH16 & IH17 & IH18).
    split; [intros ts v r Hg; rewrite p_expression_S; rest f|].
    split; [intros ts v r Hg; rewrite p_or_S; rest f|].
    split; [intros l ts v r Hg; rewrite p_or_loop_S; rest f|].
    split; [intros ts v r Hg; rewrite p_and_S; rest f|].
    split; [intros l ts v r Hg; rewrite p_and_loop_S; rest f|].
    split; [intros ts v r Hg; rewrite p_relation_S; rest f|].
    split; [intros res cur ts v r Hg; rewrite p_has_chain_S; rest f|].
    split; [intros ts v r Hg; rewrite p_add_S; rest f|].
    split; [intros l ts v r Hg; rewrite p_add_loop_S; rest f|].
    split; [intros ts v r Hg; rewrite p_mult_S; rest f|].
    split; [intros l ts v r Hg; rewrite p_mult_loop_S; rest f|].
    split; [intros ts v r Hg; rewrite p_unary_S; rest f|].
    split; [intros ts v r Hg; rewrite p_member_S; rest f|].
    split; [intros l ts v r Hg; rewrite p_access_loop_S; rest f|].
    split; [intros ts v r Hg; rewrite p_primary_S; rest f|].
    split; [intros pre ts v r Hg; rewrite p_entity_or_extfun_S; rest f|].
    split; [intros close ts acc v r Hg; rewrite p_expressions_S; rest f|].
    intros ts acc v r Hg; rewrite p_record_S; rest f.
Qed.

Lemma p_expression_rest_le : forall f ts v r, eof_terminated ts -> p_expression f ts = POk v r ->
  eof_terminated r /\ List.length r <= List.length ts.
Proof. intros f. pose proof (expr_block_rest_le f) as H. repeat (destruct H as [? H]); assumption. Qed.
Lemma p_or_rest_le : forall f ts v r, eof_terminated ts -> p_or f ts = POk v r ->
  eof_terminated r /\ List.length r <= List.length ts.
Proof. intros f. pose proof (expr_block_rest_le f) as H. repeat (destruct H as [? H]); assumption. Qed.
Lemma p_or_loop_rest_le : forall f l ts v r, eof_terminated ts -> p_or_loop f l ts = POk v r ->
  eof_terminated r /\ List.length r <= List.length ts.
Proof. intros f. pose proof (expr_block_rest_le f) as H. repeat (destruct H as [? H]); assumption. Qed.
Lemma p_and_rest_le : forall f ts v r, eof_terminated ts -> p_and f ts = POk v r ->
  eof_terminated r /\ List.length r <= List.length ts.
Proof. intros f. pose proof (expr_block_rest_le f) as H. repeat (destruct H as [? H]); assumption. Qed.
Lemma p_and_loop_rest_le : forall f l ts v r, eof_terminated ts -> p_and_loop f l ts = POk v r ->
  eof_terminated r /\ List.length r <= List.length ts.
Proof. intros f. pose proof (expr_block_rest_le f) as H. repeat (destruct H as [? H]); assumption. Qed.
Lemma p_relation_rest_le : forall f ts v r, eof_terminated ts -> p_relation f ts = POk v r ->
  eof_terminated r /\ List.length r <= List.length ts.
Proof. intros f. pose proof (expr_block_rest_le f) as H. repeat (destruct H as [? H]); assumption. Qed.
Lemma p_has_chain_rest_le : forall f res cur ts v r, eof_terminated ts -> p_has_chain f res cur ts = POk v r ->
  eof_terminated r /\ List.length r <= List.length ts.
Proof. intros f. pose proof (expr_block_rest_le f) as H. repeat (destruct H as [? H]); assumption. Qed.
Lemma p_add_rest_le : forall f ts v r, eof_terminated ts -> p_add f ts = POk v r ->
  eof_terminated r /\ List.length r <= List.length ts.
Proof. intros f. pose proof (expr_block_rest_le f) as H. repeat (destruct H as [? H]); assumption. Qed.
Lemma p_add_loop_rest_le : forall f l ts v r, eof_terminated ts -> p_add_loop f l ts = POk v r ->
  eof_terminated r /\ List.length r <= List.length ts.
Proof. intros f. pose proof (expr_block_rest_le f) as H. repeat (destruct H as [? H]); assumption. Qed.
Lemma p_mult_rest_le : forall f ts v r, eof_terminated ts -> p_mult f ts = POk v r ->
  eof_terminated r /\ List.length r <= List.length ts.
Proof. intros f. pose proof (expr_block_rest_le f) as H. repeat (destruct H as [? H]); assumption. Qed.
Lemma p_mult_loop_rest_le : forall f l ts v r, eof_terminated ts -> p_mult_loop f l ts = POk v r ->
  eof_terminated r /\ List.length r <= List.length ts.
Proof. intros f. pose proof (expr_block_rest_le f) as H. repeat (destruct H as [? H]); assumption. Qed.
Lemma p_unary_rest_le : forall f ts v r, eof_terminated ts -> p_unary f ts = POk v r ->
  eof_terminated r /\ List.length r <= List.length ts.
Proof. intros f. pose proof (expr_block_rest_le f) as H. repeat (destruct H as [? H]); assumption. Qed.
Lemma p_member_rest_le : forall f ts v r, eof_terminated ts -> p_member f ts = POk v r ->
  eof_terminated r /\ List.length r <= List.length ts.
Proof. intros f. pose proof (expr_block_rest_le f) as H. repeat (destruct H as [? H]); assumption. Qed.
Lemma p_access_loop_rest_le : forall f l ts v r, eof_terminated ts -> p_access_loop f l ts = POk v r ->
  eof_terminated r /\ List.length r <= List.length ts.
Proof. intros f. pose proof (expr_block_rest_le f) as H. repeat (destruct H as [? H]); assumption. Qed.
Lemma p_primary_rest_le : forall f ts v r, eof_terminated ts -> p_primary f ts = POk v r ->
  eof_terminated r /\ List.length r <= List.length ts.
Proof. intros f. pose proof (expr_block_rest_le f) as H. repeat (destruct H as [? H]); assumption. Qed.
Lemma p_entity_or_extfun_rest_le : forall f pre ts v r, eof_terminated ts -> p_entity_or_extfun f pre ts = POk v r ->
  eof_terminated r /\ List.length r <= List.length ts.
Proof. intros f. pose proof (expr_block_rest_le f) as H. repeat (destruct H as [? H]); assumption. Qed.
Lemma p_expressions_rest_le : forall f close ts acc v r, eof_terminated ts -> p_expressions f close ts acc = POk v r ->
  eof_terminated r /\ List.length r <= List.length ts.
Proof. intros f. pose proof (expr_block_rest_le f) as H. repeat (destruct H as [? H]); assumption. Qed.
Lemma p_record_rest_le : forall f ts acc v r, eof_terminated ts -> p_record f ts acc = POk v r ->
  eof_terminated r /\ List.length r <= List.length ts.
Proof. intros f. pose proof (expr_block_rest_le f) as H. repeat (destruct H as [? H]); assumption. Qed.

(* ------------------------------------------------------------------------------------------------------------ *)
(* annotations, conditions, policies *)
Lemma p_annotations_rest_le : forall f ts acc v r, eof_terminated ts -> p_annotations f ts acc = POk v r ->
  eof_terminated r /\ List.length r <= List.length ts.
Proof.
  induction f as [|f IH]; intros ts acc v r Hg; [discriminate|].
  cbn [p_annotations]. rest f.
Qed.

Lemma p_conditions_rest_le : forall f ts acc v r, eof_terminated ts -> p_conditions f ts acc = POk v r ->
  eof_terminated r /\ List.length r <= List.length ts.
Proof.
  induction f as [|f IH]; intros ts acc v r Hg; [discriminate|].
  pose proof (p_expression_rest_le f) as R1.
  cbn [p_conditions]. rest f.
Qed.

(* a successfully parsed policy consumed at least one token (its effect keyword) *)
Lemma p_policy_rest_lt : forall f ts v r, eof_terminated ts -> p_policy f ts = POk v r ->
  eof_terminated r /\ S (List.length r) <= List.length ts.
Proof.
  intros f ts v r Hg.
  pose proof (p_annotations_rest_le f) as R1. pose proof (p_scope_pr_rest_le f) as R2.
  pose proof (p_scope_action_rest_le f) as R3. pose proof (p_conditions_rest_le f) as R4.
  unfold p_policy, bind, bexact. rest f.
Qed.

Lemma p_policy_rest_le : forall f ts v r, eof_terminated ts -> p_policy f ts = POk v r ->
  eof_terminated r /\ List.length r <= List.length ts.
Proof. intros f ts v r Hg H. destruct (p_policy_rest_lt f ts v r Hg H) as [H1 H2]. split; [assumption | lia]. Qed.

Lemma p_policies_rest_le : forall f ts acc v r, eof_terminated ts -> p_policies f ts acc = POk v r ->
  eof_terminated r /\ List.length r <= List.length ts.
Proof.
  induction f as [|f IH]; intros ts acc v r Hg; [discriminate|].
  pose proof (p_policy_rest_le (S f)) as R1.
  cbn [p_policies]. unfold bind.
  destruct (t_type (peek ts)); rest f.
Qed.

(* ============================================================================================================ *)
(* Totality: with enough fuel the result is never PFuel.
   Every call either descends one precedence level on the same token list (the constants below decrease), or is made on a
   strictly shorter EOF-terminated list (and 12 exceeds the largest constant).  Goal shape:  X <> PFuel. *)

Ltac len_facts :=
  repeat match goal with
  | H : eof_terminated ?x |- _ =>
      lazymatch goal with
      | _ : 1 <= List.length x |- _ => fail
      | _ => pose proof (good_len x H)
      end
  end.

Ltac solve_bound := len_facts; adv_facts; lia.

Ltac use_total :=
  match goal with
  | T : forall _, _ |- _ => apply T; [solve_good | solve_bound]
  end.

Lemma unary_ops_total : forall ts, eof_terminated ts -> unary_ops (S (List.length ts)) ts [] <> None.
Proof. intros ts [_ Hl]. apply unary_ops_eof_terminated. exact Hl. Qed.

Ltac total_call c :=
  let Hc := fresh "Hcall" in
  assert (Hc : c <> PFuel) by use_total;
  let E := fresh "Ecall" in
  destruct c as [? ?| |] eqn:E; [use_rest E; clear Hc | clear Hc | exfalso; apply Hc; reflexivity].

Ltac total_scrut f c :=
  lazymatch c with
  | context [if ?b then adv ?x else ?x] => destruct b
  | match ?c' with _ => _ end => total_scrut f c'
  | exact _ _ => unfold exact
  | negb (tx (peek ?x) ?s) => destruct_tx (tx (peek x) s) x s; cbn [negb]
  | orb (tx (peek ?x) ?s) _ => destruct_tx (tx (peek x) s) x s; cbn [orb]
  | tx (peek ?x) ?s => destruct_tx c x s
  | unary_ops _ ?x _ =>
      let Hn := fresh "Hops" in
      assert (Hn : c <> None) by (apply unary_ops_total; solve_good);
      let E := fresh "Eops" in
      destruct c as [[? ?]|] eqn:E; [use_rest E; clear Hn | exfalso; apply Hn; reflexivity]
  | _ => tryif has_fuel f c then total_call c else destruct c
  end.

Ltac total_tail := use_total.

Ltac total_step f :=
  cbv beta iota zeta;
  lazymatch goal with
  | |- ?X <> PFuel =>
    lazymatch X with
    | match ?c with _ => _ end => total_scrut f c
    | POk _ _ => discriminate
    | PErr => discriminate
    | _ => total_tail
    end
  end.

Ltac total f := repeat (total_step f).

Lemma entity_rest_total : forall f ty ts, eof_terminated ts -> List.length ts + 1 <= f -> entity_rest f ty ts <> PFuel.
Proof.
  induction f as [|f IH]; intros ty ts Hg Hb; [lia|].
  cbn [entity_rest]. total f.
Qed.

Lemma p_entity_total : forall f ts, eof_terminated ts -> List.length ts + 1 <= f -> p_entity f ts <> PFuel.
Proof.
  intros f ts Hg Hb. pose proof (entity_rest_total f) as T1. unfold p_entity. total f.
Qed.

Lemma path_rest_total : forall f ty ts, eof_terminated ts -> List.length ts + 1 <= f -> path_rest f ty ts <> PFuel.
Proof.
  induction f as [|f IH]; intros ty ts Hg Hb; [lia|].
  cbn [path_rest]. total f.
Qed.

Lemma p_path_total : forall f ts, eof_terminated ts -> List.length ts + 1 <= f -> p_path f ts <> PFuel.
Proof.
  intros f ts Hg Hb. pose proof (path_rest_total f) as T1. unfold p_path. total f.
Qed.

(* the closing bracket ends the list at once *)
Lemma p_entlist_close : forall f ts acc, 1 <= f -> tx (peek ts) "]" = true -> p_entlist f ts acc <> PFuel.
Proof. intros f ts acc Hf E. destruct f as [|f]; [lia|]. cbn [p_entlist]. rewrite E. discriminate. Qed.

Lemma p_entlist_total : forall f ts acc, eof_terminated ts -> 2 * List.length ts + 2 <= f -> p_entlist f ts acc <> PFuel.
Proof.
  induction f as [|f IH]; intros ts acc Hg Hb; [lia|].
  pose proof (p_entity_total f) as T1. pose proof p_entity_rest_le as R1.
  cbn [p_entlist]. total f.
  apply p_entlist_close; [solve_bound | assumption].
Qed.

Lemma p_scope_pr_total : forall f ts, eof_terminated ts -> List.length ts + 1 <= f -> p_scope_pr f ts <> PFuel.
Proof.
  intros f ts Hg Hb. pose proof (p_entity_total f) as T1. pose proof (p_path_total f) as T2.
  pose proof p_entity_rest_le as R1. pose proof p_path_rest_le as R2.
  unfold p_scope_pr. total f.
Qed.

Lemma p_scope_action_total : forall f ts, eof_terminated ts -> 2 * List.length ts + 2 <= f -> p_scope_action f ts <> PFuel.
Proof.
  intros f ts Hg Hb. pose proof (p_entity_total f) as T1. pose proof (p_entlist_total f) as T2.
  pose proof p_entity_rest_le as R1. pose proof p_entlist_rest_le as R2.
  unfold p_scope_action. total f.
Qed.

(* the closing token ends an expression list / a record at once *)
Lemma p_expressions_close : forall f close ts acc, 1 <= f -> tx (peek ts) close = true -> p_expressions f close ts acc <> PFuel.
Proof. intros f close ts acc Hf E. destruct f as [|f]; [lia|]. rewrite p_expressions_S. rewrite E. discriminate. Qed.

Lemma p_record_close : forall f ts acc, 1 <= f -> tx (peek ts) "}" = true -> p_record f ts acc <> PFuel.
Proof. intros f ts acc Hf E. destruct f as [|f]; [lia|]. rewrite p_record_S. rewrite E. discriminate. Qed.

Ltac total_tail ::=
  first [ use_total
        | apply p_expressions_close; [solve_bound | assumption]
        | apply p_record_close; [solve_bound | assumption] ].

(* the mutual block *)
Lemma expr_block_total : forall f,
  (forall ts, eof_terminated ts -> 12 * List.length ts + 9 <= f -> p_expression f ts <> PFuel) /\
  (forall ts, eof_terminated ts -> 12 * List.length ts + 8 <= f -> p_or f ts <> PFuel) /\
  (forall l ts, eof_terminated ts -> 12 * List.length ts + 1 <= f -> p_or_loop f l ts <> PFuel) /\
  (forall ts, eof_terminated ts -> 12 * List.length ts + 7 <= f -> p_and f ts <> PFuel) /\
  (forall l ts, eof_terminated ts -> 12 * List.length ts + 1 <= f -> p_and_loop f l ts <> PFuel) /\
  (forall ts, eof_terminated ts -> 12 * List.length ts + 6 <= f -> p_relation f ts <> PFuel) /\
  (forall res cur ts, eof_terminated ts -> 12 * List.length ts + 1 <= f -> p_has_chain f res cur ts <> PFuel) /\
  (forall ts, eof_terminated ts -> 12 * List.length ts + 5 <= f -> p_add f ts <> PFuel) /\
  (forall l ts, eof_terminated ts -> 12 * List.length ts + 1 <= f -> p_add_loop f l ts <> PFuel) /\
  (forall ts, eof_terminated ts -> 12 * List.length ts + 4 <= f -> p_mult f ts <> PFuel) /\
  (forall l ts, eof_terminated ts -> 12 * List.length ts + 1 <= f -> p_mult_loop f l ts <> PFuel) /\
  (forall ts, eof_terminated ts -> 12 * List.length ts + 3 <= f -> p_unary f ts <> PFuel) /\
  (forall ts, eof_terminated ts -> 12 * List.length ts + 2 <= f -> p_member f ts <> PFuel) /\
  (forall l ts, eof_terminated ts -> 12 * List.length ts + 1 <= f -> p_access_loop f l ts <> PFuel) /\
  (forall ts, eof_terminated ts -> 12 * List.length ts + 1 <= f -> p_primary f ts <> PFuel) /\
  (forall pre ts, eof_terminated ts -> 12 * List.length ts + 1 <= f -> p_entity_or_extfun f pre ts <> PFuel) /\
  (forall close ts acc, eof_terminated ts -> 12 * List.length ts + 10 <= f -> p_expressions f close ts acc <> PFuel) /\
  (forall ts acc, eof_terminated ts -> 12 * List.length ts + 1 <= f -> p_record f ts acc <> PFuel).
Proof.
  induction f as [|f IH].
  - repeat match goal with |- _ /\ _ => split end; intros; lia.
  - pose proof (p_path_total f) as Tpath.
    pose proof p_path_rest_le as Rpath. pose proof unary_ops_rest_le as Rops.
    pose proof p_expression_rest_le as R1.
    pose proof p_or_rest_le as R2.
    pose proof p_or_loop_rest_le as R3.
    pose proof p_and_rest_le as R4.
    pose proof p_and_loop_rest_le as R5.
    pose proof p_relation_rest_le as R6.
    pose proof p_has_chain_rest_le as R7.
    pose proof p_add_rest_le as R8.
    pose proof p_add_loop_rest_le as R9.
    pose proof p_mult_rest_le as R10.
    pose proof p_mult_loop_rest_le as R11.
    pose proof p_unary_rest_le as R12.
    pose proof p_member_rest_le as R13.
    pose proof p_access_loop_rest_le as R14.
    pose proof p_primary_rest_le as R15.
    pose proof p_entity_or_extfun_rest_le as R16.
    pose proof p_expressions_rest_le as R17.
    pose proof p_record_rest_le as R18.
    destruct IH as (IH1 & IH2 & IH3 & IH4 & IH5 & IH6 & IH7 & IH8 & IH9 & IH10 & IH11 & IH12 & IH13 & IH14 & IH15 & IH16 & IH17 & IH18).
    split; [intros ts Hg Hb; rewrite p_expression_S; total f|].
    split; [intros ts Hg Hb; rewrite p_or_S; total f|].
    split; [intros l ts Hg Hb; rewrite p_or_loop_S; total f|].
    split; [intros ts Hg Hb; rewrite p_and_S; total f|].
    split; [intros l ts Hg Hb; rewrite p_and_loop_S; total f|].
    split; [intros ts Hg Hb; rewrite p_relation_S; total f|].
    split; [intros res cur ts Hg Hb; rewrite p_has_chain_S; total f|].
    split; [intros ts Hg Hb; rewrite p_add_S; total f|].
    split; [intros l ts Hg Hb; rewrite p_add_loop_S; total f|].
    split; [intros ts Hg Hb; rewrite p_mult_S; total f|].
    split; [intros l ts Hg Hb; rewrite p_mult_loop_S; total f|].
    split; [intros ts Hg Hb; rewrite p_unary_S; total f|].
    split; [intros ts Hg Hb; rewrite p_member_S; total f|].
    split; [intros l ts Hg Hb; rewrite p_access_loop_S; total f|].
    split; [intros ts Hg Hb; rewrite p_primary_S; total f|].
    split; [intros pre ts Hg Hb; rewrite p_entity_or_extfun_S; total f|].
    split; [intros close ts acc Hg Hb; rewrite p_expressions_S; total f|].
    intros ts acc Hg Hb; rewrite p_record_S; total f.
Qed.

Lemma p_expression_total_k : forall f ts, eof_terminated ts -> 12 * List.length ts + 9 <= f -> p_expression f ts <> PFuel.
Proof. intros f. pose proof (expr_block_total f) as H. repeat (destruct H as [? H]); assumption. Qed.
Lemma p_or_total_k : forall f ts, eof_terminated ts -> 12 * List.length ts + 8 <= f -> p_or f ts <> PFuel.
Proof. intros f. pose proof (expr_block_total f) as H. repeat (destruct H as [? H]); assumption. Qed.
Lemma p_or_loop_total_k : forall f l ts, eof_terminated ts -> 12 * List.length ts + 1 <= f -> p_or_loop f l ts <> PFuel.
Proof. intros f. pose proof (expr_block_total f) as H. repeat (destruct H as [? H]); assumption. Qed.
Lemma p_and_total_k : forall f ts, eof_terminated ts -> 12 * List.length ts + 7 <= f -> p_and f ts <> PFuel.
Proof. intros f. pose proof (expr_block_total f) as H. repeat (destruct H as [? H]); assumption. Qed.
Lemma p_and_loop_total_k : forall f l ts, eof_terminated ts -> 12 * List.length ts + 1 <= f -> p_and_loop f l ts <> PFuel.
Proof. intros f. pose proof (expr_block_total f) as H. repeat (destruct H as [? H]); assumption. Qed.
Lemma p_relation_total_k : forall f ts, eof_terminated ts -> 12 * List.length ts + 6 <= f -> p_relation f ts <> PFuel.
Proof. intros f. pose proof (expr_block_total f) as H. repeat (destruct H as [? H]); assumption. Qed.
Lemma p_has_chain_total_k : forall f res cur ts, eof_terminated ts -> 12 * List.length ts + 1 <= f -> p_has_chain f res cur ts <> PFuel.
Proof. intros f. pose proof (expr_block_total f) as H. repeat (destruct H as [? H]); assumption. Qed.
Lemma p_add_total_k : forall f ts, eof_terminated ts -> 12 * List.length ts + 5 <= f -> p_add f ts <> PFuel.
Proof. intros f. pose proof (expr_block_total f) as H. repeat (destruct H as [? H]); assumption. Qed.
Lemma p_add_loop_total_k : forall f l ts, eof_terminated ts -> 12 * List.length ts + 1 <= f -> p_add_loop f l ts <> PFuel.
Proof. intros f. pose proof (expr_block_total f) as H. repeat (destruct H as [? H]); assumption. Qed.
Lemma p_mult_total_k : forall f ts, eof_terminated ts -> 12 * List.length ts + 4 <= f -> p_mult f ts <> PFuel.
Proof. intros f. pose proof (expr_block_total f) as H. repeat (destruct H as [? H]); assumption. Qed.
Lemma p_mult_loop_total_k : forall f l ts, eof_terminated ts -> 12 * List.length ts + 1 <= f -> p_mult_loop f l ts <> PFuel.
Proof. intros f. pose proof (expr_block_total f) as H. repeat (destruct H as [? H]); assumption. Qed.
Lemma p_unary_total_k : forall f ts, eof_terminated ts -> 12 * List.length ts + 3 <= f -> p_unary f ts <> PFuel.
Proof. intros f. pose proof (expr_block_total f) as H. repeat (destruct H as [? H]); assumption. Qed.
Lemma p_member_total_k : forall f ts, eof_terminated ts -> 12 * List.length ts + 2 <= f -> p_member f ts <> PFuel.
Proof. intros f. pose proof (expr_block_total f) as H. repeat (destruct H as [? H]); assumption. Qed.
Lemma p_access_loop_total_k : forall f l ts, eof_terminated ts -> 12 * List.length ts + 1 <= f -> p_access_loop f l ts <> PFuel.
Proof. intros f. pose proof (expr_block_total f) as H. repeat (destruct H as [? H]); assumption. Qed.
Lemma p_primary_total_k : forall f ts, eof_terminated ts -> 12 * List.length ts + 1 <= f -> p_primary f ts <> PFuel.
Proof. intros f. pose proof (expr_block_total f) as H. repeat (destruct H as [? H]); assumption. Qed.
Lemma p_entity_or_extfun_total_k : forall f pre ts, eof_terminated ts -> 12 * List.length ts + 1 <= f -> p_entity_or_extfun f pre ts <> PFuel.
Proof. intros f. pose proof (expr_block_total f) as H. repeat (destruct H as [? H]); assumption. Qed.
Lemma p_expressions_total_k : forall f close ts acc, eof_terminated ts -> 12 * List.length ts + 10 <= f -> p_expressions f close ts acc <> PFuel.
Proof. intros f. pose proof (expr_block_total f) as H. repeat (destruct H as [? H]); assumption. Qed.
Lemma p_record_total_k : forall f ts acc, eof_terminated ts -> 12 * List.length ts + 1 <= f -> p_record f ts acc <> PFuel.
Proof. intros f. pose proof (expr_block_total f) as H. repeat (destruct H as [? H]); assumption. Qed.

(* ------------------------------------------------------------------------------------------------------------ *)
(* annotations, conditions, policies *)
Lemma p_annotations_total : forall f ts acc, eof_terminated ts -> List.length ts + 1 <= f -> p_annotations f ts acc <> PFuel.
Proof.
  induction f as [|f IH]; intros ts acc Hg Hb; [lia|].
  cbn [p_annotations]. total f.
Qed.

Lemma p_conditions_total : forall f ts acc, eof_terminated ts -> 12 * List.length ts + 10 <= f -> p_conditions f ts acc <> PFuel.
Proof.
  induction f as [|f IH]; intros ts acc Hg Hb; [lia|].
  pose proof (p_expression_total_k f) as T1. pose proof p_expression_rest_le as R1.
  cbn [p_conditions]. total f.
Qed.

Lemma p_policy_total_k : forall f ts, eof_terminated ts -> 12 * List.length ts + 10 <= f -> p_policy f ts <> PFuel.
Proof.
  intros f ts Hg Hb.
  pose proof (p_annotations_total f) as T1. pose proof (p_scope_pr_total f) as T2.
  pose proof (p_scope_action_total f) as T3. pose proof (p_conditions_total f) as T4.
  pose proof p_annotations_rest_le as R1. pose proof p_scope_pr_rest_le as R2.
  pose proof p_scope_action_rest_le as R3. pose proof p_conditions_rest_le as R4.
  unfold p_policy, bind, bexact. total f.
Qed.

Lemma p_policies_total_k : forall f ts acc, eof_terminated ts -> 12 * List.length ts + 10 <= f -> p_policies f ts acc <> PFuel.
Proof.
  induction f as [|f IH]; intros ts acc Hg Hb; [lia|].
  pose proof (p_policy_total_k (S f)) as T1. pose proof p_policy_rest_lt as R1.
  cbn [p_policies]. unfold bind.
  destruct (t_type (peek ts)); total f.
Qed.

(* ------------------------------------------------------------------------------------------------------------ *)
(* Headline theorems: the fuel of the correspondence driver, 12 * length ts + 100, is enough on every EOF-terminated token list *)
Theorem p_expression_total : forall ts, eof_terminated ts -> forall f, (12 * List.length ts + 100 <= f)%nat -> p_expression f ts <> PFuel.
Proof. intros ts Hg f Hb. apply p_expression_total_k; [assumption | lia]. Qed.

Theorem p_policy_total : forall ts, eof_terminated ts -> forall f, (12 * List.length ts + 100 <= f)%nat -> p_policy f ts <> PFuel.
Proof. intros ts Hg f Hb. apply p_policy_total_k; [assumption | lia]. Qed.

Theorem p_policies_total : forall ts, eof_terminated ts -> forall f, (12 * List.length ts + 100 <= f)%nat -> p_policies f ts [] <> PFuel.
Proof. intros ts Hg f Hb. apply p_policies_total_k; [assumption | lia]. Qed.

(* the hypothesis cannot be dropped: ParserFuel.p_expression_minus_never_settles is a token list without EOF token on which
   p_expression is PFuel for every fuel *)

(* ============================================================================================================ *)
(* 1b. The token lists the tokenizer model produces ARE EOF-terminated, so the parser theorems apply to them    *)
(* ============================================================================================================ *)
Section TokEof.
  Variable scanner : Type.
  Variable nxt : scanner -> option (scanner * Z).
  Variable token_start token_stop set_err : scanner -> scanner.
  Variable token_position : scanner -> Z * Z * Z.
  Variable token_text : scanner -> list Z.
  Variable s_err : scanner -> bool.
  Hypothesis Htext : forall s, token_text (token_start s) = [].

  Lemma scan_operator_ty : forall s ch0 ch ty s' c,
    scan_operator scanner nxt s ch0 ch = Some (ty, s', c) -> ty = TOperator \/ ty = TUnknown.
  Proof.
    intros s ch0 ch ty s' c. unfold scan_operator. cbv zeta.
    repeat match goal with
    | |- (if ?b then _ else _) = _ -> _ => destruct b
    | |- option_map _ (nxt ?x) = _ -> _ => destruct (nxt x) as [[? ?]|]; cbn [option_map fst snd]
    end; intros H; inversion H; subst; auto.
  Qed.

  Ltac nt_leaf :=
    let H := fresh "H" in let Ht := fresh "Ht" in
    intros H Ht; inversion H; subst; clear H; cbn [t_type t_text] in Ht |- *;
    try (match goal with
         | E : scan_operator _ _ _ _ _ = Some (?ty, _, _) |- _ =>
             destruct (scan_operator_ty _ _ _ _ _ _ E); subst ty
         end);
    try discriminate Ht;
    try (apply Htext);
    try (match type of Ht with (if ?b then _ else _) = _ => destruct b; discriminate Ht end).

  Ltac nt_scrut c :=
    lazymatch c with
    | match ?c' with _ => _ end => nt_scrut c'
    | _ => let E := fresh "E" in destruct c eqn:E
    end.

  Ltac nt_step IH :=
    cbv beta iota zeta;
    lazymatch goal with
    | |- ?X = Some _ -> _ -> _ =>
      lazymatch X with
      | match ?c with _ => _ end => nt_scrut c
      | Some _ => nt_leaf
      | None => discriminate
      | _ => apply IH
      end
    end.

  Lemma next_token_eof_text : forall fuel s ch t s' c,
    next_token scanner nxt token_start token_stop set_err token_position token_text fuel s ch = Some (t, s', c) ->
    t_type t = TEOF -> t_text t = [].
  Proof.
    induction fuel as [|f IH]; intros s ch t s' c; [discriminate|].
    cbn [next_token]. repeat (nt_step IH).
  Qed.

  Lemma tokenize_loop_eof_terminated : forall fuel s ch acc ts,
    tokenize_loop scanner nxt token_start token_stop set_err token_position token_text s_err fuel s ch acc = Some (Some ts) ->
    eof_terminated ts.
  Proof.
    induction fuel as [|f IH]; intros s ch acc ts; [discriminate|].
    cbn [tokenize_loop].
    destruct (next_token scanner nxt token_start token_stop set_err token_position token_text (S f) s ch) as [[[t s'] c]|] eqn:E;
      [|discriminate].
    destruct (s_err s'); [discriminate|].
    destruct (t_type t) eqn:Et; try (apply IH).
    intros H. inversion H; subst; clear H. cbn [rev]. split.
    - destruct (rev acc); discriminate.
    - rewrite last_last. exact (next_token_eof_text _ _ _ _ _ _ E Et).
  Qed.
End TokEof.

Lemma scanner_token_text_start : forall s, Scanner.token_text (Scanner.token_start s) = [].
Proof.
  intros s. unfold Scanner.token_text, Scanner.token_start. cbn [s_tokPos s_tokBuf s_pos s_lastCharLen s_buf].
  rewrite Nat.sub_diag. reflexivity.
Qed.

Theorem tokenize_eof_terminated : forall fuel bufLen r ts, tokenize fuel bufLen r = Some (Some ts) -> eof_terminated ts.
Proof.
  intros fuel bufLen r ts. unfold tokenize. cbv zeta.
  destruct (next fuel bufLen (init r)) as [[s ch]|]; [|discriminate].
  apply tokenize_loop_eof_terminated. exact scanner_token_text_start.
Qed.

(* end to end: whatever the tokenizer model returns, the parser model does not run out of the driver's fuel on it *)
Corollary tokenize_p_policies_total : forall fuel bufLen r ts, tokenize fuel bufLen r = Some (Some ts) ->
  forall f, (12 * List.length ts + 100 <= f)%nat -> p_policies f ts [] <> PFuel.
Proof. intros fuel bufLen r ts H. apply p_policies_total. exact (tokenize_eof_terminated _ _ _ _ H). Qed.

(* ============================================================================================================ *)
(* 2. Policy JSON: the fuel decode_expr hands out, S (jdepth j), is enough for every tree                       *)
(* ============================================================================================================ *)
From Cedar Require Import Proofs.ValueProofs Proofs.PolicyJsonProofs.

Lemma dall_total {A} (l : list (dres A)) : Forall (fun x => x <> DFuel) l -> dall l <> DFuel.
Proof.
  intros HF. induction HF as [|x l Hx _ IH]; [discriminate|].
  cbn [dall]. unfold dbind. destruct x; try discriminate; [|congruence].
  destruct (dall l); try discriminate. congruence.
Qed.

Lemma dall_go_arr (D : json -> dres expr) (l : list json) :
  (forall x, In x l -> D x <> DFuel) ->
  dall ((fix go (a : list json) : list (dres expr) := match a with [] => [] | x :: r => D x :: go r end) l) <> DFuel.
Proof.
  intros H. apply dall_total. induction l as [|x l IH]; [constructor|].
  constructor; [apply H; left; reflexivity | apply IH; intros y Hy; apply H; right; exact Hy].
Qed.

Lemma dall_go_rec (D : json -> dres expr) (l : list (str * json)) :
  Forall (fun kv => D (snd kv) <> DFuel) l ->
  dall ((fix go (a : list (str * json)) : list (dres (str * expr)) :=
           match a with
           | [] => []
           | (key', JNull) :: r => DErr :: go r
           | (key', x) :: r => dbind (D x) (fun e => DOk (key', e)) :: go r
           end) l) <> DFuel.
Proof.
  intros HF. apply dall_total. induction HF as [|[key x] l Hx _ IH]; [constructor|].
  cbn [snd] in Hx.
  destruct x; (constructor; [|exact IH]); try discriminate;
    unfold dbind; destruct (D _); try discriminate; congruence.
Qed.

Lemma jget_in : forall key l v, jget key l = Some v -> exists key', In (key', v) l.
Proof.
  induction l as [|[k' v'] l IH]; intros v H; [discriminate|].
  cbn [jget] in H. destruct (jget key l) as [x|] eqn:E.
  - inversion H; subst. destruct (IH v eq_refl) as [k2 Hk2]. exists k2. right. exact Hk2.
  - destruct (str_eqb k' key); [|discriminate]. inversion H; subst. exists k'. left. reflexivity.
Qed.

Lemma jget_depth : forall key l v, jget key l = Some v -> jdepth v < jdepth (JObj l).
Proof.
  intros key l v H. destruct (jget_in key l v H) as [k' Hin]. exact (jdepth_obj_in (k', v) l Hin).
Qed.

Lemma field_depth : forall n l v, field n l = Some v -> jdepth v < jdepth (JObj l).
Proof.
  intros n l v H. unfold field in H. destruct (jget (k n) l) as [x|] eqn:E; [|discriminate].
  apply (jget_depth (k n)). rewrite E. destruct x; solve [exact H | discriminate H].
Qed.

Lemma first_field_depth : forall l key v, first_field l = Some (key, v) -> jdepth v < jdepth (JObj l).
Proof.
  intros l key v. unfold first_field. generalize node_keys. induction l0 as [|n r IH]; [discriminate|].
  destruct (field n l) as [x|] eqn:E.
  - intros H. inversion H; subst. exact (field_depth n l v E).
  - exact IH.
Qed.

Lemma dec_expr_S f j : dec_expr (S f) j = ltac:(let t := eval cbn [dec_expr] in (dec_expr (S f) j) in exact t).
Proof. reflexivity. Qed.

Lemma jdepth_obj_hd : forall key v r, jdepth v < jdepth (JObj ((key, v) :: r)).
Proof. intros key v r. apply (jdepth_obj_in (key, v)). left. reflexivity. Qed.

Lemma dec_pattern_nf : forall p, dec_pattern p <> DFuel.
Proof.
  intros p. unfold dec_pattern. destruct p as [| | | | |l|]; try discriminate.
  destruct l as [|c l]; [discriminate|]. destruct (all_some _); discriminate.
Qed.

(* E : lookup = Some v : the member found is shallower than the object *)
Ltac depth_of E :=
  first [ pose proof (jget_depth _ _ _ E) | pose proof (field_depth _ _ _ E) | pose proof (first_field_depth _ _ _ E) ].

Ltac d_hd_facts :=
  repeat match goal with
  | H : context [jdepth (JObj ((?key, ?v) :: ?r))] |- _ =>
      lazymatch goal with
      | _ : jdepth v < jdepth (JObj ((key, v) :: r)) |- _ => fail
      | _ => pose proof (jdepth_obj_hd key v r)
      end
  end.

Ltac d_use_ih :=
  match goal with
  | IH : forall _, _ -> dec_expr _ _ <> DFuel |- _ => apply IH; d_hd_facts; lia
  end.

Ltac solve_dall f :=
  first
  [ apply dall_go_arr;
    let x := fresh "x" in let Hx := fresh "Hx" in
    intros x Hx; pose proof (jdepth_arr_in _ _ Hx); d_use_ih
  | apply dall_go_rec; apply (rec_of_list_Forall (fun x => dec_expr f x <> DFuel)); apply Forall_forall;
    let kv := fresh "kv" in let Hkv := fresh "Hkv" in
    intros kv Hkv; pose proof (jdepth_obj_in _ _ Hkv); d_use_ih
  | apply dall_total; constructor ].

Ltac d_scrut f c :=
  lazymatch c with
  | match ?c' with _ => _ end => d_scrut f c'
  | jget _ _ => let E := fresh "Elook" in destruct c as [?|] eqn:E; [depth_of E|]
  | field _ _ => let E := fresh "Elook" in destruct c as [?|] eqn:E; [depth_of E|]
  | first_field _ => let E := fresh "Elook" in destruct c as [[? ?]|] eqn:E; [depth_of E|]
  | dall ?x =>
      let Hd := fresh "Hdall" in
      assert (Hd : c <> DFuel) by solve_dall f;
      destruct c; [ | | | exfalso; apply Hd; reflexivity]; clear Hd
  | dec_expr f ?x =>
      let Hd := fresh "Hcall" in
      assert (Hd : c <> DFuel) by d_use_ih;
      destruct c; [ | | | exfalso; apply Hd; reflexivity]; clear Hd
  | dec_pattern ?p =>
      let Hd := fresh "Hpat" in
      pose proof (dec_pattern_nf p) as Hd;
      destruct c; [ | | | exfalso; apply Hd; reflexivity]; clear Hd
  | _ => destruct c
  end.

Ltac d_step f :=
  cbv beta iota zeta;
  lazymatch goal with
  | |- ?X <> DFuel =>
    lazymatch X with
    | match ?c with _ => _ end => d_scrut f c
    | dbind _ _ => unfold dbind at 1
    | DOk _ => discriminate
    | DErr => discriminate
    | DUnk => discriminate
    | dec_expr f _ => d_use_ih
    end
  end.

Theorem dec_expr_total : forall j f, (jdepth j < f)%nat -> dec_expr f j <> DFuel.
Proof.
  intros j f; revert j. induction f as [|f IH]; intros j Hj; [lia|].
  rewrite dec_expr_S. repeat (d_step f).
Qed.

Theorem decode_expr_total : forall j, decode_expr j <> DFuel.
Proof. intros j. unfold decode_expr. apply dec_expr_total. lia. Qed.

(* the other pieces of dec_policy have no fuel at all *)
Lemma dall_map_nf {A B} (g : A -> dres B) (l : list A) : (forall x, g x <> DFuel) -> dall (map g l) <> DFuel.
Proof.
  intros H. apply dall_total. apply Forall_forall. intros y Hy. apply in_map_iff in Hy.
  destruct Hy as [x [<- _]]. apply H.
Qed.

Ltac nf_known := solve [auto 2].

Ltac nf_step :=
  cbv beta iota zeta;
  lazymatch goal with
  | |- ?X <> DFuel =>
    lazymatch X with
    | DOk _ => discriminate
    | DErr => discriminate
    | DUnk => discriminate
    | dbind ?c _ =>
        let Hc := fresh "Hc" in
        assert (Hc : c <> DFuel) by (repeat nf_step);
        unfold dbind at 1; destruct c; [ | discriminate | discriminate | exfalso; apply Hc; reflexivity]; clear Hc
    | match ?c with _ => _ end => nf_scrut c
    | dall (map _ _) => apply dall_map_nf; intro
    | _ => nf_known
    end
  end
with nf_scrut c :=
  lazymatch c with
  | match ?c' with _ => _ end => nf_scrut c'
  | _ => destruct c
  end.

Ltac nf := repeat nf_step.

Lemma sfield_nf : forall key l, sfield key l <> DFuel.
Proof. intros key l. unfold sfield. nf. Qed.
#[local] Hint Resolve sfield_nf : core.

Lemma dec_uid_nf : forall j, dec_uid j <> DFuel.
Proof. intros j. unfold dec_uid. nf. Qed.
#[local] Hint Resolve dec_uid_nf : core.

Lemma dec_scope_nf : forall action j, dec_scope action j <> DFuel.
Proof. intros action j. unfold dec_scope. nf. Qed.
#[local] Hint Resolve dec_scope_nf decode_expr_total : core.

Theorem dec_policy_total : forall j, dec_policy j <> DFuel.
Proof. intros j. unfold dec_policy. nf. Qed.

(* ============================================================================================================ *)
(* 3. String and pattern literals: unquote / parse_pattern / unicode_digits return option, where None means both
      "malformed" and "out of fuel".  The fuel is never the reason: any fuel above the length of the input gives the
      same result as the fuel the callers hand out.                                                             *)
(* ============================================================================================================ *)
From Cedar Require Import Base.Utf8 Base.Utf8Enc.
Local Open Scope Z_scope.

Ltac zbools :=
  repeat match goal with
  | H : (_ && _) = true |- _ => apply andb_true_iff in H; destruct H
  | H : (_ <? _) = true |- _ => apply Z.ltb_lt in H
  | H : (_ <? _) = false |- _ => apply Z.ltb_ge in H
  | H : (_ <=? _) = true |- _ => apply Z.leb_le in H
  | H : (_ <=? _) = false |- _ => apply Z.leb_gt in H
  | H : (_ =? _) = true |- _ => apply Z.eqb_eq in H
  | H : (_ =? _) = false |- _ => apply Z.eqb_neq in H
  end.

(* a decoded rune has width 1..4; it is '*' only if the first byte is '*' *)
Lemma decode_rune_cons : forall b0 r ch w, decode_rune (b0 :: r) = (ch, w) ->
  (1 <= w)%nat /\ (ch = 42 -> b0 = 42).
Proof.
  intros b0 r ch w. unfold decode_rune, rune_error, is_cont. cbv zeta.
  repeat match goal with
  | |- context [if ?c then _ else _] =>
      lazymatch c with
      | context [if _ then _ else _] => fail
      | _ => let E := fresh "E" in destruct c eqn:E
      end
  | |- context [match ?l with [] => _ | _ :: _ => _ end] => destruct l
  end;
  intros H; inversion H; subst; clear H; (split; [lia|]); zbools; lia.
Qed.

Lemma next_rune_lt : forall b ch b', next_rune b = Some (ch, b') -> (List.length b' < List.length b)%nat.
Proof.
  intros b ch b'. unfold next_rune. destruct (decode_rune b) as [c w] eqn:E.
  destruct ((c =? rune_error) && Nat.leb w 1) eqn:Ec; [discriminate|].
  intros H. inversion H; subst; clear H.
  destruct b as [|b0 r]; [cbn in E; inversion E; subst; cbn in Ec; discriminate|].
  destruct (decode_rune_cons b0 r ch w E) as [Hw _].
  rewrite skipn_length. cbn [List.length]. lia.
Qed.

Lemma next_rune_star : forall b0 r b', next_rune (b0 :: r) = Some (42, b') -> b0 = 42.
Proof.
  intros b0 r b'. unfold next_rune. destruct (decode_rune (b0 :: r)) as [c w] eqn:E.
  destruct ((c =? rune_error) && Nat.leb w 1); [discriminate|].
  intros H. inversion H; subst; clear H.
  destruct (decode_rune_cons b0 r 42 w E) as [_ Hs]. apply Hs. reflexivity.
Qed.

Lemma parse_hex_escape_lt : forall b r b', parse_hex_escape b = Some (r, b') -> (List.length b' < List.length b)%nat.
Proof.
  intros b r b'. unfold parse_hex_escape.
  destruct (next_rune b) as [[c1 b1]|] eqn:E1; [|discriminate].
  destruct (negb (is_hexd c1)); [discriminate|].
  destruct (next_rune b1) as [[c2 b2]|] eqn:E2; [|discriminate].
  destruct (negb (is_hexd c2)); [discriminate|]. cbv zeta.
  destruct (127 <? 16 * digit_val c1 + digit_val c2); [discriminate|].
  intros H. inversion H; subst; clear H.
  pose proof (next_rune_lt _ _ _ E1). pose proof (next_rune_lt _ _ _ E2). lia.
Qed.

Lemma unicode_digits_lt : forall f b res d r d' b', unicode_digits f b res d = Some (r, d', b') ->
  (List.length b' < List.length b)%nat.
Proof.
  induction f as [|f IH]; intros b res d r d' b'; [discriminate|].
  cbn [unicode_digits]. destruct (next_rune b) as [[ch b1]|] eqn:E1; [|discriminate].
  pose proof (next_rune_lt _ _ _ E1) as Hlt.
  destruct (ch =? 125).
  - intros H. inversion H; subst. exact Hlt.
  - destruct (negb (is_hexd ch)); [discriminate|].
    intros H. apply IH in H. lia.
Qed.

Lemma parse_unicode_escape_lt : forall b r b', parse_unicode_escape b = Some (r, b') -> (List.length b' < List.length b)%nat.
Proof.
  intros b r b'. unfold parse_unicode_escape.
  destruct (next_rune b) as [[ch b1]|] eqn:E1; [|discriminate].
  pose proof (next_rune_lt _ _ _ E1) as Hlt.
  destruct (negb (ch =? 123)); [discriminate|].
  destruct (unicode_digits (S (List.length b1)) b1 0 0) as [[[res digits] b2]|] eqn:E2; [|discriminate].
  pose proof (unicode_digits_lt _ _ _ _ _ _ _ E2) as Hlt2.
  destruct (Nat.eqb digits 0 || Nat.ltb 6 digits || negb (valid_rune res)); [discriminate|].
  intros H. inversion H; subst. lia.
Qed.

(* the digit loop: any fuel above the length of the input gives the same result *)
Lemma unicode_digits_stable : forall f1 f2 b res d, (List.length b < f1)%nat -> (List.length b < f2)%nat ->
  unicode_digits f1 b res d = unicode_digits f2 b res d.
Proof.
  induction f1 as [|f1 IH]; intros f2 b res d H1 H2; [lia|].
  destruct f2 as [|f2]; [lia|].
  cbn [unicode_digits]. destruct (next_rune b) as [[ch b1]|] eqn:E1; [|reflexivity].
  pose proof (next_rune_lt _ _ _ E1) as Hlt.
  destruct (ch =? 125); [reflexivity|]. destruct (negb (is_hexd ch)); [reflexivity|].
  apply IH; lia.
Qed.

Theorem unicode_digits_fuel_enough : forall b res d f, (List.length b < f)%nat ->
  unicode_digits f b res d = unicode_digits (S (List.length b)) b res d.
Proof. intros b res d f Hf. apply unicode_digits_stable; lia. Qed.

(* Unquote *)
Ltac uq_step IH :=
  match goal with
  | |- ?X = ?X => reflexivity
  | |- unquote_fuel _ ?b _ _ = unquote_fuel _ ?b _ _ => apply IH; lia
  | |- context [match next_rune ?b with _ => _ end] =>
      let E := fresh "E" in destruct (next_rune b) as [[? ?]|] eqn:E; [pose proof (next_rune_lt _ _ _ E)|]
  | |- context [match parse_hex_escape ?b with _ => _ end] =>
      let E := fresh "E" in destruct (parse_hex_escape b) as [[? ?]|] eqn:E; [pose proof (parse_hex_escape_lt _ _ _ E)|]
  | |- context [match parse_unicode_escape ?b with _ => _ end] =>
      let E := fresh "E" in destruct (parse_unicode_escape b) as [[? ?]|] eqn:E; [pose proof (parse_unicode_escape_lt _ _ _ E)|]
  | |- context [if ?c then _ else _] => destruct c
  end.

Lemma unquote_fuel_stable : forall f1 f2 b star acc, (List.length b < f1)%nat -> (List.length b < f2)%nat ->
  unquote_fuel f1 b star acc = unquote_fuel f2 b star acc.
Proof.
  induction f1 as [|f1 IH]; intros f2 b star acc H1 H2; [lia|].
  destruct f2 as [|f2]; [lia|].
  cbn [unquote_fuel]. destruct b as [|b0 b']; [reflexivity|].
  cbv beta iota zeta. remember (b0 :: b') as b eqn:Eb. clear Eb b0 b'.
  repeat (uq_step IH).
Qed.

Theorem unquote_fuel_enough : forall b star acc f, (List.length b < f)%nat ->
  unquote_fuel f b star acc = unquote_fuel (S (List.length b)) b star acc.
Proof. intros b star acc f Hf. apply unquote_fuel_stable; lia. Qed.

Corollary unquote_total : forall b star f, (List.length b < f)%nat -> unquote_fuel f b star [] = unquote b star.
Proof. intros b star f Hf. unfold unquote. apply unquote_fuel_enough. exact Hf. Qed.

(* ParsePattern *)
From Cedar Require Import Proofs.QuoteProofs.

Lemma strip_stars_spec : forall n b comps b1 comps1, strip_stars n b comps = (b1, comps1) ->
  (List.length b1 <= List.length b)%nat /\
  ((List.length b <= n)%nat -> b1 = [] \/ exists c r, b1 = c :: r /\ c <> 42).
Proof.
  induction n as [|n IH]; intros b comps b1 comps1 H.
  - cbn [strip_stars] in H. inversion H; subst. split; [lia|].
    intros Hl. destruct b1; [left; reflexivity | cbn [List.length] in Hl; lia].
  - destruct b as [|c b'].
    + cbn [strip_stars] in H. inversion H; subst. split; [lia | intros _; left; reflexivity].
    + rewrite strip_stars_cons in H. destruct (c =? 42) eqn:Ec.
      * apply IH in H. destruct H as [H1 H2]. cbn [List.length]. split; [lia|].
        intros Hl. apply H2. lia.
      * inversion H; subst. split; [lia|]. intros _. right. exists c, b'. split; [reflexivity|].
        apply Z.eqb_neq. exact Ec.
Qed.

Ltac uqr_step IH :=
  match goal with
  | |- None = Some _ -> _ => discriminate
  | |- Some _ = Some _ -> _ => let H := fresh "H" in intros H; inversion H; subst; clear H; cbn [List.length]; lia
  | |- unquote_fuel _ _ _ _ = Some _ -> _ => let H := fresh "H" in intros H; apply IH in H; lia
  | |- context [match next_rune ?b with _ => _ end] =>
      let E := fresh "E" in destruct (next_rune b) as [[? ?]|] eqn:E; [pose proof (next_rune_lt _ _ _ E)|]
  | |- context [match parse_hex_escape ?b with _ => _ end] =>
      let E := fresh "E" in destruct (parse_hex_escape b) as [[? ?]|] eqn:E; [pose proof (parse_hex_escape_lt _ _ _ E)|]
  | |- context [match parse_unicode_escape ?b with _ => _ end] =>
      let E := fresh "E" in destruct (parse_unicode_escape b) as [[? ?]|] eqn:E; [pose proof (parse_unicode_escape_lt _ _ _ E)|]
  | |- context [if ?c then _ else _] => let E := fresh "Ec" in destruct c eqn:E
  end.

(* the unconsumed rest is not longer than the input *)
Lemma unquote_fuel_rest_le : forall f b star acc lit b2, unquote_fuel f b star acc = Some (lit, b2) ->
  (List.length b2 <= List.length b)%nat.
Proof.
  induction f as [|f IH]; intros b star acc lit b2; [discriminate|].
  cbn [unquote_fuel]. destruct b as [|b0 b']; [intros H; inversion H; subst; cbn [List.length]; lia|].
  cbv beta iota zeta. remember (b0 :: b') as b eqn:Eb. clear Eb b0 b'.
  repeat (uqr_step IH).
Qed.

(* ... and strictly shorter when the input does not begin with an unescaped star *)
Lemma unquote_fuel_first_lt : forall f b0 b' acc lit b2, b0 <> 42 ->
  unquote_fuel f (b0 :: b') true acc = Some (lit, b2) -> (List.length b2 < List.length (b0 :: b'))%nat.
Proof.
  intros f b0 b' acc lit b2 Hb0. destruct f as [|f]; [discriminate|].
  pose proof (unquote_fuel_rest_le f) as IH.
  cbn [unquote_fuel]. cbv beta iota zeta.
  destruct (next_rune (b0 :: b')) as [[ch b1]|] eqn:E1; [|discriminate].
  pose proof (next_rune_lt _ _ _ E1) as Hlt.
  destruct (ch =? 42) eqn:Ech.
  - apply Z.eqb_eq in Ech. subst ch. apply next_rune_star in E1. congruence.
  - cbn [andb]. remember (b0 :: b') as b eqn:Eb. clear Eb.
    repeat (uqr_step IH).
Qed.

Lemma parse_pattern_fuel_stable : forall f1 f2 b comps, (List.length b < f1)%nat -> (List.length b < f2)%nat ->
  parse_pattern_fuel f1 b comps = parse_pattern_fuel f2 b comps.
Proof.
  induction f1 as [|f1 IH]; intros f2 b comps H1 H2; [lia|].
  destruct f2 as [|f2]; [lia|].
  cbn [parse_pattern_fuel]. destruct b as [|b0 b']; [reflexivity|].
  remember (b0 :: b') as b eqn:Eb.
  destruct (strip_stars (List.length b) b comps) as [b1 comps1] eqn:Es.
  destruct (strip_stars_spec _ _ _ _ _ Es) as [Hle Hhd]. specialize (Hhd (Nat.le_refl _)).
  destruct (unquote b1 true) as [[lit b2]|] eqn:Eu; [|reflexivity].
  assert (Hlt : (List.length b2 < List.length b)%nat).
  { unfold unquote in Eu. destruct Hhd as [->|[c [r [-> Hc]]]].
    - cbn in Eu. inversion Eu; subst. cbn [List.length]. lia.
    - apply unquote_fuel_first_lt in Eu; [lia | exact Hc]. }
  apply IH; lia.
Qed.

Theorem parse_pattern_fuel_enough : forall v comps f, (S (List.length v) < f)%nat ->
  parse_pattern_fuel f v comps = parse_pattern_fuel (S (S (List.length v))) v comps.
Proof. intros v comps f Hf. apply parse_pattern_fuel_stable; lia. Qed.

(* even S (length v) would do *)
Theorem parse_pattern_fuel_enough' : forall v comps f, (List.length v < f)%nat ->
  parse_pattern_fuel f v comps = parse_pattern_fuel (S (S (List.length v))) v comps.
Proof. intros v comps f Hf. apply parse_pattern_fuel_stable; lia. Qed.

Print Assumptions expr_block_rest_le.
Print Assumptions p_expression_rest_le.
Print Assumptions p_policy_rest_lt.
Print Assumptions p_policies_rest_le.
Print Assumptions expr_block_total.
Print Assumptions p_expression_total.
Print Assumptions p_policy_total.
Print Assumptions p_policies_total.
Print Assumptions tokenize_eof_terminated.
Print Assumptions tokenize_p_policies_total.
Print Assumptions dec_expr_total.
Print Assumptions decode_expr_total.
Print Assumptions dec_policy_total.
Print Assumptions unicode_digits_fuel_enough.
Print Assumptions unquote_fuel_enough.
Print Assumptions unquote_total.
Print Assumptions parse_pattern_fuel_enough.
Print Assumptions parse_pattern_fuel_enough'.
