(* Soundness of the partial evaluator (Impl/Partial.v, model of internal/eval/partial.go).

   Setting.  A request part, or a value nested in the context, may be the variable marker
   `VEntity variable_type name`.  A substitution [s : sigma] replaces markers by values ([subst_val], [subst_env]).

   Main results (all Qed, closed under the global context):
   - [partial_sound_res]       the invariant [sound_res] proved by induction on the expression;
   - [partial_expr_sound_gen]  / [partial_expr_sound]     soundness of [partial];
   - [partial_policy_sound_gen] / [partial_policy_sound]  soundness of [partial_policy]:
        kept policy: the residual is satisfied exactly when the original is; dropped policy: never satisfied.

   Differences with the statements as first posed (each one forced by a checked counterexample or by the
   definition of [subst_val]):
   1. ERROR KINDS.  `PErr k => eval en' e = Err k` and `eval en' n = eval en' e` are false: after an unknown
      operand the loop of tryPartial continues and may return the error of a LATER operand, whereas the
      evaluator reports the error of the first failing one ([errkind_counterexample]).  Results are therefore
      compared with [req] (equal values, or both errors); `PErr k` means "evaluation fails".  This does not
      affect [sat], so the policy theorem keeps its exact form.
   2. `is .. in`.  An earlier version of partial.go treated `a is T in b` as strict in both operands, which
      is unsound (the evaluator never evaluates b when the entity type of a differs); the counterexample found
      here was confirmed on the Go code and repaired (partialIsIn).  The model now short-circuits on a known
      left operand of another type and embeds the right operand in the residual otherwise; no restriction on
      `is .. in` is needed any more ([isin_fixed] replays the former counterexample).
   3. WELL-FORMEDNESS.  [subst_val] rebuilds sets with [mk_set]; `subst_val s v = v` for marker-free v needs
      v well-formed ([wf_value]).  Added: literals and store values are [wf_value] (in [val_ok]), request
      parts are [wf_value] ([env_wf]).
   4. Record literals have distinct keys (in [node_clean]; guaranteed by the parser): with duplicate keys the
      evaluator keeps the last binding and drops the errors of the earlier ones, partial does not.
   5. [completes] is NOT needed: soundness holds for every substitution, even partial ones (the hypothesis is
      kept in the headline statements only to match the requested signature).  "Entity uids are not markers"
      is not needed either. *)
From Coq Require Import ZArith List Bool Lia Arith String.
Import ListNotations.
From Cedar Require Import Base.Int64 Lang.Value Lang.Expr Impl.Like Impl.InSearch Impl.Eval Impl.Partial
  Proofs.ValueProofs Proofs.InSearchProofs.

(* ========================================================================================== *)
(* Definitions                                                                                 *)
(* ========================================================================================== *)

Definition sigma := str -> option value.                 (* variable name -> concrete value *)

Fixpoint subst_val (s : sigma) (v : value) {struct v} : value :=
  match v with
  | VEntity t i => if str_eqb t variable_type then match s i with Some w => w | None => v end else v
  | VSet l => mk_set (map (subst_val s) l)
  | VRecord l => VRecord (map (fun kv => (fst kv, subst_val s (snd kv))) l)
  | _ => v
  end.

Definition subst_env (s : sigma) (en : env) : env :=
  {| e_store := e_store en;
     e_principal := subst_val s (e_principal en);
     e_action := subst_val s (e_action en);
     e_resource := subst_val s (e_resource en);
     e_context := subst_val s (e_context en) |}.

Definition marker_free (v : value) : bool :=
  negb (has_marker is_variable v) && negb (has_marker is_ignore v).

(* a value that may appear in a policy or in the store: no marker, sets duplicate-free, records sorted *)
Definition val_ok (v : value) : Prop := marker_free v = true /\ wf_value v = true.

(* [expr_forall P e]: P holds at every node of e *)
Fixpoint expr_forall (P : expr -> Prop) (e : expr) {struct e} : Prop :=
  P e /\
  match e with
  | ELit _ | EVar _ | EPartialError _ => True
  | EAnd a b | EOr a b | EAdd a b | ESub a b | EMul a b | EEq a b | ENe a b
  | ELt a b | ELe a b | EGt a b | EGe a b | EIn a b
  | EContains a b | EContainsAll a b | EContainsAny a b | EGetTag a b | EHasTag a b =>
      expr_forall P a /\ expr_forall P b
  | EIsIn a _ b => expr_forall P a /\ expr_forall P b
  | ENot a | ENeg a | EIsEmpty a => expr_forall P a
  | EAccess a _ | EHas a _ => expr_forall P a
  | ELike a _ => expr_forall P a
  | EIs a _ => expr_forall P a
  | EIf c t f => expr_forall P c /\ expr_forall P t /\ expr_forall P f
  | ESet es | ECall _ es =>
      (fix go (l : list expr) : Prop := match l with [] => True | x :: l' => expr_forall P x /\ go l' end) es
  | ERecord kvs =>
      (fix go (l : list (str * expr)) : Prop :=
         match l with [] => True | x :: l' => expr_forall P (snd x) /\ go l' end) kvs
  end.

Lemma expr_forall_node P e : expr_forall P e -> P e.
Proof. destruct e; cbn [expr_forall]; tauto. Qed.

Lemma expr_forall_list P es :
  (fix go (l : list expr) : Prop := match l with [] => True | x :: l' => expr_forall P x /\ go l' end) es
  <-> Forall (expr_forall P) es.
Proof.
  induction es as [|x es IH]; [split; auto|]. rewrite IH. split.
  - intros [H1 H2]. constructor; auto.
  - intros H. inversion H; subst; auto.
Qed.

Lemma expr_forall_kvs P kvs :
  (fix go (l : list (str * expr)) : Prop :=
     match l with [] => True | x :: l' => expr_forall P (snd x) /\ go l' end) kvs
  <-> Forall (fun kv => expr_forall P (snd kv)) kvs.
Proof.
  induction kvs as [|x es IH]; [split; auto|]. rewrite IH. split.
  - intros [H1 H2]. constructor; auto.
  - intros H. inversion H; subst; auto.
Qed.

Lemma expr_forall_set P es : expr_forall P (ESet es) <-> P (ESet es) /\ Forall (expr_forall P) es.
Proof. cbn [expr_forall]. rewrite expr_forall_list. tauto. Qed.
Lemma expr_forall_call P n es : expr_forall P (ECall n es) <-> P (ECall n es) /\ Forall (expr_forall P) es.
Proof. cbn [expr_forall]. rewrite expr_forall_list. tauto. Qed.
Lemma expr_forall_record P kvs :
  expr_forall P (ERecord kvs) <-> P (ERecord kvs) /\ Forall (fun kv => expr_forall P (snd kv)) kvs.
Proof. cbn [expr_forall]. rewrite expr_forall_kvs. tauto. Qed.

Lemma expr_forall_mono (P Q : expr -> Prop) : (forall e, P e -> Q e) -> forall e, expr_forall P e -> expr_forall Q e.
Proof.
  intros HPQ. induction e using expr_ind';
    try (cbn [expr_forall]; intuition auto; fail).
  - rewrite !expr_forall_set. intros [H1 H2]. split; auto.
    rewrite Forall_forall in *. auto.
  - rewrite !expr_forall_record. intros [H1 H2]. split; auto.
    rewrite Forall_forall in *. auto.
  - rewrite !expr_forall_call. intros [H1 H2]. split; auto.
    rewrite Forall_forall in *. auto.
Qed.

(* ========================================================================================== *)
(* (a) marker / substitution algebra                                                           *)
(* ========================================================================================== *)

Lemma has_marker_set is l : has_marker is (VSet l) = existsb (has_marker is) l.
Proof.
  cbn [has_marker]. induction l as [|x l IH]; [reflexivity|].
  cbn [existsb]. rewrite <- IH. reflexivity.
Qed.

Lemma has_marker_record is l : has_marker is (VRecord l) = existsb (fun kv => has_marker is (snd kv)) l.
Proof.
  cbn [has_marker]. induction l as [|[k x] l IH]; [reflexivity|].
  cbn [existsb snd]. rewrite <- IH. reflexivity.
Qed.

Lemma existsb_false_Forall {A} (f : A -> bool) l : existsb f l = false <-> Forall (fun x => f x = false) l.
Proof.
  induction l as [|x l IH]; cbn [existsb]; [split; auto|].
  rewrite orb_false_iff, IH. split.
  - intros [H1 H2]. constructor; auto.
  - intros H. inversion H; subst; auto.
Qed.

Lemma has_marker_top is v : (forall v, is v = true -> exists t i, v = VEntity t i) ->
  has_marker is v = false -> is v = false.
Proof.
  intros Hent H. destruct (is v) eqn:E; auto.
  destruct (Hent v E) as (t & i & ->). cbn [has_marker] in H. congruence.
Qed.

Lemma is_variable_ent v : is_variable v = true -> exists t i, v = VEntity t i.
Proof. destruct v; cbn; try discriminate; eauto. Qed.
Lemma is_ignore_ent v : is_ignore v = true -> exists t i, v = VEntity t i.
Proof. destruct v; cbn; try discriminate; eauto. Qed.

Lemma novar_top v : has_marker is_variable v = false -> is_variable v = false.
Proof. apply has_marker_top, is_variable_ent. Qed.
Lemma noign_top v : has_marker is_ignore v = false -> is_ignore v = false.
Proof. apply has_marker_top, is_ignore_ent. Qed.

(* dedup of a duplicate-free list of well-formed values is the identity *)
Lemma dedup_nodup_gen : forall l acc,
  (forall x, In x l -> wf_value x = true) -> (forall x, In x acc -> wf_value x = true) ->
  nodup_veq l = true -> (forall x, In x l -> vmem x acc = false) ->
  dedup l acc = rev acc ++ l.
Proof.
  induction l as [|x l IH]; intros acc Hl Hacc Hnd Hfresh; cbn [dedup].
  - rewrite app_nil_r. reflexivity.
  - rewrite (Hfresh x (or_introl eq_refl)).
    cbn [nodup_veq] in Hnd. apply andb_true_iff in Hnd. destruct Hnd as [Hx Hnd].
    apply negb_true_iff in Hx.
    assert (H1 : forall y, In y l -> wf_value y = true) by (intros y Hy; apply Hl; right; exact Hy).
    assert (H2 : forall y, In y (x :: acc) -> wf_value y = true).
    { intros y [<-|Hy]; [apply Hl; left; reflexivity | auto]. }
    assert (H3 : forall y, In y l -> vmem y (x :: acc) = false).
    { intros y Hy. rewrite vmem_cons. rewrite (Hfresh y (or_intror Hy)), orb_false_r.
      rewrite veq_sym; [| apply Hl; right; exact Hy | apply Hl; left; reflexivity].
      destruct (veq x y) eqn:E; auto.
      assert (vmem x l = true) by (apply vmem_true_iff; eauto). congruence. }
    rewrite (IH (x :: acc) H1 H2 Hnd H3).
    cbn [rev]. rewrite <- app_assoc. reflexivity.
Qed.

Lemma mk_set_wf_id l : wf_value (VSet l) = true -> mk_set l = VSet l.
Proof.
  intros H. apply wf_set_inv in H. destruct H as [Hnd Hw]. unfold mk_set.
  rewrite dedup_nodup_gen; auto; try (intros x []).
Qed.

Lemma map_id_Forall {A} (f : A -> A) l : Forall (fun x => f x = x) l -> map f l = l.
Proof. induction 1 as [|x l Hx _ IH]; cbn [map]; congruence. Qed.

(* no variable marker + well-formed: substitution is the identity *)
Lemma subst_val_id s : forall v, wf_value v = true -> has_marker is_variable v = false -> subst_val s v = v.
Proof.
  apply (value_ind' (fun v => wf_value v = true -> has_marker is_variable v = false -> subst_val s v = v));
    try (intros; reflexivity).
  - intros t i _ H. cbn [has_marker is_variable] in H. cbn [subst_val]. rewrite H. reflexivity.
  - intros l IH Hwf Hm. cbn [subst_val].
    pose proof (wf_set_inv _ Hwf) as [_ Hw].
    rewrite has_marker_set, existsb_false_Forall in Hm.
    rewrite map_id_Forall; [apply mk_set_wf_id; exact Hwf|].
    rewrite Forall_forall in *. intros x Hx. apply IH; auto.
  - intros l IH Hwf Hm. cbn [subst_val]. f_equal.
    pose proof (wf_rec_inv _ Hwf) as [_ Hw].
    rewrite has_marker_record, existsb_false_Forall in Hm.
    apply map_id_Forall. rewrite Forall_forall in *. intros [k x] Hx. cbn [fst snd]. f_equal.
    exact (IH (k, x) Hx (Hw (k, x) Hx) (Hm (k, x) Hx)).
Qed.

Lemma marker_free_inv v : marker_free v = true ->
  has_marker is_variable v = false /\ has_marker is_ignore v = false.
Proof. unfold marker_free. rewrite andb_true_iff, !negb_true_iff. tauto. Qed.

Lemma subst_val_ok s v : val_ok v -> subst_val s v = v.
Proof. intros [Hm Hw]. apply marker_free_inv in Hm. apply subst_val_id; tauto. Qed.

Lemma rec_get_map {A B} (f : A -> B) k (l : list (str * A)) :
  rec_get k (map (fun kv => (fst kv, f (snd kv))) l) = option_map f (rec_get k l).
Proof.
  induction l as [|[k' x] l IH]; [reflexivity|]. cbn [map rec_get fst snd].
  destruct (str_eqb k k'); auto.
Qed.

Lemma rec_get_Forall {A} (P : A -> Prop) k (l : list (str * A)) x :
  Forall (fun kv => P (snd kv)) l -> rec_get k l = Some x -> P x.
Proof.
  induction 1 as [|[k' y] l Hy _ IH]; cbn [rec_get]; [discriminate|].
  destruct (str_eqb k k'); auto. intros H; inversion H; subst; exact Hy.
Qed.

(* substitution of a non-variable value keeps its shape *)
Lemma subst_nonvar_entity s t i : is_variable (VEntity t i) = false -> subst_val s (VEntity t i) = VEntity t i.
Proof. cbn [is_variable subst_val]. intros ->. reflexivity. Qed.

(* ========================================================================================== *)
(* Hereditary value predicates and their propagation through eval                              *)
(* ========================================================================================== *)

Definition plain (v : value) : Prop :=
  match v with VEntity _ _ | VSet _ | VRecord _ => False | _ => True end.

Record hered (Q : value -> Prop) : Prop := {
  h_plain : forall v, plain v -> Q v;
  h_mkset : forall l, Forall Q l -> Q (mk_set l);
  h_rec : forall l, keys_sorted l = true -> Forall (fun kv => Q (snd kv)) l -> Q (VRecord l);
  h_recinv : forall l, Q (VRecord l) -> Forall (fun kv => Q (snd kv)) l }.

Lemma hered_wf : hered (fun v => wf_value v = true).
Proof.
  split.
  - intros v Hv. destruct v; try reflexivity; destruct Hv.
  - intros l Hl. apply mk_set_wf. exact Hl.
  - intros l Hs Hl. rewrite wf_value_record, Hs. cbn [andb]. apply forallb_forall.
    rewrite Forall_forall in Hl. exact Hl.
  - intros l H. apply wf_rec_inv in H. tauto.
Qed.

Lemma hered_nm is : hered (fun v => has_marker is v = false).
Proof.
  split.
  - intros v Hv. destruct v; try reflexivity; destruct Hv.
  - intros l Hl. unfold mk_set. rewrite has_marker_set, existsb_false_Forall.
    rewrite Forall_forall in *. intros x Hx. apply dedup_incl in Hx. destruct Hx as [Hx|[]]. auto.
  - intros l _ Hl. rewrite has_marker_record, existsb_false_Forall. exact Hl.
  - intros l H. rewrite has_marker_record, existsb_false_Forall in H. exact H.
Qed.

Lemma Forall_and_inv {A} (P Q : A -> Prop) l : Forall (fun x => P x /\ Q x) l <-> Forall P l /\ Forall Q l.
Proof. rewrite !Forall_forall. firstorder. Qed.

Lemma hered_and Q1 Q2 : hered Q1 -> hered Q2 -> hered (fun v => Q1 v /\ Q2 v).
Proof.
  intros [a1 b1 c1 d1] [a2 b2 c2 d2]. split.
  - auto.
  - intros l H. apply Forall_and_inv in H. destruct H. auto.
  - intros l Hs H. apply (Forall_and_inv (fun kv => Q1 (snd kv)) (fun kv => Q2 (snd kv))) in H. destruct H. auto.
  - intros l [H1 H2]. apply (Forall_and_inv (fun kv => Q1 (snd kv)) (fun kv => Q2 (snd kv))). auto.
Qed.

(* Q2: what every fully evaluated value satisfies; Q3: what the operands consumed by a non-projection
   operator satisfy (tp_step checks the variable part dynamically) *)
Definition Q2 (v : value) : Prop := wf_value v = true /\ has_marker is_ignore v = false.
Definition Q3 (v : value) : Prop := Q2 v /\ has_marker is_variable v = false.

Lemma hered_Q2 : hered Q2.
Proof. apply hered_and; [apply hered_wf | apply hered_nm]. Qed.
Lemma hered_Q3 : hered Q3.
Proof. apply hered_and; [apply hered_Q2 | apply hered_nm]. Qed.

Lemma Q3_subst s v : Q3 v -> subst_val s v = v.
Proof. intros [[Hw _] Hv]. apply subst_val_id; auto. Qed.

Lemma val_ok_Q3 v : val_ok v -> Q3 v.
Proof. intros [Hm Hw]. apply marker_free_inv in Hm. unfold Q3, Q2. tauto. Qed.

(* ---- sequencing helpers ---- *)
Lemma seq_res_inl rs r : seq_res rs = inl r -> exists k, r = Err k.
Proof.
  revert r. induction rs as [|[v|k] rs IH]; intros r; cbn [seq_res]; try discriminate.
  - destruct (seq_res rs) as [e|vs]; [|discriminate]. intros H. inversion H; subst. apply IH. reflexivity.
  - intros H. inversion H. eauto.
Qed.

Lemma seq_res_Forall (P : value -> Prop) rs : Forall (fun r => forall v, r = Ok v -> P v) rs ->
  forall vs, seq_res rs = inr vs -> Forall P vs.
Proof.
  induction 1 as [|[v|k] rs Hr _ IH]; intros vs; cbn [seq_res].
  - intros H; inversion H; constructor.
  - destruct (seq_res rs) as [e|vs']; [discriminate|]. intros H; inversion H; subst. constructor; auto.
  - discriminate.
Qed.

Lemma seq_rec_inl rs r : seq_rec rs = inl r -> exists k, r = Err k.
Proof.
  revert r. induction rs as [|[k [v|e]] rs IH]; intros r; cbn [seq_rec]; try discriminate.
  - destruct (seq_rec rs) as [e|vs]; [|discriminate]. intros H. inversion H; subst. apply IH. reflexivity.
  - intros H. inversion H. eauto.
Qed.

Lemma seq_rec_Forall (P : value -> Prop) rs : Forall (fun kr => forall v, snd kr = Ok v -> P v) rs ->
  forall fs, seq_rec rs = inr fs -> Forall (fun kv => P (snd kv)) fs /\ map fst fs = map fst rs.
Proof.
  induction 1 as [|[k [v|e]] rs Hr _ IH]; intros fs; cbn [seq_rec].
  - intros H; inversion H; split; [constructor | reflexivity].
  - destruct (seq_rec rs) as [e|fs']; [discriminate|]. intros H; inversion H; subst.
    destruct (IH fs' eq_refl) as [I1 I2]. split; [constructor; auto | cbn [map fst]; congruence].
  - discriminate.
Qed.

Lemma keys_sorted_ext {A B} (l : list (str * A)) (m : list (str * B)) :
  map fst l = map fst m -> keys_sorted l = keys_sorted m.
Proof.
  revert m. induction l as [|[k x] l IH]; intros [|[k' y] m]; cbn [map fst]; try discriminate; auto.
  intros H. inversion H as [[Hk Ht]]. subst k'. specialize (IH m Ht).
  destruct l as [|[k1 x1] l], m as [|[k2 y2] m]; cbn [map fst] in Ht; try discriminate; auto.
  inversion Ht; subst.
  change (str_ltb k k2 && keys_sorted ((k2, x1) :: l) = str_ltb k k2 && keys_sorted ((k2, y2) :: m)).
  rewrite IH. reflexivity.
Qed.

Ltac crunch H :=
  repeat (cbv beta iota delta [bindr as_bool as_long as_string as_set as_entity as_decimal as_datetime
               as_duration as_ip vbool opt_res of_search arith_eval cmp_eval] in H;
    match type of H with
    | Ok _ = Ok _ => fail 1
    | Err _ = Ok _ => discriminate H
    | context [match ?x with _ => _ end] => destruct x eqn:?
    end).

Lemma call_ext_plain name rs v : call_ext name rs = Ok v -> plain v.
Proof.
  unfold call_ext. intros H.
  destruct (ext_lookup name) as [[ar fl]|]; [|discriminate].
  match type of H with (if ?c then _ else _) = _ => destruct c end; [discriminate|].
  set (a0 := nth_res rs 0) in *. set (a1 := nth_res rs 1) in *. clearbody a0 a1.
  unfold to_date, to_time in H.
  repeat match type of H with
         | (if name_is ?n ?s then _ else _) = _ => destruct (name_is n s)
         end; try discriminate;
  crunch H; inversion H; subst; exact I.
Qed.

Section EvalQ.
  Variable Q : value -> Prop.
  Hypothesis HQ : hered Q.
  Variable en : env.

  Definition store_Q : Prop := forall u ent, lookup (e_store en) u = Some ent ->
    Forall (fun kv => Q (snd kv)) (e_attrs ent) /\ Forall (fun kv => Q (snd kv)) (e_tags ent).

  Definition node_Q (e : expr) : Prop :=
    match e with ELit v => Q v | EVar x => Q (var_value en x) | _ => True end.

  Hypothesis Hst : store_Q.

  Ltac fin H := crunch H; inversion H; subst; try (apply (h_plain Q HQ); exact I); eauto.

  Lemma eval_Q : forall e, expr_forall node_Q e -> forall v, eval en e = Ok v -> Q v.
  Proof.
    induction e using expr_ind'; intros Hf v0 Hev;
      try (cbn [expr_forall] in Hf; cbn [eval arith_eval cmp_eval] in Hev;
           repeat match goal with H : _ /\ _ |- _ => destruct H end;
           fin Hev; fail).
    - (* EIn *) cbn [expr_forall] in Hf. cbn [eval] in Hev. unfold do_in in Hev. fin Hev.
    - (* EAccess *) cbn [expr_forall] in Hf. destruct Hf as [_ Hf]. cbn [eval] in Hev. unfold get_attr in Hev.
      crunch Hev; inversion Hev; subst.
      + destruct (Hst _ _ Heqo) as [Ha _]. eapply rec_get_Forall; eauto.
      + eapply rec_get_Forall; [|eauto]. apply (h_recinv Q HQ). eauto.
    - (* EHas *) cbn [expr_forall] in Hf. cbn [eval] in Hev. unfold has_attr in Hev. fin Hev.
    - (* EGetTag *) cbn [expr_forall] in Hf. cbn [eval] in Hev. crunch Hev; inversion Hev; subst.
      destruct (Hst _ _ Heqo) as [_ Ht]. eapply rec_get_Forall; eauto.
    - (* EIsIn *) cbn [expr_forall] in Hf. cbn [eval] in Hev. unfold do_in in Hev. fin Hev.
    - (* ESet *) apply expr_forall_set in Hf. destruct Hf as [_ Hf]. cbn [eval] in Hev.
      destruct (seq_res (map (eval en) es)) as [r|vs] eqn:E.
      + apply seq_res_inl in E. destruct E as [k ->]. discriminate.
      + inversion Hev; subst. apply (h_mkset Q HQ). eapply seq_res_Forall; [|exact E].
        apply Forall_map. rewrite Forall_forall in *. intros x Hx v Hv. eapply H; eauto.
    - (* ERecord *) apply expr_forall_record in Hf. destruct Hf as [_ Hf]. cbn [eval] in Hev.
      match type of Hev with match seq_rec ?l with _ => _ end = _ => destruct (seq_rec l) as [r|fs] eqn:E end.
      + apply seq_rec_inl in E. destruct E as [k ->]. discriminate.
      + inversion Hev; subst. apply (seq_rec_Forall Q) in E.
        * destruct E as [E1 E2]. apply (h_rec Q HQ); auto.
          rewrite (keys_sorted_ext _ _ E2). apply rec_of_list_sorted_gen.
        * apply (rec_of_list_Forall (fun r => forall v, r = Ok v -> Q v)).
          apply Forall_map. cbn [snd]. rewrite Forall_forall in *. intros x Hx v Hv. eapply H; eauto.
    - (* ECall *) cbn [eval] in Hev. apply call_ext_plain in Hev. apply (h_plain Q HQ). exact Hev.
  Qed.
End EvalQ.

(* ========================================================================================== *)
(* Results up to the error kind; congruence and strictness of the evaluator                    *)
(* ========================================================================================== *)

Definition req (r1 r2 : res) : Prop :=
  match r1, r2 with Ok v, Ok w => v = w | Err _, Err _ => True | _, _ => False end.
Definition is_err (r : res) : Prop := match r with Err _ => True | Ok _ => False end.

Lemma req_refl r : req r r.
Proof. destruct r; cbn; auto. Qed.
Lemma req_sym r1 r2 : req r1 r2 -> req r2 r1.
Proof. destruct r1, r2; cbn; auto. Qed.
Lemma req_trans r1 r2 r3 : req r1 r2 -> req r2 r3 -> req r1 r3.
Proof. destruct r1, r2, r3; cbn; try tauto. congruence. Qed.
Lemma req_eq r1 r2 : r1 = r2 -> req r1 r2.
Proof. intros ->. apply req_refl. Qed.
Lemma req_ok_l v r : req (Ok v) r -> r = Ok v.
Proof. destruct r; cbn; [congruence | tauto]. Qed.
Lemma req_ok_r v r : req r (Ok v) -> r = Ok v.
Proof. destruct r; cbn; [congruence | tauto]. Qed.
Lemma req_err_l k r : req (Err k) r -> is_err r.
Proof. destruct r; cbn; tauto. Qed.
Lemma req_err r1 r2 : req r1 r2 -> is_err r1 -> is_err r2.
Proof. destruct r1, r2; cbn; tauto. Qed.
Lemma is_err_req r1 r2 : is_err r1 -> is_err r2 -> req r1 r2.
Proof. destruct r1, r2; cbn; tauto. Qed.

Ltac unf :=
  cbv beta iota delta [bindr as_bool as_long as_string as_set as_entity as_decimal as_datetime
       as_duration as_ip vbool opt_res arith_eval cmp_eval].

Ltac destr_req :=
  repeat match goal with
  | H : req (eval ?e ?x) (eval ?e ?y) |- _ =>
      destruct (eval e x), (eval e y); cbn [req] in H; try contradiction; try subst
  | H : req ?a ?b |- _ => is_var a; is_var b;
      destruct a, b; cbn [req] in H; try contradiction; try subst
  end.

Ltac split_matches :=
  repeat match goal with |- context [match ?v with _ => _ end] => destruct v end.

Ltac cong_tac :=
  intros; destr_req; try apply req_refl; unf; split_matches; try exact I; try apply req_refl.

Lemma seq_res_cong rs rs' : Forall2 req rs rs' ->
  match seq_res rs, seq_res rs' with
  | inr vs, inr vs' => vs = vs'
  | inl _, inl _ => True
  | _, _ => False
  end.
Proof.
  induction 1 as [|r r' rs rs' Hr _ IH]; cbn [seq_res]; auto.
  destruct r, r'; cbn [req] in Hr; try contradiction; auto. subst.
  destruct (seq_res rs), (seq_res rs'); auto. congruence.
Qed.

Definition kreq (p q : str * res) : Prop := fst p = fst q /\ req (snd p) (snd q).

Lemma seq_rec_cong rs rs' : Forall2 kreq rs rs' ->
  match seq_rec rs, seq_rec rs' with
  | inr vs, inr vs' => vs = vs'
  | inl _, inl _ => True
  | _, _ => False
  end.
Proof.
  induction 1 as [|[k r] [k' r'] rs rs' [Hk Hr] _ IH]; cbn [seq_rec]; auto.
  cbn [fst snd] in *. subst k'.
  destruct r, r'; cbn [req] in Hr; try contradiction; auto. subst.
  destruct (seq_rec rs), (seq_rec rs'); auto. congruence.
Qed.

Lemma rec_insert_kreq k v v' l l' : req v v' -> Forall2 kreq l l' ->
  Forall2 kreq (rec_insert k v l) (rec_insert k v' l').
Proof.
  intros Hv. induction 1 as [|[k1 r1] [k2 r2] l l' [Hk Hr] Hl IH]; cbn [rec_insert].
  - constructor; [split; auto | constructor].
  - cbn [fst snd] in *. subst k2.
    destruct (str_ltb k k1).
    + constructor; [split; auto|]. constructor; [split; auto | auto].
    + destruct (str_eqb k k1).
      * constructor; [split; auto | auto].
      * constructor; [split; auto | auto].
Qed.

Lemma rec_of_list_kreq l l' : Forall2 kreq l l' -> Forall2 kreq (rec_of_list l) (rec_of_list l').
Proof.
  unfold rec_of_list. intros H.
  assert (G : forall acc acc', Forall2 kreq acc acc' ->
     Forall2 kreq (fold_left (fun acc kv => rec_insert (fst kv) (snd kv) acc) l acc)
                  (fold_left (fun acc kv => rec_insert (fst kv) (snd kv) acc) l' acc')).
  { induction H as [|p q l l' [Hk Hr] _ IH]; intros acc acc' Ha; cbn [fold_left]; auto.
    apply IH. rewrite Hk. apply rec_insert_kreq; auto. }
  apply G. constructor.
Qed.

Lemma F2_length {A B} (P : A -> B -> Prop) l l' : Forall2 P l l' -> List.length l = List.length l'.
Proof. induction 1; cbn [List.length]; congruence. Qed.

Lemma nth_res_req rs rs' n : Forall2 req rs rs' -> req (nth_res rs n) (nth_res rs' n).
Proof.
  unfold nth_res. intros H. revert n. induction H as [|r r' rs rs' Hr _ IH]; intros [|n]; cbn [nth]; auto.
  all: exact I.
Qed.

Lemma call_ext_cong name rs rs' : Forall2 req rs rs' -> req (call_ext name rs) (call_ext name rs').
Proof.
  intros H. unfold call_ext.
  rewrite (F2_length _ _ _ H).
  pose proof (nth_res_req rs rs' 0 H) as H0. pose proof (nth_res_req rs rs' 1 H) as H1.
  set (a0 := nth_res rs 0) in *. set (a1 := nth_res rs 1) in *.
  set (b0 := nth_res rs' 0) in *. set (b1 := nth_res rs' 1) in *. clearbody a0 a1 b0 b1.
  destruct (ext_lookup name) as [[ar fl]|]; [|exact I].
  match goal with |- req (if ?c then _ else _) _ => destruct c end; [exact I|].
  repeat match goal with
         | |- req (if name_is ?n ?s then _ else _) _ => destruct (name_is n s)
         end; try exact I;
  destr_req; try apply req_refl; unf; split_matches; try exact I; try apply req_refl.
Qed.

(* an erroring argument makes an extension call fail *)
Lemma name_is_eq name n : name_is name n = true -> name = s_of n.
Proof. unfold name_is. apply str_eqb_eq. Qed.

Lemma call_ext_strict name rs : Exists is_err rs -> is_err (call_ext name rs).
Proof.
  intros H. unfold call_ext.
  destruct (ext_lookup name) as [[ar fl]|] eqn:EL; [|exact I].
  match goal with |- is_err (if ?c then _ else _) => destruct c eqn:EA end; [exact I|].
  apply negb_false_iff, Z.eqb_eq in EA.
  repeat match goal with
         | |- is_err (if name_is ?n ?s then _ else _) => destruct (name_is n s) eqn:?
         end; try exact I;
  match goal with Hn : name_is name _ = true |- _ => apply name_is_eq in Hn; subst name end;
  vm_compute in EL; injection EL as Har Hfl; rewrite <- Har in EA; clear Har Hfl;
  (destruct rs as [|r0 [|r1 [|r2 rs]]]; cbn [List.length] in EA; try lia);
  unfold nth_res; cbn [nth];
  repeat match goal with
         | H : Exists _ (_ :: _) |- _ => inversion H; clear H; subst
         | H : Exists _ [] |- _ => inversion H
         end;
  repeat match goal with H : is_err ?r |- _ => destruct r; cbn [is_err] in H; try contradiction; clear H end;
  unf; split_matches; exact I.
Qed.

(* ========================================================================================== *)
(* (c) the shared worker try_partial                                                           *)
(* ========================================================================================== *)

Definition lit_of (e : expr) : option value := match e with ELit v => Some v | _ => None end.

Lemma lit_of_some e v : lit_of e = Some v -> e = ELit v.
Proof. destruct e; cbn; try discriminate. intros H; inversion H; reflexivity. Qed.

Lemma fold_stop p l r : fold_left (tp_step p) l (TPStop r) = TPStop r.
Proof. induction l as [|x l IH]; cbn [fold_left tp_step]; auto. Qed.

Lemma tp_step_node p ok nodes values orig n :
  tp_step p (TPGo ok nodes values) (orig, PNode n) =
  match lit_of n with
  | Some v => if negb p && has_marker is_ignore v then TPStop PIgnore
              else if negb p && has_marker is_variable v then TPGo false (orig :: nodes) values
              else TPGo ok (n :: nodes) (if ok then v :: values else values)
  | None => TPGo false (n :: nodes) values
  end.
Proof. destruct n; reflexivity. Qed.

Lemma try_partial_proj mk ev a r :
  try_partial true [a] [r] mk ev =
  match r with
  | PVar _ => PNode (mk [a])
  | PIgnore => PIgnore
  | PErr k => PErr k
  | PNode n =>
      match lit_of n with
      | Some v => match ev (mk [ELit v]) with
                  | Err k => PErr k
                  | Ok w => if is_variable w then PVar (mk [a]) else if is_ignore w then PIgnore else PNode (ELit w)
                  end
      | None => PNode (mk [n])
      end
  end.
Proof. destruct r as [n|n| |k]; try reflexivity. destruct n; reflexivity. Qed.

Lemma residual_operand_node n orig :
  residual_operand (PNode n) orig =
  match lit_of n with
  | Some v => if has_marker is_ignore v then PIgnore else if has_marker is_variable v then PNode orig else PNode n
  | None => PNode n
  end.
Proof. destruct n; reflexivity. Qed.

Lemma map_eval_lits en vs : map (eval en) (map ELit vs) = map Ok vs.
Proof. induction vs as [|v vs IH]; cbn [map eval]; congruence. Qed.

Lemma store_Q_weaken (Q Q' : value -> Prop) en : (forall v, Q v -> Q' v) -> store_Q Q en -> store_Q Q' en.
Proof.
  intros HQ H u ent Hl. destruct (H u ent Hl) as [H1 H2].
  split; eapply Forall_impl; try eassumption; intros [k x]; apply HQ.
Qed.

(* side conditions on expressions: literals are marker-free and well-formed (ADDED: wf_value), record
   literals have distinct keys (ADDED; the parser guarantees it) *)
Definition node_clean (e : expr) : Prop :=
  match e with
  | ELit v => val_ok v
  | ERecord kvs => NoDup (map fst kvs)
  | _ => True
  end.
Definition expr_clean (e : expr) : Prop := expr_forall node_clean e.

Section Sound.
  Variable en : env.
  Variable s : sigma.
  Local Notation ec := (subst_env s en).

  Hypothesis Hst : store_Q Q3 en.                       (* store values: no markers, well-formed *)
  Hypothesis Hreq : forall x, Q2 (var_value en x).      (* request parts: no ignore marker, well-formed *)

  Definition R (x y : expr) : Prop := req (eval ec x) (eval ec y).

  Lemma R_refl x : R x x. Proof. apply req_refl. Qed.

  Definition sound_res (e : expr) (r : pres) : Prop :=
    match r with
    | PNode n => match lit_of n with
                 | Some v => eval ec e = Ok (subst_val s v) /\ is_variable v = false /\ Q2 v
                 | None => R n e
                 end
    | PVar n => R n e
    | PErr _ => is_err (eval ec e)
    | PIgnore => False
    end.

  Lemma sound_res_transfer e1 e2 r : eval ec e1 = eval ec e2 -> sound_res e1 r -> sound_res e2 r.
  Proof. unfold sound_res, R. intros ->. auto. Qed.

  Lemma Hst2 : store_Q Q2 en.
  Proof. eapply store_Q_weaken; [|exact Hst]. intros v [H _]. exact H. Qed.

  Section TP.
    Variable mk : list expr -> expr.
    Variable kids : list expr.
    Hypothesis mk_cong : forall xs ys, List.length xs = List.length kids -> Forall2 R xs ys -> R (mk xs) (mk ys).
    Hypothesis mk_lits : forall vs, List.length vs = List.length kids ->
      eval en (mk (map ELit vs)) = eval ec (mk (map ELit vs)).
    Hypothesis mk_Q : forall vs v, List.length vs = List.length kids -> Forall Q3 vs ->
      eval en (mk (map ELit vs)) = Ok v -> Q3 v.
    Hypothesis mk_strict : Exists (fun x => is_err (eval ec x)) kids -> is_err (eval ec (mk kids)).
    Hypothesis mk_notlit : forall xs, lit_of (mk xs) = None.

    Definition inv (pre : list expr) (ok : bool) (nodes : list expr) (values : list value) : Prop :=
      Forall2 R (rev nodes) pre /\
      (ok = true -> rev nodes = map ELit (rev values) /\ Forall Q3 values).

    Lemma inv_keep pre ok nodes values x n : inv pre ok nodes values -> R n x ->
      inv (pre ++ [x]) false (n :: nodes) values.
    Proof.
      intros [H1 _] Hr. split; [|discriminate].
      cbn [rev]. apply Forall2_app; auto.
    Qed.

    Lemma fold_sound : forall rest rs, Forall2 sound_res rest rs ->
      forall pre ok nodes values, inv pre ok nodes values ->
      match fold_left (tp_step false) (combine rest rs) (TPGo ok nodes values) with
      | TPStop r => (exists k, r = PErr k) /\ Exists (fun x => is_err (eval ec x)) rest
      | TPGo ok' nodes' values' => inv (pre ++ rest) ok' nodes' values'
      end.
    Proof.
      induction 1 as [|x r rest rs Hx _ IH]; intros pre ok nodes values Hinv.
      - cbn [combine fold_left]. rewrite app_nil_r. exact Hinv.
      - cbn [combine fold_left].
        assert (Hkeep : forall n, R n x ->
          match fold_left (tp_step false) (combine rest rs) (TPGo false (n :: nodes) values) with
          | TPStop r => (exists k, r = PErr k) /\ Exists (fun x => is_err (eval ec x)) (x :: rest)
          | TPGo ok' nodes' values' => inv (pre ++ x :: rest) ok' nodes' values'
          end).
        { intros n Hn. specialize (IH (pre ++ [x]) false (n :: nodes) values (inv_keep _ _ _ _ _ _ Hinv Hn)).
          rewrite <- app_assoc in IH. cbn [app] in IH.
          destruct (fold_left _ _ _); [exact IH|]. destruct IH as [I1 I2]. split; auto. }
        destruct r as [n|n| |k].
        + rewrite tp_step_node. cbn [sound_res] in Hx. destruct (lit_of n) as [v|] eqn:El.
          * destruct Hx as (Hev & Hnv & Hw & Hig). cbn [negb andb]. rewrite Hig.
            destruct (has_marker is_variable v) eqn:Hv.
            -- apply Hkeep. apply R_refl.
            -- apply lit_of_some in El. subst n.
               assert (HQ3 : Q3 v) by (unfold Q3, Q2; tauto).
               assert (Hrn : R (ELit v) x).
               { unfold R. rewrite Hev, (Q3_subst s v HQ3). cbn [eval req]. reflexivity. }
               assert (Hinv' : inv (pre ++ [x]) ok (ELit v :: nodes) (if ok then v :: values else values)).
               { destruct Hinv as [H1 H2]. split.
                 - cbn [rev]. apply Forall2_app; auto.
                 - intros ->. destruct (H2 eq_refl) as [H3 H4]. split.
                   + cbn [rev]. rewrite map_app, H3. reflexivity.
                   + constructor; auto. }
               specialize (IH (pre ++ [x]) ok (ELit v :: nodes) _ Hinv').
               rewrite <- app_assoc in IH. cbn [app] in IH.
               destruct (fold_left _ _ _); [exact IH|]. destruct IH as [I1 I2]. split; auto.
          * apply Hkeep. exact Hx.
        + cbn [tp_step]. apply Hkeep. apply R_refl.
        + destruct Hx.
        + cbn [tp_step]. rewrite fold_stop. split; [eauto|]. left. exact Hx.
    Qed.

    Lemma try_partial_sound rs : Forall2 sound_res kids rs ->
      sound_res (mk kids) (try_partial false kids rs mk (eval en)).
    Proof.
      intros HF. unfold try_partial.
      assert (Hinv0 : inv [] true [] []).
      { split; [constructor|]. intros _. split; [reflexivity | constructor]. }
      pose proof (fold_sound kids rs HF [] true [] [] Hinv0) as H.
      destruct (fold_left _ _ _) as [ok nodes values|r].
      - cbn [app] in H. destruct H as [H1 H2].
        pose proof (F2_length _ _ _ H1) as Hlen.
        pose proof (mk_cong _ _ Hlen H1) as Hc.
        destruct ok.
        + destruct (H2 eq_refl) as [H3 H4]. rewrite H3 in Hc, Hlen. rewrite map_length in Hlen.
          assert (H5 : Forall Q3 (rev values)).
          { rewrite Forall_forall in *. intros x Hx. apply H4. apply in_rev. exact Hx. }
          unfold R in Hc. rewrite <- (mk_lits _ Hlen) in Hc.
          destruct (eval en (mk (map ELit (rev values)))) as [v|k] eqn:E.
          * pose proof (mk_Q _ _ Hlen H5 E) as HQ. destruct HQ as [[Hw Hig] Hv].
            rewrite (novar_top _ Hv), (noign_top _ Hig). cbn [sound_res lit_of].
            apply req_ok_l in Hc. rewrite Hc, subst_val_id; auto.
            repeat split; auto. apply novar_top; auto.
          * cbn [sound_res]. eapply req_err_l. exact Hc.
        + cbn [sound_res]. rewrite mk_notlit. exact Hc.
      - destruct H as [[k ->] H]. cbn [sound_res]. apply mk_strict. exact H.
    Qed.
  End TP.

  (* ---- unary / binary strict operators ---- *)
  Lemma un_sound (C : expr -> expr) a ra :
    (forall x x', R x x' -> R (C x) (C x')) ->
    (forall v, eval en (C (ELit v)) = eval ec (C (ELit v))) ->
    (forall v r, Q3 v -> eval en (C (ELit v)) = Ok r -> Q3 r) ->
    (is_err (eval ec a) -> is_err (eval ec (C a))) ->
    (forall x, lit_of (C x) = None) ->
    sound_res a ra ->
    sound_res (C a) (try_partial false [a] [ra] (fun l => C (nth 0 l a)) (eval en)).
  Proof.
    intros Hcong Hlits HQ Hstrict Hnl Ha.
    apply (try_partial_sound (fun l => C (nth 0 l a)) [a]).
    - intros xs ys Hlen HF. destruct HF as [|x y xs ys Hxy HF]; [discriminate|].
      destruct HF; [|discriminate]. cbn [nth]. auto.
    - intros [|v [|w vs]]; try discriminate. intros _. cbn [map nth]. apply Hlits.
    - intros [|v [|w vs]]; try discriminate. intros r _ HF. cbn [map nth]. apply HQ.
      inversion HF; auto.
    - intros H. cbn [nth]. apply Hstrict. inversion H as [? ? H1|? ? H1]; subst; [exact H1|inversion H1].
    - intros xs. apply Hnl.
    - constructor; [exact Ha | constructor].
  Qed.

  Lemma bin_sound (C : expr -> expr -> expr) a b ra rb :
    (forall x x' y y', R x x' -> R y y' -> R (C x y) (C x' y')) ->
    (forall v w, eval en (C (ELit v) (ELit w)) = eval ec (C (ELit v) (ELit w))) ->
    (forall v w r, Q3 v -> Q3 w -> eval en (C (ELit v) (ELit w)) = Ok r -> Q3 r) ->
    (is_err (eval ec a) \/ is_err (eval ec b) -> is_err (eval ec (C a b))) ->
    (forall x y, lit_of (C x y) = None) ->
    sound_res a ra -> sound_res b rb ->
    sound_res (C a b) (try_partial false [a; b] [ra; rb] (fun l => C (nth 0 l a) (nth 1 l b)) (eval en)).
  Proof.
    intros Hcong Hlits HQ Hstrict Hnl Ha Hb.
    apply (try_partial_sound (fun l => C (nth 0 l a) (nth 1 l b)) [a; b]).
    - intros xs ys Hlen HF. destruct HF as [|x y xs ys Hxy HF]; [discriminate|].
      destruct HF as [|x1 y1 xs ys Hxy1 HF]; [discriminate|].
      destruct HF; [|discriminate]. cbn [nth]. auto.
    - intros [|v [|w [|u vs]]]; try discriminate. intros _. cbn [map nth]. apply Hlits.
    - intros [|v [|w [|u vs]]]; try discriminate. intros r _ HF. cbn [map nth].
      inversion HF as [|? ? H1 HF1]; subst. inversion HF1; subst. apply HQ; auto.
    - intros H. cbn [nth]. apply Hstrict.
      inversion H as [? ? H1|? ? H1]; subst; [left; exact H1|].
      inversion H1 as [? ? H2|? ? H2]; subst; [right; exact H2|inversion H2].
    - intros xs. apply Hnl.
    - constructor; [exact Ha | constructor; [exact Hb | constructor]].
  Qed.

  (* ---- operands embedded in a residual and / or / if ---- *)
  Lemma embed_sound b r : sound_res b r ->
    match embed r b with None => False | Some n => R n b end.
  Proof.
    destruct r as [n|n| |k]; cbn [sound_res embed]; auto.
    - rewrite residual_operand_node. destruct (lit_of n) as [v|] eqn:El; auto.
      intros (Hev & Hnv & Hw & Hig). rewrite Hig.
      destruct (has_marker is_variable v) eqn:Hv; [apply R_refl|].
      apply lit_of_some in El. subst n. unfold R. rewrite Hev, subst_val_id; auto. apply req_refl.
  Qed.

  Lemma subst_nonbool v f : is_variable v = false -> (forall b, v <> VBool b) ->
    as_bool (subst_val s v) f = Err EType.
  Proof.
    intros Hv Hb. destruct v; try reflexivity.
    - exfalso. eapply Hb. reflexivity.
    - rewrite subst_nonvar_entity; auto.
  Qed.

  Lemma R_and x x' y y' : R x x' -> R y y' -> R (EAnd x y) (EAnd x' y').
  Proof. unfold R. cbn [eval]. cong_tac. Qed.
  Lemma R_or x x' y y' : R x x' -> R y y' -> R (EOr x y) (EOr x' y').
  Proof. unfold R. cbn [eval]. cong_tac. Qed.
  Lemma R_if x x' y y' z z' : R x x' -> R y y' -> R z z' -> R (EIf x y z) (EIf x' y' z').
  Proof. unfold R. cbn [eval]. cong_tac. Qed.
  Lemma R_access x x' k : R x x' -> R (EAccess x k) (EAccess x' k).
  Proof. unfold R. cbn [eval]. cong_tac. Qed.
  Lemma R_has x x' k : R x x' -> R (EHas x k) (EHas x' k).
  Proof. unfold R. cbn [eval]. cong_tac. Qed.

  (* ---- projections: attribute access and has ---- *)
  Lemma get_attr_subst v k : is_variable v = false -> Q2 v ->
    match get_attr (e_store en) v k with
    | Ok x => get_attr (e_store en) (subst_val s v) k = Ok (subst_val s x) /\ Q2 x
    | Err _ => is_err (get_attr (e_store en) (subst_val s v) k)
    end.
  Proof.
    intros Hv HQ. destruct v; try exact I.
    - rewrite subst_nonvar_entity; auto. cbn [get_attr].
      destruct (is_zero_uid (ty, id)); [exact I|].
      destruct (lookup (e_store en) (ty, id)) as [e|] eqn:El; [|exact I].
      destruct (rec_get k (e_attrs e)) as [x|] eqn:Eg; [|exact I].
      destruct (Hst _ _ El) as [Ha _].
      pose proof (rec_get_Forall Q3 _ _ _ Ha Eg) as Hx.
      rewrite (Q3_subst s x Hx). split; [reflexivity | apply Hx].
    - cbn [subst_val get_attr]. rewrite rec_get_map.
      destruct (rec_get k l) as [x|] eqn:Eg; cbn [option_map]; [|exact I].
      split; [reflexivity|]. eapply (rec_get_Forall Q2); [|exact Eg]. apply (h_recinv Q2 hered_Q2). exact HQ.
  Qed.

  Lemma has_attr_subst v k : is_variable v = false ->
    has_attr (e_store en) (subst_val s v) k = has_attr (e_store en) v k.
  Proof.
    intros Hv. destruct v; try reflexivity.
    - rewrite subst_nonvar_entity; auto.
    - cbn [subst_val has_attr]. rewrite rec_get_map. destruct (rec_get k l); reflexivity.
  Qed.

  Lemma partial_has_ok v k : Q2 v -> partial_has (e_store en) v k = inl (has_attr (e_store en) v k).
  Proof.
    intros HQ.
    assert (Hlook : forall l, Forall (fun kv => Q2 (snd kv)) l ->
      match rec_get k l with
      | Some x => if is_ignore x then inr tt else inl (vbool true)
      | None => inl (vbool false)
      end = inl (vbool match rec_get k l with Some _ => true | None => false end) :> sum res unit).
    { intros l Hl. destruct (rec_get k l) as [x|] eqn:Eg; [|reflexivity].
      pose proof (rec_get_Forall Q2 _ _ _ Hl Eg) as [_ Hx]. rewrite (noign_top _ Hx). reflexivity. }
    destruct v; try reflexivity.
    - cbn [partial_has has_attr].
      destruct (lookup (e_store en) (ty, id)) as [e|] eqn:El; [|reflexivity].
      apply Hlook. apply (Hst2 _ _ El).
    - cbn [partial_has has_attr]. apply Hlook. apply (h_recinv Q2 hered_Q2). exact HQ.
  Qed.

  Lemma has_attr_cases v k :
    (exists b, has_attr (e_store en) v k = Ok (VBool b)) \/ has_attr (e_store en) v k = Err EType.
  Proof.
    destruct v; cbn [has_attr]; auto.
    - destruct (lookup (e_store en) (ty, id)); unfold vbool; eauto.
    - unfold vbool; eauto.
  Qed.

  Lemma Q2_bool b : Q2 (VBool b).
  Proof. split; reflexivity. Qed.

  Lemma is_err_bind r f : is_err r -> is_err (bindr r f).
  Proof. destruct r; cbn; tauto. Qed.

  Lemma access_sound a k : sound_res a (partial en a) -> sound_res (EAccess a k) (partial en (EAccess a k)).
  Proof.
    intros Ha.
    change (partial en (EAccess a k))
      with (try_partial true [a] [partial en a] (fun l => EAccess (nth 0 l a) k) (eval en)).
    rewrite try_partial_proj. cbn [nth].
    destruct (partial en a) as [n|n| |kk]; cbn [sound_res] in Ha.
    - destruct (lit_of n) as [v|] eqn:El.
      + destruct Ha as (Hev & Hnv & HQ). cbn [eval bindr].
        pose proof (get_attr_subst v k Hnv HQ) as Hg.
        destruct (get_attr (e_store en) v k) as [x|kk].
        * destruct Hg as [Hg Hx]. destruct (is_variable x) eqn:Hvx; [apply R_refl|].
          destruct Hx as [Hw Hig]. rewrite (noign_top _ Hig). cbn [sound_res lit_of eval].
          rewrite Hev. cbn [bindr subst_env e_store]. repeat split; auto.
        * cbn [sound_res eval]. rewrite Hev. exact Hg.
      + cbn [sound_res lit_of]. apply R_access. exact Ha.
    - cbn [sound_res lit_of]. apply R_refl.
    - destruct Ha.
    - cbn [sound_res eval]. apply is_err_bind. exact Ha.
  Qed.

  Lemma has_sound a k : sound_res a (partial en a) -> sound_res (EHas a k) (partial en (EHas a k)).
  Proof.
    intros Ha.
    change (partial en (EHas a k))
      with (try_partial true [a] [partial en a] (fun l => EHas (nth 0 l a) k)
              (fun n => match n with
                        | EHas (ELit v) _ => match partial_has (e_store en) v k with inl r => r | inr _ => Ok (VEntity ignore_type []) end
                        | _ => eval en n end)).
    rewrite try_partial_proj. cbn [nth].
    destruct (partial en a) as [n|n| |kk]; cbn [sound_res] in Ha.
    - destruct (lit_of n) as [v|] eqn:El.
      + destruct Ha as (Hev & Hnv & HQ). rewrite (partial_has_ok v k HQ).
        assert (Hec : eval ec (EHas a k) = has_attr (e_store en) v k).
        { cbn [eval]. rewrite Hev. cbn [bindr subst_env e_store]. apply has_attr_subst. exact Hnv. }
        destruct (has_attr_cases v k) as [[b Hb]|Hb]; rewrite Hb in *.
        * cbn [is_variable is_ignore sound_res lit_of]. rewrite Hec.
          repeat split; reflexivity.
        * cbn [sound_res]. rewrite Hec. exact I.
      + cbn [sound_res lit_of]. apply R_has. exact Ha.
    - cbn [sound_res lit_of]. apply R_refl.
    - destruct Ha.
    - cbn [sound_res eval]. apply is_err_bind. exact Ha.
  Qed.

  (* ---- and / or / if ---- *)
  Lemma partial_and a b : partial en (EAnd a b) =
    match partial en a with
    | PVar lft => match embed (partial en b) b with None => PIgnore | Some rgt => PNode (EAnd lft rgt) end
    | PIgnore => PIgnore
    | PErr k => PErr k
    | PNode lft =>
        match lit_of lft with
        | Some (VBool true) =>
            try_partial false [ELit (VBool true); b] [PNode (ELit (VBool true)); partial en b]
                        (fun l => EAnd (nth 0 l (ELit (VBool true))) (nth 1 l b)) (eval en)
        | Some (VBool false) => PNode (ELit (VBool false))
        | Some _ => PErr EType
        | None => match embed (partial en b) b with None => PIgnore | Some rgt => PNode (EAnd lft rgt) end
        end
    end.
  Proof.
    cbn [partial]. destruct (partial en a) as [lft|lft| |k]; try reflexivity.
    destruct lft; try reflexivity. destruct v; try reflexivity. destruct b0; reflexivity.
  Qed.

  Lemma partial_or a b : partial en (EOr a b) =
    match partial en a with
    | PVar lft => match embed (partial en b) b with None => PIgnore | Some rgt => PNode (EOr lft rgt) end
    | PIgnore => PIgnore
    | PErr k => PErr k
    | PNode lft =>
        match lit_of lft with
        | Some (VBool true) => PNode (ELit (VBool true))
        | Some (VBool false) =>
            try_partial false [ELit (VBool false); b] [PNode (ELit (VBool false)); partial en b]
                        (fun l => EOr (nth 0 l (ELit (VBool false))) (nth 1 l b)) (eval en)
        | Some _ => PErr EType
        | None => match embed (partial en b) b with None => PIgnore | Some rgt => PNode (EOr lft rgt) end
        end
    end.
  Proof.
    cbn [partial]. destruct (partial en a) as [lft|lft| |k]; try reflexivity.
    destruct lft; try reflexivity. destruct v; try reflexivity. destruct b0; reflexivity.
  Qed.

  Definition if_finish (ifn t f : expr) : pres :=
    match embed (partial en t) t with
    | None => PIgnore
    | Some tn => match embed (partial en f) f with
                 | None => PIgnore
                 | Some fn => PNode (EIf ifn tn fn)
                 end
    end.

  Lemma partial_if c t f : partial en (EIf c t f) =
    match partial en c with
    | PVar ifn => if_finish ifn t f
    | PIgnore => PIgnore
    | PErr k => PErr k
    | PNode ifn =>
        match lit_of ifn with
        | Some (VBool true) => partial en t
        | Some (VBool false) => partial en f
        | Some _ => PErr EType
        | None => if_finish ifn t f
        end
    end.
  Proof.
    cbn [partial]. unfold if_finish. destruct (partial en c) as [ifn|ifn| |k]; try reflexivity.
    destruct ifn; try reflexivity. destruct v; try reflexivity. destruct b; reflexivity.
  Qed.

  Lemma and_finish a b lft : R lft a -> sound_res b (partial en b) ->
    sound_res (EAnd a b) (match embed (partial en b) b with None => PIgnore | Some rgt => PNode (EAnd lft rgt) end).
  Proof.
    intros Hl Hb. apply embed_sound in Hb. destruct (embed (partial en b) b) as [rgt|]; [|destruct Hb].
    cbn [sound_res lit_of]. apply R_and; auto.
  Qed.

  Lemma or_finish a b lft : R lft a -> sound_res b (partial en b) ->
    sound_res (EOr a b) (match embed (partial en b) b with None => PIgnore | Some rgt => PNode (EOr lft rgt) end).
  Proof.
    intros Hl Hb. apply embed_sound in Hb. destruct (embed (partial en b) b) as [rgt|]; [|destruct Hb].
    cbn [sound_res lit_of]. apply R_or; auto.
  Qed.

  Lemma if_finish_sound c t f ifn : R ifn c -> sound_res t (partial en t) -> sound_res f (partial en f) ->
    sound_res (EIf c t f) (if_finish ifn t f).
  Proof.
    intros Hc Ht Hf. unfold if_finish. apply embed_sound in Ht. apply embed_sound in Hf.
    destruct (embed (partial en t) t) as [tn|]; [|destruct Ht].
    destruct (embed (partial en f) f) as [fn|]; [|destruct Hf].
    cbn [sound_res lit_of]. apply R_if; auto.
  Qed.

  Lemma lit_sound_bool b : sound_res (ELit (VBool b)) (PNode (ELit (VBool b))).
  Proof. cbn [sound_res lit_of eval subst_val is_variable]. repeat split; reflexivity. Qed.

  Lemma node_Q3_lits2 (C : expr -> expr -> expr) :
    (forall x y, expr_forall (node_Q Q3 en) (C x y) <-> expr_forall (node_Q Q3 en) x /\ expr_forall (node_Q Q3 en) y) ->
    forall v w r, Q3 v -> Q3 w -> eval en (C (ELit v) (ELit w)) = Ok r -> Q3 r.
  Proof.
    intros HC v w r Hv Hw. apply (eval_Q Q3 hered_Q3 en Hst). apply HC. cbn [expr_forall node_Q]. tauto.
  Qed.

  Lemma node_Q3_lits1 (C : expr -> expr) :
    (forall x, expr_forall (node_Q Q3 en) (C x) <-> expr_forall (node_Q Q3 en) x) ->
    forall v r, Q3 v -> eval en (C (ELit v)) = Ok r -> Q3 r.
  Proof.
    intros HC v r Hv. apply (eval_Q Q3 hered_Q3 en Hst). apply HC. cbn [expr_forall node_Q]. tauto.
  Qed.

  Lemma and_sound a b : sound_res a (partial en a) -> sound_res b (partial en b) ->
    sound_res (EAnd a b) (partial en (EAnd a b)).
  Proof.
    intros Ha Hb. rewrite partial_and.
    destruct (partial en a) as [lft|lft| |k]; cbn [sound_res] in Ha.
    - destruct (lit_of lft) as [v|] eqn:El; [|apply and_finish; auto].
      destruct Ha as (Hev & Hnv & HQ).
      destruct v as [[|]| | | | | | | | |];
        try (cbn [sound_res eval]; rewrite Hev; cbn [bindr]; rewrite subst_nonbool; [exact I | exact Hnv | congruence]).
      + eapply sound_res_transfer;
          [|apply (bin_sound EAnd (ELit (VBool true)) b); [apply R_and | reflexivity | | | reflexivity | apply lit_sound_bool | exact Hb]].
        * cbn [eval]. rewrite Hev. reflexivity.
        * apply node_Q3_lits2. intros x y. cbn [expr_forall node_Q]. tauto.
        * intros [H|H]; [destruct H|]. cbn [eval bindr as_bool negb]. apply is_err_bind. exact H.
      + cbn [sound_res lit_of eval]. rewrite Hev. cbn [subst_val bindr as_bool negb is_variable].
        repeat split; reflexivity.
    - apply and_finish; auto.
    - destruct Ha.
    - cbn [sound_res eval]. apply is_err_bind. exact Ha.
  Qed.

  Lemma or_sound a b : sound_res a (partial en a) -> sound_res b (partial en b) ->
    sound_res (EOr a b) (partial en (EOr a b)).
  Proof.
    intros Ha Hb. rewrite partial_or.
    destruct (partial en a) as [lft|lft| |k]; cbn [sound_res] in Ha.
    - destruct (lit_of lft) as [v|] eqn:El; [|apply or_finish; auto].
      destruct Ha as (Hev & Hnv & HQ).
      destruct v as [[|]| | | | | | | | |];
        try (cbn [sound_res eval]; rewrite Hev; cbn [bindr]; rewrite subst_nonbool; [exact I | exact Hnv | congruence]).
      + cbn [sound_res lit_of eval]. rewrite Hev. cbn [subst_val bindr as_bool negb is_variable].
        repeat split; reflexivity.
      + eapply sound_res_transfer;
          [|apply (bin_sound EOr (ELit (VBool false)) b); [apply R_or | reflexivity | | | reflexivity | apply lit_sound_bool | exact Hb]].
        * cbn [eval]. rewrite Hev. reflexivity.
        * apply node_Q3_lits2. intros x y. cbn [expr_forall node_Q]. tauto.
        * intros [H|H]; [destruct H|]. cbn [eval bindr as_bool negb]. apply is_err_bind. exact H.
    - apply or_finish; auto.
    - destruct Ha.
    - cbn [sound_res eval]. apply is_err_bind. exact Ha.
  Qed.

  Lemma if_sound c t f : sound_res c (partial en c) -> sound_res t (partial en t) -> sound_res f (partial en f) ->
    sound_res (EIf c t f) (partial en (EIf c t f)).
  Proof.
    intros Hc Ht Hf. rewrite partial_if.
    destruct (partial en c) as [ifn|ifn| |k]; cbn [sound_res] in Hc.
    - destruct (lit_of ifn) as [v|] eqn:El; [|apply if_finish_sound; auto].
      destruct Hc as (Hev & Hnv & HQ).
      destruct v as [[|]| | | | | | | | |];
        try (cbn [sound_res eval]; rewrite Hev; cbn [bindr]; rewrite subst_nonbool; [exact I | exact Hnv | congruence]).
      + eapply sound_res_transfer; [|exact Ht]. cbn [eval]. rewrite Hev. reflexivity.
      + eapply sound_res_transfer; [|exact Hf]. cbn [eval]. rewrite Hev. reflexivity.
    - apply if_finish_sound; auto.
    - destruct Hc.
    - cbn [sound_res eval]. apply is_err_bind. exact Hc.
  Qed.

  (* ---- is .. in (partialIsIn): not strict in its right operand ---- *)
  Definition isin_tp (a : expr) (ty : str) (b : expr) : pres :=
    try_partial false [a; b] [partial en a; partial en b] (fun l => EIsIn (nth 0 l a) ty (nth 1 l b)) (eval en).

  Lemma partial_isin a ty b : partial en (EIsIn a ty b) =
    match partial en a with
    | PVar lft => match embed (partial en b) b with None => PIgnore | Some rgt => PNode (EIsIn lft ty rgt) end
    | PIgnore => PIgnore
    | PErr k => PErr k
    | PNode lft =>
        match lit_of lft with
        | Some (VEntity t _) => if negb (str_eqb t ty) then PNode (ELit (VBool false)) else isin_tp a ty b
        | Some _ => isin_tp a ty b
        | None => match embed (partial en b) b with None => PIgnore | Some rgt => PNode (EIsIn lft ty rgt) end
        end
    end.
  Proof.
    cbn [partial]. unfold isin_tp. destruct (partial en a) as [lft|lft| |k]; try reflexivity.
    destruct lft; try reflexivity.
  Qed.

  Lemma R_isin ty x x' y y' : R x x' -> R y y' -> R (EIsIn x ty y) (EIsIn x' ty y').
  Proof. unfold R. cbn [eval]. cong_tac. Qed.

  Lemma isin_finish a ty b lft : R lft a -> sound_res b (partial en b) ->
    sound_res (EIsIn a ty b)
      (match embed (partial en b) b with None => PIgnore | Some rgt => PNode (EIsIn lft ty rgt) end).
  Proof.
    intros Hl Hb. apply embed_sound in Hb. destruct (embed (partial en b) b) as [rgt|]; [|destruct Hb].
    cbn [sound_res lit_of]. apply R_isin; auto.
  Qed.

  (* the strict path, given that under the completed environment an error of b surfaces *)
  Lemma isin_tp_sound a ty b : sound_res a (partial en a) -> sound_res b (partial en b) ->
    (is_err (eval ec b) -> is_err (eval ec (EIsIn a ty b))) ->
    sound_res (EIsIn a ty b) (isin_tp a ty b).
  Proof.
    intros Ha Hb Hstrict. unfold isin_tp.
    apply (bin_sound (fun x y => EIsIn x ty y));
      [ intros; apply R_isin; auto
      | reflexivity
      | apply (node_Q3_lits2 (fun x y => EIsIn x ty y)); intros; cbn [expr_forall node_Q]; tauto
      |
      | reflexivity
      | exact Ha
      | exact Hb ].
    intros [H|H]; [cbn [eval]; apply is_err_bind; exact H | apply Hstrict; exact H].
  Qed.

  Lemma isin_sound a ty b : sound_res a (partial en a) -> sound_res b (partial en b) ->
    sound_res (EIsIn a ty b) (partial en (EIsIn a ty b)).
  Proof.
    intros Ha Hb. rewrite partial_isin. pose proof Ha as Ha0.
    destruct (partial en a) as [lft|lft| |k] eqn:Ea; cbn [sound_res] in Ha.
    - destruct (lit_of lft) as [v|] eqn:El; [|apply isin_finish; auto].
      destruct Ha as (Hev & Hnv & HQ). rewrite <- Ea in Ha0.
      assert (Hother : (forall t i, v <> VEntity t i) -> sound_res (EIsIn a ty b) (isin_tp a ty b)).
      { intros Hne. apply isin_tp_sound; auto. intros _. cbn [eval]. rewrite Hev. cbn [bindr].
        destruct v; try exact I. exfalso. eapply Hne. reflexivity. }
      destruct v as [| | |t i| | | | | |]; try (apply Hother; congruence).
      rewrite subst_nonvar_entity in Hev by exact Hnv.
      destruct (str_eqb t ty) eqn:Et; cbn [negb].
      + apply isin_tp_sound; auto. intros H. cbn [eval]. rewrite Hev. cbn [bindr as_entity fst]. rewrite Et.
        cbn [negb]. apply is_err_bind. exact H.
      + cbn [sound_res lit_of eval]. rewrite Hev. cbn [bindr as_entity fst]. rewrite Et.
        cbn [negb subst_val is_variable]. repeat split; reflexivity.
    - apply isin_finish; auto.
    - destruct Ha.
    - cbn [sound_res eval]. apply is_err_bind. exact Ha.
  Qed.

  (* ---- n-ary nodes: sets, extension calls, records ---- *)
  Lemma F2_map_R xs ys : Forall2 R xs ys -> Forall2 req (map (eval ec) xs) (map (eval ec) ys).
  Proof. induction 1; cbn [map]; constructor; auto. Qed.

  Lemma Exists_map_err xs : Exists (fun x => is_err (eval ec x)) xs -> Exists is_err (map (eval ec) xs).
  Proof. induction 1; cbn [map]; [left | right]; auto. Qed.

  Lemma seq_res_strict rs : Exists is_err rs -> exists e, seq_res rs = inl e.
  Proof.
    induction 1 as [r rs Hr | r rs _ IH]; cbn [seq_res].
    - destruct r; [destruct Hr | eauto].
    - destruct r; [|eauto]. destruct IH as [e ->]. eauto.
  Qed.

  Lemma R_set xs ys : Forall2 R xs ys -> R (ESet xs) (ESet ys).
  Proof.
    intros HF. unfold R. cbn [eval]. pose proof (seq_res_cong _ _ (F2_map_R _ _ HF)) as H.
    destruct (seq_res (map (eval ec) xs)) as [r|vs] eqn:E1, (seq_res (map (eval ec) ys)) as [r'|vs'] eqn:E2;
      try contradiction.
    - apply seq_res_inl in E1. apply seq_res_inl in E2. destruct E1 as [k ->], E2 as [k' ->]. exact I.
    - subst. apply req_refl.
  Qed.

  Lemma R_call n xs ys : Forall2 R xs ys -> R (ECall n xs) (ECall n ys).
  Proof. intros HF. unfold R. cbn [eval]. apply call_ext_cong. apply F2_map_R. exact HF. Qed.

  Lemma LR_kreq keys xs ys : Forall2 R xs ys ->
    Forall2 kreq (map (fun kv : str * expr => (fst kv, eval ec (snd kv))) (combine keys xs))
                 (map (fun kv : str * expr => (fst kv, eval ec (snd kv))) (combine keys ys)).
  Proof.
    intros HF. revert keys. induction HF as [|x y xs ys Hxy _ IH]; intros [|k keys]; cbn [combine map]; try constructor.
    - split; auto.
    - apply IH.
  Qed.

  Lemma R_record keys xs ys : Forall2 R xs ys -> R (ERecord (combine keys xs)) (ERecord (combine keys ys)).
  Proof.
    intros HF. unfold R. cbn [eval].
    pose proof (seq_rec_cong _ _ (rec_of_list_kreq _ _ (LR_kreq keys _ _ HF))) as H.
    match goal with |- req (match seq_rec ?l1 with _ => _ end) (match seq_rec ?l2 with _ => _ end) =>
      destruct (seq_rec l1) as [r|vs] eqn:E1, (seq_rec l2) as [r'|vs'] eqn:E2 end; try contradiction.
    - apply seq_rec_inl in E1. apply seq_rec_inl in E2. destruct E1 as [k ->], E2 as [k' ->]. exact I.
    - subst. apply req_refl.
  Qed.

  Lemma LR_lits (e : env) keys vs :
    map (fun kv : str * expr => (fst kv, eval e (snd kv))) (combine keys (map ELit vs)) = combine keys (map Ok vs).
  Proof.
    revert vs. induction keys as [|k keys IH]; intros [|v vs]; cbn [combine map fst snd eval]; auto.
    rewrite IH. reflexivity.
  Qed.

  Lemma combine_fst_snd {A B} (l : list (A * B)) : combine (map fst l) (map snd l) = l.
  Proof. induction l as [|[a b] l IH]; cbn [map combine fst snd]; congruence. Qed.

  Lemma map_fst_combine {A B} (ks : list A) (xs : list B) :
    List.length xs = List.length ks -> map fst (combine ks xs) = ks.
  Proof.
    revert xs. induction ks as [|k ks IH]; intros [|x xs]; cbn [List.length combine map fst]; try discriminate; auto.
    intros H. rewrite IH; auto.
  Qed.

  Lemma in_combine_exists {A B} (ks : list A) (xs : list B) x :
    List.length xs = List.length ks -> In x xs -> exists k, In (k, x) (combine ks xs).
  Proof.
    revert xs. induction ks as [|k ks IH]; intros [|y xs]; cbn [List.length combine]; try discriminate.
    - intros _ [].
    - intros H [->|Hx]; [exists k; left; reflexivity|].
      destruct (IH xs (eq_add_S _ _ H) Hx) as [k' Hk]. exists k'. right. exact Hk.
  Qed.

  Lemma rec_get_nodup {A} k (v : A) l : NoDup (map fst l) -> In (k, v) l -> rec_get k l = Some v.
  Proof.
    induction l as [|[k' v'] l IH]; cbn [map fst rec_get]; [intros _ []|].
    intros Hnd [H|H].
    - inversion H; subst. rewrite str_eqb_refl. reflexivity.
    - inversion Hnd as [|? ? Hni Hnd']; subst.
      destruct (str_eqb k k') eqn:E.
      + apply str_eqb_eq in E. subst k'. exfalso. apply Hni.
        change k with (fst (k, v)). apply in_map. exact H.
      + auto.
  Qed.

  Lemma seq_rec_err l k r : rec_get k l = Some r -> is_err r -> exists e, seq_rec l = inl e.
  Proof.
    induction l as [|[k' r'] l IH]; cbn [rec_get seq_rec]; [discriminate|].
    intros Hg He. destruct r' as [v|kk]; [|eauto].
    destruct (str_eqb k k').
    - inversion Hg; subst. destruct He.
    - destruct (IH Hg He) as [e ->]. eauto.
  Qed.

  Lemma record_strict keys xs : NoDup keys -> List.length xs = List.length keys ->
    Exists (fun x => is_err (eval ec x)) xs -> is_err (eval ec (ERecord (combine keys xs))).
  Proof.
    intros Hnd Hlen Hex. apply Exists_exists in Hex. destruct Hex as (x & Hx & Herr).
    destruct (in_combine_exists keys xs x Hlen Hx) as [k Hk].
    cbn [eval].
    set (L := map (fun kv : str * expr => (fst kv, eval ec (snd kv))) (combine keys xs)).
    assert (HinL : In (k, eval ec x) L).
    { unfold L. change (k, eval ec x) with ((fun kv : str * expr => (fst kv, eval ec (snd kv))) (k, x)).
      apply in_map. exact Hk. }
    assert (HkL : map fst L = keys).
    { unfold L. rewrite map_map. cbn [fst]. apply map_fst_combine. exact Hlen. }
    assert (Hget : rec_get k (rec_of_list L) = Some (eval ec x)).
    { rewrite rec_of_list_get_gen. apply rec_get_nodup.
      - rewrite map_rev, HkL. apply NoDup_rev. exact Hnd.
      - apply in_rev. rewrite rev_involutive. exact HinL. }
    destruct (seq_rec_err _ _ _ Hget Herr) as [e He]. rewrite He.
    apply seq_rec_inl in He. destruct He as [kk ->]. exact I.
  Qed.

  Lemma lits_forall_Q3 vs : Forall Q3 vs -> Forall (expr_forall (node_Q Q3 en)) (map ELit vs).
  Proof. induction 1; cbn [map]; constructor; auto. cbn [expr_forall node_Q]. tauto. Qed.

  Lemma lits_forall_Q3_kv keys vs : Forall Q3 vs ->
    Forall (fun kv : str * expr => expr_forall (node_Q Q3 en) (snd kv)) (combine keys (map ELit vs)).
  Proof.
    intros H. revert keys. induction H as [|v vs Hv _ IH]; intros [|k keys]; cbn [map combine]; constructor; auto.
    cbn [snd expr_forall node_Q]. tauto.
  Qed.

  (* ========================================================================================== *)
  (* (d) the main induction                                                                      *)
  (* ========================================================================================== *)

  Ltac strict_tac :=
    let H := fresh "H" in
    intros [H|H]; cbn [eval];
    match goal with |- context [eval ec ?a] => destruct (eval ec a) end;
    try match goal with |- context [eval ec ?b] => destruct (eval ec b) end;
    cbn [is_err] in H; try contradiction; unf; split_matches; exact I.

  Ltac strict1_tac :=
    let H := fresh "H" in
    intros H; cbn [eval]; apply is_err_bind; exact H.

  Ltac bin_case C IHa IHb :=
    let Hc := fresh "Hc" in
    intros Hc; cbn [expr_forall] in Hc; destruct Hc as (_ & Hca & Hcb); cbn [partial];
    apply (bin_sound C);
    [ unfold R; cbn [eval]; cong_tac
    | reflexivity
    | apply (node_Q3_lits2 C); intros; cbn [expr_forall node_Q]; tauto
    | strict_tac
    | reflexivity
    | apply IHa; exact Hca
    | apply IHb; exact Hcb ].

  Ltac un_case C IHa :=
    let Hc := fresh "Hc" in
    intros Hc; cbn [expr_forall] in Hc; destruct Hc as (_ & Hca); cbn [partial];
    apply (un_sound C);
    [ unfold R; cbn [eval]; cong_tac
    | reflexivity
    | apply (node_Q3_lits1 C); intros; cbn [expr_forall node_Q]; tauto
    | strict1_tac
    | reflexivity
    | apply IHa; exact Hca ].

  Lemma F2_sound_list es :
    Forall (fun e => expr_forall node_clean e -> sound_res e (partial en e)) es ->
    Forall (expr_forall node_clean) es -> Forall2 sound_res es (map (partial en) es).
  Proof.
    induction 1 as [|e es He _ IH]; intros Hc; cbn [map]; constructor; inversion Hc; subst; auto.
  Qed.

  Theorem partial_sound_res : forall e, expr_forall node_clean e -> sound_res e (partial en e).
  Proof.
    induction e using expr_ind'.
    - (* ELit *) intros [Hv _]. cbn [node_clean] in Hv. cbn [partial sound_res lit_of eval].
      rewrite (subst_val_ok s v Hv). pose proof (val_ok_Q3 v Hv) as [HQ Hnv].
      repeat split; try apply HQ. apply novar_top. exact Hnv.
    - (* EVar *) intros _. cbn [partial]. unfold try_partial. cbn [combine fold_left rev map eval].
      pose proof (Hreq x) as [Hw Hig].
      destruct (is_variable (var_value en x)) eqn:Hv; [apply R_refl|].
      rewrite (noign_top _ Hig). cbn [sound_res lit_of eval]. repeat split; auto.
      destruct x; reflexivity.
    - (* EAnd *) intros (_ & Ha & Hb). apply and_sound; auto.
    - (* EOr *) intros (_ & Ha & Hb). apply or_sound; auto.
    - un_case ENot IHe.
    - un_case ENeg IHe.
    - bin_case EAdd IHe1 IHe2.
    - bin_case ESub IHe1 IHe2.
    - bin_case EMul IHe1 IHe2.
    - bin_case EEq IHe1 IHe2.
    - bin_case ENe IHe1 IHe2.
    - bin_case ELt IHe1 IHe2.
    - bin_case ELe IHe1 IHe2.
    - bin_case EGt IHe1 IHe2.
    - bin_case EGe IHe1 IHe2.
    - bin_case EIn IHe1 IHe2.
    - bin_case EContains IHe1 IHe2.
    - bin_case EContainsAll IHe1 IHe2.
    - bin_case EContainsAny IHe1 IHe2.
    - un_case EIsEmpty IHe.
    - (* EAccess *) intros (_ & Ha). apply access_sound; auto.
    - (* EHas *) intros (_ & Ha). apply has_sound; auto.
    - bin_case EGetTag IHe1 IHe2.
    - bin_case EHasTag IHe1 IHe2.
    - un_case (fun x => ELike x p) IHe.
    - un_case (fun x => EIs x ty) IHe.
    - (* EIsIn *) intros (_ & Ha & Hb). apply isin_sound; auto.
    - (* EIf *) intros (_ & Hc & Ht & Hf). apply if_sound; auto.
    - (* ESet *) intros Hc. apply expr_forall_set in Hc. destruct Hc as [_ Hc]. cbn [partial].
      apply (try_partial_sound (fun l => ESet l) es).
      + intros xs ys _ HF. apply R_set. exact HF.
      + intros vs _. cbn [eval]. rewrite !map_eval_lits. reflexivity.
      + intros vs v _ HF. apply (eval_Q Q3 hered_Q3 en Hst). apply expr_forall_set.
        split; [exact I | apply lits_forall_Q3; exact HF].
      + intros Hex. cbn [eval]. destruct (seq_res_strict _ (Exists_map_err _ Hex)) as [e He].
        rewrite He. apply seq_res_inl in He. destruct He as [k ->]. exact I.
      + reflexivity.
      + apply F2_sound_list; auto.
    - (* ERecord *) intros Hc. apply expr_forall_record in Hc. destruct Hc as [Hnd Hc]. cbn [node_clean] in Hnd.
      cbn [partial].
      apply (sound_res_transfer (ERecord (combine (map fst kvs) (map snd kvs)))).
      { rewrite combine_fst_snd. reflexivity. }
      apply (try_partial_sound (fun l => ERecord (combine (map fst kvs) l)) (map snd kvs)).
      + intros xs ys _ HF. apply R_record. exact HF.
      + intros vs _. cbn [eval]. rewrite !LR_lits. reflexivity.
      + intros vs v _ HF. apply (eval_Q Q3 hered_Q3 en Hst). apply expr_forall_record.
        split; [exact I | apply lits_forall_Q3_kv; exact HF].
      + intros Hex. apply record_strict; auto. rewrite !map_length. reflexivity.
      + reflexivity.
      + clear Hnd. induction H as [|kv kvs Hkv _ IH]; cbn [map]; constructor; inversion Hc; subst; auto.
    - (* ECall *) intros Hc. apply expr_forall_call in Hc. destruct Hc as [_ Hc]. cbn [partial].
      apply (try_partial_sound (fun l => ECall n l) args).
      + intros xs ys _ HF. apply R_call. exact HF.
      + intros vs _. cbn [eval]. rewrite !map_eval_lits. reflexivity.
      + intros vs v _ HF. apply (eval_Q Q3 hered_Q3 en Hst). apply expr_forall_call.
        split; [exact I | apply lits_forall_Q3; exact HF].
      + intros Hex. cbn [eval]. apply call_ext_strict. apply Exists_map_err. exact Hex.
      + reflexivity.
      + apply F2_sound_list; auto.
    - (* EPartialError *) intros _. exact I.
  Qed.
End Sound.

(* ========================================================================================== *)
(* Hypotheses of the headline theorems                                                         *)
(* ========================================================================================== *)

(* every attribute and tag value in the store is marker-free and well-formed *)
Definition store_clean (en : env) : Prop :=
  forall u ent, lookup (e_store en) u = Some ent ->
    Forall (fun kv => val_ok (snd kv)) (e_attrs ent) /\ Forall (fun kv => val_ok (snd kv)) (e_tags ent).

(* ADDED hypothesis: the four request parts are well-formed values (sets duplicate-free, records sorted) *)
Definition env_wf (en : env) : Prop := forall x, wf_value (var_value en x) = true.

Definition no_ignore (en : env) : Prop := forall x, has_marker is_ignore (var_value en x) = false.

Inductive marker_in (i : str) : value -> Prop :=
| mi_here : marker_in i (VEntity variable_type i)
| mi_set l x : In x l -> marker_in i x -> marker_in i (VSet l)
| mi_rec l k x : In (k, x) l -> marker_in i x -> marker_in i (VRecord l).

(* not needed by the proofs: soundness holds for every (even partial) substitution *)
Definition completes (s : sigma) (en : env) : Prop :=
  forall x i, marker_in i (var_value en x) -> exists w, s i = Some w /\ marker_free w = true.

Lemma store_clean_Q3 en : store_clean en -> store_Q Q3 en.
Proof.
  intros H u ent Hl. destruct (H u ent Hl) as [H1 H2].
  split; eapply Forall_impl; try eassumption; intros [k x]; apply val_ok_Q3.
Qed.

Definition policy_clean (p : policy) : Prop := Forall (fun c => expr_clean (snd c)) (p_conds p).

Definition sat (en : env) (p : policy) : bool :=
  match bool_eval en (policy_to_expr p) with Ok (VBool true) => true | _ => false end.

(* ========================================================================================== *)
(* Headline theorem for expressions                                                            *)
(* ========================================================================================== *)

Lemma sound_res_env en s : store_clean en -> env_wf en -> no_ignore en ->
  forall e, expr_clean e -> sound_res en s e (partial en e).
Proof.
  intros Hs Hw Hi. apply partial_sound_res.
  - apply store_clean_Q3. exact Hs.
  - intros x. split; [apply Hw | apply Hi].
Qed.

(* general form: any substitution, total or not *)
Theorem partial_expr_sound_gen : forall en s e,
  store_clean en -> env_wf en -> expr_clean e -> no_ignore en ->
  let en' := subst_env s en in
  match partial en e with
  | PNode (ELit v) => eval en' e = Ok (subst_val s v)
  | PNode n => req (eval en' n) (eval en' e)
  | PVar n => req (eval en' n) (eval en' e)
  | PErr k => exists k', eval en' e = Err k'
  | PIgnore => False
  end.
Proof.
  intros en s e Hs Hw He Hi en'. pose proof (sound_res_env en s Hs Hw Hi e He) as H.
  destruct (partial en e) as [n|n| |k]; cbn [sound_res] in H; auto.
  - destruct n; cbn [lit_of] in H; try exact H. tauto.
  - subst en'. destruct (eval (subst_env s en) e); [destruct H | eauto].
Qed.

Theorem partial_expr_sound : forall en s e,
  store_clean en -> env_wf en -> expr_clean e -> no_ignore en -> completes s en ->
  let en' := subst_env s en in
  match partial en e with
  | PNode (ELit v) => eval en' e = Ok (subst_val s v)
  | PNode n => req (eval en' n) (eval en' e)
  | PVar n => req (eval en' n) (eval en' e)
  | PErr k => exists k', eval en' e = Err k'
  | PIgnore => False
  end.
Proof.
  intros en s e Hs Hw He Hi _. apply partial_expr_sound_gen; auto.
Qed.

(* ========================================================================================== *)
(* (e) policies                                                                                *)
(* ========================================================================================== *)

Definition is_true (r : res) : bool := match r with Ok (VBool true) => true | _ => false end.
Definition all_true (en : env) (l : list expr) : bool := forallb (fun e => is_true (eval en e)) l.
Definition cond_expr (c : bool * expr) : expr := if fst c then snd c else ENot (snd c).
Definition strue (en : env) (x : var) (sc : scope) : bool := is_true (eval en (scope_expr x sc)).

Lemma bool_eval_true en e : is_true (bool_eval en e) = is_true (eval en e).
Proof. unfold bool_eval. destruct (eval en e) as [v|k]; [destruct v|]; reflexivity. Qed.

Lemma is_true_and en a b : is_true (eval en (EAnd a b)) = is_true (eval en a) && is_true (eval en b).
Proof.
  cbn [eval]. destruct (eval en a) as [v|k]; [|reflexivity]. destruct v as [[|]| | | | | | | | |]; try reflexivity.
  cbn [bindr as_bool negb is_true andb]. destruct (eval en b) as [w|k]; [destruct w|]; reflexivity.
Qed.

Lemma and_all_true en : forall es e, is_true (eval en (and_all e es)) = all_true en (e :: es).
Proof.
  induction es as [|e' es IH]; intros e; cbn [and_all].
  - unfold all_true. cbn [forallb]. rewrite andb_true_r. reflexivity.
  - rewrite is_true_and, IH. reflexivity.
Qed.

Lemma sat_all_true en p : sat en p = all_true en (policy_nodes p).
Proof.
  unfold sat, policy_to_expr. change (match bool_eval en ?e with Ok (VBool true) => true | _ => false end)
    with (is_true (bool_eval en e)).
  destruct (policy_nodes p) as [|e es]; [reflexivity|].
  rewrite bool_eval_true. apply and_all_true.
Qed.

Lemma all_true_app en l1 l2 : all_true en (l1 ++ l2) = all_true en l1 && all_true en l2.
Proof. apply forallb_app. Qed.

Lemma scope_opt en x sc : all_true en (if is_all sc then [] else [scope_expr x sc]) = strue en x sc.
Proof. unfold strue. destruct sc; cbn [is_all all_true forallb]; rewrite ?andb_true_r; reflexivity. Qed.

Lemma is_all_true sc : is_all sc = true -> sc = SAll.
Proof. destruct sc; cbn; congruence. Qed.

Lemma all_true_nodes en p :
  all_true en (policy_nodes p) =
  strue en VPrincipal (p_principal p) && strue en VAction (p_action p) && strue en VResource (p_resource p)
  && all_true en (map cond_expr (p_conds p)).
Proof.
  unfold policy_nodes. rewrite all_true_app. f_equal.
  destruct (is_all (p_principal p) && is_all (p_action p) && is_all (p_resource p)) eqn:E.
  - apply andb_true_iff in E. destruct E as [E E3]. apply andb_true_iff in E. destruct E as [E1 E2].
    rewrite (is_all_true _ E1), (is_all_true _ E2), (is_all_true _ E3). reflexivity.
  - rewrite !all_true_app, !scope_opt. rewrite andb_assoc. reflexivity.
Qed.

Lemma sat_eq en p :
  sat en p = strue en VPrincipal (p_principal p) && strue en VAction (p_action p) && strue en VResource (p_resource p)
             && all_true en (map cond_expr (p_conds p)).
Proof. rewrite sat_all_true. apply all_true_nodes. Qed.

(* ---- scopes ---- *)
Lemma is_true_search o : is_true (of_search o) = match o with Some b => b | None => false end.
Proof. destruct o as [[|]|]; reflexivity. Qed.

Lemma all_entities_spec l : (forall x, In x l -> exists t i, x = VEntity t i) ->
  exists us, all_entities l = Some us /\ forall t i, In (t, i) us <-> In (VEntity t i) l.
Proof.
  induction l as [|x l IH]; intros H.
  - exists []. split; [reflexivity|]. intros t i. cbn. tauto.
  - destruct (H x (or_introl eq_refl)) as (t & i & ->).
    destruct IH as (us & Hus & Hin). { intros y Hy. apply H. right. exact Hy. }
    exists ((t, i) :: us). split; [cbn [all_entities]; rewrite Hus; reflexivity|].
    intros t' i'. cbn [In]. rewrite Hin. split; (intros [H1|H1]; [left; congruence | right; exact H1]).
Qed.

Lemma in_set_dedup st a us :
  match all_entities (dedup (map (fun u : uid => VEntity (fst u) (snd u)) us) []) with
  | Some us' => in_set st a us' = in_set st a us
  | None => False
  end.
Proof.
  set (l := map (fun u : uid => VEntity (fst u) (snd u)) us).
  assert (Hent : forall x, In x (dedup l []) -> exists t i, x = VEntity t i).
  { intros x Hx. apply dedup_incl in Hx. destruct Hx as [Hx|[]]. unfold l in Hx.
    apply in_map_iff in Hx. destruct Hx as (u & <- & _). eauto. }
  destruct (all_entities_spec _ Hent) as (us' & -> & Hin).
  assert (Heq : forall b, In b us' <-> In b us).
  { intros [t i]. rewrite Hin. split.
    - intros Hx. apply dedup_incl in Hx. destruct Hx as [Hx|[]]. unfold l in Hx.
      apply in_map_iff in Hx. destruct Hx as ([t' i'] & Hu & Hu'). cbn [fst snd] in Hu. congruence.
    - intros Hu. assert (Hm : vmem (VEntity t i) (dedup l []) = true).
      { rewrite mk_set_vmem. apply vmem_true_iff. exists (VEntity t i). split; [|apply veq_refl].
        unfold l. change (VEntity t i) with ((fun u : uid => VEntity (fst u) (snd u)) (t, i)).
        apply in_map. exact Hu. }
      apply vmem_true_iff in Hm. destruct Hm as (y & Hy & Hveq).
      apply atomic_veq_l in Hveq; [|exact I]. subst y. exact Hy. }
  destruct (eval_in_set_correct st a us') as (r' & Hr' & Hiff').
  destruct (eval_in_set_correct st a us) as (r & Hr & Hiff).
  rewrite Hr', Hr. f_equal.
  destruct r, r'; auto.
  - destruct (proj1 Hiff eq_refl) as (b & Hb & Hreach).
    assert (false = true) by (apply Hiff'; exists b; split; [apply Heq; exact Hb | exact Hreach]). congruence.
  - destruct (proj1 Hiff' eq_refl) as (b & Hb & Hreach).
    assert (false = true) by (apply Hiff; exists b; split; [apply Heq; exact Hb | exact Hreach]). congruence.
Qed.

Lemma strue_scope_holds en x t i sc : var_value en x = VEntity t i ->
  strue en x sc = scope_holds (e_store en) (t, i) sc.
Proof.
  intros Hv. unfold strue. destruct sc as [|u|u|us|ty|ty u]; cbn [scope_expr eval scope_holds]; rewrite ?Hv.
  - reflexivity.
  - cbn [bindr vbool is_true veq]. unfold uid_eqb. cbn [fst snd].
    destruct (str_eqb t (fst u) && str_eqb i (snd u)); reflexivity.
  - cbn [bindr as_entity do_in]. rewrite is_true_search. destruct u; reflexivity.
  - cbn [bindr as_entity]. unfold mk_set. cbn [do_in].
    pose proof (in_set_dedup (e_store en) (t, i) us) as H.
    destruct (all_entities _) as [us'|]; [|destruct H]. rewrite H. apply is_true_search.
  - cbn [bindr as_entity vbool fst]. destruct (str_eqb t ty); reflexivity.
  - cbn [bindr as_entity fst]. destruct (str_eqb t ty); cbn [negb andb]; [|reflexivity].
    cbn [bindr do_in]. rewrite is_true_search. destruct u; reflexivity.
Qed.

Lemma var_value_subst s en x : var_value (subst_env s en) x = subst_val s (var_value en x).
Proof. destruct x; reflexivity. Qed.

Lemma partial_scope_sound en s x sc : no_ignore en ->
  match partial_scope (e_store en) (var_value en x) sc with
  | Some sc' => strue (subst_env s en) x sc' = strue (subst_env s en) x sc
  | None => strue (subst_env s en) x sc = false
  end.
Proof.
  intros Hi. unfold partial_scope.
  destruct (is_variable (var_value en x)) eqn:Hv; [reflexivity|].
  rewrite (noign_top _ (Hi x)).
  destruct (var_value en x) as [| | |t i| | | | | |] eqn:Ex; try reflexivity.
  assert (Hx : var_value (subst_env s en) x = VEntity t i).
  { rewrite var_value_subst, Ex. apply subst_nonvar_entity. exact Hv. }
  rewrite (strue_scope_holds _ x t i sc Hx). cbn [subst_env e_store].
  destruct (scope_holds (e_store en) (t, i) sc); reflexivity.
Qed.

(* ---- conditions ---- *)
Lemma partial_conds_unfold en permit kind body cs acc :
  partial_conds en permit ((kind, body) :: cs) acc =
  match partial en body with
  | PVar _ => partial_conds en permit cs ((kind, body) :: acc)
  | PIgnore => if permit then partial_conds en permit cs acc else None
  | PErr k => Some (rev ((kind, EPartialError k) :: acc))
  | PNode n =>
      match lit_of n with
      | Some (VBool b) => if Bool.eqb b kind then partial_conds en permit cs acc else None
      | Some _ => Some (rev ((kind, EPartialError EType) :: acc))
      | None => partial_conds en permit cs ((kind, n) :: acc)
      end
  end.
Proof.
  cbn [partial_conds]. destruct (partial en body) as [n|n| |k]; try reflexivity.
  destruct n; reflexivity.
Qed.

Definition ctrue (en : env) (c : bool * expr) : bool := is_true (eval en (cond_expr c)).

Lemma req_is_true r1 r2 : req r1 r2 -> is_true r1 = is_true r2.
Proof. destruct r1, r2; cbn [req]; try tauto. intros ->. reflexivity. Qed.

Lemma ctrue_req en kind n body : req (eval en n) (eval en body) -> ctrue en (kind, n) = ctrue en (kind, body).
Proof.
  intros H. unfold ctrue, cond_expr. cbn [fst snd]. destruct kind; [apply req_is_true; exact H|].
  apply req_is_true. cbn [eval]. destruct (eval en n), (eval en body); cbn [req] in H; try contradiction.
  - subst. apply req_refl.
  - exact I.
Qed.

Lemma ctrue_err en kind body : is_err (eval en body) -> ctrue en (kind, body) = false.
Proof.
  unfold ctrue, cond_expr. cbn [fst snd]. destruct kind; cbn [eval]; destruct (eval en body); cbn; tauto.
Qed.

Lemma ctrue_bool en kind body b : eval en body = Ok (VBool b) -> ctrue en (kind, body) = Bool.eqb b kind.
Proof.
  unfold ctrue, cond_expr. cbn [fst snd]. intros H. destruct kind; cbn [eval]; rewrite H; destruct b; reflexivity.
Qed.

Lemma ctrue_nonbool en kind body v : eval en body = Ok v -> (forall b, v <> VBool b) -> ctrue en (kind, body) = false.
Proof.
  unfold ctrue, cond_expr. cbn [fst snd]. intros H Hb.
  destruct kind; cbn [eval]; rewrite H; destruct v; try reflexivity; exfalso; eapply Hb; reflexivity.
Qed.

Lemma subst_nonbool_val s v : is_variable v = false -> (forall b, v <> VBool b) -> forall b, subst_val s v <> VBool b.
Proof.
  intros Hv Hb b. destruct v; try (cbn [subst_val]; discriminate).
  - exfalso. eapply Hb. reflexivity.
  - rewrite subst_nonvar_entity by exact Hv. discriminate.
Qed.

Lemma all_true_snoc en acc c :
  all_true en (map cond_expr (rev (c :: acc))) = all_true en (map cond_expr (rev acc)) && ctrue en c.
Proof.
  cbn [rev]. rewrite map_app, all_true_app. cbn [map all_true forallb]. rewrite andb_true_r. reflexivity.
Qed.

Lemma partial_conds_sound en s permit : store_clean en -> env_wf en -> no_ignore en ->
  forall cs, Forall (fun c => expr_clean (snd c)) cs -> forall acc,
  match partial_conds en permit cs acc with
  | Some cs' => all_true (subst_env s en) (map cond_expr cs') =
                all_true (subst_env s en) (map cond_expr (rev acc)) && all_true (subst_env s en) (map cond_expr cs)
  | None => all_true (subst_env s en) (map cond_expr cs) = false
  end.
Proof.
  intros Hs Hw Hi. induction 1 as [|[kind body] cs Hc _ IH]; intros acc.
  - cbn [partial_conds map all_true forallb]. rewrite andb_true_r. reflexivity.
  - cbn [snd] in Hc. rewrite partial_conds_unfold.
    pose proof (sound_res_env en s Hs Hw Hi body Hc) as Hb.
    change (all_true (subst_env s en) (map cond_expr ((kind, body) :: cs)))
      with (ctrue (subst_env s en) (kind, body) && all_true (subst_env s en) (map cond_expr cs)).
    destruct (partial en body) as [n|n| |k]; cbn [sound_res] in Hb.
    + destruct (lit_of n) as [v|] eqn:El.
      * destruct Hb as (Hev & Hnv & HQ).
        assert (Hnb : (forall b, v <> VBool b) ->
          all_true (subst_env s en) (map cond_expr (rev ((kind, EPartialError EType) :: acc))) =
          all_true (subst_env s en) (map cond_expr (rev acc)) &&
          (ctrue (subst_env s en) (kind, body) && all_true (subst_env s en) (map cond_expr cs))).
        { intros Hnb. rewrite all_true_snoc, (ctrue_err _ kind (EPartialError EType) I).
          rewrite (ctrue_nonbool _ kind body _ Hev (subst_nonbool_val s v Hnv Hnb)).
          rewrite andb_false_l, !andb_false_r. reflexivity. }
        destruct v; try (apply Hnb; congruence).
        rewrite (ctrue_bool _ kind body b Hev).
        destruct (Bool.eqb b kind); [|reflexivity]. rewrite andb_true_l. apply IH.
      * specialize (IH ((kind, n) :: acc)).
        destruct (partial_conds en permit cs ((kind, n) :: acc)) as [cs'|].
        -- rewrite IH, all_true_snoc, (ctrue_req _ kind n body Hb), andb_assoc. reflexivity.
        -- rewrite IH, andb_false_r. reflexivity.
    + specialize (IH ((kind, body) :: acc)).
      destruct (partial_conds en permit cs ((kind, body) :: acc)) as [cs'|].
      * rewrite IH, all_true_snoc, andb_assoc. reflexivity.
      * rewrite IH, andb_false_r. reflexivity.
    + destruct Hb.
    + rewrite all_true_snoc, (ctrue_err _ kind (EPartialError k) I), (ctrue_err _ kind body Hb).
      rewrite andb_false_l, !andb_false_r. reflexivity.
Qed.

(* ---- the policy theorem ---- *)
Theorem partial_policy_sound_gen : forall en s p,
  store_clean en -> env_wf en -> policy_clean p -> no_ignore en ->
  match partial_policy en p with
  | Some r => sat (subst_env s en) r = sat (subst_env s en) p
  | None => sat (subst_env s en) p = false
  end.
Proof.
  intros en s p Hs Hw Hp Hi. unfold partial_policy.
  rewrite (sat_eq _ p).
  pose proof (partial_scope_sound en s VPrincipal (p_principal p) Hi) as H1.
  pose proof (partial_scope_sound en s VAction (p_action p) Hi) as H2.
  pose proof (partial_scope_sound en s VResource (p_resource p) Hi) as H3.
  cbn [var_value] in H1, H2, H3.
  destruct (partial_scope (e_store en) (e_principal en) (p_principal p)) as [sp|]; [|rewrite H1; reflexivity].
  destruct (partial_scope (e_store en) (e_action en) (p_action p)) as [sa|]; [|rewrite H2, andb_false_r; reflexivity].
  destruct (partial_scope (e_store en) (e_resource en) (p_resource p)) as [sr|]; [|rewrite H3, andb_false_r; reflexivity].
  pose proof (partial_conds_sound en s (p_effect p) Hs Hw Hi (p_conds p) Hp []) as H4.
  destruct (partial_conds en (p_effect p) (p_conds p) []) as [cs|].
  - rewrite sat_eq. cbn [p_principal p_action p_resource p_conds]. rewrite H1, H2, H3, H4. reflexivity.
  - rewrite H4, andb_false_r. reflexivity.
Qed.

Theorem partial_policy_sound : forall en s p,
  store_clean en -> env_wf en -> policy_clean p -> no_ignore en -> completes s en ->
  match partial_policy en p with
  | Some r => sat (subst_env s en) r = sat (subst_env s en) p
  | None => sat (subst_env s en) p = false
  end.
Proof.
  intros en s p Hs Hw Hp Hi _. apply partial_policy_sound_gen; auto.
Qed.

(* ========================================================================================== *)
(* Counterexamples to the statements as first posed, and the repaired `is .. in`               *)
(* ========================================================================================== *)
Local Open Scope Z_scope.

Definition ex_user (i : string) : value := VEntity (s_of "User") (s_of i).
Definition ex_photo (i : string) : value := VEntity (s_of "Photo") (s_of i).
Definition ex_action : value := VEntity (s_of "Action") (s_of "view").
Definition ex_var (i : string) : value := VEntity variable_type (s_of i).
Definition ex_sigma (i : string) (w : value) : sigma := fun j => if str_eqb j (s_of i) then Some w else None.

(* principal unknown, resource Photo::"x" (not in the store, so resource.owner fails) *)
Definition cx_env : env :=
  {| e_store := []; e_principal := ex_var "p"; e_action := ex_action; e_resource := ex_photo "x"; e_context := VRecord [] |}.
Definition cx_sigma : sigma := ex_sigma "p" (ex_photo "y").

(* (1) `principal is User in resource.owner` with principal unknown and resource.owner failing: the former
   counterexample.  The error of the right operand now stays inside the residual, and the residual policy
   agrees with the original one for principal := Photo::"y" (type test fails: satisfied) and for
   principal := User::"u" (right operand evaluated: error, not satisfied). *)
Definition cx_isin : expr := EIsIn (EVar VPrincipal) (s_of "User") (EAccess (EVar VResource) (s_of "owner")).
(* permit(principal, action, resource) unless { principal is User in resource.owner }; *)
Definition cx_policy : policy :=
  {| p_effect := true; p_principal := SAll; p_action := SAll; p_resource := SAll; p_conds := [(false, cx_isin)] |}.
Definition cx_sigma_u : sigma := ex_sigma "p" (ex_user "u").

Example isin_fixed :
  partial cx_env cx_isin = PNode (EIsIn (EVar VPrincipal) (s_of "User") (EPartialError EEntity)) /\
  eval (subst_env cx_sigma cx_env) cx_isin = Ok (VBool false) /\
  (exists r, partial_policy cx_env cx_policy = Some r /\
             sat (subst_env cx_sigma cx_env) r = true /\ sat (subst_env cx_sigma cx_env) cx_policy = true /\
             sat (subst_env cx_sigma_u cx_env) r = false /\ sat (subst_env cx_sigma_u cx_env) cx_policy = false).
Proof.
  split; [|split]; [vm_compute; reflexivity | vm_compute; reflexivity |].
  eexists. split; [vm_compute; reflexivity|]. repeat split; vm_compute; reflexivity.
Qed.

Lemma marker_in_ent i t j : marker_in i (VEntity t j) -> t = variable_type /\ j = i.
Proof. intros H. inversion H. auto. Qed.

(* the hypotheses of the theorems hold for this instance *)
Example cx_hyps :
  store_clean cx_env /\ env_wf cx_env /\ no_ignore cx_env /\ completes cx_sigma cx_env /\ policy_clean cx_policy.
Proof.
  split; [|split; [|split; [|split]]].
  - intros u ent H. discriminate.
  - intros x; destruct x; reflexivity.
  - intros x; destruct x; reflexivity.
  - intros x i H. destruct x; cbn [var_value cx_env e_principal e_action e_resource e_context] in H.
    + apply marker_in_ent in H. destruct H as [_ <-]. eexists. split; vm_compute; reflexivity.
    + apply marker_in_ent in H. destruct H as [Ht _]. vm_compute in Ht. discriminate.
    + apply marker_in_ent in H. destruct H as [Ht _]. vm_compute in Ht. discriminate.
    + inversion H as [ | | l k y Hin]. destruct Hin.
  - constructor; [|constructor]. cbn [snd]. unfold expr_clean, cx_isin. cbn [expr_forall node_clean]. tauto.
Qed.

(* (2) the error KIND reported by partial need not be the one the evaluator reports: after an unknown
   operand the loop of tryPartial goes on and returns the error of a later operand. *)
Definition cx_errkind : expr :=
  EAdd (EAccess (EVar VPrincipal) (s_of "n")) (EAdd (ELit (VLong 1)) (ELit (VString (s_of "a")))).

Example errkind_counterexample :
  partial cx_env cx_errkind = PErr EType /\ eval (subst_env cx_sigma cx_env) cx_errkind = Err EEntity /\
  expr_clean cx_errkind.
Proof.
  split; [vm_compute; reflexivity|]. split; [vm_compute; reflexivity|].
  unfold expr_clean, cx_errkind. cbn [expr_forall node_clean]. unfold val_ok. repeat split.
Qed.

(* (3) a record literal with a duplicate key (rejected by the parser): the evaluator keeps the last binding
   and never sees the error of the first one; partial reports it.  No unknown is involved. *)
Definition cx_dupkey : expr :=
  ERecord [(s_of "a", EAdd (ELit (VLong 1)) (ELit (VString (s_of "x")))); (s_of "a", ELit (VLong 2))].
Example dupkey_counterexample :
  partial cx_env cx_dupkey = PErr EType /\
  eval (subst_env cx_sigma cx_env) cx_dupkey = Ok (VRecord [(s_of "a", VLong 2)]).
Proof. split; vm_compute; reflexivity. Qed.

(* ========================================================================================== *)
(* Examples                                                                                    *)
(* ========================================================================================== *)
Definition ex_n : str := s_of "n".
Definition ex_env : env :=
  {| e_store := []; e_principal := ex_user "a"; e_action := ex_action; e_resource := ex_photo "x";
     e_context := VRecord [(ex_n, ex_var "x")] |}.

(* context.n == 1 with context = {n: ?x}: the residual is the condition itself, sound for x := 1 and x := 2 *)
Definition ex_e1 : expr := EEq (EAccess (EVar VContext) ex_n) (ELit (VLong 1)).
Example ex_residual_kept :
  partial ex_env ex_e1 = PNode ex_e1 /\
  eval (subst_env (ex_sigma "x" (VLong 1)) ex_env) ex_e1 = Ok (VBool true) /\
  eval (subst_env (ex_sigma "x" (VLong 2)) ex_env) ex_e1 = Ok (VBool false).
Proof. repeat split; vm_compute; reflexivity. Qed.

(* context == {n: 1}: a value containing an unknown is never consumed whole *)
Definition ex_e2 : expr := EEq (EVar VContext) (ELit (VRecord [(ex_n, VLong 1)])).
Example ex_composite_kept :
  partial ex_env ex_e2 = PNode ex_e2 /\
  eval (subst_env (ex_sigma "x" (VLong 1)) ex_env) ex_e2 = Ok (VBool true) /\
  eval (subst_env (ex_sigma "x" (VLong 2)) ex_env) ex_e2 = Ok (VBool false).
Proof. repeat split; vm_compute; reflexivity. Qed.

(* context has n: folds to true whatever ?x is *)
Example ex_has_folds : partial ex_env (EHas (EVar VContext) ex_n) = PNode (ELit (VBool true)).
Proof. vm_compute; reflexivity. Qed.

(* context.n alone is the unknown itself *)
Example ex_access_var : partial ex_env (EAccess (EVar VContext) ex_n) = PVar (EAccess (EVar VContext) ex_n).
Proof. vm_compute; reflexivity. Qed.

(* permit(principal == User::"a", action, resource) with principal unknown: the scope is kept *)
Definition ex_penv : env :=
  {| e_store := []; e_principal := ex_var "p"; e_action := ex_action; e_resource := ex_photo "x"; e_context := VRecord [] |}.
Definition ex_pol : policy :=
  {| p_effect := true; p_principal := SEq (s_of "User", s_of "a"); p_action := SAll; p_resource := SAll; p_conds := [] |}.
Example ex_scope_kept :
  partial_policy ex_penv ex_pol = Some ex_pol /\
  sat (subst_env (ex_sigma "p" (ex_user "a")) ex_penv) ex_pol = true /\
  sat (subst_env (ex_sigma "p" (ex_user "b")) ex_penv) ex_pol = false.
Proof. repeat split; vm_compute; reflexivity. Qed.

(* a known principal decides the scope: dropped from the residual, or the policy is dropped *)
Example ex_scope_decided :
  partial_policy ex_env ex_pol = Some {| p_effect := true; p_principal := SAll; p_action := SAll; p_resource := SAll; p_conds := [] |} /\
  partial_policy ex_env {| p_effect := true; p_principal := SEq (s_of "User", s_of "b"); p_action := SAll; p_resource := SAll; p_conds := [] |} = None.
Proof. split; vm_compute; reflexivity. Qed.

Print Assumptions partial_sound_res.
Print Assumptions partial_expr_sound_gen.
Print Assumptions partial_expr_sound.
Print Assumptions partial_policy_sound_gen.
Print Assumptions partial_policy_sound.
Print Assumptions isin_fixed.
Print Assumptions errkind_counterexample.
