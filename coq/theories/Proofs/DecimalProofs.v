(* Proofs about the decimal codec model (Impl/Decimal.v): print/parse round trip, range and syntax of
   accepted strings, exactness of the repaired NewDecimal constructor.
   Section 1 is a small reusable library about decimal numerals (Impl/Text.v). *)
From Coq Require Import String.
From Coq Require Import ZArith List Bool Lia.
Import ListNotations.
From Cedar Require Import Base.Int64 Lang.Value Impl.Text Impl.Decimal.
Local Open Scope Z_scope.

(* ====================================================================================== *)
(** * Section 1: LIBRARY -- decimal numerals ([digits_val_acc], [digits_of], [print_nat], ...) *)
(* ====================================================================================== *)

Notation all_digits := (Forall (fun c => is_digit c = true)).

Lemma is_digit_range c : is_digit c = true <-> 48 <= c <= 57.
Proof. unfold is_digit. rewrite andb_true_iff, !Z.leb_le. tauto. Qed.

Lemma digits_val_acc_app : forall a b acc,
  digits_val_acc (a ++ b) acc =
  match digits_val_acc a acc with Some v => digits_val_acc b v | None => None end.
Proof.
  induction a as [|c a IH]; intros b acc; cbn [app digits_val_acc]; [reflexivity|].
  destruct (is_digit c); [apply IH|reflexivity].
Qed.

(* a successful [digits_val_acc] means all characters are digits and bounds the value *)
Lemma digits_val_acc_bound : forall s acc v, digits_val_acc s acc = Some v ->
  all_digits s /\
  acc * 10 ^ Z.of_nat (length s) <= v < (acc + 1) * 10 ^ Z.of_nat (length s).
Proof.
  induction s as [|c s IH]; intros acc v H; cbn [digits_val_acc] in H.
  - injection H as <-. split; [constructor|]. change (10 ^ Z.of_nat (length (@nil Z))) with 1. lia.
  - destruct (is_digit c) eqn:Hc; [|discriminate].
    destruct (IH _ _ H) as [Hall Hb]. split; [constructor; assumption|].
    apply is_digit_range in Hc. unfold digit_val in Hb.
    cbn [length]. rewrite Nat2Z.inj_succ, Z.pow_succ_r by lia.
    set (P := 10 ^ Z.of_nat (length s)) in *.
    assert (HP : 0 < P) by (apply Z.pow_pos_nonneg; lia).
    nia.
Qed.

Lemma digits_val_acc_zeros : forall n acc,
  digits_val_acc (repeat 48 n) acc = Some (acc * 10 ^ Z.of_nat n).
Proof.
  induction n as [|n IH]; intros acc.
  - cbn [repeat digits_val_acc]. change (10 ^ Z.of_nat 0) with 1. f_equal; lia.
  - cbn [repeat digits_val_acc]. change (is_digit 48) with true. cbv iota.
    rewrite IH. unfold digit_val. rewrite Nat2Z.inj_succ, Z.pow_succ_r by lia. f_equal; ring.
Qed.

Lemma all_digits_repeat n : all_digits (repeat 48 n).
Proof. induction n as [|n IH]; cbn [repeat]; constructor; [reflexivity|assumption]. Qed.

Lemma parse_digits_nonempty s : s <> [] -> parse_digits s = digits_val_acc s 0.
Proof. destruct s; [congruence|reflexivity]. Qed.

Lemma parse_digits_some s v : parse_digits s = Some v -> s <> [] /\ digits_val_acc s 0 = Some v.
Proof. destruct s; [discriminate|]. intros H; split; [discriminate|exact H]. Qed.

(** ** [digits_of] with explicit fuel *)

Lemma digits_of_acc : forall f z acc, digits_of f z acc = digits_of f z [] ++ acc.
Proof.
  induction f as [|f IH]; intros z acc; cbn [digits_of]; [reflexivity|].
  destruct (z <? 10); [reflexivity|].
  rewrite (IH (z / 10) (_ :: acc)), (IH (z / 10) [_]), <- app_assoc. reflexivity.
Qed.

Lemma digits_of_nonempty f z acc : digits_of (S f) z acc <> [].
Proof.
  cbn [digits_of]. destruct (z <? 10); [discriminate|].
  rewrite digits_of_acc. intros H. apply app_eq_nil in H. destruct H as [_ H]; discriminate.
Qed.

Lemma digits_of_digits : forall f z acc, all_digits acc -> all_digits (digits_of f z acc).
Proof.
  induction f as [|f IH]; intros z acc H; cbn [digits_of]; [exact H|].
  assert (Hc : is_digit (48 + z mod 10) = true).
  { apply is_digit_range. pose proof (Z.mod_pos_bound z 10 ltac:(lia)). lia. }
  destruct (z <? 10); [|apply IH]; constructor; assumption.
Qed.

Lemma digits_of_val : forall f z, 0 <= z < 10 ^ Z.of_nat f ->
  digits_val_acc (digits_of f z []) 0 = Some z.
Proof.
  induction f as [|f IH]; intros z Hz.
  - change (10 ^ Z.of_nat 0) with 1 in Hz. cbn [digits_of digits_val_acc]. f_equal; lia.
  - rewrite Nat2Z.inj_succ, Z.pow_succ_r in Hz by lia.
    cbn [digits_of].
    pose proof (Z.mod_pos_bound z 10 ltac:(lia)) as Hm.
    pose proof (Z.div_mod z 10 ltac:(lia)) as Hdm.
    assert (Hc : is_digit (48 + z mod 10) = true) by (apply is_digit_range; lia).
    destruct (Z.ltb_spec z 10) as [Hlt|Hge].
    + cbn [digits_val_acc]. rewrite Hc. unfold digit_val. f_equal.
      rewrite Z.mod_small by lia. lia.
    + rewrite digits_of_acc, digits_val_acc_app, IH.
      * cbn [digits_val_acc]. rewrite Hc. unfold digit_val. f_equal. lia.
      * split; [apply Z.div_pos; lia | apply Z.div_lt_upper_bound; lia].
Qed.

Lemma digits_of_length : forall f k z acc, 0 <= z < 10 ^ Z.of_nat k -> (1 <= k)%nat ->
  (length (digits_of f z acc) <= k + length acc)%nat.
Proof.
  induction f as [|f IH]; intros k z acc Hz Hk; cbn [digits_of]; [lia|].
  destruct (Z.ltb_spec z 10) as [Hlt|Hge]; [cbn [length]; lia|].
  destruct k as [|k]; [lia|].
  rewrite Nat2Z.inj_succ, Z.pow_succ_r in Hz by lia.
  destruct k as [|k]; [change (10 ^ Z.of_nat 0) with 1 in Hz; lia|].
  specialize (IH (S k) (z / 10) ((48 + z mod 10) :: acc)). cbn [length] in IH.
  assert (0 <= z / 10 < 10 ^ Z.of_nat (S k)).
  { split; [apply Z.div_pos; lia | apply Z.div_lt_upper_bound; lia]. }
  lia.
Qed.

Lemma digits_of_hd : forall f z acc, 0 < z < 10 ^ Z.of_nat f -> hd 0 (digits_of f z acc) <> 48.
Proof.
  induction f as [|f IH]; intros z acc Hz.
  - change (10 ^ Z.of_nat 0) with 1 in Hz. lia.
  - rewrite Nat2Z.inj_succ, Z.pow_succ_r in Hz by lia.
    cbn [digits_of].
    destruct (Z.ltb_spec z 10) as [Hlt|Hge].
    + cbn [hd]. rewrite Z.mod_small by lia. lia.
    + apply IH. split; [apply Z.div_str_pos; lia | apply Z.div_lt_upper_bound; lia].
Qed.

(** ** [print_nat], [print_padded] *)

Lemma pow40 : 10 ^ 40 = 10 ^ Z.of_nat 40.
Proof. reflexivity. Qed.

Lemma print_nat_digits : forall z, 0 <= z < 10 ^ 40 ->
  Forall (fun c => is_digit c = true) (print_nat z) /\ print_nat z <> [].
Proof.
  intros z _. unfold print_nat. split; [apply digits_of_digits; constructor | apply digits_of_nonempty].
Qed.

Lemma parse_print_nat : forall z, 0 <= z < 10 ^ 40 -> parse_digits (print_nat z) = Some z.
Proof.
  intros z Hz. rewrite parse_digits_nonempty by (apply print_nat_digits; exact Hz).
  unfold print_nat. apply digits_of_val. rewrite <- pow40. exact Hz.
Qed.

Lemma print_nat_length : forall z k, 0 <= z < 10 ^ (Z.of_nat k) -> (1 <= k <= 40)%nat ->
  (length (print_nat z) <= k)%nat.
Proof.
  intros z k Hz Hk. unfold print_nat.
  pose proof (digits_of_length 40 k z [] Hz ltac:(lia)) as H. cbn [length] in H. lia.
Qed.

Lemma pow_le_40 k : (k <= 40)%nat -> 10 ^ Z.of_nat k <= 10 ^ 40.
Proof. intros Hk. rewrite pow40. apply Z.pow_le_mono_r; lia. Qed.

Lemma parse_print_padded : forall w z, 0 <= z < 10 ^ (Z.of_nat w) -> (1 <= w <= 40)%nat ->
  length (print_padded w z) = w /\ parse_digits (print_padded w z) = Some z /\
  Forall (fun c => is_digit c = true) (print_padded w z).
Proof.
  intros w z Hz Hw.
  assert (Hz40 : 0 <= z < 10 ^ 40) by (pose proof (pow_le_40 w ltac:(lia)); lia).
  pose proof (print_nat_length z w Hz Hw) as Hlen.
  destruct (print_nat_digits z Hz40) as [Hdig Hne].
  pose proof (parse_print_nat z Hz40) as Hp.
  unfold print_padded. cbv zeta. split; [|split].
  - rewrite app_length, repeat_length. lia.
  - rewrite parse_digits_nonempty.
    + rewrite digits_val_acc_app, digits_val_acc_zeros. rewrite Z.mul_0_l.
      rewrite <- parse_digits_nonempty by exact Hne. exact Hp.
    + intros H. apply app_eq_nil in H. destruct H as [_ H]. exact (Hne H).
  - apply Forall_app. split; [apply all_digits_repeat | exact Hdig].
Qed.

Lemma print_nat_no_leading_zero : forall z, 0 < z < 10 ^ 40 -> hd 0 (print_nat z) <> 48.
Proof. intros z Hz. unfold print_nat. apply digits_of_hd. rewrite <- pow40. exact Hz. Qed.

(** ** small list / search helpers *)

Lemma all_digits_hd l : all_digits l -> l <> [] ->
  exists c r, l = c :: r /\ is_digit c = true /\ all_digits r.
Proof.
  intros H Hne. destruct l as [|c r]; [congruence|]. inversion H; subst. eauto.
Qed.

Lemma all_digits_not_in c l : all_digits l -> is_digit c = false -> ~ In c l.
Proof.
  intros H Hc Hin. rewrite Forall_forall in H. apply H in Hin. congruence.
Qed.

Lemma index_of_app c pre r : ~ In c pre -> index_of c (pre ++ c :: r) = Some (length pre).
Proof.
  induction pre as [|x pre IH]; intros Hni; cbn [app index_of length].
  - rewrite Z.eqb_refl. reflexivity.
  - destruct (Z.eqb_spec x c) as [->|Hne]; [exfalso; apply Hni; left; reflexivity|].
    rewrite IH by (intros Hin; apply Hni; right; exact Hin). reflexivity.
Qed.

Lemma index_of_split : forall c s i, index_of c s = Some i ->
  s = firstn i s ++ c :: skipn (S i) s.
Proof.
  induction s as [|x s IH]; intros i H; cbn [index_of] in H; [discriminate|].
  destruct (Z.eqb_spec x c) as [->|Hne].
  - injection H as <-. reflexivity.
  - destruct (index_of c s) as [j|] eqn:Hj; [|discriminate].
    cbn [option_map] in H. injection H as <-.
    cbn [firstn skipn app]. f_equal. apply IH. reflexivity.
Qed.

Lemma firstn_app_exact {A} (a b : list A) : firstn (length a) (a ++ b) = a.
Proof. induction a as [|x a IH]; cbn [length firstn app]; [destruct b; reflexivity | f_equal; exact IH]. Qed.

Lemma skipn_app_exact {A} (a : list A) x b : skipn (S (length a)) (a ++ x :: b) = b.
Proof. induction a as [|y a IH]; cbn [length app]; [reflexivity | exact IH]. Qed.

Lemma repeat_snoc {A} (x : A) n : repeat x n ++ [x] = x :: repeat x n.
Proof. induction n as [|n IH]; cbn [repeat app]; [reflexivity | f_equal; exact IH]. Qed.

Lemma rev_repeat {A} (x : A) n : rev (repeat x n) = repeat x n.
Proof. induction n as [|n IH]; cbn [repeat rev]; [reflexivity | rewrite IH; apply repeat_snoc]. Qed.

(* pattern matches on byte constants, turned into boolean tests *)
Ltac destruct_pos :=
  repeat match goal with p : positive |- _ => destruct p as [p|p|]; try reflexivity end.

Lemma parse_signed_cons c r :
  parse_signed (c :: r) =
  if c =? 45 then option_map Z.opp (parse_digits r)
  else if c =? 43 then parse_digits r else parse_digits (c :: r).
Proof. destruct c as [|p|p]; try reflexivity; destruct_pos. Qed.

Lemma parse_signed_nil : parse_signed [] = None.
Proof. reflexivity. Qed.

(* ====================================================================================== *)
(** * Section 2: the decimal codec *)
(* ====================================================================================== *)

(** ** [new_decimal] *)

Definition nd_ok (ip t : Z) : Prop :=
  ~ (ip > 922337203685477 \/ (ip = 922337203685477 /\ t > 5807)) /\
  ~ (ip < -922337203685477 \/ (ip = -922337203685477 /\ t < -5808)).

Lemma new_decimal_spec ip t z :
  new_decimal ip t = Some z <-> (nd_ok ip t /\ z = ip * 10000 + t).
Proof.
  unfold new_decimal, nd_ok.
  destruct (Z.gtb_spec ip 922337203685477) as [Ha|Ha];
  destruct (Z.eqb_spec ip 922337203685477) as [Hb|Hb];
  destruct (Z.gtb_spec t 5807) as [Hc|Hc]; cbn [orb andb];
  try (split; [discriminate | intros [[? ?] ?]; exfalso; lia]);
  destruct (Z.ltb_spec ip (-922337203685477)) as [Hd|Hd];
  destruct (Z.eqb_spec ip (-922337203685477)) as [He|He];
  destruct (Z.ltb_spec t (-5808)) as [Hf|Hf]; cbn [orb andb];
  try (split; [discriminate | intros [[? ?] ?]; exfalso; lia]);
  (split; [intros Hz; injection Hz as <-; repeat split; lia | intros [_ ->]; reflexivity]).
Qed.

(* with a fractional part of at most four digits the result is an int64 *)
Lemma new_decimal_in64 ip t z : new_decimal ip t = Some z -> -9999 <= t <= 9999 ->
  z = ip * 10000 + t /\ in64 z.
Proof.
  intros H Ht. apply new_decimal_spec in H. destruct H as [[H1 H2] ->]. split; [reflexivity|].
  unfold in64, min64, max64, two63. lia.
Qed.

(** ** [parse_decimal] with the byte patterns replaced by boolean tests *)

Definition parse_decimal' (s : str) : option Z :=
  match index_of 46 s with
  | None => None
  | Some i =>
    if hd 0 s =? 43 then None else
      match parse_signed (firstn i s) with
      | None => None
      | Some ip =>
        if negb (in64b ip) then None else
        let fs := skipn (S i) s in
        match parse_digits fs with
        | None => None
        | Some fp =>
          if fp >? 65535 then None
          else if Nat.ltb 4 (length fs) then None
          else
            let t := fp * 10 ^ (4 - Z.of_nat (length fs)) in
            let t := if hd 0 s =? 45 then - t else t in
            new_decimal ip t
        end
      end
  end.

Lemma parse_decimal_eq s : parse_decimal s = parse_decimal' s.
Proof.
  unfold parse_decimal, parse_decimal'.
  destruct (index_of 46 s) as [i|]; [|reflexivity].
  destruct s as [|c s']; [reflexivity|].
  destruct c as [|p|p]; try reflexivity; destruct_pos.
Qed.

(* everything a successful parse tells us *)
Lemma parse_decimal_inv s z : parse_decimal s = Some z ->
  exists i ip fp,
    index_of 46 s = Some i /\ hd 0 s <> 43 /\
    parse_signed (firstn i s) = Some ip /\ in64 ip /\
    parse_digits (skipn (S i) s) = Some fp /\ fp <= 65535 /\
    (length (skipn (S i) s) <= 4)%nat /\
    new_decimal ip (let t := fp * 10 ^ (4 - Z.of_nat (length (skipn (S i) s))) in
                    if hd 0 s =? 45 then - t else t) = Some z.
Proof.
  rewrite parse_decimal_eq. unfold parse_decimal'. intros H.
  destruct (index_of 46 s) as [i|] eqn:Hi; [|discriminate].
  destruct (Z.eqb_spec (hd 0 s) 43) as [|H43]; [discriminate|].
  destruct (parse_signed (firstn i s)) as [ip|] eqn:Hps; [|discriminate].
  destruct (in64b ip) eqn:Hin; cbn [negb] in H; [|discriminate].
  cbv zeta in H.
  destruct (parse_digits (skipn (S i) s)) as [fp|] eqn:Hpd; [|discriminate].
  destruct (Z.gtb_spec fp 65535) as [|Hfp]; [discriminate|].
  destruct (Nat.ltb_spec 4 (length (skipn (S i) s))) as [|Hlen]; [discriminate|].
  exists i, ip, fp. apply in64b_spec in Hin. cbv zeta.
  split; [reflexivity|]. split; [exact H43|]. split; [exact Hps|]. split; [exact Hin|].
  split; [exact Hpd|]. split; [exact Hfp|]. split; [lia|exact H].
Qed.

Lemma frac_bound n fp : (1 <= n <= 4)%nat -> 0 <= fp < 10 ^ Z.of_nat n ->
  0 <= fp * 10 ^ (4 - Z.of_nat n) <= 9999.
Proof.
  intros Hn H.
  destruct n as [|[|[|[|[|n]]]]]; lia.
Qed.

Theorem decimal_parse_in_range : forall s z, parse_decimal s = Some z -> in64 z.
Proof.
  intros s z H.
  destruct (parse_decimal_inv s z H) as (i & ip & fp & _ & _ & _ & _ & Hpd & _ & Hlen & Hnd).
  apply parse_digits_some in Hpd. destruct Hpd as [Hne Hv].
  apply digits_val_acc_bound in Hv. destruct Hv as [_ Hb].
  rewrite Z.mul_0_l, Z.add_0_l, Z.mul_1_l in Hb.
  assert (Hl : (1 <= length (skipn (S i) s) <= 4)%nat).
  { split; [|exact Hlen]. destruct (skipn (S i) s); [congruence|cbn [length]; lia]. }
  pose proof (frac_bound _ _ Hl Hb) as Ht.
  cbv zeta in Hnd.
  eapply new_decimal_in64; [exact Hnd|].
  destruct (hd 0 s =? 45); lia.
Qed.

Lemma shape_match (ip : str) :
  ip <> [] ->
  (if hd 0 ip =? 45 then tl ip <> [] /\ all_digits (tl ip) else all_digits ip) ->
  (match ip with
   | 45 :: d => d <> [] /\ Forall (fun c => is_digit c = true) d
   | d => d <> [] /\ Forall (fun c => is_digit c = true) d
   end).
Proof.
  destruct ip as [|c r]; [congruence|]. intros _. cbn [hd tl].
  destruct c as [|p|p]; try (intros Hx; split; [discriminate|exact Hx]);
  repeat match goal with p : positive |- _ =>
    destruct p as [p|p|];
    try (intros Hx; exact Hx); try (intros Hx; split; [discriminate|exact Hx]) end.
Qed.

Theorem decimal_parse_shape : forall s z, parse_decimal s = Some z ->
   exists ip fp, s = ip ++ 46 :: fp /\ (1 <= length fp <= 4)%nat /\ Forall (fun c => is_digit c = true) fp /\
                 (match ip with 45 :: d => d <> [] /\ Forall (fun c => is_digit c = true) d
                              | d => d <> [] /\ Forall (fun c => is_digit c = true) d end).
Proof.
  intros s z H.
  destruct (parse_decimal_inv s z H) as (i & ip & fp & Hi & H43 & Hps & _ & Hpd & _ & Hlen & _).
  apply parse_digits_some in Hpd. destruct Hpd as [Hne Hv].
  apply digits_val_acc_bound in Hv. destruct Hv as [Hdig _].
  pose proof (index_of_split _ _ _ Hi) as Hs.
  exists (firstn i s), (skipn (S i) s).
  split; [exact Hs|]. split.
  { split; [|exact Hlen]. destruct (skipn (S i) s); [congruence|cbn [length]; lia]. }
  split; [exact Hdig|].
  apply (shape_match (firstn i s)).
  { intros Hf. rewrite Hf, parse_signed_nil in Hps. discriminate. }
  destruct (firstn i s) as [|c r] eqn:Hf; [rewrite parse_signed_nil in Hps; discriminate|].
  assert (Hhd : hd 0 s = c) by (rewrite Hs; reflexivity).
  rewrite Hhd in H43. cbn [hd tl].
  rewrite parse_signed_cons in Hps.
  destruct (Z.eqb_spec c 45) as [->|H45].
  - destruct (parse_digits r) as [v|] eqn:Hr; [|discriminate].
    apply parse_digits_some in Hr. destruct Hr as [Hrne Hrv].
    apply digits_val_acc_bound in Hrv. tauto.
  - destruct (Z.eqb_spec c 43) as [->|_]; [congruence|].
    apply parse_digits_some in Hps. destruct Hps as [Hcne Hcv].
    apply digits_val_acc_bound in Hcv. tauto.
Qed.

(** ** [print_decimal]: trimming of trailing zeros *)

Lemma trim_zeros_0 rs : trim_zeros 0 rs = rs.
Proof. destruct rs; reflexivity. Qed.

Lemma trim_zeros_nil n : trim_zeros n [] = [].
Proof. destruct n; reflexivity. Qed.

Lemma trim_zeros_cons n c rs :
  trim_zeros (S n) (c :: rs) = if c =? 48 then trim_zeros n rs else c :: rs.
Proof. destruct c as [|p|p]; try reflexivity; destruct_pos. Qed.

Lemma trim_zeros_spec : forall n rs, exists k, (k <= n)%nat /\ rs = repeat 48 k ++ trim_zeros n rs.
Proof.
  induction n as [|n IH]; intros rs.
  - exists 0%nat. rewrite trim_zeros_0. split; [lia|reflexivity].
  - destruct rs as [|c rs]; [exists 0%nat; split; [lia|reflexivity]|].
    rewrite trim_zeros_cons. destruct (Z.eqb_spec c 48) as [->|Hne].
    + destruct (IH rs) as [k [Hk Hrs]]. exists (S k). split; [lia|].
      cbn [repeat app]. f_equal. exact Hrs.
    + exists 0%nat. split; [lia|reflexivity].
Qed.

Lemma trim_zeros_app : forall n a b, (n < length a)%nat -> trim_zeros n (a ++ b) = trim_zeros n a ++ b.
Proof.
  induction n as [|n IH]; intros a b Hlen.
  - rewrite !trim_zeros_0. reflexivity.
  - destruct a as [|c a]; [cbn [length] in Hlen; lia|].
    cbn [app]. rewrite !trim_zeros_cons. destruct (c =? 48); [|reflexivity].
    apply IH. cbn [length] in Hlen. lia.
Qed.

(* the printed string is  pre ++ "." ++ F  where F is the 4-digit fraction minus k <= 3 trailing zeros *)
Lemma print_trim_shape pre P : length P = 4%nat ->
  exists F k, P = F ++ repeat 48 k /\ F <> [] /\
              rev (trim_zeros 3 (rev (pre ++ 46 :: P))) = pre ++ 46 :: F.
Proof.
  intros HP.
  destruct (trim_zeros_spec 3 (rev P)) as [k [Hk Hr]].
  exists (rev (trim_zeros 3 (rev P))), k.
  assert (HPeq : P = rev (trim_zeros 3 (rev P)) ++ repeat 48 k).
  { rewrite <- (rev_involutive P) at 1. rewrite Hr at 1.
    rewrite rev_app_distr, rev_repeat. reflexivity. }
  split; [exact HPeq|]. split.
  - intros Hnil. rewrite Hnil in HPeq. cbn [app] in HPeq.
    rewrite HPeq, repeat_length in HP. lia.
  - rewrite rev_app_distr. cbn [rev]. rewrite <- app_assoc.
    rewrite trim_zeros_app by (rewrite rev_length; lia).
    rewrite rev_app_distr, rev_app_distr, rev_involutive. cbn [rev app].
    rewrite <- app_assoc. reflexivity.
Qed.

(** ** parsing a string of the printed form *)

Lemma hd_app_cons {A} (d : A) c r l : hd d ((c :: r) ++ l) = c.
Proof. reflexivity. Qed.

Lemma parse_printed (neg : bool) a d F k :
  0 <= a <= 922337203685477 -> 0 <= d < 10000 ->
  print_padded 4 d = F ++ repeat 48 k -> F <> [] ->
  parse_decimal ((if neg then 45 :: print_nat a else print_nat a) ++ 46 :: F) =
  new_decimal (if neg then - a else a) (if neg then - d else d).
Proof.
  intros Ha Hd HP HF.
  assert (Ha40 : 0 <= a < 10 ^ 40) by (rewrite pow40; change (10 ^ Z.of_nat 40) with
    10000000000000000000000000000000000000000; lia).
  destruct (print_nat_digits a Ha40) as [Hdig Hne].
  pose proof (parse_print_nat a Ha40) as Hpa.
  destruct (all_digits_hd _ Hdig Hne) as (c & r & Hcr & Hc & Hr).
  destruct (parse_print_padded 4 d ltac:(change (10 ^ Z.of_nat 4) with 10000; lia) ltac:(lia))
    as (HPlen & HPparse & HPdig).
  (* the fraction *)
  apply parse_digits_some in HPparse. destruct HPparse as [_ HPval].
  rewrite HP in HPval, HPlen. rewrite digits_val_acc_app in HPval.
  destruct (digits_val_acc F 0) as [v|] eqn:HFv; [|discriminate].
  rewrite digits_val_acc_zeros in HPval. injection HPval as Hvk.
  rewrite app_length, repeat_length in HPlen.
  pose proof (digits_val_acc_bound _ _ _ HFv) as [_ Hvb].
  rewrite Z.mul_0_l in Hvb.
  assert (Hpk : 0 < 10 ^ Z.of_nat k) by (apply Z.pow_pos_nonneg; lia).
  assert (Hv : 0 <= v <= d) by nia.
  assert (Hexp : 4 - Z.of_nat (length F) = Z.of_nat k) by lia.
  set (pre := if neg then 45 :: print_nat a else print_nat a).
  assert (Hpre46 : ~ In 46 pre).
  { unfold pre. destruct neg.
    - intros [Hx|Hx]; [discriminate|]. revert Hx. apply all_digits_not_in; [exact Hdig|reflexivity].
    - apply all_digits_not_in; [exact Hdig|reflexivity]. }
  assert (Hhd : hd 0 (pre ++ 46 :: F) = if neg then 45 else c).
  { unfold pre. destruct neg; [reflexivity|]. rewrite Hcr. reflexivity. }
  assert (Hsigned : parse_signed pre = Some (if neg then - a else a)).
  { unfold pre. destruct neg.
    - rewrite parse_signed_cons. change (45 =? 45) with true. cbv iota. rewrite Hpa. reflexivity.
    - rewrite Hcr, parse_signed_cons. apply is_digit_range in Hc.
      destruct (Z.eqb_spec c 45); [lia|]. destruct (Z.eqb_spec c 43); [lia|].
      rewrite <- Hcr. exact Hpa. }
  rewrite parse_decimal_eq. unfold parse_decimal'.
  rewrite index_of_app by exact Hpre46.
  rewrite Hhd, firstn_app_exact, skipn_app_exact, Hsigned.
  assert (H43 : ((if neg then 45 else c) =? 43) = false).
  { destruct neg; [reflexivity|]. apply is_digit_range in Hc. apply Z.eqb_neq. lia. }
  rewrite H43.
  assert (Hin : in64b (if neg then - a else a) = true).
  { apply in64b_spec. unfold in64, min64, max64, two63. destruct neg; lia. }
  rewrite Hin. cbn [negb]. cbv zeta.
  rewrite (parse_digits_nonempty F HF), HFv.
  destruct (Z.gtb_spec v 65535) as [Hbig|_]; [lia|].
  destruct (Nat.ltb_spec 4 (length F)) as [Hlong|_]; [lia|].
  rewrite Hexp, Hvk. f_equal.
  destruct neg; [reflexivity|].
  apply is_digit_range in Hc. destruct (Z.eqb_spec c 45); [lia|reflexivity].
Qed.

Theorem decimal_roundtrip : forall z, in64 z -> parse_decimal (print_decimal z) = Some z.
Proof.
  intros z Hz. unfold in64, min64, max64, two63 in Hz.
  unfold print_decimal. cbv zeta.
  destruct (Z.ltb_spec z 0) as [Hneg|Hpos].
  - (* negative *)
    set (m := - z).
    assert (Hq : Z.quot z 10000 = - (m / 10000)).
    { replace z with (- m) by (unfold m; lia).
      rewrite Z.quot_opp_l by lia. rewrite Z.quot_div_nonneg by (unfold m; lia). reflexivity. }
    rewrite Hq.
    pose proof (Z.div_mod m 10000 ltac:(lia)) as Hdm.
    pose proof (Z.mod_pos_bound m 10000 ltac:(lia)) as Hmb.
    replace (- - (m / 10000)) with (m / 10000) by lia.
    replace (- (m / 10000) * 10000 - z) with (m mod 10000) by (unfold m in *; lia).
    set (a := m / 10000) in *. set (d := m mod 10000) in *.
    change (45 :: print_nat a ++ 46 :: print_padded 4 d)
      with ((45 :: print_nat a) ++ 46 :: print_padded 4 d).
    destruct (parse_print_padded 4 d ltac:(change (10 ^ Z.of_nat 4) with 10000; lia) ltac:(lia))
      as (HPlen & _).
    destruct (print_trim_shape (45 :: print_nat a) _ HPlen) as (F & k & HP & HF & ->).
    rewrite (parse_printed true a d F k); [|unfold m in *; lia|lia|exact HP|exact HF].
    apply new_decimal_spec. unfold nd_ok. unfold m in *. lia.
  - pose proof (Z.div_mod z 10000 ltac:(lia)) as Hdm.
    pose proof (Z.mod_pos_bound z 10000 ltac:(lia)) as Hmb.
    set (a := z / 10000) in *. set (d := z mod 10000) in *.
    destruct (parse_print_padded 4 d ltac:(change (10 ^ Z.of_nat 4) with 10000; lia) ltac:(lia))
      as (HPlen & _).
    destruct (print_trim_shape (print_nat a) _ HPlen) as (F & k & HP & HF & ->).
    rewrite (parse_printed false a d F k); [|lia|lia|exact HP|exact HF].
    apply new_decimal_spec. unfold nd_ok. lia.
Qed.

(** ** [new_decimal_exp]: the repaired constructor NewDecimal(i, exponent) *)

Lemma quot_rem_facts i p : 0 < p ->
  i = p * Z.quot i p + Z.rem i p /\
  (0 <= i -> 0 <= Z.rem i p < p /\ 0 <= Z.quot i p) /\
  (i <= 0 -> - p < Z.rem i p <= 0 /\ Z.quot i p <= 0).
Proof.
  intros Hp. pose proof (Z.quot_rem' i p) as Hqr. split; [exact Hqr|]. split; intros Hi.
  - pose proof (Z.rem_bound_pos_pos i p Hp Hi) as Hr. split; [exact Hr|]. apply Z.quot_pos; lia.
  - pose proof (Z.rem_bound_pos_neg i p Hp Hi) as Hr. split; [exact Hr|].
    set (q := Z.quot i p) in *. set (r := Z.rem i p) in *. nia.
Qed.

(* the e <= 0 branch, with p = 10^(-e), m = 10^(4+e) *)
Lemma nd_split_facts p m i : 0 < p -> 0 < m -> p * m = 10000 ->
  let q := Z.quot i p in let t := Z.rem i p * m in
  i * m = q * 10000 + t /\ -9999 <= t <= 9999 /\
  (0 <= i -> 0 <= q /\ 0 <= t) /\ (i <= 0 -> q <= 0 /\ t <= 0).
Proof.
  intros Hp Hm Hpm. cbv zeta.
  destruct (quot_rem_facts i p Hp) as (Hqr & Hpos & Hneg).
  set (q := Z.quot i p) in *. set (r := Z.rem i p) in *.
  assert (Hr : - (p - 1) <= r <= p - 1) by (destruct (Z.le_ge_cases 0 i) as [Hs|Hs]; [apply Hpos in Hs|apply Hneg in Hs]; lia).
  assert (H1 : r * m <= (p - 1) * m) by (apply Z.mul_le_mono_nonneg_r; lia).
  assert (H2 : - (p - 1) * m <= r * m) by (apply Z.mul_le_mono_nonneg_r; lia).
  split; [rewrite Hqr at 1; rewrite <- Hpm; ring|].
  split; [lia|]. split; intros Hi.
  - apply Hpos in Hi. split; [lia|]. apply Z.mul_nonneg_nonneg; lia.
  - apply Hneg in Hi. split; [lia|]. apply Z.mul_nonpos_nonneg; lia.
Qed.

Lemma pow_split_neg e : -4 <= e <= 0 ->
  0 < 10 ^ (- e) /\ 0 < 10 ^ (4 + e) /\ 10 ^ (- e) * 10 ^ (4 + e) = 10000.
Proof.
  intros He. split; [apply Z.pow_pos_nonneg; lia|]. split; [apply Z.pow_pos_nonneg; lia|].
  rewrite <- Z.pow_add_r by lia. replace (- e + (4 + e)) with 4 by lia. reflexivity.
Qed.

Lemma pow_split_pos e : 0 <= e -> 0 < 10 ^ e /\ 10 ^ (e + 4) = 10 ^ e * 10000.
Proof.
  intros He. split; [apply Z.pow_pos_nonneg; lia|]. rewrite Z.pow_add_r by lia. reflexivity.
Qed.

Lemma new_decimal_exp_range i e z : new_decimal_exp i e = Some z -> -4 <= e <= 14.
Proof.
  unfold new_decimal_exp. destruct (Z.ltb_spec e (-4)); destruct (Z.gtb_spec e 14); cbn [orb];
    try discriminate. lia.
Qed.

Lemma new_decimal_exp_unfold i e : -4 <= e <= 14 ->
  new_decimal_exp i e =
  if e <=? 0 then new_decimal (Z.quot i (10 ^ (- e))) (Z.rem i (10 ^ (- e)) * 10 ^ (4 + e))
  else if (i >? 0) && (i >? Z.quot max64 (10 ^ e)) then None
  else if (i <? 0) && (i <? Z.quot min64 (10 ^ e)) then None
  else new_decimal (i * 10 ^ e) 0.
Proof.
  intros He. unfold new_decimal_exp.
  destruct (Z.ltb_spec e (-4)); [lia|]. destruct (Z.gtb_spec e 14); [lia|]. reflexivity.
Qed.

Theorem new_decimal_exact : forall i e z, in64 i -> new_decimal_exp i e = Some z ->
   -4 <= e <= 14 /\ z = i * 10 ^ (e + 4) /\ in64 z.
Proof.
  intros i e z Hi H.
  pose proof (new_decimal_exp_range _ _ _ H) as He. split; [exact He|].
  rewrite new_decimal_exp_unfold in H by exact He.
  destruct (Z.leb_spec e 0) as [Hle|Hgt].
  - destruct (pow_split_neg e ltac:(lia)) as (Hp & Hm & Hpm).
    destruct (nd_split_facts _ _ i Hp Hm Hpm) as (Heq & Ht & _).
    apply new_decimal_in64 in H; [|exact Ht]. destruct H as [Hz Hin].
    split; [|exact Hin]. rewrite (Z.add_comm e 4), Heq. exact Hz.
  - destruct ((i >? 0) && (i >? Z.quot max64 (10 ^ e))); [discriminate|].
    destruct ((i <? 0) && (i <? Z.quot min64 (10 ^ e))); [discriminate|].
    apply new_decimal_in64 in H; [|lia]. destruct H as [Hz Hin].
    split; [|exact Hin]. destruct (pow_split_pos e ltac:(lia)) as [_ ->]. lia.
Qed.

Theorem new_decimal_complete : forall i e, in64 i -> -4 <= e <= 14 -> in64 (i * 10 ^ (e + 4)) ->
   new_decimal_exp i e = Some (i * 10 ^ (e + 4)).
Proof.
  intros i e Hi He Hin.
  rewrite new_decimal_exp_unfold by exact He.
  unfold in64, min64, max64, two63 in Hin, Hi.
  destruct (Z.leb_spec e 0) as [Hle|Hgt].
  - destruct (pow_split_neg e ltac:(lia)) as (Hp & Hm & Hpm).
    destruct (nd_split_facts _ _ i Hp Hm Hpm) as (Heq & Ht & Hpos & Hneg).
    rewrite (Z.add_comm e 4) in *. rewrite Heq in *.
    set (q := Z.quot i (10 ^ (- e))) in *. set (t := Z.rem i (10 ^ (- e)) * 10 ^ (4 + e)) in *.
    apply new_decimal_spec. split; [|reflexivity]. unfold nd_ok.
    destruct (Z.le_ge_cases 0 i) as [H0|H0]; [apply Hpos in H0|apply Hneg in H0]; lia.
  - destruct (pow_split_pos e ltac:(lia)) as [Hs Hpw]. rewrite Hpw in *.
    set (sc := 10 ^ e) in *.
    assert (Hx : -922337203685477 <= i * sc <= 922337203685477) by lia.
    destruct (Z.gtb_spec i 0) as [Hi0|Hi0]; cbn [andb].
    + destruct (Z.gtb_spec i (Z.quot max64 sc)) as [Hbig|_].
      * exfalso. destruct (quot_rem_facts max64 sc Hs) as (Hqr & Hpos & _).
        specialize (Hpos ltac:(unfold max64, two63; lia)).
        set (qm := Z.quot max64 sc) in *. set (rm := Z.rem max64 sc) in *.
        assert ((qm + 1) * sc <= i * sc) by (apply Z.mul_le_mono_nonneg_r; lia).
        unfold max64, two63 in Hqr. lia.
      * destruct (Z.ltb_spec i 0) as [?|_]; [lia|]. cbn [andb].
        apply new_decimal_spec. split; [unfold nd_ok; lia|lia].
    + destruct (Z.ltb_spec i 0) as [Hi1|Hi1]; cbn [andb].
      * destruct (Z.ltb_spec i (Z.quot min64 sc)) as [Hsmall|_].
        -- exfalso. destruct (quot_rem_facts min64 sc Hs) as (Hqr & _ & Hneg).
           specialize (Hneg ltac:(unfold min64, two63; lia)).
           set (qm := Z.quot min64 sc) in *. set (rm := Z.rem min64 sc) in *.
           assert (i * sc <= (qm - 1) * sc) by (apply Z.mul_le_mono_nonneg_r; lia).
           unfold min64, two63 in Hqr. lia.
        -- apply new_decimal_spec. split; [unfold nd_ok; lia|lia].
      * apply new_decimal_spec. split; [unfold nd_ok; lia|lia].
Qed.

(** ** Examples *)

Example ex_print_neg_half : print_decimal (-5000) = s_of "-0.5"%string.
Proof. vm_compute. reflexivity. Qed.
Example ex_parse_min : parse_decimal (s_of "-922337203685477.5808"%string) = Some min64.
Proof. vm_compute. reflexivity. Qed.
Example ex_parse_plus : parse_decimal (s_of "+1.5"%string) = None.
Proof. vm_compute. reflexivity. Qed.
Example ex_parse_5_digits : parse_decimal (s_of "1.23456"%string) = None.
Proof. vm_compute. reflexivity. Qed.
Example ex_parse_no_int : parse_decimal (s_of ".5"%string) = None.
Proof. vm_compute. reflexivity. Qed.
Example ex_parse_neg_zero : parse_decimal (s_of "-0.0"%string) = Some 0.
Proof. vm_compute. reflexivity. Qed.
Example ex_print_max : print_decimal max64 = s_of "922337203685477.5807"%string.
Proof. vm_compute. reflexivity. Qed.
Example ex_new_decimal_exp_1 : new_decimal_exp 12345 (-2) = Some 1234500.
Proof. vm_compute. reflexivity. Qed.
Example ex_new_decimal_exp_2 : new_decimal_exp (-15) (-4) = Some (-15).
Proof. vm_compute. reflexivity. Qed.
Example ex_new_decimal_exp_3 : new_decimal_exp 922337203685478 0 = None.
Proof. vm_compute. reflexivity. Qed.
Example ex_new_decimal_exp_4 : new_decimal_exp 9 14 = Some 9000000000000000000.
Proof. vm_compute. reflexivity. Qed.
Example ex_new_decimal_exp_5 : new_decimal_exp 10 14 = None.
Proof. vm_compute. reflexivity. Qed.

Print Assumptions decimal_roundtrip.
Print Assumptions decimal_parse_in_range.
Print Assumptions decimal_parse_shape.
Print Assumptions new_decimal_exact.
Print Assumptions new_decimal_complete.
