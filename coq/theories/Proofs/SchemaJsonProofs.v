(* Proofs about Impl/SchemaJson.v: the schema JSON codec.
   Part 1: dec_schema (enc_schema s) = DOk (norm_schema s) for well-formed schema ASTs; norm_schema is idempotent and the
           second rendering is the same tree as the first.
   Part 2: dec_schema never runs out of fuel.
   Part 3: resolution (Impl/SchemaResolve.v) gives the same verdict on erase s and erase (norm_schema s), and the same resolved
           schema up to the order of entity parent lists. *)
From Coq Require Import ZArith List Bool Lia Arith String Permutation.
Import ListNotations.
From Cedar Require Import Base.Json Lang.Value Impl.PolicyJson Impl.SchemaResolve.
From Cedar Require Import Proofs.ValueProofs Proofs.ValueJsonProofs Proofs.PolicyJsonProofs Proofs.SchemaResolveProofs.
From Cedar Require Import Impl.SchemaJson.
Local Open Scope Z_scope.

(* ------------------------------------------------------------------------------------------ *)
(* Generic helpers                                                                             *)
(* ------------------------------------------------------------------------------------------ *)

Lemma sj_mapv_cons {A B} (g : A -> B) kv l : mapv g (kv :: l) = (fst kv, g (snd kv)) :: mapv g l.
Proof. reflexivity. Qed.

Lemma sj_mapv_keys {A B} (g : A -> B) l : map fst (mapv g l) = map fst l.
Proof. exact (mapv_keys g l). Qed.

Lemma sj_mapv_mapv {A B C} (g : A -> B) (h : B -> C) l : mapv h (mapv g l) = mapv (fun x => h (g x)) l.
Proof. exact (mapv_mapv g h l). Qed.

Lemma sj_rec_of_list_mapv {A B} (g : A -> B) l : rec_of_list (mapv g l) = mapv g (rec_of_list l).
Proof. exact (rec_of_list_mapv g l). Qed.

Lemma sj_mapv_ext_in {A B} (g h : A -> B) l : (forall kv, In kv l -> g (snd kv) = h (snd kv)) -> mapv g l = mapv h l.
Proof.
  intros H. unfold mapv. apply map_ext_in. intros kv Hkv. rewrite (H kv Hkv). reflexivity.
Qed.

Lemma sj_mapv_id {A} (l : list (str * A)) : mapv (fun x => x) l = l.
Proof. unfold mapv. induction l as [|[key x] l IH]; [reflexivity|]. cbn [map fst snd]. rewrite IH. reflexivity. Qed.

Lemma sj_sorted_mapv {A B} (g : A -> B) l : keys_sorted (mapv g l) = keys_sorted l.
Proof. apply vj_keys_sorted_ext. apply sj_mapv_keys. Qed.

Lemma sj_sorted_tail {A} (kv : str * A) l : keys_sorted (kv :: l) = true -> keys_sorted l = true.
Proof. destruct kv as [key v]. intros H. apply keys_sorted_cons in H. tauto. Qed.

Lemma sj_sorted_filter {A} (p : str * A -> bool) l : keys_sorted l = true -> keys_sorted (filter p l) = true.
Proof.
  induction l as [|[key v] l IH]; intros Hs; [reflexivity|].
  pose proof (vj_sorted_all_lt _ _ _ Hs) as HF. rewrite Forall_forall in HF.
  pose proof (sj_sorted_tail _ _ Hs) as Hs'. specialize (IH Hs').
  cbn [filter]. destruct (p (key, v)); [|exact IH].
  apply keys_sorted_cons. split; [|exact IH].
  destruct (filter p l) as [|[k2 v2] r] eqn:E; cbn [lb]; [exact I|].
  apply (HF (k2, v2)). apply (proj1 (filter_In p (k2, v2) l)). rewrite E. left. reflexivity.
Qed.

Lemma sj_rec_id {A} (l : list (str * A)) : keys_sorted l = true -> rec_of_list l = l.
Proof. apply vj_rec_of_list_sorted_id. Qed.

(* ---- dres ---- *)
Lemma dbind_nofuel {A B} (x : dres A) (g : A -> dres B) : x <> DFuel -> (forall a, g a <> DFuel) -> dbind x g <> DFuel.
Proof. intros Hx Hg. destruct x; cbn [dbind]; auto; congruence. Qed.

Lemma dall_nofuel {A} (l : list (dres A)) : Forall (fun x => x <> DFuel) l -> dall l <> DFuel.
Proof.
  intros HF. induction HF as [|x l Hx _ IH]; cbn [dall]; [congruence|].
  apply dbind_nofuel; [exact Hx|]. intros a. apply dbind_nofuel; [exact IH|]. intros; congruence.
Qed.

Lemma dall_map_nofuel {A B} (F : A -> dres B) l : (forall x, In x l -> F x <> DFuel) -> dall (map F l) <> DFuel.
Proof. intros H. apply dall_nofuel. apply Forall_forall. intros y Hy. apply in_map_iff in Hy. destruct Hy as (x & <- & Hx). auto. Qed.

(* decoding a map-typed object member by member *)
Lemma dall_mapv_ok {A B} (enc : A -> json) (dec : json -> dres B) (g : A -> B) (l : list (str * A)) :
  (forall kv, In kv l -> dec (enc (snd kv)) = DOk (g (snd kv))) ->
  dall (map (fun kv : str * json => dbind (dec (snd kv)) (fun a => DOk (fst kv, a))) (mapv enc l)) = DOk (mapv g l).
Proof.
  induction l as [|kv l IH]; intros H; [reflexivity|].
  rewrite !sj_mapv_cons. cbn [map dall fst snd]. rewrite (H kv (or_introl eq_refl)). cbn [dbind].
  rewrite IH by (intros kv' Hkv'; apply H; right; exact Hkv'). reflexivity.
Qed.

(* ---- jget ---- *)
Lemma jget_depth key l v : jget key l = Some v -> (jdepth v < jdepth (JObj l))%nat.
Proof.
  intros H. assert (Hin : exists key', In (key', v) l).
  { induction l as [|[k' x] l IH]; [discriminate|]. cbn [jget] in H.
    destruct (jget key l) as [y|] eqn:E.
    - injection H as ->. destruct (IH eq_refl) as (k2 & Hk2). exists k2. right. exact Hk2.
    - destruct (str_eqb k' key); [|discriminate]. injection H as ->. exists k'. left. reflexivity. }
  destruct Hin as (key' & Hin). exact (jdepth_obj_in _ _ Hin).
Qed.

Lemma field_depth key l v : field key l = Some v -> (jdepth v < jdepth (JObj l))%nat.
Proof.
  unfold field. intros H. destruct (jget (k key) l) as [x|] eqn:E; [|discriminate].
  assert (x = v) by (destruct x; congruence). subst x. exact (jget_depth _ _ _ E).
Qed.

(* ---- struct-typed objects: a fixed list of field names, each member present or not ---- *)
Definition sobj (fs : list (string * option json)) : list (str * json) :=
  flat_map (fun p : string * option json => match snd p with Some v => [(k (fst p), v)] | None => [] end) fs.

Lemma existsb_flat_map {A B} (p : B -> bool) (g : A -> list B) l : existsb p (flat_map g l) = existsb (fun x => existsb p (g x)) l.
Proof. induction l as [|x l IH]; [reflexivity|]. cbn [flat_map existsb]. rewrite existsb_app, IH. reflexivity. Qed.

Lemma sj_existsb_ext {A} (p q : A -> bool) l : (forall x, p x = q x) -> existsb p l = existsb q l.
Proof. intros H. induction l as [|x l IH]; [reflexivity|]. cbn [existsb]. rewrite H, IH. reflexivity. Qed.

Lemma jdups_sobj fs :
  jdups (JObj (sobj fs)) = has_dups (sobj fs) || existsb (fun p : string * option json => match snd p with Some v => jdups v | None => false end) fs.
Proof.
  rewrite jdups_obj. f_equal. unfold sobj. rewrite existsb_flat_map. apply sj_existsb_ext.
  intros [n [v|]]; cbn [snd existsb]; [apply orb_false_r | reflexivity].
Qed.

(* ------------------------------------------------------------------------------------------ *)
(* Induction principles for the nested types                                                   *)
(* ------------------------------------------------------------------------------------------ *)
Definition optP (P : rawty -> Prop) (o : option rawty) : Prop := match o with Some e => P e | None => True end.
Section RawInd.
  Variable P : rawty -> Prop.
  Hypothesis HRaw : forall ty el attrs name,
      optP P el ->
      Forall (fun kv : str * (rawty * option bool * annots) => P (fst (fst (snd kv)))) attrs ->
      P (RawTy ty el attrs name).
  Fixpoint rawty_ind' (r : rawty) : P r :=
    match r with
    | RawTy ty el attrs name =>
        HRaw ty el attrs name
             (match el as o return optP P o with Some e => rawty_ind' e | None => I end)
             ((fix go (l : list (str * (rawty * option bool * annots))) : Forall (fun kv => P (fst (fst (snd kv)))) l :=
                 match l with [] => Forall_nil _ | x :: l' => Forall_cons _ (rawty_ind' (fst (fst (snd x)))) (go l') end) attrs)
    end.
End RawInd.

Section XtyInd.
  Variable P : xty -> Prop.
  Hypothesis HString : P XString.
  Hypothesis HLong : P XLong.
  Hypothesis HBool : P XBool.
  Hypothesis HExt : forall n, P (XExt n).
  Hypothesis HSet : forall t, P t -> P (XSet t).
  Hypothesis HRec : forall fs, Forall (fun kv : str * (xty * bool * annots) => P (fst (fst (snd kv)))) fs -> P (XRec fs).
  Hypothesis HEnt : forall r, P (XEnt r).
  Hypothesis HRef : forall r, P (XRef r).
  Fixpoint xty_ind' (t : xty) : P t :=
    match t with
    | XString => HString | XLong => HLong | XBool => HBool | XExt n => HExt n
    | XSet e => HSet e (xty_ind' e)
    | XRec fs => HRec fs ((fix go (l : xrec) : Forall (fun kv => P (fst (fst (snd kv)))) l :=
                             match l with [] => Forall_nil _ | x :: l' => Forall_cons _ (xty_ind' (fst (fst (snd x)))) (go l') end) fs)
    | XEnt r => HEnt r | XRef r => HRef r
    end.
End XtyInd.

(* ------------------------------------------------------------------------------------------ *)
(* Type objects                                                                                *)
(* ------------------------------------------------------------------------------------------ *)
Local Notation rattr := (rawty * option bool * annots)%type.
Definition reqj (req : option bool) : list (str * json) := match req with Some b => [(k "required", JBool b)] | None => [] end.
Definition annots_json (an : annots) : option json :=
  if is_nil an then None else Some (JObj (mapv JStr (rec_of_list an))).
Definition attr_obj (a : rattr) : json :=
  JObj (json_members_of_raw (fst (fst a)) ++ reqj (snd (fst a)) ++ enc_annots (snd a)).

Lemma enc_annots_eq an : enc_annots an = sobj [("annotations"%string, annots_json an)].
Proof. destruct an; reflexivity. Qed.

Lemma attrs_fix (l : list (str * rattr)) :
  (fix go (l : list (str * (rawty * option bool * annots))) : list (str * json) :=
     match l with
     | [] => []
     | (key, (t, req, an)) :: rest =>
         (key, JObj (json_members_of_raw t ++ match req with Some b => [(k "required", JBool b)] | None => [] end ++ enc_annots an)) :: go rest
     end) l = mapv attr_obj l.
Proof.
  induction l as [|[key [[t req] an]] l IH]; [reflexivity|].
  rewrite sj_mapv_cons. cbn [fst snd]. rewrite <- IH. reflexivity.
Qed.

Lemma members_eq ty el attrs name :
  json_members_of_raw (RawTy ty el attrs name) =
  [(k "type", JStr ty)]
  ++ match el with Some e => [(k "element", JObj (json_members_of_raw e))] | None => [] end
  ++ match attrs with [] => [] | _ => [(k "attributes", JObj (mapv attr_obj attrs))] end
  ++ opt_member "name" (negb (is_nil name)) (JStr name).
Proof.
  destruct attrs as [|a0 attrs0]; [reflexivity|]. rewrite <- attrs_fix. reflexivity.
Qed.

Definition tmembers (vt : json) (o1 o2 o3 o4 o5 : option json) : list (str * json) :=
  sobj [("type", Some vt); ("element", o1); ("attributes", o2); ("name", o3); ("required", o4); ("annotations", o5)]%string.

Definition el_json (el : option rawty) : option json := option_map (fun e => JObj (json_members_of_raw e)) el.
Definition attrs_json (attrs : list (str * rattr)) : option json := if is_nil attrs then None else Some (JObj (mapv attr_obj attrs)).
Definition name_json (name : str) : option json := if is_nil name then None else Some (JStr name).

Lemma tobj_eq ty el attrs name req an :
  json_members_of_raw (RawTy ty el attrs name) ++ reqj req ++ enc_annots an =
  tmembers (JStr ty) (el_json el) (attrs_json attrs) (name_json name) (option_map JBool req) (annots_json an).
Proof.
  rewrite members_eq, enc_annots_eq. unfold tmembers, el_json, attrs_json, name_json.
  destruct el, attrs, name, req; cbn [is_nil negb opt_member option_map]; destruct (annots_json an); reflexivity.
Qed.

Lemma tobj_nil r : json_members_of_raw r = json_members_of_raw r ++ reqj None ++ enc_annots [].
Proof. cbn. rewrite app_nil_r. reflexivity. Qed.

Ltac dopts := repeat match goal with o : option json |- _ => destruct o end.

Lemma tm_get_type vt o1 o2 o3 o4 o5 : jget (k "type") (tmembers vt o1 o2 o3 o4 o5) = Some vt.
Proof. dopts; reflexivity. Qed.
Lemma tm_get_element vt o1 o2 o3 o4 o5 : jget (k "element") (tmembers vt o1 o2 o3 o4 o5) = o1.
Proof. dopts; reflexivity. Qed.
Lemma tm_get_attributes vt o1 o2 o3 o4 o5 : jget (k "attributes") (tmembers vt o1 o2 o3 o4 o5) = o2.
Proof. dopts; reflexivity. Qed.
Lemma tm_get_name vt o1 o2 o3 o4 o5 : jget (k "name") (tmembers vt o1 o2 o3 o4 o5) = o3.
Proof. dopts; reflexivity. Qed.
Lemma tm_get_required vt o1 o2 o3 o4 o5 : jget (k "required") (tmembers vt o1 o2 o3 o4 o5) = o4.
Proof. dopts; reflexivity. Qed.
Lemma tm_get_annotations vt o1 o2 o3 o4 o5 : jget (k "annotations") (tmembers vt o1 o2 o3 o4 o5) = o5.
Proof. dopts; reflexivity. Qed.
Lemma tm_struct_ok mode vt o1 o2 o3 o4 o5 : struct_ok (mode_fields mode) (tmembers vt o1 o2 o3 o4 o5) = true.
Proof. destruct mode; dopts; reflexivity. Qed.
Lemma tm_has_dups vt o1 o2 o3 o4 o5 : has_dups (tmembers vt o1 o2 o3 o4 o5) = false.
Proof. dopts; reflexivity. Qed.

(* ---- one step of raw_of_json, with the inner loop as a map ---- *)
Lemma dbind_ext {A B} (x : dres A) (g h : A -> dres B) : (forall a, g a = h a) -> dbind x g = dbind x h.
Proof. intros H. destruct x; cbn [dbind]; auto. Qed.

Definition dec_kv {A} (dec : json -> dres A) (kv : str * json) : dres (str * A) := dbind (dec (snd kv)) (fun a => DOk (fst kv, a)).

Definition dec_attrs (f : nat) (o : option json) : dres (list (str * rattr)) :=
  match o with
  | None => DOk []
  | Some (JObj am) => dbind (dall (map (dec_kv (raw_of_json f MAttr)) am)) (fun kvs => DOk (rec_of_list kvs))
  | Some _ => DErr
  end.
Definition dec_el (f : nat) (o : option json) : dres (option rawty) :=
  match o with None => DOk None | Some e => dbind (raw_of_json f MType e) (fun r => DOk (Some (fst (fst r)))) end.
Definition dec_req (o : option json) : dres (option bool) :=
  match o with None => DOk None | Some (JBool b) => DOk (Some b) | Some _ => DErr end.

Lemma raw_attrs_fix f (am : list (str * json)) :
  (fix go (l : list (str * json)) : list (dres (str * (rawty * option bool * annots))) :=
     match l with [] => [] | (key, x) :: r => dbind (raw_of_json f MAttr x) (fun a => DOk (key, a)) :: go r end) am
  = map (dec_kv (raw_of_json f MAttr)) am.
Proof. induction am as [|[key x] am IH]; [reflexivity|]. cbn [map]. rewrite <- IH. reflexivity. Qed.

Lemma raw_of_json_obj f mode m :
  raw_of_json (S f) mode (JObj m) =
  if negb (struct_ok (mode_fields mode) m) then DUnk else
  dbind (sfield "type" m) (fun ty =>
  dbind (sfield "name" m) (fun name =>
  dbind (dec_el f (field "element" m)) (fun el =>
  dbind (dec_attrs f (field "attributes" m)) (fun attrs =>
  match mode with
  | MType => DOk (RawTy ty el attrs name, None, [])
  | MAttr => dbind (dec_req (field "required" m)) (fun req =>
             dbind (dec_annots_map (jget (k "annotations") m)) (fun an => DOk (RawTy ty el attrs name, req, an)))
  | MCommon => dbind (dec_annots_map (jget (k "annotations") m)) (fun an => DOk (RawTy ty el attrs name, None, an))
  end)))).
Proof.
  cbn [raw_of_json]. destruct (negb (struct_ok (mode_fields mode) m)); [reflexivity|].
  apply dbind_ext; intros ty. apply dbind_ext; intros name. apply dbind_ext; intros el.
  f_equal. unfold dec_attrs. destruct (field "attributes" m) as [[| | | | | |am]|]; try reflexivity.
  rewrite raw_attrs_fix. reflexivity.
Qed.

(* ---- annotations ---- *)
Lemma dec_annots_enc an : dec_annots_map (annots_json an) = DOk (rec_of_list an).
Proof.
  unfold annots_json. destruct an as [|a an]; [reflexivity|]. cbn [is_nil dec_annots_map].
  assert (H : forall l : list (str * str), dall (map (fun kv : str * json => match snd kv with JStr v => DOk (fst kv, v) | JNull => DOk (fst kv, []) | _ => DErr end) (mapv JStr l)) = DOk l).
  { induction l as [|[key v] l IH]; [reflexivity|]. rewrite sj_mapv_cons. cbn [map dall fst snd dbind]. rewrite IH. reflexivity. }
  rewrite H. cbn [dbind]. rewrite rec_of_list_idem. reflexivity.
Qed.

Lemma dec_annots_sorted an : keys_sorted an = true -> dec_annots_map (annots_json an) = DOk an.
Proof. intros H. rewrite dec_annots_enc, sj_rec_id by exact H. reflexivity. Qed.

Lemma jdups_annots_json an : match annots_json an with Some v => jdups v | None => false end = false.
Proof.
  unfold annots_json. destruct (is_nil an); [reflexivity|]. rewrite jdups_obj.
  rewrite has_dups_sorted by (rewrite sj_sorted_mapv; apply rec_of_list_sorted_gen).
  cbn [orb]. apply existsb_false_Forall. apply Forall_forall. intros kv Hkv.
  unfold mapv in Hkv. apply in_map_iff in Hkv. destruct Hkv as (x & <- & _). reflexivity.
Qed.

(* ---- well-formed raw types: what raw_of_type produces ---- *)
Fixpoint wf_raw (r : rawty) : bool :=
  match r with
  | RawTy ty el attrs name =>
      match el with Some e => wf_raw e | None => true end
      && keys_sorted attrs
      && (fix go (l : list (str * (rawty * option bool * annots))) : bool :=
            match l with [] => true | x :: rest => wf_raw (fst (fst (snd x))) && keys_sorted (snd (snd x)) && go rest end) attrs
  end.

Definition wf_rattr (a : rattr) : bool := wf_raw (fst (fst a)) && keys_sorted (snd a).

Lemma wf_raw_eq ty el attrs name :
  wf_raw (RawTy ty el attrs name) =
  match el with Some e => wf_raw e | None => true end && keys_sorted attrs && forallb (fun kv => wf_rattr (snd kv)) attrs.
Proof.
  reflexivity.
Qed.

Definition mode_ok (mode : rmode) (req : option bool) (an : annots) : Prop :=
  match mode with MType => req = None /\ an = [] | MAttr => True | MCommon => req = None end.

Lemma lt3 (a b c f : nat) : (a < b -> b < c -> c < S f -> a < f)%nat.
Proof. lia. Qed.

Lemma raw_rt : forall r, wf_raw r = true -> forall mode req an f, mode_ok mode req an -> keys_sorted an = true ->
  (jdepth (JObj (json_members_of_raw r ++ reqj req ++ enc_annots an)) < f)%nat ->
  raw_of_json f mode (JObj (json_members_of_raw r ++ reqj req ++ enc_annots an)) = DOk (r, req, an).
Proof.
  induction r as [ty el attrs name IHel IHattrs] using rawty_ind'.
  intros Hwf mode req an f Hmode Han Hf.
  rewrite wf_raw_eq in Hwf. apply andb_true_iff in Hwf. destruct Hwf as [Hwf Hwa]. apply andb_true_iff in Hwf. destruct Hwf as [Hwe Hws].
  destruct f as [|f]; [lia|].
  rewrite tobj_eq in *. set (m := tmembers _ _ _ _ _ _) in *.
  rewrite raw_of_json_obj. unfold m at 1. rewrite tm_struct_ok. cbn [negb].
  assert (Hty : sfield "type" m = DOk ty). { unfold sfield, m. rewrite tm_get_type. reflexivity. }
  assert (Hname : sfield "name" m = DOk name). { unfold sfield, m. rewrite tm_get_name. destruct name; reflexivity. }
  assert (Hfe : field "element" m = el_json el). { unfold field, m. rewrite tm_get_element. destruct el; reflexivity. }
  assert (Hfa : field "attributes" m = attrs_json attrs). { unfold field, m. rewrite tm_get_attributes. destruct attrs; reflexivity. }
  assert (Hfr : field "required" m = option_map JBool req). { unfold field, m. rewrite tm_get_required. destruct req; reflexivity. }
  assert (Hga : jget (k "annotations") m = annots_json an). { unfold m. apply tm_get_annotations. }
  rewrite Hty, Hname. cbn [dbind].
  (* element *)
  assert (Hel : dec_el f (field "element" m) = DOk el).
  { pose proof (field_depth "element" m) as Hd. rewrite Hfe in Hd |- *. destruct el as [e|]; [|reflexivity]. cbn [el_json option_map dec_el] in Hd |- *.
    specialize (Hd _ eq_refl). cbn [optP] in IHel. rewrite (tobj_nil e) in Hd |- *.
    rewrite (IHel Hwe MType None []); [reflexivity | split; reflexivity | reflexivity | lia]. }
  rewrite Hel. cbn [dbind].
  (* attributes *)
  assert (Hat : dec_attrs f (field "attributes" m) = DOk attrs).
  { pose proof (field_depth "attributes" m) as Hd. rewrite Hfa in Hd |- *.
    destruct attrs as [|a0 attrs0] eqn:Ea; [reflexivity|]. rewrite <- Ea in *.
    assert (En : attrs_json attrs = Some (JObj (mapv attr_obj attrs))) by (rewrite Ea; reflexivity).
    rewrite En in Hd |- *. specialize (Hd _ eq_refl). cbn [dec_attrs].
    assert (Hall : dall (map (dec_kv (raw_of_json f MAttr)) (mapv attr_obj attrs)) = DOk (mapv (fun x => x) attrs)).
    { apply dall_mapv_ok. intros kv Hkv.
      rewrite Forall_forall in IHattrs. specialize (IHattrs kv Hkv).
      rewrite forallb_forall in Hwa. specialize (Hwa kv Hkv). unfold wf_rattr in Hwa. apply andb_true_iff in Hwa. destruct Hwa as [Hw1 Hw2].
      assert (Hdk : (jdepth (attr_obj (snd kv)) < jdepth (JObj (mapv attr_obj attrs)))%nat).
      { apply (jdepth_obj_in (fst kv, attr_obj (snd kv))). unfold mapv. apply in_map_iff. exists kv. split; [reflexivity|exact Hkv]. }
      destruct kv as [key [[t rq] a]]. unfold attr_obj in Hdk |- *. cbn [fst snd] in IHattrs, Hw1, Hw2, Hdk |- *.
      rewrite (IHattrs Hw1 MAttr rq a); [reflexivity|exact I|exact Hw2|exact (lt3 _ _ _ _ Hdk Hd Hf)]. }
    unfold dec_kv in Hall |- *. rewrite Hall. cbn [dbind]. rewrite sj_mapv_id, sj_rec_id by exact Hws. reflexivity. }
  rewrite Hat. cbn [dbind].
  destruct mode; cbn [mode_ok] in Hmode.
  - destruct Hmode as [-> ->]. reflexivity.
  - rewrite Hfr, Hga, dec_annots_sorted by exact Han. destruct req; reflexivity.
  - subst req. rewrite Hga, dec_annots_sorted by exact Han. reflexivity.
Qed.

(* ------------------------------------------------------------------------------------------ *)
(* Well-formed types; raw_of_type / type_of_raw                                                *)
(* ------------------------------------------------------------------------------------------ *)
Local Notation xattr := (xty * bool * annots)%type.

Fixpoint wf_ty (t : xty) : bool :=
  match t with
  | XSet e => wf_ty e
  | XRec fs => keys_sorted fs
               && (fix go (l : xrec) : bool :=
                     match l with [] => true | x :: rest => wf_ty (fst (fst (snd x))) && keys_sorted (snd (snd x)) && go rest end) fs
  | _ => true
  end.
Definition wf_xattr (a : xattr) : bool := wf_ty (fst (fst a)) && keys_sorted (snd a).

Lemma wf_ty_rec fs : wf_ty (XRec fs) = keys_sorted fs && forallb (fun kv : str * xattr => wf_xattr (snd kv)) fs.
Proof. reflexivity. Qed.

Definition raw_attr (a : xattr) : rattr :=
  (raw_of_type (fst (fst a)), if snd (fst a) then Some false else None, rec_of_list (snd a)).

Lemma raw_of_type_rec fs : raw_of_type (XRec fs) = RawTy (k "Record") None (rec_of_list (mapv raw_attr fs)) [].
Proof.
  cbn [raw_of_type]. f_equal. f_equal.
  induction fs as [|[key [[t opt] an]] fs IH]; [reflexivity|]. rewrite sj_mapv_cons. cbn [fst snd]. rewrite <- IH. reflexivity.
Qed.

Lemma raw_of_type_rec_wf fs : keys_sorted fs = true -> raw_of_type (XRec fs) = RawTy (k "Record") None (mapv raw_attr fs) [].
Proof. intros H. rewrite raw_of_type_rec, sj_rec_id; [reflexivity|]. rewrite sj_sorted_mapv. exact H. Qed.

Lemma wf_raw_of_type : forall t, wf_ty t = true -> wf_raw (raw_of_type t) = true.
Proof.
  induction t as [| | |n|t IH|fs IH|r|r] using xty_ind'; intros Hwf; try reflexivity.
  - cbn [raw_of_type]. rewrite wf_raw_eq. cbn [wf_ty] in Hwf. rewrite (IH Hwf). reflexivity.
  - rewrite wf_ty_rec in Hwf. apply andb_true_iff in Hwf. destruct Hwf as [Hs Hall].
    rewrite raw_of_type_rec_wf by exact Hs. rewrite wf_raw_eq, sj_sorted_mapv, Hs. cbn [andb].
    apply forallb_forall. intros kv Hkv. unfold mapv in Hkv. apply in_map_iff in Hkv. destruct Hkv as (x & <- & Hx).
    rewrite Forall_forall in IH. rewrite forallb_forall in Hall. specialize (IH x Hx). specialize (Hall x Hx).
    unfold wf_xattr in Hall. apply andb_true_iff in Hall. destruct Hall as [H1 H2].
    cbn [snd]. unfold wf_rattr, raw_attr. cbn [fst snd]. rewrite (IH H1). apply rec_of_list_sorted_gen.
Qed.

Definition type_attr (kv : str * rattr) : dres (str * xattr) :=
  dbind (type_of_raw (fst (fst (snd kv)))) (fun t' => DOk (fst kv, (t', match snd (fst (snd kv)) with Some false => true | _ => false end, snd (snd kv)))).

Lemma type_attrs_fix (attrs : list (str * rattr)) :
  (fix go (l : list (str * (rawty * option bool * annots))) : list (dres (str * (xty * bool * annots))) :=
     match l with
     | [] => []
     | (key, (t, req, an)) :: rest =>
         dbind (type_of_raw t) (fun t' => DOk (key, (t', match req with Some false => true | _ => false end, an))) :: go rest
     end) attrs = map type_attr attrs.
Proof. induction attrs as [|[key [[t req] an]] l IH]; [reflexivity|]. cbn [map]. rewrite <- IH. reflexivity. Qed.

Lemma type_of_raw_record el attrs name :
  type_of_raw (RawTy (k "Record") el attrs name) = dbind (dall (map type_attr attrs)) (fun fs => DOk (XRec fs)).
Proof. rewrite <- type_attrs_fix. reflexivity. Qed.

Lemma type_of_raw_of_type : forall t, wf_ty t = true -> type_of_raw (raw_of_type t) = DOk t.
Proof.
  induction t as [| | |n|t IH|fs IH|r|r] using xty_ind'; intros Hwf; try reflexivity.
  - cbn [raw_of_type]. cbn [wf_ty] in Hwf. change (dbind (type_of_raw (raw_of_type t)) (fun t0 => DOk (XSet t0)) = DOk (XSet t)).
    rewrite (IH Hwf). reflexivity.
  - rewrite wf_ty_rec in Hwf. apply andb_true_iff in Hwf. destruct Hwf as [Hs Hall].
    rewrite raw_of_type_rec_wf by exact Hs. rewrite type_of_raw_record.
    assert (H : dall (map type_attr (mapv raw_attr fs)) = DOk fs).
    { rewrite Forall_forall in IH. rewrite forallb_forall in Hall. clear Hs.
      induction fs as [|[key [[t opt] an]] fs IHfs]; [reflexivity|].
      rewrite sj_mapv_cons. cbn [map dall]. unfold type_attr at 1. unfold raw_attr at 1 2 3. cbn [fst snd].
      pose proof (Hall _ (or_introl eq_refl)) as Hw. unfold wf_xattr in Hw. cbn [fst snd] in Hw. apply andb_true_iff in Hw. destruct Hw as [H1 H2].
      pose proof (IH _ (or_introl eq_refl)) as IH0. cbn [fst snd] in IH0. rewrite (IH0 H1). cbn [dbind].
      rewrite IHfs; [|intros x Hx; apply IH; right; exact Hx|intros x Hx; apply Hall; right; exact Hx].
      cbn [dbind]. unfold raw_attr. cbn [snd]. rewrite sj_rec_id by exact H2. destruct opt; reflexivity. }
    rewrite H. reflexivity.
Qed.

(* dec_type (enc_type t) *)
Lemma raw_of_enc_type t f : wf_ty t = true -> (jdepth (enc_type t) < f)%nat -> raw_of_json f MType (enc_type t) = DOk (raw_of_type t, None, []).
Proof.
  intros Hwf Hf. unfold enc_type in *. rewrite (tobj_nil (raw_of_type t)) in *.
  apply raw_rt; [apply wf_raw_of_type; exact Hwf | split; reflexivity | reflexivity | exact Hf].
Qed.

Lemma dec_enc_type t : wf_ty t = true -> dec_type (enc_type t) = DOk t.
Proof.
  intros Hwf. unfold dec_type. rewrite raw_of_enc_type by (auto; lia). cbn [dbind fst]. apply type_of_raw_of_type. exact Hwf.
Qed.

(* no repeated keys in type objects *)
Lemma jdups_raw : forall r, wf_raw r = true -> forall req an, jdups (JObj (json_members_of_raw r ++ reqj req ++ enc_annots an)) = false.
Proof.
  induction r as [ty el attrs name IHel IHattrs] using rawty_ind'. intros Hwf req an.
  rewrite wf_raw_eq in Hwf. apply andb_true_iff in Hwf. destruct Hwf as [Hwf Hwa]. apply andb_true_iff in Hwf. destruct Hwf as [Hwe Hws].
  rewrite tobj_eq. unfold tmembers. rewrite jdups_sobj. fold (tmembers (JStr ty) (el_json el) (attrs_json attrs) (name_json name) (option_map JBool req) (annots_json an)).
  rewrite tm_has_dups. cbn [orb existsb snd].
  rewrite jdups_annots_json.
  assert (H1 : match el_json el with Some v => jdups v | None => false end = false).
  { destruct el as [e|]; [|reflexivity]. cbn [el_json option_map]. cbn [optP] in IHel. rewrite (tobj_nil e). apply IHel. exact Hwe. }
  assert (H2 : match attrs_json attrs with Some v => jdups v | None => false end = false).
  { unfold attrs_json. destruct (is_nil attrs); [reflexivity|]. rewrite jdups_obj.
    rewrite has_dups_sorted by (rewrite sj_sorted_mapv; exact Hws). cbn [orb].
    apply existsb_false_Forall. apply Forall_forall. intros kv Hkv. unfold mapv in Hkv. apply in_map_iff in Hkv.
    destruct Hkv as (x & <- & Hx). rewrite Forall_forall in IHattrs. rewrite forallb_forall in Hwa.
    specialize (IHattrs x Hx). specialize (Hwa x Hx). unfold wf_rattr in Hwa. apply andb_true_iff in Hwa.
    cbn [snd]. unfold attr_obj. apply IHattrs. tauto. }
  assert (H3 : match name_json name with Some v => jdups v | None => false end = false).
  { unfold name_json. destruct (is_nil name); reflexivity. }
  assert (H4 : match option_map JBool req with Some v => jdups v | None => false end = false).
  { destruct req; reflexivity. }
  rewrite H1, H2, H3, H4. reflexivity.
Qed.

Lemma jdups_enc_type t : wf_ty t = true -> jdups (enc_type t) = false.
Proof. intros H. unfold enc_type. rewrite (tobj_nil (raw_of_type t)). apply jdups_raw. apply wf_raw_of_type. exact H. Qed.

(* ------------------------------------------------------------------------------------------ *)
(* String lists                                                                                *)
(* ------------------------------------------------------------------------------------------ *)
Lemma dec_strs_arr l : dec_strs (Some (JArr (map JStr l))) = DOk l.
Proof.
  cbn [dec_strs]. induction l as [|x l IH]; [reflexivity|]. cbn [map dall dbind]. rewrite IH. reflexivity.
Qed.

Lemma dec_strs_list l : dec_strs (Some (jstr_list l)) = DOk l.
Proof. destruct l as [|x l]; [reflexivity|]. apply (dec_strs_arr (x :: l)). Qed.

Lemma jdups_strs l : jdups (JArr (map JStr l)) = false.
Proof. rewrite jdups_arr. apply existsb_false_Forall. apply Forall_forall. intros x Hx. apply in_map_iff in Hx. destruct Hx as (s & <- & _). reflexivity. Qed.

Lemma jdups_str_list l : jdups (jstr_list l) = false.
Proof. destruct l as [|x l]; [reflexivity|]. apply (jdups_strs (x :: l)). Qed.

(* sort_strs *)
Fixpoint sorted_le (l : list str) : bool :=
  match l with
  | [] => true
  | x :: r => match r with [] => true | y :: _ => negb (str_ltb y x) && sorted_le r end
  end.

Lemma str_insert_sorted s l : sorted_le l = true -> sorted_le (str_insert s l) = true.
Proof.
  induction l as [|x r IH]; intros Hs; [reflexivity|].
  cbn [str_insert]. destruct (str_ltb x s) eqn:E.
  - assert (Hr : sorted_le r = true). { destruct r; [reflexivity|]. cbn [sorted_le] in Hs. apply andb_true_iff in Hs. tauto. }
    specialize (IH Hr). destruct r as [|y r'].
    + cbn [str_insert sorted_le]. rewrite (str_ltb_asym _ _ E). reflexivity.
    + cbn [str_insert] in IH |- *. destruct (str_ltb y s) eqn:E2.
      * change (negb (str_ltb y x) && sorted_le (y :: str_insert s r') = true). cbn [sorted_le] in Hs. apply andb_true_iff in Hs.
        apply andb_true_iff. split; [tauto|exact IH].
      * change (negb (str_ltb s x) && sorted_le (s :: y :: r') = true). rewrite (str_ltb_asym _ _ E). exact IH.
  - change (negb (str_ltb x s) && sorted_le (x :: r) = true). rewrite E, Hs. reflexivity.
Qed.

Lemma sort_strs_sorted l : sorted_le (sort_strs l) = true.
Proof. induction l as [|x l IH]; [reflexivity|]. cbn [sort_strs fold_right]. apply str_insert_sorted. exact IH. Qed.

Lemma sort_strs_id l : sorted_le l = true -> sort_strs l = l.
Proof.
  induction l as [|x r IH]; intros Hs; [reflexivity|].
  change (str_insert x (sort_strs r) = x :: r).
  destruct r as [|y r']; [reflexivity|]. cbn [sorted_le] in Hs. apply andb_true_iff in Hs. destruct Hs as [H1 H2].
  rewrite (IH H2). cbn [str_insert]. apply negb_true_iff in H1. rewrite H1. reflexivity.
Qed.

Lemma sort_strs_idem l : sort_strs (sort_strs l) = sort_strs l.
Proof. apply sort_strs_id. apply sort_strs_sorted. Qed.

Lemma str_insert_perm s l : Permutation (s :: l) (str_insert s l).
Proof.
  induction l as [|x r IH]; [apply Permutation_refl|]. cbn [str_insert]. destruct (str_ltb x s); [|apply Permutation_refl].
  eapply Permutation_trans; [apply perm_swap|]. apply perm_skip. exact IH.
Qed.

Lemma sort_strs_perm l : Permutation l (sort_strs l).
Proof.
  induction l as [|x l IH]; [apply Permutation_refl|]. change (Permutation (x :: l) (str_insert x (sort_strs l))).
  eapply Permutation_trans; [apply perm_skip; exact IH | apply str_insert_perm].
Qed.

Lemma sort_strs_nil l : is_nil (sort_strs l) = is_nil l.
Proof.
  destruct l as [|x l]; [reflexivity|]. pose proof (sort_strs_perm (x :: l)) as H.
  destruct (sort_strs (x :: l)); [|reflexivity]. apply Permutation_sym, Permutation_nil in H. discriminate.
Qed.

(* ------------------------------------------------------------------------------------------ *)
(* Entity types and enumerated types                                                           *)
(* ------------------------------------------------------------------------------------------ *)
Definition ent_members (op os ot oa oe : option json) : list (str * json) :=
  sobj [("memberOfTypes", op); ("shape", os); ("tags", ot); ("annotations", oa); ("enum", oe)]%string.

Lemma em_get_parents op os ot oa oe : jget (k "memberOfTypes") (ent_members op os ot oa oe) = op.
Proof. dopts; reflexivity. Qed.
Lemma em_get_shape op os ot oa oe : jget (k "shape") (ent_members op os ot oa oe) = os.
Proof. dopts; reflexivity. Qed.
Lemma em_get_tags op os ot oa oe : jget (k "tags") (ent_members op os ot oa oe) = ot.
Proof. dopts; reflexivity. Qed.
Lemma em_get_annotations op os ot oa oe : jget (k "annotations") (ent_members op os ot oa oe) = oa.
Proof. dopts; reflexivity. Qed.
Lemma em_get_enum op os ot oa oe : jget (k "enum") (ent_members op os ot oa oe) = oe.
Proof. dopts; reflexivity. Qed.
Lemma em_struct_ok op os ot oa oe : struct_ok entity_fields (ent_members op os ot oa oe) = true.
Proof. dopts; reflexivity. Qed.
Lemma em_has_dups op os ot oa oe : has_dups (ent_members op os ot oa oe) = false.
Proof. dopts; reflexivity. Qed.

Definition parents_json (l : list str) : option json := if is_nil l then None else Some (JArr (map JStr (sort_strs l))).

Lemma enc_entity_eq e :
  enc_entity e = JObj (ent_members (parents_json (xe_parents e)) (option_map (fun r => enc_type (XRec r)) (xe_shape e))
                                   (option_map enc_type (xe_tags e)) (annots_json (xe_annots e)) None).
Proof.
  unfold enc_entity, ent_members, parents_json. rewrite enc_annots_eq.
  destruct (xe_parents e), (xe_shape e), (xe_tags e), (annots_json (xe_annots e)); reflexivity.
Qed.

Lemma enc_enum_eq e :
  enc_enum e = JObj (ent_members None None None (annots_json (xn_annots e)) (Some (JArr (map JStr (xn_values e))))).
Proof. unfold enc_enum, ent_members. rewrite enc_annots_eq. destruct (annots_json (xn_annots e)); reflexivity. Qed.

Definition opt_wf_ty (o : option xty) : bool := match o with Some t => wf_ty t | None => true end.
Definition wf_entity (e : x_entity) : bool :=
  keys_sorted (xe_annots e) && opt_wf_ty (option_map XRec (xe_shape e)) && opt_wf_ty (xe_tags e).
Definition wf_enum (e : x_enum) : bool := keys_sorted (xn_annots e).

Definition norm_entity (e : x_entity) : x_entity :=
  {| xe_annots := xe_annots e; xe_parents := sort_strs (xe_parents e); xe_shape := xe_shape e; xe_tags := xe_tags e |}.

Lemma dec_parents_json l : dec_strs (parents_json l) = DOk (sort_strs l).
Proof. unfold parents_json. destruct l as [|x l]; [reflexivity|]. cbn [is_nil]. apply dec_strs_arr. Qed.

Definition raw_opt (o : option json) : dres (option rawty) :=
  match o with None | Some JNull => DOk None
  | Some x => dbind (raw_of_json (S (jdepth x)) MType x) (fun r => DOk (Some (fst (fst r)))) end.

Lemma raw_opt_enc (o : option xty) : opt_wf_ty o = true -> raw_opt (option_map enc_type o) = DOk (option_map raw_of_type o).
Proof.
  destruct o as [t|]; [|reflexivity]. cbn [opt_wf_ty option_map]. intros Hwf.
  pose proof (raw_of_enc_type t (S (jdepth (enc_type t))) Hwf (Nat.lt_succ_diag_r _)) as H.
  unfold enc_type in *. cbn [raw_opt]. rewrite H. reflexivity.
Qed.

Lemma dec_enc_entity e : wf_entity e = true -> dec_entity_type (enc_entity e) = DOk (inl (norm_entity e)).
Proof.
  intros Hwf. unfold wf_entity in Hwf. apply andb_true_iff in Hwf. destruct Hwf as [Hwf Hwt]. apply andb_true_iff in Hwf. destruct Hwf as [Hwa Hws].
  rewrite enc_entity_eq. unfold dec_entity_type.
  rewrite em_struct_ok, em_get_parents, em_get_annotations, em_get_shape, em_get_tags, em_get_enum. cbn [negb].
  rewrite dec_parents_json, dec_annots_sorted by exact Hwa. cbn [dbind].
  assert (Hs : raw_opt (option_map (fun r => enc_type (XRec r)) (xe_shape e)) = DOk (option_map (fun r => raw_of_type (XRec r)) (xe_shape e))).
  { destruct (xe_shape e) as [r|]; [|reflexivity]. exact (raw_opt_enc (Some (XRec r)) Hws). }
  pose proof (raw_opt_enc (xe_tags e) Hwt) as Ht.
  unfold raw_opt in Hs, Ht.
  rewrite Hs, Ht. cbn [dbind]. unfold norm_entity.
  destruct (xe_shape e) as [r|]; cbn [option_map opt_wf_ty] in *.
  - pose proof (type_of_raw_of_type (XRec r) Hws) as Hr.
    destruct (raw_of_type (XRec r)) as [ty el attrs name] eqn:Er.
    assert (Hty : ty = k "Record") by (cbn [raw_of_type] in Er; congruence). subst ty. rewrite Hr. cbn [dbind].
    destruct (xe_tags e) as [t|]; cbn [option_map opt_wf_ty dbind] in *; [rewrite (type_of_raw_of_type t Hwt)|]; reflexivity.
  - cbn [dbind]. destruct (xe_tags e) as [t|]; cbn [option_map opt_wf_ty dbind] in *; [rewrite (type_of_raw_of_type t Hwt)|]; reflexivity.
Qed.

Lemma dec_enc_enum e : wf_enum e = true -> dec_entity_type (enc_enum e) = DOk (inr e).
Proof.
  intros Hwf. unfold wf_enum in Hwf. rewrite enc_enum_eq. unfold dec_entity_type.
  rewrite em_struct_ok, em_get_parents, em_get_annotations, em_get_shape, em_get_tags, em_get_enum. cbn [negb].
  rewrite dec_annots_sorted by exact Hwf. cbn [dec_strs dbind].
  change (dall (map (fun x : json => match x with JStr s => DOk s | JNull => DOk [] | _ => DErr end) (map JStr (xn_values e))))
    with (dec_strs (Some (JArr (map JStr (xn_values e))))).
  rewrite dec_strs_arr. cbn [dbind]. destruct e; reflexivity.
Qed.

Lemma jdups_opt_type (o : option xty) : opt_wf_ty o = true -> match option_map enc_type o with Some v => jdups v | None => false end = false.
Proof. destruct o as [t|]; [|reflexivity]. cbn [opt_wf_ty option_map]. apply jdups_enc_type. Qed.

Lemma jdups_enc_entity e : wf_entity e = true -> jdups (enc_entity e) = false.
Proof.
  intros Hwf. unfold wf_entity in Hwf. apply andb_true_iff in Hwf. destruct Hwf as [Hwf Hwt]. apply andb_true_iff in Hwf. destruct Hwf as [Hwa Hws].
  rewrite enc_entity_eq. unfold ent_members. rewrite jdups_sobj.
  fold (ent_members (parents_json (xe_parents e)) (option_map (fun r => enc_type (XRec r)) (xe_shape e)) (option_map enc_type (xe_tags e)) (annots_json (xe_annots e)) None).
  rewrite em_has_dups. cbn [orb existsb snd]. rewrite jdups_annots_json, (jdups_opt_type _ Hwt).
  assert (H1 : match parents_json (xe_parents e) with Some v => jdups v | None => false end = false).
  { unfold parents_json. destruct (is_nil (xe_parents e)); [reflexivity|]. apply jdups_strs. }
  assert (H2 : match option_map (fun r => enc_type (XRec r)) (xe_shape e) with Some v => jdups v | None => false end = false).
  { destruct (xe_shape e) as [r|]; [|reflexivity]. exact (jdups_opt_type (Some (XRec r)) Hws). }
  rewrite H1, H2. reflexivity.
Qed.

Lemma jdups_enc_enum e : jdups (enc_enum e) = false.
Proof.
  rewrite enc_enum_eq. unfold ent_members. rewrite jdups_sobj.
  fold (ent_members None None None (annots_json (xn_annots e)) (Some (JArr (map JStr (xn_values e))))).
  rewrite em_has_dups. cbn [orb existsb snd]. rewrite jdups_annots_json, jdups_strs. reflexivity.
Qed.

(* ------------------------------------------------------------------------------------------ *)
(* Common types                                                                                *)
(* ------------------------------------------------------------------------------------------ *)
Definition wf_common (c : x_common) : bool := keys_sorted (xc_annots c) && wf_ty (xc_type c).

Lemma dec_enc_common c : wf_common c = true -> dec_common (enc_common c) = DOk c.
Proof.
  intros Hwf. unfold wf_common in Hwf. apply andb_true_iff in Hwf. destruct Hwf as [Hwa Hwt].
  unfold dec_common, enc_common.
  change (json_members_of_raw (raw_of_type (xc_type c)) ++ enc_annots (xc_annots c))
    with (json_members_of_raw (raw_of_type (xc_type c)) ++ reqj None ++ enc_annots (xc_annots c)).
  rewrite (raw_rt (raw_of_type (xc_type c)) (wf_raw_of_type _ Hwt) MCommon None (xc_annots c)); [|reflexivity|exact Hwa|lia].
  cbn [dbind fst snd]. rewrite (type_of_raw_of_type _ Hwt). cbn [dbind]. destruct c; reflexivity.
Qed.

Lemma jdups_enc_common c : wf_common c = true -> jdups (enc_common c) = false.
Proof.
  intros Hwf. unfold wf_common in Hwf. apply andb_true_iff in Hwf. destruct Hwf as [Hwa Hwt]. unfold enc_common.
  change (json_members_of_raw (raw_of_type (xc_type c)) ++ enc_annots (xc_annots c))
    with (json_members_of_raw (raw_of_type (xc_type c)) ++ reqj None ++ enc_annots (xc_annots c)).
  apply jdups_raw. apply wf_raw_of_type. exact Hwt.
Qed.

(* ------------------------------------------------------------------------------------------ *)
(* Actions                                                                                     *)
(* ------------------------------------------------------------------------------------------ *)
Definition app_members (vp vr : json) (oc : option json) : list (str * json) :=
  sobj [("principalTypes", Some vp); ("resourceTypes", Some vr); ("context", oc)]%string.
Lemma am_get_principals vp vr oc : jget (k "principalTypes") (app_members vp vr oc) = Some vp.
Proof. dopts; reflexivity. Qed.
Lemma am_get_resources vp vr oc : jget (k "resourceTypes") (app_members vp vr oc) = Some vr.
Proof. dopts; reflexivity. Qed.
Lemma am_get_context vp vr oc : jget (k "context") (app_members vp vr oc) = oc.
Proof. dopts; reflexivity. Qed.
Lemma am_struct_ok vp vr oc : struct_ok applies_fields (app_members vp vr oc) = true.
Proof. dopts; reflexivity. Qed.
Lemma am_has_dups vp vr oc : has_dups (app_members vp vr oc) = false.
Proof. dopts; reflexivity. Qed.

Lemma enc_applies_eq a :
  enc_applies a = JObj (app_members (jstr_list (xa_principals a)) (jstr_list (xa_resources a)) (option_map enc_type (xa_context a))).
Proof. unfold enc_applies, app_members. destruct (xa_context a); reflexivity. Qed.

Definition wf_applies (a : x_applies) : bool := opt_wf_ty (xa_context a).

Lemma dec_type_opt_enc (o : option xty) : opt_wf_ty o = true -> dec_type_opt (option_map enc_type o) = DOk o.
Proof.
  destruct o as [t|]; [|reflexivity]. cbn [opt_wf_ty option_map]. intros Hwf.
  pose proof (dec_enc_type t Hwf) as H. unfold enc_type in *. cbn [dec_type_opt]. rewrite H. reflexivity.
Qed.

Lemma dec_enc_applies a : wf_applies a = true -> dec_applies (enc_applies a) = DOk a.
Proof.
  intros Hwf. rewrite enc_applies_eq. unfold dec_applies.
  rewrite am_struct_ok, am_get_principals, am_get_resources, am_get_context. cbn [negb].
  rewrite !dec_strs_list. cbn [dbind]. rewrite (dec_type_opt_enc _ Hwf). cbn [dbind]. destruct a; reflexivity.
Qed.

Lemma jdups_enc_applies a : wf_applies a = true -> jdups (enc_applies a) = false.
Proof.
  intros Hwf. rewrite enc_applies_eq. unfold app_members. rewrite jdups_sobj.
  fold (app_members (jstr_list (xa_principals a)) (jstr_list (xa_resources a)) (option_map enc_type (xa_context a))).
  rewrite am_has_dups. cbn [orb existsb snd]. rewrite !jdups_str_list, (jdups_opt_type _ Hwf). reflexivity.
Qed.

Definition act_members (om oa oan : option json) : list (str * json) :=
  sobj [("memberOf", om); ("appliesTo", oa); ("annotations", oan)]%string.
Lemma acm_get_parents om oa oan : jget (k "memberOf") (act_members om oa oan) = om.
Proof. dopts; reflexivity. Qed.
Lemma acm_get_applies om oa oan : jget (k "appliesTo") (act_members om oa oan) = oa.
Proof. dopts; reflexivity. Qed.
Lemma acm_get_annotations om oa oan : jget (k "annotations") (act_members om oa oan) = oan.
Proof. dopts; reflexivity. Qed.
Lemma acm_struct_ok om oa oan : struct_ok action_fields (act_members om oa oan) = true.
Proof. dopts; reflexivity. Qed.
Lemma acm_has_dups om oa oan : has_dups (act_members om oa oan) = false.
Proof. dopts; reflexivity. Qed.

Definition parent_obj (p : str * str) : json := JObj [(k "id", JStr (snd p)); (k "type", JStr (fst p))].
Definition aparents_json (l : list (str * str)) : option json := if is_nil l then None else Some (JArr (map parent_obj l)).

Lemma enc_action_eq a :
  enc_action a = JObj (act_members (aparents_json (xac_parents a)) (option_map enc_applies (xac_applies a)) (annots_json (xac_annots a))).
Proof.
  unfold enc_action, act_members, aparents_json. rewrite enc_annots_eq.
  destruct (xac_parents a), (xac_applies a), (annots_json (xac_annots a)); reflexivity.
Qed.

Lemma dec_parent_obj p : dec_parent (parent_obj p) = DOk p.
Proof. destruct p as [t i]. reflexivity. Qed.

Lemma jdups_parent_obj p : jdups (parent_obj p) = false.
Proof. destruct p as [t i]. reflexivity. Qed.

Definition wf_action (a : x_action) : bool :=
  keys_sorted (xac_annots a) && match xac_applies a with Some ap => wf_applies ap | None => true end.

Lemma dec_enc_action a : wf_action a = true -> dec_action (enc_action a) = DOk a.
Proof.
  intros Hwf. unfold wf_action in Hwf. apply andb_true_iff in Hwf. destruct Hwf as [Hwa Hwp].
  rewrite enc_action_eq. unfold dec_action.
  rewrite acm_struct_ok, acm_get_parents, acm_get_applies, acm_get_annotations. cbn [negb].
  assert (H1 : match aparents_json (xac_parents a) with None | Some JNull => DOk [] | Some (JArr l) => dall (map dec_parent l) | Some _ => DErr end
               = DOk (xac_parents a)).
  { unfold aparents_json. destruct (xac_parents a) as [|p l]; [reflexivity|]. cbn [is_nil]. generalize (p :: l). intros l'.
    rewrite map_map. rewrite <- (map_id l') at 2. apply dall_map_ok. apply Forall_forall. intros x _. apply dec_parent_obj. }
  rewrite H1. cbn [dbind].
  assert (H2 : match option_map enc_applies (xac_applies a) with None | Some JNull => DOk None
               | Some x => dbind (dec_applies x) (fun a0 => DOk (Some a0)) end = DOk (xac_applies a)).
  { destruct (xac_applies a) as [ap|]; [|reflexivity]. cbn [option_map].
    pose proof (dec_enc_applies ap Hwp) as H. rewrite enc_applies_eq in *. rewrite H. reflexivity. }
  rewrite H2. cbn [dbind]. rewrite dec_annots_sorted by exact Hwa. cbn [dbind]. destruct a; reflexivity.
Qed.

Lemma jdups_enc_action a : wf_action a = true -> jdups (enc_action a) = false.
Proof.
  intros Hwf. unfold wf_action in Hwf. apply andb_true_iff in Hwf. destruct Hwf as [Hwa Hwp].
  rewrite enc_action_eq. unfold act_members. rewrite jdups_sobj.
  fold (act_members (aparents_json (xac_parents a)) (option_map enc_applies (xac_applies a)) (annots_json (xac_annots a))).
  rewrite acm_has_dups. cbn [orb existsb snd]. rewrite jdups_annots_json.
  assert (H1 : match aparents_json (xac_parents a) with Some v => jdups v | None => false end = false).
  { unfold aparents_json. destruct (is_nil (xac_parents a)); [reflexivity|]. rewrite jdups_arr. apply existsb_false_Forall.
    apply Forall_forall. intros x Hx. apply in_map_iff in Hx. destruct Hx as (p & <- & _). apply jdups_parent_obj. }
  assert (H2 : match option_map enc_applies (xac_applies a) with Some v => jdups v | None => false end = false).
  { destruct (xac_applies a) as [ap|]; [|reflexivity]. apply jdups_enc_applies. exact Hwp. }
  rewrite H1, H2. reflexivity.
Qed.

(* ------------------------------------------------------------------------------------------ *)
(* Entities and enums share one map: merging and splitting                                     *)
(* ------------------------------------------------------------------------------------------ *)
Definition ins_all {A} (l acc : list (str * A)) : list (str * A) := fold_left (fun acc kv => rec_insert (fst kv) (snd kv) acc) l acc.

Lemma ins_all_sorted {A} (l acc : list (str * A)) : keys_sorted acc = true -> keys_sorted (ins_all l acc) = true.
Proof. revert acc. induction l as [|kv l IH]; intros acc H; [exact H|]. apply IH. apply rec_insert_sorted. exact H. Qed.

Lemma rec_of_list_app {A} (l1 l2 : list (str * A)) : rec_of_list (l1 ++ l2) = ins_all l2 (rec_of_list l1).
Proof. unfold rec_of_list, ins_all. apply fold_left_app. Qed.

Lemma split_sum_cons_inl {A B} key (a : A) (r : list (str * (A + B))) :
  split_sum ((key, inl a) :: r) = ((key, a) :: fst (split_sum r), snd (split_sum r)).
Proof. cbn [split_sum]. destruct (split_sum r). reflexivity. Qed.
Lemma split_sum_cons_inr {A B} key (b : B) (r : list (str * (A + B))) :
  split_sum ((key, inr b) :: r) = (fst (split_sum r), (key, b) :: snd (split_sum r)).
Proof. cbn [split_sum]. destruct (split_sum r). reflexivity. Qed.

Lemma split_sum_inl {A B} (es : list (str * A)) : split_sum (mapv (@inl A B) es) = (es, []).
Proof. induction es as [|[key a] es IH]; [reflexivity|]. rewrite sj_mapv_cons. cbn [fst snd]. rewrite split_sum_cons_inl, IH. reflexivity. Qed.

(* all keys of the right component are keys of the list *)
Lemma split_snd_keys {A B} (l : list (str * (A + B))) kv : In kv (snd (split_sum l)) -> In (fst kv) (map fst l).
Proof.
  induction l as [|[key [a|b]] l IH]; [intros []| |].
  - rewrite split_sum_cons_inl. cbn [snd map fst]. intros H. right. exact (IH H).
  - rewrite split_sum_cons_inr. cbn [snd map fst]. intros [<-|H]; [left; reflexivity | right; exact (IH H)].
Qed.

Lemma split_insert_inr {A B} key (b : B) (acc : list (str * (A + B))) :
  keys_sorted acc = true -> ~ In key (map fst (fst (split_sum acc))) ->
  split_sum (rec_insert key (inr b) acc) = (fst (split_sum acc), rec_insert key b (snd (split_sum acc))).
Proof.
  induction acc as [|[k' v'] acc IH]; intros Hs Hni; [reflexivity|].
  pose proof (vj_sorted_all_lt _ _ _ Hs) as HF. rewrite Forall_forall in HF. pose proof (sj_sorted_tail _ _ Hs) as Hs'.
  cbn [rec_insert]. destruct (str_ltb key k') eqn:E1.
  - rewrite split_sum_cons_inr. cbn [fst snd]. f_equal.
    (* key is below every key of the right component *)
    destruct (snd (split_sum ((k', v') :: acc))) as [|[k2 b2] r] eqn:Er; [reflexivity|].
    cbn [rec_insert]. assert (Hlt : str_ltb key k2 = true).
    { assert (Hin : In k2 (map fst ((k', v') :: acc))).
      { apply (split_snd_keys ((k', v') :: acc) (k2, b2)). rewrite Er. left. reflexivity. }
      cbn [map fst] in Hin. destruct Hin as [<-|Hin]; [exact E1|].
      apply in_map_iff in Hin. destruct Hin as (x & <- & Hx). eapply str_ltb_trans; [exact E1|]. apply HF. exact Hx. }
    rewrite Hlt. reflexivity.
  - destruct (str_eqb key k') eqn:E2.
    + apply str_eqb_eq in E2. subst k'. destruct v' as [a|b'].
      * exfalso. apply Hni. rewrite split_sum_cons_inl. left. reflexivity.
      * rewrite !split_sum_cons_inr. cbn [fst snd rec_insert]. rewrite E1, str_eqb_refl. reflexivity.
    + destruct v' as [a|b'].
      * rewrite !split_sum_cons_inl. cbn [fst snd].
        rewrite IH; [reflexivity|exact Hs'|]. intros Hin. apply Hni. rewrite split_sum_cons_inl. right. exact Hin.
      * rewrite !split_sum_cons_inr. cbn [fst snd rec_insert]. rewrite E1, E2.
        rewrite IH; [reflexivity|exact Hs'|]. intros Hin. apply Hni. rewrite split_sum_cons_inr. exact Hin.
Qed.

Lemma split_ins_all_inr {A B} (ens : list (str * B)) : forall (acc : list (str * (A + B))),
  keys_sorted acc = true -> (forall kv, In kv ens -> ~ In (fst kv) (map fst (fst (split_sum acc)))) ->
  split_sum (ins_all (mapv (@inr A B) ens) acc) = (fst (split_sum acc), ins_all ens (snd (split_sum acc))).
Proof.
  induction ens as [|[key b] ens IH]; intros acc Hs Hd.
  - cbn. destruct (split_sum acc). reflexivity.
  - rewrite sj_mapv_cons. cbn [fst snd]. unfold ins_all. cbn [fold_left fst snd]. fold (ins_all (mapv (@inr A B) ens) (rec_insert key (inr b) acc)).
    pose proof (split_insert_inr key b acc Hs (Hd (key, b) (or_introl eq_refl))) as Hi.
    rewrite IH; [|apply rec_insert_sorted; exact Hs|].
    + rewrite Hi. reflexivity.
    + intros kv Hkv. rewrite Hi. cbn [fst]. apply Hd. right. exact Hkv.
Qed.

Definition disjoint_keys {A B} (es : list (str * A)) (ens : list (str * B)) : bool :=
  forallb (fun kv : str * B => negb (mem (fst kv) (map fst es))) ens.

Lemma split_merge {A B} (es : list (str * A)) (ens : list (str * B)) :
  keys_sorted es = true -> keys_sorted ens = true -> disjoint_keys es ens = true ->
  split_sum (rec_of_list (mapv (@inl A B) es ++ mapv (@inr A B) ens)) = (es, ens).
Proof.
  intros Hes Hens Hd. rewrite rec_of_list_app.
  assert (Hl : rec_of_list (mapv (@inl A B) es) = mapv inl es). { apply sj_rec_id. rewrite sj_sorted_mapv. exact Hes. }
  rewrite Hl, split_ins_all_inr.
  - rewrite split_sum_inl. cbn [fst snd]. f_equal. exact (sj_rec_id ens Hens).
  - rewrite sj_sorted_mapv. exact Hes.
  - intros kv Hkv. rewrite split_sum_inl. cbn [fst]. unfold disjoint_keys in Hd. rewrite forallb_forall in Hd.
    specialize (Hd kv Hkv). apply negb_true_iff in Hd. intros Hin. apply mem_In in Hin. congruence.
Qed.

(* ------------------------------------------------------------------------------------------ *)
(* Namespaces                                                                                  *)
(* ------------------------------------------------------------------------------------------ *)
Lemma dec_map_mapv {A B} (enc : A -> json) (dec : json -> dres B) (g : A -> B) (l : list (str * A)) :
  keys_sorted l = true -> (forall kv, In kv l -> dec (enc (snd kv)) = DOk (g (snd kv))) ->
  dec_map dec (Some (JObj (mapv enc l))) = DOk (mapv g l).
Proof.
  intros Hs H. cbn [dec_map]. rewrite (dall_mapv_ok enc dec g l H). cbn [dbind].
  rewrite sj_rec_id; [reflexivity|]. rewrite sj_sorted_mapv. exact Hs.
Qed.

Lemma jdups_map_obj {A} (enc : A -> json) (l : list (str * A)) :
  keys_sorted l = true -> (forall kv, In kv l -> jdups (enc (snd kv)) = false) -> jdups (JObj (mapv enc l)) = false.
Proof.
  intros Hs H. rewrite jdups_obj, has_dups_sorted by (rewrite sj_sorted_mapv; exact Hs). cbn [orb].
  apply existsb_false_Forall. apply Forall_forall. intros kv Hkv. unfold mapv in Hkv. apply in_map_iff in Hkv.
  destruct Hkv as (x & <- & Hx). cbn [snd]. apply H. exact Hx.
Qed.

Definition ns_members (ve va : json) (oc oan : option json) : list (str * json) :=
  sobj [("entityTypes", Some ve); ("actions", Some va); ("commonTypes", oc); ("annotations", oan)]%string.
Lemma nm_get_entities ve va oc oan : jget (k "entityTypes") (ns_members ve va oc oan) = Some ve.
Proof. dopts; reflexivity. Qed.
Lemma nm_get_actions ve va oc oan : jget (k "actions") (ns_members ve va oc oan) = Some va.
Proof. dopts; reflexivity. Qed.
Lemma nm_get_commons ve va oc oan : jget (k "commonTypes") (ns_members ve va oc oan) = oc.
Proof. dopts; reflexivity. Qed.
Lemma nm_get_annotations ve va oc oan : jget (k "annotations") (ns_members ve va oc oan) = oan.
Proof. dopts; reflexivity. Qed.
Lemma nm_struct_ok ve va oc oan : struct_ok ns_fields (ns_members ve va oc oan) = true.
Proof. dopts; reflexivity. Qed.
Lemma nm_has_dups ve va oc oan : has_dups (ns_members ve va oc oan) = false.
Proof. dopts; reflexivity. Qed.

Definition enc_et (x : x_entity + x_enum) : json := match x with inl e => enc_entity e | inr n => enc_enum n end.
Definition norm_et (x : x_entity + x_enum) : x_entity + x_enum := match x with inl e => inl (norm_entity e) | inr n => inr n end.
Definition wf_et (x : x_entity + x_enum) : bool := match x with inl e => wf_entity e | inr n => wf_enum n end.
Definition ets_of (n : x_ns) : list (str * (x_entity + x_enum)) := rec_of_list (mapv inl (xs_entities n) ++ mapv inr (xs_enums n)).
Definition commons_json (cs : list (str * x_common)) : option json := if is_nil cs then None else Some (JObj (mapv enc_common cs)).

Definition wf_ns (n : x_ns) : bool :=
  keys_sorted (xs_annots n)
  && keys_sorted (xs_entities n) && forallb (fun kv => wf_entity (snd kv)) (xs_entities n)
  && keys_sorted (xs_enums n) && forallb (fun kv => wf_enum (snd kv)) (xs_enums n)
  && disjoint_keys (xs_entities n) (xs_enums n)
  && keys_sorted (xs_commons n) && forallb (fun kv => wf_common (snd kv)) (xs_commons n)
  && keys_sorted (xs_actions n) && forallb (fun kv => wf_action (snd kv)) (xs_actions n).

Record wf_ns_p (n : x_ns) : Prop := {
  wn_annots : keys_sorted (xs_annots n) = true;
  wn_es : keys_sorted (xs_entities n) = true;
  wn_es_wf : forall kv, In kv (xs_entities n) -> wf_entity (snd kv) = true;
  wn_ens : keys_sorted (xs_enums n) = true;
  wn_ens_wf : forall kv, In kv (xs_enums n) -> wf_enum (snd kv) = true;
  wn_disj : disjoint_keys (xs_entities n) (xs_enums n) = true;
  wn_cs : keys_sorted (xs_commons n) = true;
  wn_cs_wf : forall kv, In kv (xs_commons n) -> wf_common (snd kv) = true;
  wn_as : keys_sorted (xs_actions n) = true;
  wn_as_wf : forall kv, In kv (xs_actions n) -> wf_action (snd kv) = true }.

Lemma wf_ns_iff n : wf_ns n = true <-> wf_ns_p n.
Proof.
  unfold wf_ns. rewrite !andb_true_iff, !forallb_forall. split.
  - intros H. constructor; tauto.
  - intros [H1 H2 H3 H4 H5 H6 H7 H8 H9 H10]. tauto.
Qed.

Lemma enc_ns_eq bare n :
  keys_sorted (xs_commons n) = true -> keys_sorted (xs_actions n) = true ->
  enc_ns bare n = JObj (ns_members (JObj (mapv enc_et (ets_of n))) (JObj (mapv enc_action (xs_actions n)))
                                   (commons_json (xs_commons n)) (if bare then None else annots_json (xs_annots n))).
Proof.
  intros Hc Ha. unfold enc_ns, ns_members, commons_json, ets_of.
  assert (H1 : mapv enc_entity (xs_entities n) ++ mapv enc_enum (xs_enums n) = mapv enc_et (mapv inl (xs_entities n) ++ mapv inr (xs_enums n))).
  { unfold mapv. rewrite map_app, !map_map. reflexivity. }
  rewrite H1, !sj_rec_of_list_mapv, (sj_rec_id _ Hc), (sj_rec_id _ Ha), enc_annots_eq.
  destruct (xs_commons n), bare; cbn [is_nil negb opt_member sobj flat_map fst snd app]; try destruct (annots_json (xs_annots n)); reflexivity.
Qed.

Definition norm_ns (n : x_ns) : x_ns :=
  {| xs_annots := xs_annots n; xs_entities := mapv norm_entity (xs_entities n); xs_enums := xs_enums n;
     xs_commons := xs_commons n; xs_actions := xs_actions n |}.

Lemma split_sum_norm (l : list (str * (x_entity + x_enum))) :
  split_sum (mapv norm_et l) = (mapv norm_entity (fst (split_sum l)), snd (split_sum l)).
Proof.
  induction l as [|[key [e|en]] l IH]; [reflexivity| |]; rewrite sj_mapv_cons; cbn [fst snd norm_et].
  - rewrite !split_sum_cons_inl, IH. reflexivity.
  - rewrite !split_sum_cons_inr, IH. reflexivity.
Qed.

Lemma ets_of_Forall (P : x_entity + x_enum -> Prop) n :
  (forall kv, In kv (xs_entities n) -> P (inl (snd kv))) -> (forall kv, In kv (xs_enums n) -> P (inr (snd kv))) ->
  forall kv, In kv (ets_of n) -> P (snd kv).
Proof.
  intros H1 H2. apply Forall_forall. unfold ets_of. apply rec_of_list_Forall. apply Forall_app. split; apply Forall_forall; intros kv Hkv;
    unfold mapv in Hkv; apply in_map_iff in Hkv; destruct Hkv as (x & <- & Hx); cbn [snd]; auto.
Qed.

Lemma dec_enc_ns bare n : wf_ns n = true -> (bare = true -> xs_annots n = []) -> dec_ns (enc_ns bare n) = DOk (norm_ns n).
Proof.
  intros Hwf Hbare. apply wf_ns_iff in Hwf. destruct Hwf as [Han Hes Hesw Hens Hensw Hdj Hcs Hcsw Has Hasw].
  rewrite (enc_ns_eq bare n Hcs Has). unfold dec_ns.
  rewrite nm_struct_ok, nm_get_entities, nm_get_actions, nm_get_commons, nm_get_annotations. cbn [negb].
  rewrite (dec_map_mapv enc_et dec_entity_type norm_et (ets_of n)).
  2:{ apply rec_of_list_sorted_gen. }
  2:{ apply (ets_of_Forall (fun x => dec_entity_type (enc_et x) = DOk (norm_et x))); intros kv Hkv; cbn [enc_et norm_et].
      - apply dec_enc_entity. apply Hesw. exact Hkv.
      - apply dec_enc_enum. apply Hensw. exact Hkv. }
  cbn [dbind].
  rewrite (dec_map_mapv enc_action dec_action (fun a => a) (xs_actions n) Has) by (intros kv Hkv; apply dec_enc_action; apply Hasw; exact Hkv).
  cbn [dbind].
  assert (Hc : dec_map dec_common (commons_json (xs_commons n)) = DOk (xs_commons n)).
  { unfold commons_json. destruct (is_nil (xs_commons n)) eqn:E.
    - destruct (xs_commons n); [reflexivity|discriminate].
    - rewrite (dec_map_mapv enc_common dec_common (fun c => c) (xs_commons n) Hcs) by (intros kv Hkv; apply dec_enc_common; apply Hcsw; exact Hkv).
      rewrite sj_mapv_id. reflexivity. }
  rewrite Hc. cbn [dbind].
  assert (Ha : dec_annots_map (if bare then None else annots_json (xs_annots n)) = DOk (xs_annots n)).
  { destruct bare; [rewrite Hbare by reflexivity; reflexivity | apply dec_annots_sorted; exact Han]. }
  rewrite Ha. cbn [dbind].
  rewrite split_sum_norm. unfold ets_of. rewrite (split_merge _ _ Hes Hens Hdj). cbn [fst snd]. rewrite sj_mapv_id. reflexivity.
Qed.

Lemma jdups_enc_ns bare n : wf_ns n = true -> jdups (enc_ns bare n) = false.
Proof.
  intros Hwf. apply wf_ns_iff in Hwf. destruct Hwf as [Han Hes Hesw Hens Hensw Hdj Hcs Hcsw Has Hasw].
  rewrite (enc_ns_eq bare n Hcs Has). unfold ns_members. rewrite jdups_sobj.
  fold (ns_members (JObj (mapv enc_et (ets_of n))) (JObj (mapv enc_action (xs_actions n))) (commons_json (xs_commons n)) (if bare then None else annots_json (xs_annots n))).
  rewrite nm_has_dups. cbn [orb existsb snd].
  rewrite (jdups_map_obj enc_et (ets_of n)).
  2:{ apply rec_of_list_sorted_gen. }
  2:{ apply (ets_of_Forall (fun x => jdups (enc_et x) = false)); intros kv Hkv; cbn [enc_et].
      - apply jdups_enc_entity. apply Hesw. exact Hkv.
      - apply jdups_enc_enum. }
  rewrite (jdups_map_obj enc_action (xs_actions n) Has) by (intros kv Hkv; apply jdups_enc_action; apply Hasw; exact Hkv).
  assert (H1 : match commons_json (xs_commons n) with Some v => jdups v | None => false end = false).
  { unfold commons_json. destruct (is_nil (xs_commons n)); [reflexivity|].
    apply jdups_map_obj; [exact Hcs|]. intros kv Hkv. apply jdups_enc_common. apply Hcsw. exact Hkv. }
  assert (H2 : match (if bare then None else annots_json (xs_annots n)) with Some v => jdups v | None => false end = false).
  { destruct bare; [reflexivity|apply jdups_annots_json]. }
  rewrite H1, H2. reflexivity.
Qed.

(* ------------------------------------------------------------------------------------------ *)
(* Schemas                                                                                     *)
(* ------------------------------------------------------------------------------------------ *)
Definition wf_schema (s : x_schema) : bool :=
  keys_sorted s
  && forallb (fun kv : str * x_ns => wf_ns (snd kv) && match fst kv with [] => is_nil (xs_annots (snd kv)) | _ => true end) s.

(* the namespaces that are written: all named ones, the bare one only if it declares something *)
Definition ns_keep (kv : str * x_ns) : bool := negb (is_nil (fst kv)) || has_decls (snd kv).
Definition norm_schema (s : x_schema) : x_schema := mapv norm_ns (filter ns_keep s).

Definition enc_ns_kv (kv : str * x_ns) : str * json := (fst kv, enc_ns (is_nil (fst kv)) (snd kv)).

Lemma enc_schema_members s :
  flat_map (fun kv : str * x_ns =>
              match fst kv with
              | [] => if has_decls (snd kv) then [([], enc_ns true (snd kv))] else []
              | name => [(name, enc_ns false (snd kv))]
              end) s = map enc_ns_kv (filter ns_keep s).
Proof.
  induction s as [|[name n] s IH]; [reflexivity|]. cbn [flat_map filter]. rewrite IH. unfold ns_keep, enc_ns_kv. cbn [fst snd].
  destruct name as [|c name]; cbn [is_nil negb orb]; [destruct (has_decls n)|]; reflexivity.
Qed.

Lemma enc_schema_eq s : keys_sorted s = true -> enc_schema s = JObj (map enc_ns_kv (filter ns_keep s)).
Proof.
  intros Hs. unfold enc_schema. rewrite enc_schema_members. f_equal. apply sj_rec_id.
  rewrite (vj_keys_sorted_ext _ (filter ns_keep s)); [apply sj_sorted_filter; exact Hs|].
  rewrite map_map. reflexivity.
Qed.

Definition dec_ns_kv (kv : str * json) : dres (str * x_ns) :=
  dbind (dec_ns (snd kv)) (fun n =>
  DOk (fst kv, match fst kv with
               | [] => {| xs_annots := []; xs_entities := xs_entities n; xs_enums := xs_enums n;
                          xs_commons := xs_commons n; xs_actions := xs_actions n |}
               | _ => n end)).

Lemma wf_schema_in s kv : wf_schema s = true -> In kv s -> wf_ns (snd kv) = true /\ (is_nil (fst kv) = true -> xs_annots (snd kv) = []).
Proof.
  unfold wf_schema. rewrite andb_true_iff, forallb_forall. intros [_ H] Hin. specialize (H kv Hin). apply andb_true_iff in H.
  destruct H as [H1 H2]. split; [exact H1|]. intros Hn. destruct (fst kv); [|discriminate]. destruct (xs_annots (snd kv)); [reflexivity|discriminate].
Qed.

Theorem dec_enc_schema : forall s, wf_schema s = true -> dec_schema (enc_schema s) = DOk (norm_schema s).
Proof.
  intros s Hwf. assert (Hs : keys_sorted s = true) by (unfold wf_schema in Hwf; apply andb_true_iff in Hwf; tauto).
  assert (Hsf : keys_sorted (filter ns_keep s) = true) by (apply sj_sorted_filter; exact Hs).
  unfold dec_schema. rewrite any_dups_jdups by lia.
  rewrite (enc_schema_eq s Hs).
  assert (Hd : jdups (JObj (map enc_ns_kv (filter ns_keep s))) = false).
  { rewrite jdups_obj. rewrite has_dups_sorted.
    2:{ rewrite (vj_keys_sorted_ext _ (filter ns_keep s)); [exact Hsf|]. rewrite map_map. reflexivity. }
    cbn [orb]. apply existsb_false_Forall. apply Forall_forall. intros kv Hkv. apply in_map_iff in Hkv.
    destruct Hkv as (x & <- & Hx). apply filter_In in Hx. destruct Hx as [Hx _]. cbn [enc_ns_kv snd].
    apply jdups_enc_ns. apply (wf_schema_in s x Hwf Hx). }
  rewrite Hd. fold dec_ns_kv.
  assert (Hall : dall (map dec_ns_kv (map enc_ns_kv (filter ns_keep s))) = DOk (norm_schema s)).
  { unfold norm_schema, mapv. rewrite map_map. apply dall_map_ok. apply Forall_forall. intros kv Hkv.
    apply filter_In in Hkv. destruct Hkv as [Hkv _]. destruct (wf_schema_in s kv Hwf Hkv) as [Hn Hb].
    unfold dec_ns_kv, enc_ns_kv. cbn [fst snd]. rewrite (dec_enc_ns _ _ Hn Hb). cbn [dbind].
    destruct (fst kv) eqn:E; [|reflexivity]. rewrite <- (Hb eq_refl). reflexivity. }
  rewrite Hall. cbn [dbind]. f_equal. apply sj_rec_id. unfold norm_schema. rewrite sj_sorted_mapv. exact Hsf.
Qed.

(* ---- normalisation ---- *)
Lemma norm_entity_idem e : norm_entity (norm_entity e) = norm_entity e.
Proof. unfold norm_entity. cbn. rewrite sort_strs_idem. reflexivity. Qed.

Lemma norm_ns_idem n : norm_ns (norm_ns n) = norm_ns n.
Proof.
  unfold norm_ns. cbn [xs_annots xs_entities xs_enums xs_commons xs_actions]. f_equal. rewrite sj_mapv_mapv. apply sj_mapv_ext_in. intros kv _. apply norm_entity_idem.
Qed.

Lemma is_nil_mapv {A B} (g : A -> B) l : is_nil (mapv g l) = is_nil l.
Proof. destruct l; reflexivity. Qed.

Lemma has_decls_norm n : has_decls (norm_ns n) = has_decls n.
Proof. unfold has_decls, norm_ns. cbn [xs_annots xs_entities xs_enums xs_commons xs_actions]. rewrite is_nil_mapv. reflexivity. Qed.

Lemma filter_keep_norm l : filter ns_keep (mapv norm_ns l) = mapv norm_ns (filter ns_keep l).
Proof.
  induction l as [|[name n] l IH]; [reflexivity|]. rewrite sj_mapv_cons. cbn [filter fst snd]. rewrite IH.
  unfold ns_keep. cbn [fst snd]. rewrite has_decls_norm. destruct (negb (is_nil name) || has_decls n); reflexivity.
Qed.

Lemma filter_idem {A} (p : A -> bool) l : filter p (filter p l) = filter p l.
Proof. induction l as [|x l IH]; [reflexivity|]. cbn [filter]. destruct (p x) eqn:E; [cbn [filter]; rewrite E, IH; reflexivity | exact IH]. Qed.

Lemma keep_norm_schema s : filter ns_keep (norm_schema s) = norm_schema s.
Proof. unfold norm_schema. rewrite filter_keep_norm, filter_idem. reflexivity. Qed.

Theorem norm_idempotent_gen : forall s, norm_schema (norm_schema s) = norm_schema s.
Proof.
  intros s. unfold norm_schema at 1. rewrite keep_norm_schema. unfold norm_schema. rewrite sj_mapv_mapv.
  apply sj_mapv_ext_in. intros kv _. apply norm_ns_idem.
Qed.

Lemma wf_entity_norm e : wf_entity (norm_entity e) = wf_entity e.
Proof. reflexivity. Qed.

Lemma wf_ns_norm n : wf_ns n = true -> wf_ns (norm_ns n) = true.
Proof.
  intros Hwf. apply wf_ns_iff in Hwf. destruct Hwf as [Han Hes Hesw Hens Hensw Hdj Hcs Hcsw Has Hasw].
  apply wf_ns_iff. constructor; cbn [norm_ns xs_annots xs_entities xs_enums xs_commons xs_actions]; auto.
  - rewrite sj_sorted_mapv. exact Hes.
  - intros kv Hkv. unfold mapv in Hkv. apply in_map_iff in Hkv. destruct Hkv as (x & <- & Hx). cbn [snd]. rewrite wf_entity_norm. apply Hesw. exact Hx.
  - unfold disjoint_keys in *. rewrite sj_mapv_keys. exact Hdj.
Qed.

Theorem wf_norm_schema : forall s, wf_schema s = true -> wf_schema (norm_schema s) = true.
Proof.
  intros s Hwf. assert (Hs : keys_sorted s = true) by (unfold wf_schema in Hwf; apply andb_true_iff in Hwf; tauto).
  unfold wf_schema. apply andb_true_iff. split.
  - unfold norm_schema. rewrite sj_sorted_mapv. apply sj_sorted_filter. exact Hs.
  - apply forallb_forall. intros kv Hkv. unfold norm_schema, mapv in Hkv. apply in_map_iff in Hkv. destruct Hkv as (x & <- & Hx).
    apply filter_In in Hx. destruct Hx as [Hx _]. destruct (wf_schema_in s x Hwf Hx) as [Hn Hb]. cbn [fst snd].
    rewrite (wf_ns_norm _ Hn). cbn [andb norm_ns xs_annots]. destruct (fst x); [|reflexivity]. rewrite (Hb eq_refl). reflexivity.
Qed.

Theorem norm_idempotent : forall s, wf_schema s = true -> norm_schema (norm_schema s) = norm_schema s /\ wf_schema (norm_schema s) = true.
Proof. intros s Hwf. split; [apply norm_idempotent_gen | apply wf_norm_schema; exact Hwf]. Qed.

Lemma enc_entity_norm e : enc_entity (norm_entity e) = enc_entity e.
Proof. unfold enc_entity, norm_entity. cbn [xe_parents xe_shape xe_tags xe_annots]. rewrite sort_strs_idem, sort_strs_nil. reflexivity. Qed.

Lemma enc_ns_norm bare n : enc_ns bare (norm_ns n) = enc_ns bare n.
Proof.
  unfold enc_ns, norm_ns. cbn [xs_annots xs_entities xs_enums xs_commons xs_actions].
  rewrite sj_mapv_mapv, (sj_mapv_ext_in (fun x => enc_entity (norm_entity x)) enc_entity) by (intros kv _; apply enc_entity_norm). reflexivity.
Qed.

Theorem second_roundtrip_gen : forall s, enc_schema (norm_schema s) = enc_schema s.
Proof.
  intros s. unfold enc_schema. rewrite !enc_schema_members, keep_norm_schema. unfold norm_schema, mapv. rewrite map_map.
  f_equal. f_equal. apply map_ext. intros kv. unfold enc_ns_kv. cbn [fst snd]. rewrite enc_ns_norm. reflexivity.
Qed.

Corollary second_roundtrip : forall s, wf_schema s = true -> enc_schema (norm_schema s) = enc_schema s.
Proof. intros s _. apply second_roundtrip_gen. Qed.

Corollary dec_enc_twice : forall s, wf_schema s = true -> dec_schema (enc_schema (norm_schema s)) = DOk (norm_schema s).
Proof. intros s Hwf. rewrite second_roundtrip_gen. apply dec_enc_schema. exact Hwf. Qed.

(* ------------------------------------------------------------------------------------------ *)
(* Part 2: the decoder never runs out of fuel                                                  *)
(* ------------------------------------------------------------------------------------------ *)
Lemma sfield_nofuel key m : sfield key m <> DFuel.
Proof. unfold sfield. destruct (jget (k key) m) as [[]|]; discriminate. Qed.

Lemma dec_annots_nofuel o : dec_annots_map o <> DFuel.
Proof.
  destruct o as [[| | | | | |m]|]; cbn [dec_annots_map]; try discriminate.
  apply dbind_nofuel; [|discriminate]. apply dall_map_nofuel. intros kv _. destruct (snd kv); discriminate.
Qed.

Lemma dec_strs_nofuel o : dec_strs o <> DFuel.
Proof.
  destruct o as [[| | | | |l|]|]; cbn [dec_strs]; try discriminate.
  apply dall_map_nofuel. intros x _. destruct x; discriminate.
Qed.

Lemma dec_req_nofuel o : dec_req o <> DFuel.
Proof. destruct o as [[]|]; discriminate. Qed.

Lemma raw_of_json_nofuel : forall f mode j, (jdepth j <= f)%nat -> raw_of_json f mode j <> DFuel.
Proof.
  induction f as [|f IH]; intros mode j Hj.
  - pose proof (jdepth_pos j). lia.
  - destruct j as [| | | | | |m]; try discriminate.
    rewrite raw_of_json_obj. destruct (negb (struct_ok (mode_fields mode) m)); [discriminate|].
    apply dbind_nofuel; [apply sfield_nofuel|intros ty]. apply dbind_nofuel; [apply sfield_nofuel|intros name].
    apply dbind_nofuel; [|intros el].
    { destruct (field "element" m) as [e|] eqn:E; [|discriminate]. cbn [dec_el]. apply dbind_nofuel; [|discriminate].
      apply IH. pose proof (field_depth _ _ _ E). lia. }
    apply dbind_nofuel; [|intros attrs].
    { destruct (field "attributes" m) as [a|] eqn:E; [|discriminate]. pose proof (field_depth _ _ _ E) as Hd.
      destruct a as [| | | | | |am]; try discriminate. cbn [dec_attrs]. apply dbind_nofuel; [|discriminate].
      apply dall_map_nofuel. intros kv Hkv. unfold dec_kv. apply dbind_nofuel; [|discriminate].
      apply IH. pose proof (jdepth_obj_in kv am Hkv). lia. }
    destruct mode; [discriminate| |].
    + apply dbind_nofuel; [apply dec_req_nofuel|intros req]. apply dbind_nofuel; [apply dec_annots_nofuel|discriminate].
    + apply dbind_nofuel; [apply dec_annots_nofuel|discriminate].
Qed.

Lemma type_of_raw_eq ty el attrs name :
  type_of_raw (RawTy ty el attrs name) =
  if str_eqb ty (k "String") then DOk XString
  else if str_eqb ty (k "Long") then DOk XLong
  else if str_eqb ty (k "Boolean") then DOk XBool
  else if str_eqb ty (k "Extension") then DOk (XExt name)
  else if str_eqb ty (k "Set") then match el with None => DErr | Some e => dbind (type_of_raw e) (fun t => DOk (XSet t)) end
  else if str_eqb ty (k "Record") then dbind (dall (map type_attr attrs)) (fun fs => DOk (XRec fs))
  else if str_eqb ty (k "Entity") then DOk (XEnt name)
  else if str_eqb ty (k "EntityOrCommon") then DOk (XRef name)
  else DOk (XRef ty).
Proof. rewrite <- type_attrs_fix. reflexivity. Qed.

Lemma type_of_raw_nofuel : forall r, type_of_raw r <> DFuel.
Proof.
  induction r as [ty el attrs name IHel IHattrs] using rawty_ind'. rewrite type_of_raw_eq.
  repeat match goal with |- (if ?c then _ else _) <> _ => destruct c; [try discriminate|] end; try discriminate.
  - destruct el as [e|]; [|discriminate]. cbn [optP] in IHel. apply dbind_nofuel; [exact IHel|discriminate].
  - apply dbind_nofuel; [|discriminate]. apply dall_map_nofuel. intros kv Hkv. rewrite Forall_forall in IHattrs.
    unfold type_attr. apply dbind_nofuel; [apply IHattrs; exact Hkv|discriminate].
Qed.

Lemma dec_type_nofuel j : dec_type j <> DFuel.
Proof. unfold dec_type. apply dbind_nofuel; [apply raw_of_json_nofuel; lia|intros r; apply type_of_raw_nofuel]. Qed.

Lemma raw_opt_nofuel o : raw_opt o <> DFuel.
Proof.
  unfold raw_opt. destruct o as [x|]; [|discriminate].
  destruct x; try discriminate; (apply dbind_nofuel; [apply raw_of_json_nofuel; lia|discriminate]).
Qed.

Lemma dec_entity_type_nofuel j : dec_entity_type j <> DFuel.
Proof.
  destruct j as [| | | | | |m]; try discriminate. unfold dec_entity_type.
  destruct (negb (struct_ok entity_fields m)); [discriminate|].
  apply dbind_nofuel; [apply dec_strs_nofuel|intros parents]. apply dbind_nofuel; [apply dec_annots_nofuel|intros an].
  apply dbind_nofuel; [apply (raw_opt_nofuel (jget (k "shape") m))|intros sr].
  apply dbind_nofuel; [apply (raw_opt_nofuel (jget (k "tags") m))|intros tr].
  destruct (jget (k "enum") m) as [[| | | | |vs|]|]; try discriminate.
  - apply dbind_nofuel; [|intros shape].
    { destruct sr as [[ty el attrs name]|]; [|discriminate]. apply dbind_nofuel; [apply type_of_raw_nofuel|]. intros t. destruct t; discriminate. }
    apply dbind_nofuel; [|discriminate]. destruct tr as [r|]; [|discriminate]. apply dbind_nofuel; [apply type_of_raw_nofuel|discriminate].
  - apply dbind_nofuel; [apply (dec_strs_nofuel (Some (JArr vs)))|discriminate].
  - apply dbind_nofuel; [|intros shape].
    { destruct sr as [[ty el attrs name]|]; [|discriminate]. apply dbind_nofuel; [apply type_of_raw_nofuel|]. intros t. destruct t; discriminate. }
    apply dbind_nofuel; [|discriminate]. destruct tr as [r|]; [|discriminate]. apply dbind_nofuel; [apply type_of_raw_nofuel|discriminate].
Qed.

Lemma dec_parent_nofuel j : dec_parent j <> DFuel.
Proof.
  destruct j as [| | | | | |m]; try discriminate. unfold dec_parent. destruct (negb (struct_ok parent_fields m)); [discriminate|].
  apply dbind_nofuel; [apply sfield_nofuel|intros i]. apply dbind_nofuel; [apply sfield_nofuel|discriminate].
Qed.

Lemma dec_type_opt_nofuel o : dec_type_opt o <> DFuel.
Proof.
  unfold dec_type_opt. destruct o as [x|]; [|discriminate].
  destruct x; try discriminate; (apply dbind_nofuel; [apply dec_type_nofuel|discriminate]).
Qed.

Lemma dec_applies_nofuel j : dec_applies j <> DFuel.
Proof.
  destruct j as [| | | | | |m]; try discriminate. unfold dec_applies. destruct (negb (struct_ok applies_fields m)); [discriminate|].
  apply dbind_nofuel; [apply dec_strs_nofuel|intros ps]. apply dbind_nofuel; [apply dec_strs_nofuel|intros rs].
  apply dbind_nofuel; [apply dec_type_opt_nofuel|discriminate].
Qed.

Lemma dec_action_nofuel j : dec_action j <> DFuel.
Proof.
  destruct j as [| | | | | |m]; try discriminate. unfold dec_action. destruct (negb (struct_ok action_fields m)); [discriminate|].
  apply dbind_nofuel; [|intros ps].
  { destruct (jget (k "memberOf") m) as [[| | | | |l|]|]; try discriminate. apply dall_map_nofuel. intros x _. apply dec_parent_nofuel. }
  apply dbind_nofuel; [|intros ap].
  { destruct (jget (k "appliesTo") m) as [x|]; [|discriminate].
    destruct x; try discriminate; (apply dbind_nofuel; [apply dec_applies_nofuel|discriminate]). }
  apply dbind_nofuel; [apply dec_annots_nofuel|discriminate].
Qed.

Lemma dec_common_nofuel j : dec_common j <> DFuel.
Proof.
  unfold dec_common. apply dbind_nofuel; [apply raw_of_json_nofuel; lia|intros r].
  apply dbind_nofuel; [apply type_of_raw_nofuel|discriminate].
Qed.

Lemma dec_map_nofuel {A} (dec : json -> dres A) o : (forall j, dec j <> DFuel) -> dec_map dec o <> DFuel.
Proof.
  intros H. destruct o as [[| | | | | |m]|]; cbn [dec_map]; try discriminate.
  apply dbind_nofuel; [|discriminate]. apply dall_map_nofuel. intros kv _. apply dbind_nofuel; [apply H|discriminate].
Qed.

Lemma dec_ns_nofuel j : dec_ns j <> DFuel.
Proof.
  destruct j as [| | | | | |m]; try discriminate. unfold dec_ns. destruct (negb (struct_ok ns_fields m)); [discriminate|].
  apply dbind_nofuel; [apply dec_map_nofuel; apply dec_entity_type_nofuel|intros ets].
  apply dbind_nofuel; [apply dec_map_nofuel; apply dec_action_nofuel|intros acts].
  apply dbind_nofuel; [apply dec_map_nofuel; apply dec_common_nofuel|intros cts].
  apply dbind_nofuel; [apply dec_annots_nofuel|intros an]. destruct (split_sum ets). discriminate.
Qed.

Theorem dec_schema_total : forall j, dec_schema j <> DFuel.
Proof.
  intros j. unfold dec_schema. destruct (any_dups (S (jdepth j)) j); [discriminate|].
  destruct j as [| | | | | |m]; try discriminate.
  apply dbind_nofuel; [|discriminate]. apply dall_map_nofuel. intros kv _.
  apply dbind_nofuel; [apply dec_ns_nofuel|discriminate].
Qed.

(* ------------------------------------------------------------------------------------------ *)
(* Part 3: resolution does not see the difference                                              *)
(* ------------------------------------------------------------------------------------------ *)
(* the same normalisation on what the resolver reads *)
Definition sort_parents (e : s_entity) : s_entity :=
  {| se_name := se_name e; se_parents := sort_strs (se_parents e); se_shape := se_shape e; se_tags := se_tags e |}.
Definition norm_s_ns (ns : s_ns) : s_ns :=
  {| sn_name := sn_name ns; sn_entities := map sort_parents (sn_entities ns); sn_enums := sn_enums ns;
     sn_commons := sn_commons ns; sn_actions := sn_actions ns |}.
Definition s_keep (ns : s_ns) : bool :=
  negb (is_nil (sn_name ns)) || negb (is_nil (sn_entities ns) && is_nil (sn_enums ns) && is_nil (sn_actions ns) && is_nil (sn_commons ns)).
Definition norm_s (S : s_schema) : s_schema := map norm_s_ns (filter s_keep S).

Lemma sj_filter_map {A B} (p : B -> bool) (g : A -> B) l : filter p (map g l) = map g (filter (fun x => p (g x)) l).
Proof. induction l as [|x l IH]; [reflexivity|]. cbn [map filter]. rewrite IH. destruct (p (g x)); reflexivity. Qed.

Lemma is_nil_map {A B} (g : A -> B) l : is_nil (map g l) = is_nil l.
Proof. destruct l; reflexivity. Qed.

Lemma erase_norm_schema s : erase (norm_schema s) = norm_s (erase s).
Proof.
  unfold erase, norm_schema, norm_s. rewrite sj_filter_map.
  assert (Hf : filter (fun x => s_keep (erase_ns x)) s = filter ns_keep s).
  { apply filter_ext. intros [name n]. unfold s_keep, ns_keep, has_decls, erase_ns. cbn [fst snd sn_name sn_entities sn_enums sn_commons sn_actions].
    rewrite !is_nil_map. reflexivity. }
  rewrite Hf. unfold mapv. rewrite !map_map. apply map_ext. intros [name n].
  unfold erase_ns, norm_s_ns, norm_ns. cbn [fst snd sn_name sn_entities sn_enums sn_commons sn_actions xs_annots xs_entities xs_enums xs_commons xs_actions].
  f_equal. unfold mapv. rewrite !map_map. reflexivity.
Qed.

Lemma s_keep_false ns : s_keep ns = false ->
  sn_name ns = [] /\ sn_entities ns = [] /\ sn_enums ns = [] /\ sn_commons ns = [] /\ sn_actions ns = [].
Proof.
  unfold s_keep. intros H. apply orb_false_iff in H. destruct H as [H1 H2]. apply negb_false_iff in H1, H2.
  rewrite !andb_true_iff in H2.
  destruct (sn_name ns), (sn_entities ns), (sn_enums ns), (sn_commons ns), (sn_actions ns); cbn in *; try tauto; try discriminate; intuition discriminate.
Qed.

Lemma existsb_nf (Q : s_ns -> bool) S :
  (forall ns, Q (norm_s_ns ns) = Q ns) -> (forall ns, s_keep ns = false -> Q ns = false) -> existsb Q (norm_s S) = existsb Q S.
Proof.
  intros H1 H2. unfold norm_s. induction S as [|ns S IH]; [reflexivity|]. cbn [filter existsb].
  destruct (s_keep ns) eqn:E; [cbn [map existsb]; rewrite H1, IH; reflexivity | rewrite IH, (H2 ns E); reflexivity].
Qed.

Lemma flat_map_nf {B} (F : s_ns -> list B) S :
  (forall ns, F (norm_s_ns ns) = F ns) -> (forall ns, s_keep ns = false -> F ns = []) -> flat_map F (norm_s S) = flat_map F S.
Proof.
  intros H1 H2. unfold norm_s. induction S as [|ns S IH]; [reflexivity|]. cbn [filter flat_map].
  destruct (s_keep ns) eqn:E; [cbn [map flat_map]; rewrite H1, IH; reflexivity | rewrite IH, (H2 ns E); reflexivity].
Qed.

Lemma flat_map_filter {A B} (p : A -> bool) (F : A -> list B) l : flat_map F (filter p l) = flat_map (fun x => if p x then F x else []) l.
Proof. induction l as [|x l IH]; [reflexivity|]. cbn [filter flat_map]. destruct (p x); cbn [flat_map]; rewrite IH; reflexivity. Qed.

Lemma existsb_filter {A} (p q : A -> bool) l : existsb q (filter p l) = existsb (fun x => p x && q x) l.
Proof. induction l as [|x l IH]; [reflexivity|]. cbn [filter existsb]. destruct (p x); cbn [existsb andb]; rewrite IH; reflexivity. Qed.

Lemma map_name_sort l : map se_name (map sort_parents l) = map se_name l.
Proof. rewrite map_map. reflexivity. Qed.

Lemma existsb_map {A B} (q : B -> bool) (g : A -> B) l : existsb q (map g l) = existsb (fun x => q (g x)) l.
Proof. induction l as [|x l IH]; [reflexivity|]. cbn [map existsb]. rewrite IH. reflexivity. Qed.

Lemma register_norm S : register (norm_s S) = register S.
Proof.
  unfold register.
  rewrite (existsb_nf (fun ns => existsb (fun e => mem (se_name e) (sn_enums ns)) (sn_entities ns))).
  2:{ intros ns. cbn [norm_s_ns sn_entities sn_enums]. rewrite existsb_map. reflexivity. }
  2:{ intros ns E. destruct (s_keep_false ns E) as (_ & -> & _). reflexivity. }
  destruct (existsb _ S); [reflexivity|]. f_equal. f_equal.
  - apply flat_map_nf.
    + intros ns. cbn [norm_s_ns sn_entities sn_name]. rewrite map_map. reflexivity.
    + intros ns E. destruct (s_keep_false ns E) as (_ & -> & _). reflexivity.
  - apply flat_map_nf; [reflexivity|]. intros ns E. destruct (s_keep_false ns E) as (_ & _ & -> & _). reflexivity.
  - apply flat_map_nf; [reflexivity|]. intros ns E. destruct (s_keep_false ns E) as (_ & _ & _ & -> & _). reflexivity.
Qed.

Lemma shadowing_norm S : shadowing_ok (norm_s S) = shadowing_ok S.
Proof.
  unfold shadowing_ok. rewrite !flat_map_filter, !existsb_filter. f_equal.
  assert (H1 : flat_map (fun x => if is_nil_str (sn_name x) then map se_name (sn_entities x) ++ sn_enums x ++ map fst (sn_commons x) else []) (norm_s S)
             = flat_map (fun x => if is_nil_str (sn_name x) then map se_name (sn_entities x) ++ sn_enums x ++ map fst (sn_commons x) else []) S).
  { apply flat_map_nf.
    - intros ns. cbn [norm_s_ns sn_entities sn_name sn_enums sn_commons]. rewrite map_name_sort. reflexivity.
    - intros ns E. destruct (s_keep_false ns E) as (_ & -> & -> & -> & _). destruct (is_nil_str (sn_name ns)); reflexivity. }
  assert (H2 : flat_map (fun x => if is_nil_str (sn_name x) then map sac_name (sn_actions x) else []) (norm_s S)
             = flat_map (fun x => if is_nil_str (sn_name x) then map sac_name (sn_actions x) else []) S).
  { apply flat_map_nf; [reflexivity|].
    intros ns E. destruct (s_keep_false ns E) as (_ & _ & _ & _ & ->). destruct (is_nil_str (sn_name ns)); reflexivity. }
  rewrite H1, H2. apply existsb_nf.
  - intros ns. cbn [norm_s_ns sn_entities sn_name sn_enums sn_commons sn_actions]. rewrite map_name_sort. reflexivity.
  - intros ns E. destruct (s_keep_false ns E) as (-> & _). reflexivity.
Qed.

(* ---- resolve_schema with its local functions named ---- *)
Local Notation rent := (str * (list str * option (list (str * (rty * bool))) * option rty))%type.
Local Notation ract := (uid * (list uid * option (list str * list str * list (str * (rty * bool)))))%type.

Definition r_eref (d : decls) (ns r : str) : rres str := match resolve_entity_ref d ns r with Some x => ROk x | None => RErr end.
Definition r_rt (d : decls) (ns : str) (t : sty) : rres rty := resolve_type (resolve_fuel d t) d ns t.
Definition r_ent_rest (d : decls) (ns : str) (e : s_entity) (ps : list str) : rres rent :=
  rbind (match se_shape e with None => ROk None | Some fs => rbind (r_rt d ns (TyRec fs)) (fun r => match r with RRec x => ROk (Some x) | _ => RErr end) end) (fun sh =>
  rbind (match se_tags e with None => ROk None | Some t => rbind (r_rt d ns t) (fun r => ROk (Some r)) end) (fun tg =>
  ROk (qualify ns (se_name e), (ps, sh, tg)))).
Definition r_ent (d : decls) (ns : str) (e : s_entity) : rres rent :=
  rbind (all_ok (r_eref d ns) (se_parents e)) (r_ent_rest d ns e).
Definition r_act (d : decls) (ns : str) (a : s_action) : rres ract :=
  rbind (match sac_applies a with
         | None => ROk None
         | Some ap =>
             rbind (all_ok (r_eref d ns) (sa_principals ap)) (fun pr =>
             rbind (all_ok (r_eref d ns) (sa_resources ap)) (fun rr =>
             rbind (match sa_context ap with
                    | None => ROk []
                    | Some t => rbind (r_rt d ns t) (fun r => match r with RRec x => ROk x | _ => RErr end)
                    end) (fun cx => ROk (Some (pr, rr, cx)))))
         end) (fun ap => ROk (action_uid ns a, (map (parent_uid ns) (sac_parents a), ap))).
Definition r_fin (ce : list rent) (actions : list ract) : verdict :=
  let uids := map fst actions in
  let parents (u : uid) : list uid := match find (fun kv : ract => uid_eqb (fst kv) u) (rev actions) with Some kv => fst (snd kv) | None => [] end in
  if existsb (fun a : ract => existsb (fun p => negb (existsb (uid_eqb p) uids)) (fst (snd a))) actions then VErr else
  let fuel := (S (List.length actions) * S (List.length actions) + 2)%nat in
  match fold_left (fun (st : option (bool * list (uid * nat))) (u : uid) =>
                     match st with
                     | None => None
                     | Some (true, v) => Some (true, v)
                     | Some (false, v) => visit fuel parents u v
                     end) uids (Some (false, [])) with
  | None => VFuel
  | Some (true, _) => VErr
  | Some (false, _) => VOk {| rs_entities := ce; rs_actions := actions |}
  end.

Lemma resolve_schema_eq S :
  resolve_schema S =
  match register S with
  | None => VErr
  | Some d =>
      if negb (shadowing_ok S) then VErr else
      if negb (cycle_free d) then VErr else
      match all_ok (fun ns => all_ok (r_ent d (sn_name ns)) (sn_entities ns)) S, all_ok (fun ns => all_ok (r_act d (sn_name ns)) (sn_actions ns)) S with
      | ROk es, ROk acts => r_fin (List.concat es) (List.concat acts)
      | RFuel, _ | _, RFuel => VFuel
      | _, _ => VErr
      end
  end.
Proof. reflexivity. Qed.

(* ---- relating two runs ---- *)
Definition rrel {A} (R : A -> A -> Prop) (x y : rres A) : Prop :=
  match x, y with ROk a, ROk b => R a b | RErr, RErr => True | RFuel, RFuel => True | _, _ => False end.

Lemma rrel_trans {A} (R : A -> A -> Prop) x y z : (forall a b c, R a b -> R b c -> R a c) -> rrel R x y -> rrel R y z -> rrel R x z.
Proof. intros HR. destruct x, y, z; cbn; try tauto. apply HR. Qed.

Lemma all_ok_cons {A B} (f : A -> rres B) x l : all_ok f (x :: l) = rbind (f x) (fun y => rbind (all_ok f l) (fun ys => ROk (y :: ys))).
Proof. reflexivity. Qed.

Lemma all_ok_perm {A B} (f : A -> rres B) l l' : (forall x, f x <> RFuel) -> Permutation l l' -> rrel (@Permutation B) (all_ok f l) (all_ok f l').
Proof.
  intros Hf HP. induction HP as [|x l l' HP IH|x y l|l l' l'' HP1 IH1 HP2 IH2].
  - cbn. apply perm_nil.
  - rewrite !all_ok_cons. destruct (f x) eqn:Ex; cbn [rbind rrel]; [|exact I|exfalso; exact (Hf x Ex)].
    destruct (all_ok f l), (all_ok f l'); cbn [rbind rrel] in *; try tauto. apply perm_skip. exact IH.
  - rewrite !all_ok_cons. destruct (f x) eqn:Ex; [| |exfalso; exact (Hf x Ex)]; (destruct (f y) eqn:Ey; [| |exfalso; exact (Hf y Ey)]);
      cbn [rbind rrel]; try exact I; destruct (all_ok f l); cbn [rbind rrel]; try exact I. apply perm_swap.
  - eapply rrel_trans; [|exact IH1|exact IH2]. intros a b c. apply Permutation_trans.
Qed.

Lemma all_ok_rel {A B} (f f' : A -> rres B) (E : B -> B -> Prop) (g : A -> A) l :
  (forall x, rrel E (f x) (f' (g x))) -> rrel (Forall2 E) (all_ok f l) (all_ok f' (map g l)).
Proof.
  intros H. induction l as [|x l IH]; [cbn; constructor|]. cbn [map]. rewrite !all_ok_cons.
  specialize (H x). destruct (f x), (f' (g x)); cbn [rbind rrel] in *; try tauto.
  destruct (all_ok f l), (all_ok f' (map g l)); cbn [rbind rrel] in *; try tauto. constructor; assumption.
Qed.

Lemma all_ok_nf {B} (f : s_ns -> rres (list B)) (E : B -> B -> Prop) S :
  (forall ns, rrel (Forall2 E) (f ns) (f (norm_s_ns ns))) -> (forall ns, s_keep ns = false -> f ns = ROk []) ->
  rrel (fun a b => Forall2 E (List.concat a) (List.concat b)) (all_ok f S) (all_ok f (norm_s S)).
Proof.
  intros H1 H2. unfold norm_s. induction S as [|ns S IH]; [cbn; constructor|]. cbn [filter]. rewrite all_ok_cons.
  destruct (s_keep ns) eqn:Ek.
  - cbn [map]. rewrite all_ok_cons. specialize (H1 ns). destruct (f ns), (f (norm_s_ns ns)); cbn [rbind rrel] in *; try tauto.
    destruct (all_ok f S), (all_ok f (map norm_s_ns (filter s_keep S))); cbn [rbind rrel] in *; try tauto.
    cbn [List.concat]. apply Forall2_app; assumption.
  - rewrite (H2 ns Ek). cbn [rbind].
    destruct (all_ok f S), (all_ok f (map norm_s_ns (filter s_keep S))); cbn [rbind rrel] in *; try tauto.
Qed.

(* same entities up to the order of the parents *)
Definition ent_equiv (x y : rent) : Prop :=
  fst x = fst y /\ Permutation (fst (fst (snd x))) (fst (fst (snd y))) /\ snd (fst (snd x)) = snd (fst (snd y)) /\ snd (snd x) = snd (snd y).
Definition resolved_equiv (a b : resolved_summary) : Prop :=
  Forall2 ent_equiv (rs_entities a) (rs_entities b) /\ rs_actions a = rs_actions b.

Lemma r_eref_nofuel d ns x : r_eref d ns x <> RFuel.
Proof. unfold r_eref. destruct (resolve_entity_ref d ns x); discriminate. Qed.

Lemma r_ent_sort d ns e : rrel ent_equiv (r_ent d ns e) (r_ent d ns (sort_parents e)).
Proof.
  unfold r_ent. cbn [sort_parents se_parents].
  pose proof (all_ok_perm (r_eref d ns) _ _ (r_eref_nofuel d ns) (sort_strs_perm (se_parents e))) as HP.
  destruct (all_ok (r_eref d ns) (se_parents e)) as [ps| |], (all_ok (r_eref d ns) (sort_strs (se_parents e))) as [ps'| |];
    cbn [rbind rrel] in *; try tauto.
  unfold r_ent_rest. cbn [sort_parents se_shape se_tags se_name].
  destruct (match se_shape e with None => ROk None | Some fs => _ end) as [sh| |]; cbn [rbind rrel]; try exact I.
  destruct (match se_tags e with None => ROk None | Some t => _ end) as [tg| |]; cbn [rbind rrel]; try exact I.
  unfold ent_equiv. cbn [fst snd]. auto.
Qed.

Lemma Forall2_eq {A} (l l' : list A) : Forall2 eq l l' -> l = l'.
Proof. intros H. induction H as [|x y l l' Hxy _ IH]; [reflexivity|]. subst. reflexivity. Qed.

Lemma rrel_refl {A} (R : A -> A -> Prop) x : (forall a, R a a) -> rrel R x x.
Proof. intros H. destruct x; cbn; auto. Qed.

Lemma Forall2_refl {A} (R : A -> A -> Prop) l : (forall a, R a a) -> Forall2 R l l.
Proof. intros H. induction l; constructor; auto. Qed.

Definition vrel (a b : verdict) : Prop :=
  match a, b with VOk x, VOk y => resolved_equiv x y | VErr, VErr => True | VFuel, VFuel => True | _, _ => False end.

Lemma resolve_norm_s S : vrel (resolve_schema S) (resolve_schema (norm_s S)).
Proof.
  rewrite !resolve_schema_eq, register_norm, shadowing_norm.
  destruct (register S) as [d|]; [|exact I]. destruct (negb (shadowing_ok S)); [exact I|]. destruct (negb (cycle_free d)); [exact I|].
  pose proof (all_ok_nf (fun ns => all_ok (r_ent d (sn_name ns)) (sn_entities ns)) ent_equiv S) as He.
  pose proof (all_ok_nf (fun ns => all_ok (r_act d (sn_name ns)) (sn_actions ns)) eq S) as Ha.
  assert (He' := He). clear He. assert (Ha' := Ha). clear Ha.
  specialize (He' (fun ns => all_ok_rel (r_ent d (sn_name ns)) (r_ent d (sn_name ns)) ent_equiv sort_parents (sn_entities ns) (r_ent_sort d (sn_name ns)))).
  specialize (Ha' (fun ns => rrel_refl _ _ (fun l => Forall2_refl eq l (@eq_refl _)))).
  assert (He0 : forall ns, s_keep ns = false -> all_ok (r_ent d (sn_name ns)) (sn_entities ns) = ROk []).
  { intros ns E. destruct (s_keep_false ns E) as (_ & -> & _). reflexivity. }
  assert (Ha0 : forall ns, s_keep ns = false -> all_ok (r_act d (sn_name ns)) (sn_actions ns) = ROk []).
  { intros ns E. destruct (s_keep_false ns E) as (_ & _ & _ & _ & ->). reflexivity. }
  specialize (He' He0). specialize (Ha' Ha0).
  destruct (all_ok (fun ns => all_ok (r_ent d (sn_name ns)) (sn_entities ns)) S) as [es| |],
           (all_ok (fun ns => all_ok (r_ent d (sn_name ns)) (sn_entities ns)) (norm_s S)) as [es'| |]; cbn [rrel] in He'; try tauto;
  destruct (all_ok (fun ns => all_ok (r_act d (sn_name ns)) (sn_actions ns)) S) as [acts| |],
           (all_ok (fun ns => all_ok (r_act d (sn_name ns)) (sn_actions ns)) (norm_s S)) as [acts'| |]; cbn [rrel] in Ha'; try tauto; try exact I.
  apply Forall2_eq in Ha'. rewrite <- Ha'. unfold r_fin.
  destruct (existsb _ (List.concat acts)); [exact I|].
  destruct (fold_left _ _ _) as [[[|] v]|]; try exact I.
  split; [exact He'|reflexivity].
Qed.

Theorem resolve_norm : forall s, wf_schema s = true ->
  match resolve_schema (erase s), resolve_schema (erase (norm_schema s)) with
  | VOk a, VOk b => resolved_equiv a b
  | VErr, VErr => True
  | _, _ => False
  end.
Proof.
  intros s _. rewrite erase_norm_schema. pose proof (resolve_norm_s (erase s)) as H.
  pose proof (resolve_schema_terminates (erase s)) as T1. pose proof (resolve_schema_terminates (norm_s (erase s))) as T2.
  destruct (resolve_schema (erase s)), (resolve_schema (norm_s (erase s))); cbn [vrel] in H; try tauto; congruence.
Qed.

(* ------------------------------------------------------------------------------------------ *)
(* Examples: what norm_schema changes, and why each clause of wf_schema is there               *)
(* ------------------------------------------------------------------------------------------ *)
Definition ent0 : x_entity := {| xe_annots := []; xe_parents := []; xe_shape := None; xe_tags := None |}.
Definition ns0 : x_ns := {| xs_annots := []; xs_entities := []; xs_enums := []; xs_commons := []; xs_actions := [] |}.

(* parents come back sorted (duplicates kept); an empty bare namespace disappears *)
Example ex_norm :
  let s := [([], ns0); (k "N", {| xs_annots := []; xs_entities := [(k "A", {| xe_annots := []; xe_parents := [k "Z"; k "B"; k "Z"]; xe_shape := None; xe_tags := None |})];
                                  xs_enums := []; xs_commons := []; xs_actions := [] |})] in
  wf_schema s = true /\
  dec_schema (enc_schema s) =
  DOk [(k "N", {| xs_annots := []; xs_entities := [(k "A", {| xe_annots := []; xe_parents := [k "B"; k "Z"; k "Z"]; xe_shape := None; xe_tags := None |})];
                  xs_enums := []; xs_commons := []; xs_actions := [] |})].
Proof. split; vm_compute; reflexivity. Qed.

(* an enumerated type without values, an empty record shape, empty applies-to lists survive *)
Example ex_kept :
  let s := [(k "N", {| xs_annots := [(k "a", [])]; xs_entities := [(k "A", {| xe_annots := []; xe_parents := []; xe_shape := Some []; xe_tags := Some (XRef []) |})];
                       xs_enums := [(k "E", {| xn_annots := []; xn_values := [] |})]; xs_commons := [(k "C", {| xc_annots := []; xc_type := XExt [] |})];
                       xs_actions := [(k "x", {| xac_annots := []; xac_parents := [([], k "y"); ([], k "x")];
                                                 xac_applies := Some {| xa_principals := []; xa_resources := []; xa_context := None |} |})] |})] in
  wf_schema s = true /\ dec_schema (enc_schema s) = DOk s.
Proof. split; vm_compute; reflexivity. Qed.

(* wf clause "no name is both an entity and an enum": the enum wins in the single JSON map *)
Example ex_clash :
  let s := [(k "N", {| xs_annots := []; xs_entities := [(k "A", ent0)]; xs_enums := [(k "A", {| xn_annots := []; xn_values := [k "v"] |})];
                       xs_commons := []; xs_actions := [] |})] in
  wf_schema s = false /\
  dec_schema (enc_schema s) =
  DOk [(k "N", {| xs_annots := []; xs_entities := []; xs_enums := [(k "A", {| xn_annots := []; xn_values := [k "v"] |})]; xs_commons := []; xs_actions := [] |})].
Proof. split; vm_compute; reflexivity. Qed.

(* wf clause "the bare namespace has no annotations" *)
Example ex_bare_annots :
  let s := [([], {| xs_annots := [(k "a", k "b")]; xs_entities := [(k "A", ent0)]; xs_enums := []; xs_commons := []; xs_actions := [] |})] in
  wf_schema s = false /\
  dec_schema (enc_schema s) = DOk [([], {| xs_annots := []; xs_entities := [(k "A", ent0)]; xs_enums := []; xs_commons := []; xs_actions := [] |})].
Proof. split; vm_compute; reflexivity. Qed.

(* wf clause "association lists are key-sorted": attributes (and every other map) come back in key order, a repeated key keeps its last binding *)
Example ex_unsorted :
  let s := [(k "N", {| xs_annots := []; xs_entities := []; xs_enums := [];
                       xs_commons := [(k "C", {| xc_annots := []; xc_type := XRec [(k "b", (XLong, false, [])); (k "a", (XBool, true, [])); (k "b", (XString, false, []))] |})];
                       xs_actions := [] |})] in
  wf_schema s = false /\
  dec_schema (enc_schema s) =
  DOk [(k "N", {| xs_annots := []; xs_entities := []; xs_enums := [];
                  xs_commons := [(k "C", {| xc_annots := []; xc_type := XRec [(k "a", (XBool, true, [])); (k "b", (XString, false, []))] |})];
                  xs_actions := [] |})].
Proof. split; vm_compute; reflexivity. Qed.

Print Assumptions dec_enc_schema.
Print Assumptions norm_idempotent.
Print Assumptions norm_idempotent_gen.
Print Assumptions second_roundtrip.
Print Assumptions second_roundtrip_gen.
Print Assumptions dec_enc_twice.
Print Assumptions dec_schema_total.
Print Assumptions resolve_norm_s.
Print Assumptions resolve_norm.
