(* Constant folding (Impl/Fold.v, model of internal/eval/fold.go) never changes the meaning of an
   expression: for every fold table satisfying the boolean side condition [fold_table_sound], folding
   preserves evaluation exactly (same value or same error) in every environment.  The side conditions
   are checked by computation for the tables generated from the Go source. *)
From Coq Require Import ZArith List Bool String.
Import ListNotations.
From Cedar Require Import Lang.Value Lang.Expr Impl.Like Impl.Eval Generated.Tables Impl.Fold.
Local Open Scope string_scope.

(* ------------------------------------------------------------------------------------------ *)
(* The generated tables satisfy the side conditions                                            *)
(* ------------------------------------------------------------------------------------------ *)

Theorem toeval_table_generated_ok : toeval_table_ok toeval_table = true.
Proof. vm_compute. reflexivity. Qed.

Theorem fold_table_generated_sound : fold_table_sound toeval_table fold_table = true.
Proof. vm_compute. reflexivity. Qed.

(* ------------------------------------------------------------------------------------------ *)
(* Small list lemmas                                                                           *)
(* ------------------------------------------------------------------------------------------ *)

Lemma map_ext_Forall' : forall (A B : Type) (f g : A -> B) (l : list A),
  Forall (fun x => f x = g x) l -> List.map f l = List.map g l.
Proof.
  intros A B f g l H. induction H as [|x l Hx Hl IH]; cbn [List.map].
  - reflexivity.
  - rewrite Hx, IH. reflexivity.
Qed.

Lemma Forall2_refl' : forall (A : Type) (R : A -> A -> Prop),
  (forall x, R x x) -> forall l, Forall2 R l l.
Proof.
  intros A R HR l. induction l as [|x l IH]; constructor; auto.
Qed.

Lemma is_lit_inv : forall a, is_lit a = true -> exists v, a = ELit v.
Proof.
  intros a H. destruct a; cbn [is_lit] in H; try discriminate H. eexists. reflexivity.
Qed.

(* literal children evaluate the same in every environment *)
Lemma map_eval_lits : forall es en, forallb is_lit es = true ->
  List.map (eval en) es = List.map (eval empty_env) es.
Proof.
  intros es en. induction es as [|x es IH]; intros H; cbn [List.map].
  - reflexivity.
  - cbn [forallb] in H. apply andb_true_iff in H as [Hx Hes].
    destruct (is_lit_inv _ Hx) as [v ->]. rewrite (IH Hes). reflexivity.
Qed.

Lemma map_eval_lits_rec : forall (kvs : list (str * expr)) en,
  forallb is_lit (List.map snd kvs) = true ->
  List.map (fun kv => (fst kv, eval en (snd kv))) kvs =
  List.map (fun kv => (fst kv, eval empty_env (snd kv))) kvs.
Proof.
  intros kvs en. induction kvs as [|[k x] kvs IH]; intros H; cbn [List.map].
  - reflexivity.
  - cbn [List.map forallb snd] in H. apply andb_true_iff in H as [Hx Hes].
    destruct (is_lit_inv _ Hx) as [v ->]. rewrite (IH Hes). reflexivity.
Qed.

(* ------------------------------------------------------------------------------------------ *)
(* Facts extracted from the boolean side condition, for an arbitrary table                     *)
(* ------------------------------------------------------------------------------------------ *)

Section FoldSound.
  Variable ftab : list (string * (list string * bool)).
  Hypothesis Hsound : fold_table_sound toeval_table ftab = true.

  Lemma fold_entry_In : forall n cs g, fold_entry ftab n = Some (cs, g) -> In (n, (cs, g)) ftab.
  Proof.
    intros n cs g. unfold fold_entry.
    destruct (find (fun e => String.eqb (fst e) n) ftab) as [[n' [cs' g']]|] eqn:Hf;
      cbn [option_map snd]; intros H; [|discriminate H].
    inversion H; subst cs' g'.
    apply find_some in Hf. destruct Hf as [Hin Heq]. cbn [fst] in Heq.
    apply String.eqb_eq in Heq. subst n'. exact Hin.
  Qed.

  Lemma fold_entry_is_sound : forall n cs g,
    fold_entry ftab n = Some (cs, g) -> fold_entry_sound toeval_table (n, (cs, g)) = true.
  Proof.
    intros n cs g He. apply fold_entry_In in He.
    unfold fold_table_sound in Hsound. rewrite forallb_forall in Hsound.
    exact (Hsound _ He).
  Qed.

  (* a node type that is folded is not environment dependent, and is guarded if it is Access/Has *)
  Lemma folds_facts : forall n, folds ftab n = true ->
    mem_str n env_dependent = false /\
    (mem_str n entity_dependent = true -> guards ftab n = true).
  Proof.
    intros n. unfold folds, guards.
    destruct (fold_entry ftab n) as [[cs g]|] eqn:He; [|intros Hf; discriminate Hf].
    intros Hf. apply negb_true_iff in Hf.
    pose proof (fold_entry_is_sound _ _ _ He) as Hs.
    unfold fold_entry_sound in Hs. cbv beta iota zeta in Hs. rewrite Hf in Hs.
    apply andb_true_iff in Hs. destruct Hs as [Hs H3].
    apply andb_true_iff in Hs. destruct Hs as [_ H2].
    split.
    - apply negb_true_iff in H2. exact H2.
    - intros Hm. rewrite Hm in H3. apply andb_true_iff in H3. destruct H3 as [H3 _]. exact H3.
  Qed.

  (* ---------------------------------------------------------------------------------------- *)
  (* try_fold is meaning preserving as soon as the node is environment irrelevant             *)
  (* ---------------------------------------------------------------------------------------- *)

  Lemma try_fold_ok : forall n kids e,
    (folds ftab n = true -> forallb is_lit kids = true ->
     (guards ftab n = true -> existsb is_entity_lit kids = false) ->
     forall en, eval en e = eval empty_env e) ->
    forall en, eval en (try_fold ftab n kids e) = eval en e.
  Proof.
    intros n kids e H en. unfold try_fold.
    destruct (folds ftab n) eqn:Hf; [|reflexivity].
    destruct (forallb is_lit kids) eqn:Hl; [|reflexivity].
    cbn [andb].
    destruct (negb (guards ftab n && existsb is_entity_lit kids)) eqn:Hg; [|reflexivity].
    destruct (eval empty_env e) as [v|k] eqn:Hev; [|reflexivity].
    cbn [eval].
    assert (Hgd : guards ftab n = true -> existsb is_entity_lit kids = false).
    { intros Hgd. rewrite Hgd in Hg. cbn [andb] in Hg. apply negb_true_iff in Hg. exact Hg. }
    rewrite (H eq_refl eq_refl Hgd en). reflexivity.
  Qed.

  (* environment dependent node types are never folded *)
  Lemma tf_env : forall n kids e, mem_str n env_dependent = true -> try_fold ftab n kids e = e.
  Proof.
    intros n kids e Hm. unfold try_fold.
    destruct (folds ftab n) eqn:Hf; [|reflexivity].
    apply folds_facts in Hf. destruct Hf as [H1 _]. rewrite H1 in Hm. discriminate Hm.
  Qed.

  Lemma tf_un : forall n (C : expr -> expr) a,
    (forall v en, eval en (C (ELit v)) = eval empty_env (C (ELit v))) ->
    forall en, eval en (try_fold ftab n [a] (C a)) = eval en (C a).
  Proof.
    intros n C a HC. apply try_fold_ok. intros _ Hl _ en.
    cbn [forallb] in Hl. apply andb_true_iff in Hl as [Ha _].
    destruct (is_lit_inv _ Ha) as [v ->]. apply HC.
  Qed.

  Lemma tf_bin : forall n (C : expr -> expr -> expr) a b,
    (forall va vb en, eval en (C (ELit va) (ELit vb)) = eval empty_env (C (ELit va) (ELit vb))) ->
    forall en, eval en (try_fold ftab n [a; b] (C a b)) = eval en (C a b).
  Proof.
    intros n C a b HC. apply try_fold_ok. intros _ Hl _ en.
    cbn [forallb] in Hl. apply andb_true_iff in Hl as [Ha Hl]. apply andb_true_iff in Hl as [Hb _].
    destruct (is_lit_inv _ Ha) as [va ->]. destruct (is_lit_inv _ Hb) as [vb ->]. apply HC.
  Qed.

  Lemma tf_tern : forall n (C : expr -> expr -> expr -> expr) a b c,
    (forall va vb vc en, eval en (C (ELit va) (ELit vb) (ELit vc)) =
                         eval empty_env (C (ELit va) (ELit vb) (ELit vc))) ->
    forall en, eval en (try_fold ftab n [a; b; c] (C a b c)) = eval en (C a b c).
  Proof.
    intros n C a b c HC. apply try_fold_ok. intros _ Hl _ en.
    cbn [forallb] in Hl. apply andb_true_iff in Hl as [Ha Hl]. apply andb_true_iff in Hl as [Hb Hl].
    apply andb_true_iff in Hl as [Hc _].
    destruct (is_lit_inv _ Ha) as [va ->]. destruct (is_lit_inv _ Hb) as [vb ->].
    destruct (is_lit_inv _ Hc) as [vc ->]. apply HC.
  Qed.

  Definition non_entity (v : value) : Prop := match v with VEntity _ _ => False | _ => True end.

  (* Access / Has: folded only under the EntityUID guard *)
  Lemma tf_ent : forall n (C : expr -> expr) a,
    mem_str n entity_dependent = true ->
    (forall v en, non_entity v -> eval en (C (ELit v)) = eval empty_env (C (ELit v))) ->
    forall en, eval en (try_fold ftab n [a] (C a)) = eval en (C a).
  Proof.
    intros n C a Hm HC. apply try_fold_ok. intros Hf Hl Hg en.
    destruct (folds_facts _ Hf) as [_ Hgd]. specialize (Hg (Hgd Hm)).
    cbn [forallb] in Hl. apply andb_true_iff in Hl as [Ha _].
    destruct (is_lit_inv _ Ha) as [v ->]. apply HC.
    cbn [existsb is_entity_lit] in Hg.
    destruct v; cbn [non_entity]; try exact I.
    cbn [orb] in Hg. discriminate Hg.
  Qed.

  (* environment irrelevance of Access / Has on non-entity literals *)
  Lemma access_env_irrelevant : forall k v en, non_entity v ->
    eval en (EAccess (ELit v) k) = eval empty_env (EAccess (ELit v) k).
  Proof.
    intros k v en Hv. cbn [eval bindr].
    destruct v; cbn [non_entity] in Hv; try contradiction; reflexivity.
  Qed.

  Lemma has_env_irrelevant : forall k v en, non_entity v ->
    eval en (EHas (ELit v) k) = eval empty_env (EHas (ELit v) k).
  Proof.
    intros k v en Hv. cbn [eval bindr].
    destruct v; cbn [non_entity] in Hv; try contradiction; reflexivity.
  Qed.

  (* ---------------------------------------------------------------------------------------- *)
  (* Main induction                                                                           *)
  (* ---------------------------------------------------------------------------------------- *)

  Ltac bin_case n C IHa IHb en :=
    etransitivity;
    [ exact (tf_bin n C _ _ (fun va vb en' => eq_refl) en)
    | cbn [eval]; rewrite IHa, IHb; reflexivity ].

  Ltac un_case n C IHa en :=
    etransitivity;
    [ exact (tf_un n C _ (fun v en' => eq_refl) en)
    | cbn [eval]; rewrite IHa; reflexivity ].

  Ltac env_case IHa IHb :=
    rewrite tf_env by (vm_compute; reflexivity);
    cbn [eval]; rewrite IHa, IHb; reflexivity.

  Lemma fold_preserves_eval_sec : forall e en, eval en (fold ftab e) = eval en e.
  Proof.
    induction e as
      [ v | x | a b IHa IHb | a b IHa IHb | a IHa | a IHa
      | a b IHa IHb | a b IHa IHb | a b IHa IHb
      | a b IHa IHb | a b IHa IHb
      | a b IHa IHb | a b IHa IHb | a b IHa IHb | a b IHa IHb
      | a b IHa IHb
      | a b IHa IHb | a b IHa IHb | a b IHa IHb | a IHa
      | a k IHa | a k IHa
      | a b IHa IHb | a b IHa IHb
      | a p IHa
      | a ty IHa | a ty b IHa IHb
      | c t f IHc IHt IHf
      | es IHes
      | kvs IHkvs
      | nm args IHargs
      | k ] using expr_ind'; intros en; cbn [fold].
    - reflexivity.
    - reflexivity.
    - bin_case "NodeTypeAnd" EAnd IHa IHb en.
    - bin_case "NodeTypeOr" EOr IHa IHb en.
    - un_case "NodeTypeNot" ENot IHa en.
    - un_case "NodeTypeNegate" ENeg IHa en.
    - bin_case "NodeTypeAdd" EAdd IHa IHb en.
    - bin_case "NodeTypeSub" ESub IHa IHb en.
    - bin_case "NodeTypeMult" EMul IHa IHb en.
    - bin_case "NodeTypeEquals" EEq IHa IHb en.
    - bin_case "NodeTypeNotEquals" ENe IHa IHb en.
    - bin_case "NodeTypeLessThan" ELt IHa IHb en.
    - bin_case "NodeTypeLessThanOrEqual" ELe IHa IHb en.
    - bin_case "NodeTypeGreaterThan" EGt IHa IHb en.
    - bin_case "NodeTypeGreaterThanOrEqual" EGe IHa IHb en.
    - (* In *) env_case IHa IHb.
    - bin_case "NodeTypeContains" EContains IHa IHb en.
    - bin_case "NodeTypeContainsAll" EContainsAll IHa IHb en.
    - bin_case "NodeTypeContainsAny" EContainsAny IHa IHb en.
    - un_case "NodeTypeIsEmpty" EIsEmpty IHa en.
    - (* Access *)
      etransitivity.
      + exact (tf_ent "NodeTypeAccess" (fun x => EAccess x k) _ eq_refl (access_env_irrelevant k) en).
      + cbn [eval]. rewrite IHa. reflexivity.
    - (* Has *)
      etransitivity.
      + exact (tf_ent "NodeTypeHas" (fun x => EHas x k) _ eq_refl (has_env_irrelevant k) en).
      + cbn [eval]. rewrite IHa. reflexivity.
    - (* GetTag *) env_case IHa IHb.
    - (* HasTag *) env_case IHa IHb.
    - un_case "NodeTypeLike" (fun x => ELike x p) IHa en.
    - un_case "NodeTypeIs" (fun x => EIs x ty) IHa en.
    - (* IsIn *) env_case IHa IHb.
    - (* If *)
      etransitivity.
      + exact (tf_tern "NodeTypeIfThenElse" EIf _ _ _ (fun va vb vc en' => eq_refl) en).
      + cbn [eval]. rewrite IHc, IHt, IHf. reflexivity.
    - (* Set *)
      etransitivity.
      + apply try_fold_ok. intros _ Hl _ en'. cbn [eval].
        rewrite (map_eval_lits _ en' Hl). reflexivity.
      + cbn [eval]. rewrite map_map.
        rewrite (map_ext_Forall' _ _ (fun x => eval en (fold ftab x)) (eval en) es).
        * reflexivity.
        * eapply Forall_impl; [|exact IHes]. intros x Hx. apply Hx.
    - (* Record *)
      etransitivity.
      + apply try_fold_ok. intros _ Hl _ en'. cbn [eval].
        rewrite (map_eval_lits_rec _ en' Hl). reflexivity.
      + cbn [eval]. rewrite map_map. cbn [fst snd].
        rewrite (map_ext_Forall' _ _ (fun kv : str * expr => (fst kv, eval en (fold ftab (snd kv))))
                                  (fun kv : str * expr => (fst kv, eval en (snd kv))) kvs).
        * reflexivity.
        * eapply Forall_impl; [|exact IHkvs]. intros kv Hkv. cbv beta in Hkv. rewrite Hkv. reflexivity.
    - (* ExtensionCall *)
      etransitivity.
      + apply try_fold_ok. intros _ Hl _ en'. cbn [eval].
        rewrite (map_eval_lits _ en' Hl). reflexivity.
      + cbn [eval]. rewrite map_map.
        rewrite (map_ext_Forall' _ _ (fun x => eval en (fold ftab x)) (eval en) args).
        * reflexivity.
        * eapply Forall_impl; [|exact IHargs]. intros x Hx. apply Hx.
    - reflexivity.
  Qed.

  (* ---------------------------------------------------------------------------------------- *)
  (* Policies                                                                                 *)
  (* ---------------------------------------------------------------------------------------- *)

  Lemma and_all_cong : forall en es es',
    Forall2 (fun x y => eval en x = eval en y) es es' ->
    forall e e', eval en e = eval en e' -> eval en (and_all e es) = eval en (and_all e' es').
  Proof.
    intros en es es' H. induction H as [|x y l l' Hxy Hl IH]; intros e e' He; cbn [and_all].
    - exact He.
    - cbn [eval]. rewrite He, (IH x y Hxy). reflexivity.
  Qed.

  Lemma nodes_cong : forall en l l',
    Forall2 (fun x y => eval en x = eval en y) l l' ->
    eval en (match l with [] => ELit (VBool true) | e :: es => and_all e es end) =
    eval en (match l' with [] => ELit (VBool true) | e :: es => and_all e es end).
  Proof.
    intros en l l' H. destruct H as [|x y l l' Hxy Hl].
    - reflexivity.
    - apply and_all_cong; assumption.
  Qed.

  Lemma fold_policy_preserves_eval_sec : forall en p,
    eval en (policy_to_expr (fold_policy ftab p)) = eval en (policy_to_expr p).
  Proof.
    intros en p. unfold policy_to_expr, policy_nodes.
    cbn [fold_policy p_principal p_action p_resource p_conds].
    apply nodes_cong. apply Forall2_app.
    - apply Forall2_refl'. intros x. reflexivity.
    - induction (p_conds p) as [|[w c] cs IH]; cbn [List.map].
      + constructor.
      + constructor; [|exact IH]. cbn [fst snd].
        destruct w.
        * apply fold_preserves_eval_sec.
        * cbn [eval]. rewrite fold_preserves_eval_sec. reflexivity.
  Qed.
End FoldSound.

(* ------------------------------------------------------------------------------------------ *)
(* Headline theorems                                                                           *)
(* ------------------------------------------------------------------------------------------ *)

Theorem fold_preserves_eval : forall ftab,
  toeval_table_ok toeval_table = true -> fold_table_sound toeval_table ftab = true ->
  forall en e, eval en (fold ftab e) = eval en e.
Proof.
  intros ftab _ Hs en e. apply fold_preserves_eval_sec. exact Hs.
Qed.

Theorem fold_policy_preserves_outcome : forall ftab,
  toeval_table_ok toeval_table = true -> fold_table_sound toeval_table ftab = true ->
  forall en p, bool_eval en (policy_to_expr (fold_policy ftab p)) = bool_eval en (policy_to_expr p).
Proof.
  intros ftab _ Hs en p. unfold bool_eval.
  rewrite (fold_policy_preserves_eval_sec ftab Hs en p). reflexivity.
Qed.

Corollary fold_generated_preserves_eval : forall en e, eval en (fold fold_table e) = eval en e.
Proof.
  intros en e.
  exact (fold_preserves_eval fold_table toeval_table_generated_ok fold_table_generated_sound en e).
Qed.

Corollary fold_policy_generated_preserves_outcome : forall en p,
  bool_eval en (policy_to_expr (fold_policy fold_table p)) = bool_eval en (policy_to_expr p).
Proof.
  intros en p.
  exact (fold_policy_preserves_outcome fold_table toeval_table_generated_ok fold_table_generated_sound en p).
Qed.

(* The side condition is not vacuous: a table that folds an environment dependent node type is
   rejected, and folding with it really would change meaning. *)
Definition bad_fold_table : list (string * (list string * bool)) :=
  [("NodeTypeIn", (["newInEval"], false))].

Example bad_table_rejected : fold_table_sound toeval_table bad_fold_table = false.
Proof. vm_compute. reflexivity. Qed.

Definition ex_ua : uid := (s_of "User", s_of "a").
Definition ex_ub : uid := (s_of "User", s_of "b").
Definition ex_in : expr := EIn (ELit (VEntity (fst ex_ua) (snd ex_ua))) (ELit (VEntity (fst ex_ub) (snd ex_ub))).
Definition ex_env : env :=
  {| e_store := [(ex_ua, {| e_parents := [ex_ub]; e_attrs := []; e_tags := [] |})];
     e_principal := VBool false; e_action := VBool false; e_resource := VBool false; e_context := VBool false |}.

Example bad_table_changes_meaning :
  fold bad_fold_table ex_in = ELit (VBool false) /\
  eval ex_env ex_in = Ok (VBool true) /\
  eval ex_env (fold bad_fold_table ex_in) = Ok (VBool false).
Proof. vm_compute. repeat split; reflexivity. Qed.

(* ------------------------------------------------------------------------------------------ *)
(* Examples with the generated table                                                           *)
(* ------------------------------------------------------------------------------------------ *)

Example fold_add_1_2 :
  fold fold_table (EAdd (ELit (VLong 1)) (ELit (VLong 2))) = ELit (VLong 3).
Proof. vm_compute. reflexivity. Qed.

Example fold_add_overflow_kept :
  fold fold_table (EAdd (ELit (VLong 9223372036854775807)) (ELit (VLong 1))) =
  EAdd (ELit (VLong 9223372036854775807)) (ELit (VLong 1)).
Proof. vm_compute. reflexivity. Qed.

Example fold_nested :
  fold fold_table (EMul (EAdd (ELit (VLong 1)) (ELit (VLong 2))) (EVar VContext)) =
  EMul (ELit (VLong 3)) (EVar VContext).
Proof. vm_compute. reflexivity. Qed.

Example fold_in_kept :
  fold fold_table (EIn (ELit (VEntity (s_of "User") (s_of "a"))) (ELit (VEntity (s_of "User") (s_of "b")))) =
  EIn (ELit (VEntity (s_of "User") (s_of "a"))) (ELit (VEntity (s_of "User") (s_of "b"))).
Proof. vm_compute. reflexivity. Qed.

Example fold_access_entity_kept :
  fold fold_table (EAccess (ELit (VEntity (s_of "User") (s_of "a"))) (s_of "k")) =
  EAccess (ELit (VEntity (s_of "User") (s_of "a"))) (s_of "k").
Proof. vm_compute. reflexivity. Qed.

Example fold_access_record :
  fold fold_table (EAccess (ELit (VRecord [(s_of "k", VLong 7)])) (s_of "k")) = ELit (VLong 7).
Proof. vm_compute. reflexivity. Qed.

Example fold_has_entity_kept :
  fold fold_table (EHas (ELit (VEntity (s_of "User") (s_of "a"))) (s_of "k")) =
  EHas (ELit (VEntity (s_of "User") (s_of "a"))) (s_of "k").
Proof. vm_compute. reflexivity. Qed.

Example fold_has_record :
  fold fold_table (EHas (ELit (VRecord [(s_of "k", VLong 7)])) (s_of "k")) = ELit (VBool true).
Proof. vm_compute. reflexivity. Qed.

Print Assumptions toeval_table_generated_ok.
Print Assumptions fold_table_generated_sound.
Print Assumptions fold_preserves_eval.
Print Assumptions fold_policy_preserves_outcome.
Print Assumptions fold_generated_preserves_eval.
Print Assumptions fold_policy_generated_preserves_outcome.
