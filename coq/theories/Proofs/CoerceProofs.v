(* Schema-guided coercion (Impl/Coerce.v, the model of x/exp/types/json.go) maps every accepted spelling of a well-typed value to
   that value.

   [spells t v' v]: v' is an accepted spelling of v at a position of declared type t - the value itself, the implicit {"type","id"}
   record for an entity, the literal string for an extension value, member-wise for sets (as SETS: any order, any multiplicity) and
   records (same keys; attributes the type does not declare must be spelled by themselves).

   Headline theorems
     coerce_typed_eq         a value that already conforms to the type is left alone (EQUALITY)
     coerce_spelling         coerce t v' is Cedar-equal (veq, both directions) to v for every spelling v' of a typed canonical v
     coerce_spelling_eq      ... and EQUAL to v when the spelling lists set members in the order of v (spells_ord)
     coerce_spellings_agree  two spellings of the same value coerce to Cedar-equal values
     printed_forms_spell_*   the strings the encoders write for extension values are accepted spellings
     coerce_tags_spelling    the same for the tag values of an entity (coerce_tags)
     coerce_wf               coercion keeps values canonical (no hypothesis on the type)
     coerce_entity_id        a conforming canonical entity is left alone by coerce_entity
     coerce_entity_spelling  an entity whose attributes / tags spell those of a conforming canonical entity is coerced to it
   No hypothesis says that the SPELLING v' is canonical (its sets may list members twice).

   Shape of [spells]: as in the task, except that the record constructor says, member by member, "spelled by itself, OR the key is
   declared with type t and the member spells at t" instead of a match on the lookup (an inductive cannot occur under a match:
   positivity).  Same meaning: sp_record_match (the match formulation is a derived constructor) and sp_record_match_inv (every
   spelling of a record has the match formulation). *)
From Coq Require Import ZArith List Bool Lia Arith String.
Import ListNotations.
From Cedar Require Import Base.Int64 Lang.Value Lang.Expr Impl.Text Impl.Decimal Impl.Duration Impl.Datetime Impl.IPAddr Impl.IPPrint
  Impl.TypeCheck Impl.Coerce Lang.TypeSound
  Proofs.ValueProofs Proofs.DecimalProofs Proofs.DurationProofs Proofs.DatetimeProofs Proofs.IPProofs.
Local Open Scope Z_scope.

(* ------------------------------------------------------------------------------------------ *)
(* The spelling relation                                                                       *)
(* ------------------------------------------------------------------------------------------ *)

Inductive spells : cty -> value -> value -> Prop :=
| sp_same : forall t v, spells t v v
| sp_entity : forall l r ty i,
    rec_get (s_of "type") r = Some (VString ty) -> rec_get (s_of "id") r = Some (VString i) ->
    spells (CEnt l) (VRecord r) (VEntity ty i)
| sp_decimal : forall s z, parse_decimal s = Some z -> spells (CExt (s_of "decimal")) (VString s) (VDecimal z)
| sp_ip : forall s v6 a p, parse_ip s = Some (v6, a, p) -> spells (CExt (s_of "ipaddr")) (VString s) (VIP v6 a p)
| sp_datetime : forall s z, parse_datetime s = Some z -> spells (CExt (s_of "datetime")) (VString s) (VDatetime z)
| sp_duration : forall s z, parse_duration s = Some z -> spells (CExt (s_of "duration")) (VString s) (VDuration z)
| sp_set : forall e l' l,
    Forall (fun x' => exists x, In x l /\ spells e x' x) l' ->
    Forall (fun x => exists x', In x' l' /\ spells e x' x) l ->
    spells (CSet e) (VSet l') (VSet l)
| sp_record : forall attrs kvs' kvs,
    map fst kvs' = map fst kvs ->
    Forall2 (fun kv' kv : str * value =>
               snd kv' = snd kv \/
               exists t q, alookup (fst kv) attrs = Some (t, q) /\ spells t (snd kv') (snd kv)) kvs' kvs ->
    spells (CRec attrs) (VRecord kvs') (VRecord kvs).

(* the record case in the "match" formulation: as a derived constructor and as an inversion (the inductive definition itself cannot
   mention spells under a match: positivity) *)
Definition rec_spells_at (attrs : list (str * (cty * bool))) (kv' kv : str * value) : Prop :=
  match alookup (fst kv) attrs with
  | Some (t, _) => spells t (snd kv') (snd kv)
  | None => snd kv' = snd kv
  end.

Lemma sp_record_match attrs kvs' kvs :
  map fst kvs' = map fst kvs -> Forall2 (rec_spells_at attrs) kvs' kvs ->
  spells (CRec attrs) (VRecord kvs') (VRecord kvs).
Proof.
  intros Hk HF. apply sp_record; [exact Hk|]. clear Hk.
  induction HF as [|kv' kv l' l H _ IH]; constructor; auto.
  unfold rec_spells_at in H. destruct (alookup (fst kv) attrs) as [[t q]|] eqn:E; [right; eauto | left; auto].
Qed.

Lemma Forall2_refl {A} (R : A -> A -> Prop) (l : list A) : (forall x, R x x) -> Forall2 R l l.
Proof. intros HR. induction l as [|x l IH]; constructor; auto. Qed.

Lemma sp_record_match_inv attrs v' kvs :
  spells (CRec attrs) v' (VRecord kvs) ->
  exists kvs', v' = VRecord kvs' /\ map fst kvs' = map fst kvs /\ Forall2 (rec_spells_at attrs) kvs' kvs.
Proof.
  intros Hs. inversion Hs as [t v E1 E2 E3 | | | | | | |attrs0 kvs' kvs0 Hk HF E1 E2 E3]; subst.
  - exists kvs. split; [reflexivity|]. split; [reflexivity|].
    apply Forall2_refl. intros kv. unfold rec_spells_at.
    destruct (alookup (fst kv) attrs) as [[t q]|]; [apply sp_same | reflexivity].
  - exists kvs'. split; [reflexivity|]. split; [exact Hk|]. clear Hk Hs.
    induction HF as [|kv' kv l' l H _ IH]; constructor; auto.
    unfold rec_spells_at. destruct H as [H | (t & q & Ha & H)].
    + rewrite H. destruct (alookup (fst kv) attrs) as [[t q]|]; [apply sp_same | reflexivity].
    + rewrite Ha. exact H.
Qed.

(* ------------------------------------------------------------------------------------------ *)
(* Induction on declared types (nested through the attribute list)                             *)
(* ------------------------------------------------------------------------------------------ *)

Section CtyInd.
  Variable P : cty -> Prop.
  Hypothesis HNever : P CNever.
  Hypothesis HTrue : P CTrue.
  Hypothesis HFalse : P CFalse.
  Hypothesis HBool : P CBool.
  Hypothesis HLong : P CLong.
  Hypothesis HString : P CString.
  Hypothesis HSet : forall e, P e -> P (CSet e).
  Hypothesis HRec : forall attrs, Forall (fun kv : str * (cty * bool) => P (fst (snd kv))) attrs -> P (CRec attrs).
  Hypothesis HEnt : forall l, P (CEnt l).
  Hypothesis HExt : forall n, P (CExt n).

  Fixpoint cty_ind' (t : cty) : P t :=
    match t with
    | CNever => HNever | CTrue => HTrue | CFalse => HFalse | CBool => HBool | CLong => HLong | CString => HString
    | CSet e => HSet e (cty_ind' e)
    | CRec attrs =>
        HRec attrs ((fix go (l : list (str * (cty * bool))) : Forall (fun kv : str * (cty * bool) => P (fst (snd kv))) l :=
                       match l with
                       | [] => Forall_nil _
                       | x :: r => Forall_cons _ (cty_ind' (fst (snd x))) (go r)
                       end) attrs)
    | CEnt l => HEnt l
    | CExt n => HExt n
    end.
End CtyInd.

(* ------------------------------------------------------------------------------------------ *)
(* Unfolding coerce                                                                            *)
(* ------------------------------------------------------------------------------------------ *)

Lemma str_eqb_sym a b : str_eqb a b = str_eqb b a.
Proof.
  destruct (str_eqb a b) eqn:E1; destruct (str_eqb b a) eqn:E2; auto.
  - apply str_eqb_eq in E1. subst. rewrite str_eqb_refl in E2. discriminate.
  - apply str_eqb_eq in E2. subst. rewrite str_eqb_refl in E1. discriminate.
Qed.

Lemma alookup_In {A} k (l : list (str * A)) v : alookup k l = Some v -> In (k, v) l.
Proof.
  induction l as [|[k' v'] l IH]; cbn [alookup]; [discriminate|].
  destruct (str_eqb k' k) eqn:E.
  - intros H. injection H as ->. apply str_eqb_eq in E. subst. left. reflexivity.
  - intros H. right. auto.
Qed.

(* what coerceRecord does to one member *)
Definition coerce_kv (attrs : list (str * (cty * bool))) (kv : str * value) : str * value :=
  match alookup (fst kv) attrs with
  | Some (t, _) => (fst kv, coerce t (snd kv))
  | None => kv
  end.

Lemma coerce_rec attrs kvs : coerce (CRec attrs) (VRecord kvs) = VRecord (map (coerce_kv attrs) kvs).
Proof.
  cbn [coerce]. f_equal. apply map_ext. intros kv. unfold coerce_kv.
  induction attrs as [|[k' [t' q]] r IH]; [reflexivity|].
  cbn [alookup]. rewrite (str_eqb_sym k' (fst kv)).
  destruct (str_eqb (fst kv) k'); [reflexivity | exact IH].
Qed.

Lemma coerce_kv_fst attrs kv : fst (coerce_kv attrs kv) = fst kv.
Proof. unfold coerce_kv. destruct (alookup (fst kv) attrs) as [[t q]|]; reflexivity. Qed.

Lemma coerce_kv_keys attrs kvs : map fst (map (coerce_kv attrs) kvs) = map fst kvs.
Proof. rewrite map_map. apply map_ext. apply coerce_kv_fst. Qed.

Lemma coerce_ext_decimal s :
  coerce_ext (s_of "decimal") (VString s) = match parse_decimal s with Some z => VDecimal z | None => VString s end.
Proof. reflexivity. Qed.
Lemma coerce_ext_ip s :
  coerce_ext (s_of "ipaddr") (VString s) = match parse_ip s with Some (v6, a, p) => VIP v6 a p | None => VString s end.
Proof. reflexivity. Qed.
Lemma coerce_ext_datetime s :
  coerce_ext (s_of "datetime") (VString s) = match parse_datetime s with Some z => VDatetime z | None => VString s end.
Proof. reflexivity. Qed.
Lemma coerce_ext_duration s :
  coerce_ext (s_of "duration") (VString s) = match parse_duration s with Some z => VDuration z | None => VString s end.
Proof. reflexivity. Qed.

(* ------------------------------------------------------------------------------------------ *)
(* Canonical values stay canonical                                                             *)
(* ------------------------------------------------------------------------------------------ *)

Lemma keys_sorted_fst {A B} (l : list (str * A)) (m : list (str * B)) :
  map fst l = map fst m -> keys_sorted l = keys_sorted m.
Proof.
  revert m. induction l as [|[k x] l IH]; intros [|[k' y] m] H; try discriminate; [reflexivity|].
  cbn [map fst] in H. injection H as -> H.
  destruct l as [|[k2 x2] l], m as [|[k3 y3] m]; try discriminate; [reflexivity|].
  change (keys_sorted ((k', x) :: (k2, x2) :: l)) with (str_ltb k' k2 && keys_sorted ((k2, x2) :: l)).
  change (keys_sorted ((k', y) :: (k3, y3) :: m)) with (str_ltb k' k3 && keys_sorted ((k3, y3) :: m)).
  rewrite (IH _ H). cbn [map fst] in H. injection H as -> _. reflexivity.
Qed.

Lemma coerce_uid_wf v : wf_value v = true -> wf_value (coerce_uid v) = true.
Proof.
  intros Hw. destruct v; try exact Hw. unfold coerce_uid.
  destruct (rec_get (s_of "type") l) as [[]|]; try exact Hw.
  destruct (rec_get (s_of "id") l) as [[]|]; try exact Hw. reflexivity.
Qed.

Lemma coerce_ext_wf n v : wf_value v = true -> wf_value (coerce_ext n v) = true.
Proof.
  intros Hw. destruct v; try exact Hw. unfold coerce_ext.
  destruct (nm n "ipaddr"); [destruct (parse_ip s) as [[[v6 a] p]|]; reflexivity|].
  destruct (nm n "decimal"); [destruct (parse_decimal s); reflexivity|].
  destruct (nm n "datetime"); [destruct (parse_datetime s); reflexivity|].
  destruct (nm n "duration"); [destruct (parse_duration s); reflexivity|].
  reflexivity.
Qed.

Theorem coerce_wf : forall t v, wf_value v = true -> wf_value (coerce t v) = true.
Proof.
  induction t as [| | | | | |e IH|attrs IH|l|n] using cty_ind'; intros v Hw; try exact Hw.
  - destruct v; try exact Hw. cbn [coerce]. apply mk_set_wf.
    apply wf_set_inv in Hw. destruct Hw as [_ Hw].
    apply Forall_forall. intros c Hc. apply in_map_iff in Hc. destruct Hc as (x & <- & Hx). auto.
  - destruct v as [| | | | |kvs| | | |]; try exact Hw. rewrite coerce_rec.
    apply wf_rec_inv in Hw. destruct Hw as [Hk Hw].
    rewrite wf_value_record. apply andb_true_iff. split.
    + rewrite (keys_sorted_fst _ kvs); [exact Hk | apply coerce_kv_keys].
    + apply forallb_forall. intros c Hc. apply in_map_iff in Hc. destruct Hc as (kv & <- & Hkv).
      rewrite Forall_forall in Hw. specialize (Hw kv Hkv). unfold coerce_kv.
      destruct (alookup (fst kv) attrs) as [[t q]|] eqn:E; [|exact Hw].
      cbn [snd]. apply alookup_In in E. rewrite Forall_forall in IH. apply (IH _ E). exact Hw.
  - cbn [coerce]. apply coerce_uid_wf. exact Hw.
  - cbn [coerce]. apply coerce_ext_wf. exact Hw.
Qed.

(* ------------------------------------------------------------------------------------------ *)
(* Conforming values are left alone                                                            *)
(* ------------------------------------------------------------------------------------------ *)

Lemma co_dedup_nodup_gen : forall l acc,
  (forall x, In x l -> wf_value x = true) ->
  nodup_veq l = true -> (forall x, In x l -> vmem x acc = false) ->
  dedup l acc = rev acc ++ l.
Proof.
  induction l as [|x l IH]; intros acc Hl Hnd Hfresh; cbn [dedup].
  - rewrite app_nil_r. reflexivity.
  - rewrite (Hfresh x (or_introl eq_refl)).
    cbn [nodup_veq] in Hnd. apply andb_true_iff in Hnd. destruct Hnd as [Hx Hnd].
    apply negb_true_iff in Hx.
    assert (H1 : forall y, In y l -> wf_value y = true) by (intros y Hy; apply Hl; right; exact Hy).
    assert (H3 : forall y, In y l -> vmem y (x :: acc) = false).
    { intros y Hy. rewrite vmem_cons. rewrite (Hfresh y (or_intror Hy)), orb_false_r.
      rewrite veq_sym; [| apply Hl; right; exact Hy | apply Hl; left; reflexivity].
      destruct (veq x y) eqn:E; auto.
      assert (vmem x l = true) by (apply vmem_true_iff; eauto). congruence. }
    rewrite (IH (x :: acc) H1 Hnd H3).
    cbn [rev]. rewrite <- app_assoc. reflexivity.
Qed.

Lemma co_mk_set_wf_id l : wf_value (VSet l) = true -> mk_set l = VSet l.
Proof.
  intros H. apply wf_set_inv in H. destruct H as [Hnd Hw]. unfold mk_set.
  rewrite co_dedup_nodup_gen; auto.
Qed.

Lemma co_map_id_Forall {A} (f : A -> A) l : Forall (fun x => f x = x) l -> map f l = l.
Proof. induction 1 as [|x l Hx _ IH]; cbn [map]; congruence. Qed.

Theorem coerce_typed_eq : forall t v, vtyped v t -> wf_value v = true -> coerce t v = v.
Proof.
  induction t as [| | | | | |e IH|attrs IH|l|n] using cty_ind'; intros v Ht Hw; inversion Ht; subst; try reflexivity.
  - cbn [coerce]. rewrite co_map_id_Forall; [apply co_mk_set_wf_id; exact Hw|].
    apply wf_set_inv in Hw. destruct Hw as [_ Hw].
    match goal with H : Forall (fun v => vtyped v e) _ |- _ => rewrite Forall_forall in H; rename H into Hm end.
    apply Forall_forall. intros x Hx. apply IH; auto.
  - rewrite coerce_rec. f_equal. apply co_map_id_Forall.
    apply wf_rec_inv in Hw. destruct Hw as [_ Hw]. rewrite Forall_forall in Hw, IH.
    match goal with H : Forall _ kvs |- _ => rewrite Forall_forall in H; rename H into Hm end.
    apply Forall_forall. intros kv Hkv. destruct (Hm kv Hkv) as (t & q & Ha & Hv).
    unfold coerce_kv. rewrite Ha. pose proof (IH _ (alookup_In _ _ _ Ha) (snd kv) Hv (Hw kv Hkv)) as E.
    cbn [fst snd] in E. rewrite E. destruct kv; reflexivity.
Qed.

Theorem coerce_typed_id : forall t v, vtyped v t -> wf_value v = true -> veq (coerce t v) v = true.
Proof. intros t v Ht Hw. rewrite (coerce_typed_eq t v Ht Hw). apply veq_refl. Qed.

(* ------------------------------------------------------------------------------------------ *)
(* Rebuilding a set from members that are Cedar-equal to those of a canonical set              *)
(* ------------------------------------------------------------------------------------------ *)

(* whatever the members: in dedup's result no member is Cedar-equal to an EARLIER one (no symmetry of veq needed) *)
Lemma dedup_nodup_rev : forall l acc, nodup_veq acc = true -> nodup_veq (rev (dedup l acc)) = true.
Proof.
  induction l as [|y l IH]; intros acc Hacc; cbn [dedup].
  - rewrite rev_involutive. exact Hacc.
  - destruct (vmem y acc) eqn:E; apply IH; auto.
    cbn [nodup_veq]. rewrite E. exact Hacc.
Qed.

Lemma set_collapse cs l :
  nodup_veq l = true -> (forall x, In x l -> wf_value x = true) ->
  (forall c, In c cs -> exists x, In x l /\ veq c x = true /\ veq x c = true) ->
  (forall x, In x l -> exists c, In c cs /\ veq x c = true) ->
  veq (mk_set cs) (VSet l) = true /\ veq (VSet l) (mk_set cs) = true.
Proof.
  intros Hnd Hw Hcs Hl. unfold mk_set. set (d := dedup cs []).
  assert (Hd : forall c, In c d -> exists x, In x l /\ veq c x = true /\ veq x c = true).
  { intros c Hc. apply dedup_incl in Hc. destruct Hc as [Hc|[]]. auto. }
  assert (Hld : forall x, In x l -> exists c, In c d /\ veq x c = true).
  { intros x Hx. destruct (Hl x Hx) as (c & Hc & Hxc).
    assert (Hm : vmem c d = true).
    { unfold d. rewrite mk_set_vmem. apply vmem_true_iff. exists c. split; [exact Hc | apply veq_refl]. }
    apply vmem_true_iff in Hm. destruct Hm as (c' & Hc' & Hcc').
    exists c'. split; [exact Hc'|]. eapply veq_trans_nowf; eauto. }
  assert (Hndd : nodup_veq (rev d) = true) by (apply dedup_nodup_rev; reflexivity).
  (* |d| <= |l| *)
  assert (L1 : (List.length d <= List.length l)%nat).
  { rewrite <- (rev_length d).
    apply (pigeon (fun c x => veq c x = true /\ veq x c = true) (rev d) l).
    - intros c Hc. apply in_rev in Hc. destruct (Hd c Hc) as (x & Hx & H1 & H2). eauto.
    - apply sep_intro; [exact Hndd|].
      intros a a' b _ _ _ [H1 _] [_ H2]. eapply veq_trans_nowf; eauto. }
  (* |l| <= |d| *)
  assert (L2 : (List.length l <= List.length d)%nat).
  { apply (pigeon (fun x c => veq x c = true) l d); [exact Hld|].
    apply sep_intro; [exact Hnd|].
    intros a a' c Ha Ha' Hc H1 H2.
    destruct (Hd c Hc) as (x & Hx & Hcx & _).
    assert (Hax : veq a x = true) by (eapply veq_trans_nowf; eauto).
    assert (Ha'x : veq a' x = true) by (eapply veq_trans_nowf; eauto).
    rewrite (veq_sym a' x) in Ha'x; auto.
    eapply veq_trans_nowf; eauto. }
  split; apply veq_set_iff; (split; [lia|]).
  - intros c Hc. destruct (Hd c Hc) as (x & Hx & H1 & _). eauto.
  - exact Hld.
Qed.

(* ------------------------------------------------------------------------------------------ *)
(* Every accepted spelling of a typed canonical value is coerced to that value                 *)
(* ------------------------------------------------------------------------------------------ *)

Lemma rec_eqb_coerce attrs
  (IH : forall k t q, In (k, (t, q)) attrs ->
        forall v' v, vtyped v t -> wf_value v = true -> spells t v' v ->
                     veq (coerce t v') v = true /\ veq v (coerce t v') = true) :
  forall kvs' kvs,
    map fst kvs' = map fst kvs ->
    Forall2 (fun kv' kv : str * value =>
               snd kv' = snd kv \/ exists t q, alookup (fst kv) attrs = Some (t, q) /\ spells t (snd kv') (snd kv)) kvs' kvs ->
    Forall (fun kv : str * value => exists t q, alookup (fst kv) attrs = Some (t, q) /\ vtyped (snd kv) t) kvs ->
    Forall (fun kv : str * value => wf_value (snd kv) = true) kvs ->
    rec_eqb (map (coerce_kv attrs) kvs') kvs = true /\ rec_eqb kvs (map (coerce_kv attrs) kvs') = true.
Proof.
  intros kvs' kvs Hk HF. induction HF as [|[k' x'] [k x] l' l H _ IHl]; intros Ht Hw.
  - split; reflexivity.
  - cbn [map fst] in Hk. injection Hk as -> Hk.
    inversion Ht as [|? ? (t & q & Ha & Hv) Ht']; subst. inversion Hw as [|? ? Hwx Hw']; subst.
    cbn [fst snd] in *.
    assert (Hs : spells t x' x).
    { destruct H as [-> | (t2 & q2 & Ha2 & Hs)]; [apply sp_same|]. rewrite Ha in Ha2. injection Ha2 as <- <-. exact Hs. }
    destruct (IH _ _ _ (alookup_In _ _ _ Ha) x' x Hv Hwx Hs) as [E1 E2].
    destruct (IHl Hk Ht' Hw') as [R1 R2].
    cbn [map]. unfold coerce_kv at 1 3. cbn [fst snd]. rewrite Ha. cbn [rec_eqb].
    rewrite str_eqb_refl, E1, E2, R1, R2. split; reflexivity.
Qed.

Theorem coerce_spelling_both : forall t v' v,
  vtyped v t -> wf_value v = true -> spells t v' v ->
  veq (coerce t v') v = true /\ veq v (coerce t v') = true.
Proof.
  induction t as [| | | | | |e IH|attrs IH|l|n] using cty_ind'; intros v' v Ht Hw Hs; inversion Hs; subst;
    try (rewrite (coerce_typed_eq _ _ Ht Hw); split; apply veq_refl).
  - (* sets *)
    match goal with H1 : Forall (fun x' => exists x, In x ?m /\ _) ?m', H2 : Forall (fun x => exists x', In x' ?m' /\ _) ?m |- _ =>
      rename H1 into Hl'; rename H2 into Hl; rename m into lv; rename m' into lv' end.
    rewrite Forall_forall in Hl', Hl.
    inversion Ht as [| | | | | |? ? Hm| | | | |]; subst. rewrite Forall_forall in Hm.
    apply wf_set_inv in Hw. destruct Hw as [Hnd Hw].
    cbn [coerce]. apply set_collapse; auto.
    + intros c Hc. apply in_map_iff in Hc. destruct Hc as (x' & <- & Hx').
      destruct (Hl' x' Hx') as (x & Hx & Hsx). exists x. split; [exact Hx|]. apply IH; auto.
    + intros x Hx. destruct (Hl x Hx) as (x' & Hx' & Hsx). exists (coerce e x'). split; [apply in_map; exact Hx'|].
      apply IH; auto.
  - (* records *)
    inversion Ht as [| | | | | | |? ? Hm _| | | |]; subst.
    apply wf_rec_inv in Hw. destruct Hw as [_ Hw].
    rewrite coerce_rec, !veq_record. apply (rec_eqb_coerce attrs); auto.
    intros k t q Hin. rewrite Forall_forall in IH. apply (IH _ Hin).
  - (* entity uid *)
    cbn [coerce coerce_uid].
    match goal with H1 : rec_get (s_of "type") _ = _, H2 : rec_get (s_of "id") _ = _ |- _ => rewrite H1, H2 end.
    split; apply veq_refl.
  - cbn [coerce]. rewrite coerce_ext_decimal.
    match goal with H1 : parse_decimal _ = _ |- _ => rewrite H1 end. split; apply veq_refl.
  - cbn [coerce]. rewrite coerce_ext_ip.
    match goal with H1 : parse_ip _ = _ |- _ => rewrite H1 end. split; apply veq_refl.
  - cbn [coerce]. rewrite coerce_ext_datetime.
    match goal with H1 : parse_datetime _ = _ |- _ => rewrite H1 end. split; apply veq_refl.
  - cbn [coerce]. rewrite coerce_ext_duration.
    match goal with H1 : parse_duration _ = _ |- _ => rewrite H1 end. split; apply veq_refl.
Qed.

Theorem coerce_spelling : forall t v' v,
  vtyped v t -> wf_value v = true -> spells t v' v -> veq (coerce t v') v = true.
Proof. intros t v' v Ht Hw Hs. apply (coerce_spelling_both t v' v Ht Hw Hs). Qed.

Theorem coerce_spelling_sym : forall t v' v,
  vtyped v t -> wf_value v = true -> spells t v' v -> veq v (coerce t v') = true.
Proof. intros t v' v Ht Hw Hs. apply (coerce_spelling_both t v' v Ht Hw Hs). Qed.

Theorem coerce_spellings_agree : forall t v1 v2 v,
  vtyped v t -> wf_value v = true -> spells t v1 v -> spells t v2 v -> veq (coerce t v1) (coerce t v2) = true.
Proof.
  intros t v1 v2 v Ht Hw H1 H2. apply (veq_trans_nowf _ v).
  - apply coerce_spelling; auto.
  - apply coerce_spelling_sym; auto.
Qed.

(* ------------------------------------------------------------------------------------------ *)
(* The strings the encoders write are accepted spellings                                       *)
(* ------------------------------------------------------------------------------------------ *)

Theorem printed_forms_spell_decimal : forall z, in64 z ->
  spells (CExt (s_of "decimal")) (VString (print_decimal z)) (VDecimal z).
Proof. intros z Hz. apply sp_decimal. apply decimal_roundtrip. exact Hz. Qed.

Theorem printed_forms_spell_duration : forall z, in64 z ->
  spells (CExt (s_of "duration")) (VString (print_duration z)) (VDuration z).
Proof. intros z Hz. apply sp_duration. apply duration_roundtrip. exact Hz. Qed.

Theorem printed_forms_spell_datetime : forall z, in_dt_range z = true ->
  spells (CExt (s_of "datetime")) (VString (print_datetime z)) (VDatetime z).
Proof. intros z Hz. apply sp_datetime. apply datetime_roundtrip. exact Hz. Qed.

Theorem printed_forms_spell_ip : forall v6 a p, ip_ok v6 a p = true ->
  spells (CExt (s_of "ipaddr")) (VString (print_ip v6 a p)) (VIP v6 a p).
Proof. intros v6 a p H. apply sp_ip. apply parse_print_ip. exact H. Qed.

(* hence: the printed form of an extension value is coerced back to it (equality: these values are atomic) *)
Corollary coerce_printed_decimal : forall z, in64 z -> coerce (CExt (s_of "decimal")) (VString (print_decimal z)) = VDecimal z.
Proof. intros z Hz. cbn [coerce]. rewrite coerce_ext_decimal, decimal_roundtrip; auto. Qed.
Corollary coerce_printed_duration : forall z, in64 z -> coerce (CExt (s_of "duration")) (VString (print_duration z)) = VDuration z.
Proof. intros z Hz. cbn [coerce]. rewrite coerce_ext_duration, duration_roundtrip; auto. Qed.
Corollary coerce_printed_datetime : forall z, in_dt_range z = true ->
  coerce (CExt (s_of "datetime")) (VString (print_datetime z)) = VDatetime z.
Proof. intros z Hz. cbn [coerce]. rewrite coerce_ext_datetime, datetime_roundtrip; auto. Qed.
Corollary coerce_printed_ip : forall v6 a p, ip_ok v6 a p = true ->
  coerce (CExt (s_of "ipaddr")) (VString (print_ip v6 a p)) = VIP v6 a p.
Proof. intros v6 a p H. cbn [coerce]. rewrite coerce_ext_ip, parse_print_ip; auto. Qed.

(* ------------------------------------------------------------------------------------------ *)
(* Tags                                                                                        *)
(* ------------------------------------------------------------------------------------------ *)

(* the tag record kvs' spells kvs key by key along the tag type t; every tag value of kvs is typed by t and canonical *)
Theorem coerce_tags_spelling : forall t kvs' kvs,
  map fst kvs' = map fst kvs ->
  Forall2 (fun kv' kv : str * value => spells t (snd kv') (snd kv)) kvs' kvs ->
  Forall (fun kv : str * value => vtyped (snd kv) t /\ wf_value (snd kv) = true) kvs ->
  map fst (coerce_tags (Some t) kvs') = map fst kvs /\
  veq (VRecord (coerce_tags (Some t) kvs')) (VRecord kvs) = true /\
  veq (VRecord kvs) (VRecord (coerce_tags (Some t) kvs')) = true.
Proof.
  intros t kvs' kvs Hk HF Ht. unfold coerce_tags. split.
  - rewrite map_map. cbn [fst]. exact Hk.
  - rewrite !veq_record. revert Hk Ht.
    induction HF as [|[k' x'] [k x] l' l H _ IH]; intros Hk Ht; [split; reflexivity|].
    cbn [map fst] in Hk. injection Hk as -> Hk.
    inversion Ht as [|? ? [Hv Hw] Ht']; subst. cbn [fst snd] in *.
    destruct (coerce_spelling_both t x' x Hv Hw H) as [E1 E2].
    destruct (IH Hk Ht') as [R1 R2].
    cbn [map rec_eqb fst snd]. rewrite str_eqb_refl, E1, E2, R1, R2. split; reflexivity.
Qed.

(* member-wise reading: the tag found under a key of the coerced record is Cedar-equal to the tag of kvs under that key *)
Corollary coerce_tags_get : forall t kvs' kvs k,
  map fst kvs' = map fst kvs ->
  Forall2 (fun kv' kv : str * value => spells t (snd kv') (snd kv)) kvs' kvs ->
  Forall (fun kv : str * value => vtyped (snd kv) t /\ wf_value (snd kv) = true) kvs ->
  match rec_get k (coerce_tags (Some t) kvs'), rec_get k kvs with
  | Some x, Some y => veq x y = true
  | None, None => True
  | _, _ => False
  end.
Proof.
  intros t kvs' kvs k Hk HF Ht. destruct (coerce_tags_spelling t kvs' kvs Hk HF Ht) as (_ & E & _).
  rewrite veq_record in E. exact (rec_eqb_get _ _ E k).
Qed.

Theorem coerce_tags_none : forall kvs, coerce_tags None kvs = kvs.
Proof. reflexivity. Qed.

Theorem coerce_tags_typed_eq : forall t kvs,
  Forall (fun kv : str * value => vtyped (snd kv) t /\ wf_value (snd kv) = true) kvs -> coerce_tags (Some t) kvs = kvs.
Proof.
  intros t kvs H. unfold coerce_tags. apply co_map_id_Forall.
  induction H as [|[k x] l [Hv Hw] _ IH]; constructor; auto.
  cbn [fst snd] in *. rewrite (coerce_typed_eq t x Hv Hw). reflexivity.
Qed.

(* ------------------------------------------------------------------------------------------ *)
(* Equality when the spelling lists set members in the order of the value                      *)
(* ------------------------------------------------------------------------------------------ *)

Inductive spells_ord : cty -> value -> value -> Prop :=
| so_same : forall t v, spells_ord t v v
| so_entity : forall l r ty i,
    rec_get (s_of "type") r = Some (VString ty) -> rec_get (s_of "id") r = Some (VString i) ->
    spells_ord (CEnt l) (VRecord r) (VEntity ty i)
| so_decimal : forall s z, parse_decimal s = Some z -> spells_ord (CExt (s_of "decimal")) (VString s) (VDecimal z)
| so_ip : forall s v6 a p, parse_ip s = Some (v6, a, p) -> spells_ord (CExt (s_of "ipaddr")) (VString s) (VIP v6 a p)
| so_datetime : forall s z, parse_datetime s = Some z -> spells_ord (CExt (s_of "datetime")) (VString s) (VDatetime z)
| so_duration : forall s z, parse_duration s = Some z -> spells_ord (CExt (s_of "duration")) (VString s) (VDuration z)
| so_set : forall e l' l, Forall2 (spells_ord e) l' l -> spells_ord (CSet e) (VSet l') (VSet l)
| so_record : forall attrs kvs' kvs,
    map fst kvs' = map fst kvs ->
    Forall2 (fun kv' kv : str * value =>
               snd kv' = snd kv \/
               exists t q, alookup (fst kv) attrs = Some (t, q) /\ spells_ord t (snd kv') (snd kv)) kvs' kvs ->
    spells_ord (CRec attrs) (VRecord kvs') (VRecord kvs).

Lemma Forall2_In_l {A B} (R : A -> B -> Prop) l' l : Forall2 R l' l -> forall x', In x' l' -> exists x, In x l /\ R x' x.
Proof.
  induction 1 as [|a b l' l H _ IH]; intros x' Hx'; [destruct Hx'|].
  destruct Hx' as [<-|Hx']; [exists b; split; [left; reflexivity | exact H]|].
  destruct (IH x' Hx') as (x & Hx & Hr). exists x. split; [right; exact Hx | exact Hr].
Qed.

Lemma Forall2_In_r {A B} (R : A -> B -> Prop) l' l : Forall2 R l' l -> forall x, In x l -> exists x', In x' l' /\ R x' x.
Proof.
  induction 1 as [|a b l' l H _ IH]; intros x Hx; [destruct Hx|].
  destruct Hx as [<-|Hx]; [exists a; split; [left; reflexivity | exact H]|].
  destruct (IH x Hx) as (x' & Hx' & Hr). exists x'. split; [right; exact Hx' | exact Hr].
Qed.

(* an ordered spelling is a spelling *)
Theorem spells_ord_spells : forall t v' v, spells_ord t v' v -> spells t v' v.
Proof.
  induction t as [| | | | | |e IH|attrs IH|l|n] using cty_ind'; intros v' v Hs; inversion Hs; subst;
    try apply sp_same; try (constructor; assumption).
  - match goal with H : Forall2 (spells_ord e) _ _ |- _ => rename H into HF end.
    apply sp_set; apply Forall_forall.
    + intros x' Hx'. destruct (Forall2_In_l _ _ _ HF x' Hx') as (x & Hx & Hr). eauto.
    + intros x Hx. destruct (Forall2_In_r _ _ _ HF x Hx) as (x' & Hx' & Hr). eauto.
  - match goal with H : Forall2 _ kvs' kvs |- _ => rename H into HF end.
    apply sp_record; [assumption|]. rewrite Forall_forall in IH.
    match goal with H : map fst kvs' = map fst kvs |- _ => clear H end. clear Hs.
    induction HF as [|kv' kv m' m H _ IHm]; constructor; auto.
    destruct H as [H | (t & q & Ha & H)]; [left; exact H|].
    right. exists t, q. split; [exact Ha|]. apply (IH _ (alookup_In _ _ _ Ha)). exact H.
Qed.

Theorem coerce_spelling_eq : forall t v' v,
  vtyped v t -> wf_value v = true -> spells_ord t v' v -> coerce t v' = v.
Proof.
  induction t as [| | | | | |e IH|attrs IH|l|n] using cty_ind'; intros v' v Ht Hw Hs; inversion Hs; subst;
    try (apply coerce_typed_eq; assumption).
  - (* sets *)
    match goal with H : Forall2 (spells_ord e) _ _ |- _ => rename H into HF end.
    inversion Ht as [| | | | | |? ? Hm| | | | |]; subst.
    cbn [coerce]. rewrite <- (co_mk_set_wf_id _ Hw). f_equal.
    apply wf_set_inv in Hw. destruct Hw as [_ Hw]. clear Hs Ht.
    revert Hm Hw. induction HF as [|x' x m' m H _ IHm]; intros Hm Hw; [reflexivity|].
    inversion Hm as [|? ? Hv Hm']; subst. cbn [map]. f_equal.
    + apply IH; auto. apply Hw. left. reflexivity.
    + apply IHm; auto. intros y Hy. apply Hw. right. exact Hy.
  - (* records *)
    match goal with H : Forall2 _ kvs' kvs |- _ => rename H into HF end.
    match goal with H : map fst kvs' = map fst kvs |- _ => rename H into Hk end.
    inversion Ht as [| | | | | | |? ? Hm _| | | |]; subst.
    apply wf_rec_inv in Hw. destruct Hw as [_ Hw].
    rewrite coerce_rec. f_equal. rewrite Forall_forall in IH. clear Hs Ht.
    revert Hk Hm Hw. induction HF as [|[k' x'] [k x] m' m H _ IHm]; intros Hk Hm Hw; [reflexivity|].
    cbn [map fst] in Hk. injection Hk as -> Hk.
    inversion Hm as [|? ? (t & q & Ha & Hv) Hm']; subst. inversion Hw as [|? ? Hwx Hw']; subst.
    cbn [fst snd] in *. cbn [map]. f_equal; [|apply IHm; auto].
    unfold coerce_kv. cbn [fst snd]. rewrite Ha. f_equal.
    pose proof (IH _ (alookup_In _ _ _ Ha)) as IHt. cbn [fst snd] in IHt.
    destruct H as [-> | (t2 & q2 & Ha2 & Hs)]; [apply coerce_typed_eq; assumption|].
    rewrite Ha in Ha2. injection Ha2 as <- <-. apply IHt; assumption.
  - cbn [coerce coerce_uid].
    match goal with H1 : rec_get (s_of "type") _ = _, H2 : rec_get (s_of "id") _ = _ |- _ => rewrite H1, H2 end.
    reflexivity.
  - cbn [coerce]. rewrite coerce_ext_decimal.
    match goal with H1 : parse_decimal _ = _ |- _ => rewrite H1 end. reflexivity.
  - cbn [coerce]. rewrite coerce_ext_ip.
    match goal with H1 : parse_ip _ = _ |- _ => rewrite H1 end. reflexivity.
  - cbn [coerce]. rewrite coerce_ext_datetime.
    match goal with H1 : parse_datetime _ = _ |- _ => rewrite H1 end. reflexivity.
  - cbn [coerce]. rewrite coerce_ext_duration.
    match goal with H1 : parse_duration _ = _ |- _ => rewrite H1 end. reflexivity.
Qed.

(* ------------------------------------------------------------------------------------------ *)
(* Whole entities (coerce_entity)                                                              *)
(* ------------------------------------------------------------------------------------------ *)

Lemma rec_get_In_sorted {A} (l : list (str * A)) k v : keys_sorted l = true -> In (k, v) l -> rec_get k l = Some v.
Proof.
  induction l as [|[k1 v1] l IH]; intros Hs Hin; [destruct Hin|].
  apply keys_sorted_cons in Hs. destruct Hs as [Hlb Hs]. cbn [rec_get].
  destruct Hin as [E|Hin].
  - injection E as -> ->. rewrite str_eqb_refl. reflexivity.
  - destruct (str_eqb k k1) eqn:E; [|auto].
    apply str_eqb_eq in E. subst k1. rewrite (rec_get_lb k l Hs Hlb) in IH. specialize (IH Hs Hin). discriminate.
Qed.

(* a conforming entity (Lang/TypeSound.v entity_ok: what Validator.Entities checks) with canonical attribute and tag records is left alone *)
Theorem coerce_entity_id : forall sch u e,
  entity_ok sch u e -> wf_value (VRecord (e_attrs e)) = true -> wf_value (VRecord (e_tags e)) = true ->
  coerce_entity sch (u, e) = (u, e).
Proof.
  intros sch u e Hok Hwa Hwt. unfold coerce_entity, entity_ok in *. cbn [fst snd] in *.
  destruct (alookup (fst u) (ts_entities sch)) as [te|]; [|reflexivity].
  destruct Hok as (Ha & Htg & _).
  rewrite (coerce_typed_eq _ _ Ha Hwa).
  assert (Et : coerce_tags (te_tags te) (e_tags e) = e_tags e).
  { destruct (te_tags te) as [tg|] eqn:Ett; [|reflexivity].
    apply coerce_tags_typed_eq. apply wf_rec_inv in Hwt. destruct Hwt as [Hks Hwt].
    rewrite Forall_forall in Hwt. apply Forall_forall. intros [k x] Hkx. cbn [snd]. split; [|exact (Hwt _ Hkx)].
    destruct (Htg k x (rec_get_In_sorted _ _ _ Hks Hkx)) as (tg' & E & Hv). injection E as <-. exact Hv. }
  rewrite Et. destruct e; reflexivity.
Qed.

(* an entity whose attribute record and tag values are spellings of those of a conforming canonical entity is coerced to it
   (attributes and tags up to Cedar equality, parents untouched) *)
Theorem coerce_entity_spelling : forall sch u e' e te,
  alookup (fst u) (ts_entities sch) = Some te ->
  spells (CRec (te_shape te)) (VRecord (e_attrs e')) (VRecord (e_attrs e)) ->
  vtyped (VRecord (e_attrs e)) (CRec (te_shape te)) -> wf_value (VRecord (e_attrs e)) = true ->
  match te_tags te with
  | Some tg => map fst (e_tags e') = map fst (e_tags e) /\
               Forall2 (fun kv' kv : str * value => spells tg (snd kv') (snd kv)) (e_tags e') (e_tags e) /\
               Forall (fun kv : str * value => vtyped (snd kv) tg /\ wf_value (snd kv) = true) (e_tags e)
  | None => e_tags e' = e_tags e
  end ->
  fst (coerce_entity sch (u, e')) = u /\
  e_parents (snd (coerce_entity sch (u, e'))) = e_parents e' /\
  veq (VRecord (e_attrs (snd (coerce_entity sch (u, e'))))) (VRecord (e_attrs e)) = true /\
  veq (VRecord (e_tags (snd (coerce_entity sch (u, e'))))) (VRecord (e_tags e)) = true.
Proof.
  intros sch u e' e te Hte Hs Ht Hw Htags. unfold coerce_entity. cbn [fst snd]. rewrite Hte. cbn [fst snd e_parents e_attrs e_tags].
  split; [reflexivity|]. split; [reflexivity|]. split.
  - pose proof (coerce_spelling _ _ _ Ht Hw Hs) as E. rewrite coerce_rec in E |- *. exact E.
  - destruct (te_tags te) as [tg|].
    + destruct Htags as (Hk & HF & Hty). apply (coerce_tags_spelling tg _ _ Hk HF Hty).
    + rewrite coerce_tags_none, Htags. apply veq_refl.
Qed.

(* ------------------------------------------------------------------------------------------ *)
(* Examples                                                                                    *)
(* ------------------------------------------------------------------------------------------ *)

(* the code does not require "type" / "id" to be the ONLY members of an implicit entity reference *)
Example coerce_extra_members :
  coerce (CEnt [s_of "U"]) (VRecord [(s_of "extra", VLong 1); (s_of "id", VString (s_of "a")); (s_of "type", VString (s_of "U"))])
  = VEntity (s_of "U") (s_of "a").
Proof. vm_compute. reflexivity. Qed.

(* a nested case: a record type with a set of entities and a decimal attribute; the spelling lists one member explicitly and once
   more implicitly (they collapse), and spells the decimal by its literal *)
Definition ex_ty : cty :=
  CRec [(s_of "members", (CSet (CEnt [s_of "U"]), true)); (s_of "score", (CExt (s_of "decimal"), true))].
Definition ex_val : value :=
  VRecord [(s_of "members", VSet [VEntity (s_of "U") (s_of "a")]); (s_of "score", VDecimal 15000)].
Definition ex_spelling : value :=
  VRecord [(s_of "members", VSet [VEntity (s_of "U") (s_of "a");
                                  VRecord [(s_of "id", VString (s_of "a")); (s_of "type", VString (s_of "U"))]]);
           (s_of "score", VString (s_of "1.5"))].

Example ex_typed : vtyped ex_val ex_ty.
Proof.
  unfold ex_val, ex_ty. apply vt_record.
  - constructor; [|constructor; [|constructor]].
    + exists (CSet (CEnt [s_of "U"])), true. split; [reflexivity|]. cbn [snd].
      apply vt_set. constructor; [|constructor]. apply vt_entity. left. reflexivity.
    + exists (CExt (s_of "decimal")), true. split; [reflexivity|]. apply vt_decimal.
  - intros k t H. cbn [alookup] in H. cbn [rec_get].
    destruct (str_eqb (s_of "members") k) eqn:E1.
    { apply str_eqb_eq in E1. subst k. eexists. reflexivity. }
    destruct (str_eqb (s_of "score") k) eqn:E2; [|discriminate].
    apply str_eqb_eq in E2. subst k. eexists. reflexivity.
Qed.

Example ex_wf : wf_value ex_val = true.
Proof. vm_compute. reflexivity. Qed.

Example ex_spells : spells ex_ty ex_spelling ex_val.
Proof.
  unfold ex_ty, ex_spelling, ex_val. apply sp_record; [reflexivity|].
  constructor; [|constructor; [|constructor]].
  - right. exists (CSet (CEnt [s_of "U"])), true. split; [reflexivity|]. cbn [snd].
    apply sp_set.
    + constructor; [|constructor; [|constructor]].
      * exists (VEntity (s_of "U") (s_of "a")). split; [left; reflexivity | apply sp_same].
      * exists (VEntity (s_of "U") (s_of "a")). split; [left; reflexivity | apply sp_entity; reflexivity].
    + constructor; [|constructor].
      exists (VEntity (s_of "U") (s_of "a")). split; [left; reflexivity | apply sp_same].
  - right. exists (CExt (s_of "decimal")), true. split; [reflexivity|]. cbn [snd].
    apply sp_decimal. vm_compute. reflexivity.
Qed.

Example ex_coerced : coerce ex_ty ex_spelling = ex_val.
Proof. vm_compute. reflexivity. Qed.

(* the instance of the theorem *)
Example ex_coerced_veq : veq (coerce ex_ty ex_spelling) ex_val = true.
Proof. exact (coerce_spelling _ _ _ ex_typed ex_wf ex_spells). Qed.

(* the result is Cedar-equal, not in general EQUAL, to the value: a set spelled in another order keeps that order *)
Example coerce_spelling_not_eq :
  let t := CSet CLong in let v' := VSet [VLong 2; VLong 1] in let v := VSet [VLong 1; VLong 2] in
  vtyped v t /\ wf_value v = true /\ spells t v' v /\ coerce t v' = VSet [VLong 2; VLong 1] /\ veq (coerce t v') v = true.
Proof.
  cbv zeta. split; [|split; [|split; [|split]]]; try reflexivity.
  - apply vt_set. repeat constructor.
  - apply sp_set.
    + constructor; [|constructor; [|constructor]].
      * exists (VLong 2). split; [right; left; reflexivity | apply sp_same].
      * exists (VLong 1). split; [left; reflexivity | apply sp_same].
    + constructor; [|constructor; [|constructor]].
      * exists (VLong 1). split; [right; left; reflexivity | apply sp_same].
      * exists (VLong 2). split; [left; reflexivity | apply sp_same].
Qed.

(* what is not a spelling is left as it is: a string that is not a literal of the declared extension type, a value of another kind,
   an attribute the record type does not declare *)
Example coerce_leaves_nonconforming :
  coerce (CExt (s_of "decimal")) (VString (s_of "1.23456")) = VString (s_of "1.23456") /\
  coerce (CExt (s_of "decimal")) (VLong 1) = VLong 1 /\
  coerce (CEnt [s_of "U"]) (VRecord [(s_of "id", VLong 1); (s_of "type", VString (s_of "U"))])
    = VRecord [(s_of "id", VLong 1); (s_of "type", VString (s_of "U"))] /\
  coerce (CRec [(s_of "a", (CExt (s_of "decimal"), true))]) (VRecord [(s_of "a", VString (s_of "1.5")); (s_of "b", VString (s_of "1.5"))])
    = VRecord [(s_of "a", VDecimal 15000); (s_of "b", VString (s_of "1.5"))].
Proof. vm_compute. repeat split. Qed.

Print Assumptions coerce_spelling_both.
Print Assumptions coerce_spelling.
Print Assumptions coerce_spelling_sym.
Print Assumptions coerce_spelling_eq.
Print Assumptions spells_ord_spells.
Print Assumptions coerce_typed_eq.
Print Assumptions coerce_typed_id.
Print Assumptions coerce_spellings_agree.
Print Assumptions printed_forms_spell_decimal.
Print Assumptions printed_forms_spell_duration.
Print Assumptions printed_forms_spell_datetime.
Print Assumptions printed_forms_spell_ip.
Print Assumptions coerce_printed_decimal.
Print Assumptions coerce_printed_duration.
Print Assumptions coerce_printed_datetime.
Print Assumptions coerce_printed_ip.
Print Assumptions coerce_tags_spelling.
Print Assumptions coerce_tags_get.
Print Assumptions coerce_tags_typed_eq.
Print Assumptions coerce_wf.
Print Assumptions coerce_entity_id.
Print Assumptions coerce_entity_spelling.
Print Assumptions sp_record_match.
Print Assumptions sp_record_match_inv.
Print Assumptions coerce_extra_members.
Print Assumptions ex_coerced.
Print Assumptions ex_coerced_veq.
Print Assumptions coerce_spelling_not_eq.
Print Assumptions coerce_leaves_nonconforming.
