(* Round trips of the JSON codecs of Request, Diagnostic and Decision (Impl/RequestJson.v) on JSON trees.
   Section hypotheses (as in EntityJsonProofs.v): ord_perm (the member order of an encoded set is some permutation) and ip_roundtrip
   (net/netip's printer is not modelled); both are discharged for the concrete printer at the end of the file (the rq_concrete theorems).
   Request
   - dec_enc_request            : for request_wf requests, decode (encode rq) = a request with the same three uids and a Cedar-equal
                                  (veq both ways) context
   - dec_enc_request_eq         : with the identity member order, decode (encode rq) = rq exactly
   - request_second_encoding    : with the identity member order, encoding what was decoded gives the identical document
   - request_spellings          : every accepted spelling of the three uids decodes to the same request
   - dec_enc_request_canon      : the decoded context is well-formed
   - enc_request_guards         : the encoder output never hits the two document-wide DUnk guards (any_fold_in req_fields, any_dups)
   - dec_request_total          : the decoder never answers DFuel
   - rq_ex_keys_plain_all_fields_insufficient : request_wf must ask for plain keys with respect to req_fields (the request decoder's own
                                  field names); EntityJsonProofs.keys_plain (= with respect to all_fields) is neither sufficient nor necessary
   Diagnostic
   - dec_enc_diagnostic         : for diag_wf diagnostics (every offset / line / column fits 64 bits) decode (encode d) = d exactly,
                                  including when reasons and / or errors are empty (= omitted)
   - diagnostic_second_encoding : corollary
   - enc_diagnostic_guards, dec_diagnostic_total
   - diag_int_range             : a decoded diagnostic never holds an out-of-range int
   - diag_wf_needed             : diag_wf is also necessary for the exact round trip
   Decision
   - dec_enc_decision *)
From Coq Require Import ZArith List Bool Lia Arith String Permutation.
Import ListNotations.
From Cedar Require Import Base.Int64 Base.Json Lang.Value Lang.Expr Impl.IPAddr Impl.IPPrint Impl.ValueJson Impl.PolicyJson
  Impl.EntityJson Impl.RequestJson.
From Cedar Require Import Proofs.ValueProofs Proofs.ValueJsonProofs Proofs.PolicyJsonProofs Proofs.EntityJsonProofs Proofs.IPProofs.
Local Open Scope Z_scope.

(* ------------------------------------------------------------------------------------------ *)
(* Fuel-free version of any_fold_in; keys that are plain with respect to a list of field names  *)
(* ------------------------------------------------------------------------------------------ *)

Section Names.
  Variable names : list string.

  Fixpoint jfold_in (j : json) : bool :=
    match j with
    | JArr l => (fix go (l : list json) : bool := match l with [] => false | x :: r => jfold_in x || go r end) l
    | JObj l => fold_only names l ||
                (fix go (l : list (str * json)) : bool := match l with [] => false | (_, x) :: r => jfold_in x || go r end) l
    | _ => false
    end.

  Lemma jfold_in_arr l : jfold_in (JArr l) = existsb jfold_in l.
  Proof. cbn [jfold_in]. induction l as [|x l IH]; [reflexivity|]. cbn [existsb]. rewrite IH. reflexivity. Qed.

  Lemma jfold_in_obj l : jfold_in (JObj l) = fold_only names l || existsb (fun kv => jfold_in (snd kv)) l.
  Proof.
    cbn [jfold_in]. f_equal. induction l as [|[k' x] l IH]; [reflexivity|]. cbn [existsb snd]. rewrite IH. reflexivity.
  Qed.

  Lemma any_fold_in_jfold : forall f j, (jdepth j <= f)%nat -> any_fold_in names f j = jfold_in j.
  Proof.
    induction f as [|f IH]; intros j Hj.
    - pose proof (jdepth_pos j). lia.
    - destruct j as [| | | | |l|l]; try reflexivity.
      + rewrite jfold_in_arr. cbn [any_fold_in].
        assert (H : forall x, In x l -> (jdepth x <= f)%nat).
        { intros x Hx. pose proof (jdepth_arr_in x l Hx). lia. }
        clear Hj. induction l as [|x l IHl]; [reflexivity|]. cbn [existsb].
        rewrite IH by (apply H; left; reflexivity). rewrite IHl; [reflexivity|].
        intros y Hy. apply H. right. exact Hy.
      + rewrite jfold_in_obj. cbn [any_fold_in]. f_equal.
        assert (H : forall kv, In kv l -> (jdepth (snd kv) <= f)%nat).
        { intros kv Hkv. pose proof (jdepth_obj_in kv l Hkv). lia. }
        clear Hj. induction l as [|x l IHl]; [reflexivity|]. cbn [existsb].
        rewrite IH by (apply H; left; reflexivity). rewrite IHl; [reflexivity|].
        intros y Hy. apply H. right. exact Hy.
  Qed.

  (* exactly a field name, or not a field name even up to case (and without one of the four special characters) *)
  Definition plain_key_in (key : str) : bool :=
    negb (negb (existsb (fun n => str_eqb (k n) key) names) &&
          (existsb (fun n => fold_eq (k n) key) names || has_special key)).

  Fixpoint keys_plain_in (v : value) : bool :=
    match v with
    | VSet l => (fix all (l : list value) : bool := match l with [] => true | x :: l' => keys_plain_in x && all l' end) l
    | VRecord l => (fix all (l : list (str * value)) : bool :=
                      match l with [] => true | (key, x) :: l' => plain_key_in key && keys_plain_in x && all l' end) l
    | _ => true
    end.

  Lemma keys_plain_in_set l : keys_plain_in (VSet l) = forallb keys_plain_in l.
  Proof. cbn [keys_plain_in]. induction l as [|x l IH]; [reflexivity|]. cbn [forallb]. rewrite <- IH. reflexivity. Qed.

  Lemma keys_plain_in_record l :
    keys_plain_in (VRecord l) = forallb (fun kv => plain_key_in (fst kv) && keys_plain_in (snd kv)) l.
  Proof.
    cbn [keys_plain_in]. induction l as [|[key x] l IH]; [reflexivity|]. cbn [forallb fst snd]. rewrite <- IH. reflexivity.
  Qed.

  Lemma fold_only_plain_in (l : list (str * json)) :
    forallb (fun kv => plain_key_in (fst kv)) l = true -> fold_only names l = false.
  Proof.
    intros H. unfold fold_only. apply existsb_false_Forall. apply Forall_forall. intros kv Hkv.
    rewrite forallb_forall in H. specialize (H kv Hkv). unfold plain_key_in in H. apply negb_true_iff in H. exact H.
  Qed.
End Names.

Arguments jfold_in : simpl never.

(* the entity codec's predicate is the instance for its own field names *)
Lemma keys_plain_in_all_fields v : keys_plain_in all_fields v = keys_plain v.
Proof. reflexivity. Qed.

Notation rjfold := (jfold_in req_fields).
Notation djfold := (jfold_in diag_fields).
(* plain with respect to the request decoder's field names *)
Notation rkeys_plain := (keys_plain_in req_fields).

(* ------------------------------------------------------------------------------------------ *)
(* Small helpers                                                                               *)
(* ------------------------------------------------------------------------------------------ *)

Lemma dall_ok_Forall2 {A B} (f : A -> dres B) l : forall rs, dall (map f l) = DOk rs -> Forall2 (fun x r => f x = DOk r) l rs.
Proof.
  induction l as [|x l IH]; intros rs H; cbn [map dall] in H.
  - injection H as <-. constructor.
  - destruct (f x) as [a| | |] eqn:Ex; cbn [dbind] in H; try discriminate.
    destruct (dall (map f l)) as [rs'| | |] eqn:El; cbn [dbind] in H; try discriminate.
    injection H as <-. constructor; [exact Ex | apply IH; reflexivity].
Qed.

Lemma dbind_ok {A B} (x : dres A) (f : A -> dres B) b : dbind x f = DOk b -> exists a, x = DOk a /\ f a = DOk b.
Proof. destruct x as [a| | |]; cbn [dbind]; try discriminate. intros H. exists a. auto. Qed.

(* ------------------------------------------------------------------------------------------ *)
(* The shape of an encoded request, with the four members abstract                              *)
(* ------------------------------------------------------------------------------------------ *)

Definition req_json (jp ja jr jc : json) : json :=
  JObj [(k "principal", jp); (k "action", ja); (k "resource", jr); (k "context", jc)].

Lemma rjfold_req_json jp ja jr jc : rjfold (req_json jp ja jr jc) = rjfold jp || rjfold ja || rjfold jr || rjfold jc.
Proof.
  unfold req_json. rewrite jfold_in_obj.
  replace (fold_only req_fields _) with false by reflexivity.
  cbn [existsb snd orb]. rewrite orb_false_r, !orb_assoc. reflexivity.
Qed.

Lemma jdups_req_json jp ja jr jc : jdups (req_json jp ja jr jc) = jdups jp || jdups ja || jdups jr || jdups jc.
Proof.
  unfold req_json. rewrite jdups_obj.
  replace (has_dups _) with false by reflexivity.
  cbn [existsb snd orb]. rewrite orb_false_r, !orb_assoc. reflexivity.
Qed.

Lemma dec_request_guards j : rjfold j = false -> jdups j = false ->
  any_fold_in req_fields (S (jdepth j)) j = false /\ any_dups (S (jdepth j)) j = false.
Proof. intros H1 H2. rewrite any_fold_in_jfold, any_dups_jdups by lia. auto. Qed.

Lemma dec_request_obj jp ja jr jc :
  rjfold (req_json jp ja jr jc) = false -> jdups (req_json jp ja jr jc) = false ->
  dec_request (req_json jp ja jr jc) =
  dbind (EntityJson.dec_uid jp) (fun p =>
  dbind (EntityJson.dec_uid ja) (fun a =>
  dbind (EntityJson.dec_uid jr) (fun r =>
  dbind (dec_record (Some jc)) (fun c =>
  DOk {| rq_principal := p; rq_action := a; rq_resource := r; rq_context := c |})))).
Proof.
  intros H1 H2. destruct (dec_request_guards _ H1 H2) as [G1 G2].
  unfold dec_request. rewrite G1, G2. reflexivity.
Qed.

(* ------------------------------------------------------------------------------------------ *)
(* The decoders never run out of fuel (there is none)                                          *)
(* ------------------------------------------------------------------------------------------ *)

Lemma uid_member_nofuel key m : uid_member key m <> DFuel.
Proof. unfold uid_member. destruct (jget (k key) m); [apply dec_uid_nofuel | discriminate]. Qed.

Theorem dec_request_total : forall j, dec_request j <> DFuel.
Proof.
  intros j. unfold dec_request.
  destruct (any_fold_in req_fields (S (jdepth j)) j); [discriminate|].
  destruct (any_dups (S (jdepth j)) j); [discriminate|].
  destruct j as [| | | | | |m]; try discriminate.
  apply dbind_nofuel; [apply uid_member_nofuel|]. intros p.
  apply dbind_nofuel; [apply uid_member_nofuel|]. intros a.
  apply dbind_nofuel; [apply uid_member_nofuel|]. intros r.
  apply dbind_nofuel; [apply dec_record_nofuel|]. intros c. discriminate.
Qed.

Lemma ifield_nofuel key m : ifield key m <> DFuel.
Proof. unfold ifield. destruct (jget (k key) m) as [[| |z| | | |]|]; try discriminate. destruct (in64b z); discriminate. Qed.

Lemma dec_position_nofuel j : dec_position j <> DFuel.
Proof.
  unfold dec_position. destruct j as [[| | | | | |m]|]; try discriminate.
  apply dbind_nofuel; [apply sfield_nofuel|]. intros f.
  apply dbind_nofuel; [apply ifield_nofuel|]. intros o.
  apply dbind_nofuel; [apply ifield_nofuel|]. intros l.
  apply dbind_nofuel; [apply ifield_nofuel|]. intros c. discriminate.
Qed.

Lemma dec_reason_nofuel j : dec_reason j <> DFuel.
Proof.
  unfold dec_reason. destruct j as [| | | | | |m]; try discriminate.
  apply dbind_nofuel; [apply sfield_nofuel|]. intros id.
  apply dbind_nofuel; [apply dec_position_nofuel|]. intros p. discriminate.
Qed.

Lemma dec_derror_nofuel j : dec_derror j <> DFuel.
Proof.
  unfold dec_derror. destruct j as [| | | | | |m]; try discriminate.
  apply dbind_nofuel; [apply sfield_nofuel|]. intros id.
  apply dbind_nofuel; [apply dec_position_nofuel|]. intros p.
  apply dbind_nofuel; [apply sfield_nofuel|]. intros msg. discriminate.
Qed.

Lemma dec_list_nofuel {A} (f : json -> dres A) j : (forall x, f x <> DFuel) -> dec_list f j <> DFuel.
Proof.
  intros Hf. unfold dec_list. destruct j as [[| | | | |l|]|]; try discriminate.
  apply dall_nofuel. apply Forall_forall. intros x Hx. apply in_map_iff in Hx. destruct Hx as (y & <- & _). apply Hf.
Qed.

Theorem dec_diagnostic_total : forall j, dec_diagnostic j <> DFuel.
Proof.
  intros j. unfold dec_diagnostic.
  destruct (any_fold_in diag_fields (S (jdepth j)) j); [discriminate|].
  destruct (any_dups (S (jdepth j)) j); [discriminate|].
  destruct j as [| | | | | |m]; try discriminate.
  apply dbind_nofuel; [apply dec_list_nofuel; apply dec_reason_nofuel|]. intros rs.
  apply dbind_nofuel; [apply dec_list_nofuel; apply dec_derror_nofuel|]. intros es. discriminate.
Qed.

(* ------------------------------------------------------------------------------------------ *)
(* Decision                                                                                    *)
(* ------------------------------------------------------------------------------------------ *)

Theorem dec_enc_decision : forall b, dec_decision (enc_decision b) = b.
Proof. intros [|]; reflexivity. Qed.

(* ------------------------------------------------------------------------------------------ *)
(* Diagnostic                                                                                  *)
(* ------------------------------------------------------------------------------------------ *)

Definition pos_wfb (p : position) : bool := in64b (ps_offset p) && in64b (ps_line p) && in64b (ps_column p).
Definition diag_wfb (d : diagnostic) : bool :=
  forallb (fun r => pos_wfb (rs_pos r)) (dg_reasons d) && forallb (fun e => pos_wfb (de_pos e)) (dg_errors d).
(* every offset / line / column of every reason and error fits 64 bits; nothing else *)
Definition diag_wf (d : diagnostic) : Prop := diag_wfb d = true.

Lemma pos_wfb_spec p : pos_wfb p = true <-> in64 (ps_offset p) /\ in64 (ps_line p) /\ in64 (ps_column p).
Proof. unfold pos_wfb. rewrite !andb_true_iff, !in64b_spec. tauto. Qed.

Lemma diag_wf_spec d : diag_wf d <->
  (forall r, In r (dg_reasons d) -> in64 (ps_offset (rs_pos r)) /\ in64 (ps_line (rs_pos r)) /\ in64 (ps_column (rs_pos r))) /\
  (forall e, In e (dg_errors d) -> in64 (ps_offset (de_pos e)) /\ in64 (ps_line (de_pos e)) /\ in64 (ps_column (de_pos e))).
Proof.
  unfold diag_wf, diag_wfb. rewrite andb_true_iff, !forallb_forall. split.
  - intros [H1 H2]. split; intros x Hx; apply pos_wfb_spec; auto.
  - intros [H1 H2]. split; intros x Hx; apply pos_wfb_spec; auto.
Qed.

(* ---- one position / reason / error ---- *)

Lemma dec_enc_position p : pos_wfb p = true -> dec_position (Some (enc_position p)) = DOk p.
Proof.
  destruct p as [f o l c]. unfold pos_wfb. cbn [ps_offset ps_line ps_column]. rewrite !andb_true_iff. intros [[Ho Hl] Hc].
  unfold enc_position. cbn [ps_file ps_offset ps_line ps_column].
  change (dec_position (Some (JObj [(k "filename", JStr f); (k "offset", JNum o); (k "line", JNum l); (k "column", JNum c)])))
    with (dbind (DOk f) (fun f' => dbind (if in64b o then DOk o else DErr) (fun o' =>
          dbind (if in64b l then DOk l else DErr) (fun l' => dbind (if in64b c then DOk c else DErr) (fun c' =>
          DOk {| ps_file := f'; ps_offset := o'; ps_line := l'; ps_column := c' |}))))).
  rewrite Ho, Hl, Hc. reflexivity.
Qed.

Lemma dec_reason_shape id jp :
  dec_reason (JObj [(k "policy", JStr id); (k "position", jp)]) =
  dbind (dec_position (Some jp)) (fun p => DOk {| rs_policy := id; rs_pos := p |}).
Proof. reflexivity. Qed.

Lemma dec_derror_shape id jp msg :
  dec_derror (JObj [(k "policy", JStr id); (k "position", jp); (k "message", JStr msg)]) =
  dbind (dec_position (Some jp)) (fun p => DOk {| de_policy := id; de_pos := p; de_message := msg |}).
Proof. reflexivity. Qed.

Lemma dec_enc_reason r : pos_wfb (rs_pos r) = true -> dec_reason (enc_reason r) = DOk r.
Proof.
  destruct r as [id p]. cbn [rs_pos]. intros Hp. unfold enc_reason. cbn [rs_policy rs_pos].
  rewrite dec_reason_shape, (dec_enc_position p Hp). reflexivity.
Qed.

Lemma dec_enc_derror e : pos_wfb (de_pos e) = true -> dec_derror (enc_derror e) = DOk e.
Proof.
  destruct e as [id p msg]. cbn [de_pos]. intros Hp. unfold enc_derror. cbn [de_policy de_pos de_message].
  rewrite dec_derror_shape, (dec_enc_position p Hp). reflexivity.
Qed.

Lemma dec_enc_reasons l : forallb (fun r => pos_wfb (rs_pos r)) l = true -> dall (map dec_reason (map enc_reason l)) = DOk l.
Proof.
  intros H. rewrite map_map. rewrite (dall_map_ok _ (fun x => x)); [rewrite map_id; reflexivity|].
  apply Forall_forall. intros r Hr. rewrite forallb_forall in H. apply dec_enc_reason. apply H. exact Hr.
Qed.

Lemma dec_enc_derrors l : forallb (fun e => pos_wfb (de_pos e)) l = true -> dall (map dec_derror (map enc_derror l)) = DOk l.
Proof.
  intros H. rewrite map_map. rewrite (dall_map_ok _ (fun x => x)); [rewrite map_id; reflexivity|].
  apply Forall_forall. intros e He. rewrite forallb_forall in H. apply dec_enc_derror. apply H. exact He.
Qed.

(* ---- the two document-wide guards on the encoder's output: all keys are literal field names, strings and numbers are leaves ---- *)

Lemma djfold_enc_reason r : djfold (enc_reason r) = false.
Proof. reflexivity. Qed.
Lemma djfold_enc_derror e : djfold (enc_derror e) = false.
Proof. reflexivity. Qed.
Lemma jdups_enc_reason r : jdups (enc_reason r) = false.
Proof. reflexivity. Qed.
Lemma jdups_enc_derror e : jdups (enc_derror e) = false.
Proof. reflexivity. Qed.

Lemma djfold_reasons l : djfold (JArr (map enc_reason l)) = false.
Proof. rewrite jfold_in_arr. apply ej_existsb_map_false. intros r _. apply djfold_enc_reason. Qed.
Lemma djfold_derrors l : djfold (JArr (map enc_derror l)) = false.
Proof. rewrite jfold_in_arr. apply ej_existsb_map_false. intros e _. apply djfold_enc_derror. Qed.
Lemma jdups_reasons l : jdups (JArr (map enc_reason l)) = false.
Proof. rewrite jdups_arr. apply ej_existsb_map_false. intros r _. apply jdups_enc_reason. Qed.
Lemma jdups_derrors l : jdups (JArr (map enc_derror l)) = false.
Proof. rewrite jdups_arr. apply ej_existsb_map_false. intros e _. apply jdups_enc_derror. Qed.

(* the four shapes of an encoded diagnostic *)
Lemma enc_diagnostic_cases d :
  (dg_reasons d = [] /\ dg_errors d = [] /\ enc_diagnostic d = JObj []) \/
  (dg_reasons d <> [] /\ dg_errors d = [] /\ enc_diagnostic d = JObj [(k "reasons", JArr (map enc_reason (dg_reasons d)))]) \/
  (dg_reasons d = [] /\ dg_errors d <> [] /\ enc_diagnostic d = JObj [(k "errors", JArr (map enc_derror (dg_errors d)))]) \/
  (dg_reasons d <> [] /\ dg_errors d <> [] /\
   enc_diagnostic d = JObj [(k "reasons", JArr (map enc_reason (dg_reasons d))); (k "errors", JArr (map enc_derror (dg_errors d)))]).
Proof.
  destruct d as [[|r rs] [|e es]]; unfold enc_diagnostic; cbn [dg_reasons dg_errors app].
  - left. auto.
  - right. right. left. split; [reflexivity|]. split; [discriminate | reflexivity].
  - right. left. split; [discriminate|]. split; reflexivity.
  - right. right. right. split; [discriminate|]. split; [discriminate | reflexivity].
Qed.

Lemma djfold_enc_diagnostic d : djfold (enc_diagnostic d) = false.
Proof.
  destruct (enc_diagnostic_cases d) as [(_ & _ & ->) | [(_ & _ & ->) | [(_ & _ & ->) | (_ & _ & ->)]]].
  - reflexivity.
  - rewrite jfold_in_obj. replace (fold_only diag_fields _) with false by reflexivity.
    cbn [existsb snd orb]. rewrite djfold_reasons. reflexivity.
  - rewrite jfold_in_obj. replace (fold_only diag_fields _) with false by reflexivity.
    cbn [existsb snd orb]. rewrite djfold_derrors. reflexivity.
  - rewrite jfold_in_obj. replace (fold_only diag_fields _) with false by reflexivity.
    cbn [existsb snd orb]. rewrite djfold_reasons, djfold_derrors. reflexivity.
Qed.

Lemma jdups_enc_diagnostic d : jdups (enc_diagnostic d) = false.
Proof.
  destruct (enc_diagnostic_cases d) as [(_ & _ & ->) | [(_ & _ & ->) | [(_ & _ & ->) | (_ & _ & ->)]]].
  - reflexivity.
  - rewrite jdups_obj. replace (has_dups _) with false by reflexivity.
    cbn [existsb snd orb]. rewrite jdups_reasons. reflexivity.
  - rewrite jdups_obj. replace (has_dups _) with false by reflexivity.
    cbn [existsb snd orb]. rewrite jdups_derrors. reflexivity.
  - rewrite jdups_obj. replace (has_dups _) with false by reflexivity.
    cbn [existsb snd orb]. rewrite jdups_reasons, jdups_derrors. reflexivity.
Qed.

(* the encoder output never hits the two document-wide DUnk guards of the decoder (no premise at all) *)
Theorem enc_diagnostic_guards : forall d,
  any_fold_in diag_fields (S (jdepth (enc_diagnostic d))) (enc_diagnostic d) = false /\
  any_dups (S (jdepth (enc_diagnostic d))) (enc_diagnostic d) = false.
Proof.
  intros d. rewrite any_fold_in_jfold, any_dups_jdups by lia. split; [apply djfold_enc_diagnostic | apply jdups_enc_diagnostic].
Qed.

Lemma dec_diagnostic_obj m :
  djfold (JObj m) = false -> jdups (JObj m) = false ->
  dec_diagnostic (JObj m) =
  dbind (dec_list dec_reason (jget (k "reasons") m)) (fun rs => dbind (dec_list dec_derror (jget (k "errors") m)) (fun es =>
  DOk {| dg_reasons := rs; dg_errors := es |})).
Proof.
  intros H1 H2. unfold dec_diagnostic. rewrite any_fold_in_jfold, any_dups_jdups by lia. rewrite H1, H2. reflexivity.
Qed.

(* exact equality, including when reasons and / or errors are empty (= omitted by the encoder) *)
Theorem dec_enc_diagnostic : forall d, diag_wf d -> dec_diagnostic (enc_diagnostic d) = DOk d.
Proof.
  intros d Hw. unfold diag_wf, diag_wfb in Hw. apply andb_true_iff in Hw. destruct Hw as [Hr He].
  pose proof (djfold_enc_diagnostic d) as G1. pose proof (jdups_enc_diagnostic d) as G2.
  pose proof (dec_enc_reasons _ Hr) as Dr. pose proof (dec_enc_derrors _ He) as De.
  destruct d as [rs es]. cbn [dg_reasons dg_errors] in *.
  destruct (enc_diagnostic_cases {| dg_reasons := rs; dg_errors := es |}) as [(E1 & E2 & E) | [(E1 & E2 & E) | [(E1 & E2 & E) | (E1 & E2 & E)]]];
    cbn [dg_reasons dg_errors] in E1, E2, E; rewrite E in *; rewrite (dec_diagnostic_obj _ G1 G2).
  - subst rs es. reflexivity.
  - subst es.
    change (jget (k "reasons") [(k "reasons", JArr (map enc_reason rs))]) with (Some (JArr (map enc_reason rs))).
    change (jget (k "errors") [(k "reasons", JArr (map enc_reason rs))]) with (@None json).
    cbn [dec_list]. rewrite Dr. reflexivity.
  - subst rs.
    change (jget (k "reasons") [(k "errors", JArr (map enc_derror es))]) with (@None json).
    change (jget (k "errors") [(k "errors", JArr (map enc_derror es))]) with (Some (JArr (map enc_derror es))).
    cbn [dec_list]. rewrite De. reflexivity.
  - change (jget (k "reasons") [(k "reasons", JArr (map enc_reason rs)); (k "errors", JArr (map enc_derror es))])
      with (Some (JArr (map enc_reason rs))).
    change (jget (k "errors") [(k "reasons", JArr (map enc_reason rs)); (k "errors", JArr (map enc_derror es))])
      with (Some (JArr (map enc_derror es))).
    cbn [dec_list]. rewrite Dr, De. reflexivity.
Qed.

Theorem diagnostic_second_encoding : forall d d', diag_wf d ->
  dec_diagnostic (enc_diagnostic d) = DOk d' -> enc_diagnostic d' = enc_diagnostic d.
Proof. intros d d' Hw Hd. rewrite (dec_enc_diagnostic d Hw) in Hd. injection Hd as <-. reflexivity. Qed.

(* ---- a decoded diagnostic never holds an out-of-range int (no silent wrap) ---- *)

Lemma ifield_range key m z : ifield key m = DOk z -> in64b z = true.
Proof.
  unfold ifield. destruct (jget (k key) m) as [[| |z'| | | |]|]; try discriminate.
  - intros H. injection H as <-. reflexivity.
  - destruct (in64b z') eqn:E; [|discriminate]. intros H. injection H as <-. exact E.
  - intros H. injection H as <-. reflexivity.
Qed.

Lemma dec_position_range j p : dec_position j = DOk p -> pos_wfb p = true.
Proof.
  unfold dec_position. destruct j as [[| | | | | |m]|]; try discriminate.
  - intros H. injection H as <-. reflexivity.
  - intros H.
    apply dbind_ok in H. destruct H as (f & _ & H).
    apply dbind_ok in H. destruct H as (o & Ho & H).
    apply dbind_ok in H. destruct H as (l & Hl & H).
    apply dbind_ok in H. destruct H as (c & Hc & H).
    injection H as <-. unfold pos_wfb. cbn [ps_offset ps_line ps_column].
    rewrite (ifield_range _ _ _ Ho), (ifield_range _ _ _ Hl), (ifield_range _ _ _ Hc). reflexivity.
  - intros H. injection H as <-. reflexivity.
Qed.

Lemma dec_reason_range j r : dec_reason j = DOk r -> pos_wfb (rs_pos r) = true.
Proof.
  unfold dec_reason. destruct j as [| | | | | |m]; try discriminate.
  - intros H. injection H as <-. reflexivity.
  - intros H.
    apply dbind_ok in H. destruct H as (id & _ & H).
    apply dbind_ok in H. destruct H as (p & Hp & H).
    injection H as <-. cbn [rs_pos]. eapply dec_position_range. exact Hp.
Qed.

Lemma dec_derror_range j e : dec_derror j = DOk e -> pos_wfb (de_pos e) = true.
Proof.
  unfold dec_derror. destruct j as [| | | | | |m]; try discriminate.
  - intros H. injection H as <-. reflexivity.
  - intros H.
    apply dbind_ok in H. destruct H as (id & _ & H).
    apply dbind_ok in H. destruct H as (p & Hp & H).
    apply dbind_ok in H. destruct H as (msg & _ & H).
    injection H as <-. cbn [de_pos]. eapply dec_position_range. exact Hp.
Qed.

Lemma dec_list_range {A} (f : json -> dres A) (ok : A -> bool) j l :
  (forall x a, f x = DOk a -> ok a = true) -> dec_list f j = DOk l -> forallb ok l = true.
Proof.
  intros Hf. unfold dec_list. destruct j as [[| | | | |js|]|]; try discriminate.
  - intros H. injection H as <-. reflexivity.
  - intros H. apply dall_ok_Forall2 in H. induction H as [|x a js l Hx _ IH]; [reflexivity|].
    cbn [forallb]. rewrite (Hf _ _ Hx), IH. reflexivity.
  - intros H. injection H as <-. reflexivity.
Qed.

Theorem diag_int_range : forall j d, dec_diagnostic j = DOk d -> diag_wf d.
Proof.
  intros j d. unfold dec_diagnostic.
  destruct (any_fold_in diag_fields (S (jdepth j)) j); [discriminate|].
  destruct (any_dups (S (jdepth j)) j); [discriminate|].
  destruct j as [| | | | | |m]; try discriminate.
  - intros H. injection H as <-. reflexivity.
  - intros H.
    apply dbind_ok in H. destruct H as (rs & Hrs & H).
    apply dbind_ok in H. destruct H as (es & Hes & H).
    injection H as <-. unfold diag_wf, diag_wfb. cbn [dg_reasons dg_errors].
    rewrite (dec_list_range dec_reason (fun r => pos_wfb (rs_pos r)) _ _ dec_reason_range Hrs).
    rewrite (dec_list_range dec_derror (fun e => pos_wfb (de_pos e)) _ _ dec_derror_range Hes). reflexivity.
Qed.

(* hence diag_wf is exactly the domain of the exact round trip *)
Corollary diag_wf_needed : forall d, dec_diagnostic (enc_diagnostic d) = DOk d -> diag_wf d.
Proof. intros d H. eapply diag_int_range. exact H. Qed.

Corollary dec_enc_diagnostic_iff : forall d, dec_diagnostic (enc_diagnostic d) = DOk d <-> diag_wf d.
Proof. intros d. split; [apply diag_wf_needed | apply dec_enc_diagnostic]. Qed.

(* ------------------------------------------------------------------------------------------ *)
(* Request                                                                                     *)
(* ------------------------------------------------------------------------------------------ *)

Section RequestJsonProofs.
  Variable print_ip : bool -> Z -> Z -> str.
  Variable ord : list json -> list json.
  Hypothesis ord_perm : forall l, Permutation (ord l) l.
  (* net/netip's printer is Go's standard library and is not modelled: its round trip is assumed for the ip values considered *)
  Variable ip_ok : bool -> Z -> Z -> bool.
  Hypothesis ip_roundtrip : forall v6 a p, ip_ok v6 a p = true -> parse_ip (print_ip v6 a p) = Some (v6, a, p).

  Notation enc := (encode_value print_ip ord).
  Notation safe := (json_safe ip_ok).
  Notation encf := (enc_field print_ip ord).
  Notation encr := (EntityJson.enc_record print_ip ord).
  Notation spelling := (EntityJsonProofs.spelling print_ip ord).

  (* what entity_wf demands of attrs, with the request decoder's own field names; the three uids are unconstrained.
     json_safe implies wf_value (request_wf_context_wf below): a key-sorted record of well-formed values *)
  Definition request_wf (rq : request) : Prop :=
    safe (VRecord (rq_context rq)) = true /\ rkeys_plain (VRecord (rq_context rq)) = true.

  Lemma request_wf_context_wf rq : request_wf rq -> wf_value (VRecord (rq_context rq)) = true.
  Proof. intros [Hs _]. eapply json_safe_wf. exact Hs. Qed.

  Definition request_equiv (rq rq' : request) : Prop :=
    rq_principal rq = rq_principal rq' /\ rq_action rq = rq_action rq' /\ rq_resource rq = rq_resource rq' /\
    veq (VRecord (rq_context rq)) (VRecord (rq_context rq')) = true /\
    veq (VRecord (rq_context rq')) (VRecord (rq_context rq)) = true.

  (* ---- the document-wide guards on encoded values ---- *)

  Lemma rjfold_enc : forall v, rkeys_plain v = true -> rjfold (enc v) = false.
  Proof.
    apply (value_ind' (fun v => rkeys_plain v = true -> rjfold (enc v) = false)); try (intros; reflexivity).
    - intros l HF Hp. rewrite keys_plain_in_set in Hp. cbn [encode_value]. rewrite jfold_in_arr.
      rewrite (ej_existsb_perm rjfold _ _ (ord_perm _)). apply ej_existsb_map_false.
      rewrite Forall_forall in HF. rewrite forallb_forall in Hp. intros x Hx. apply HF; auto.
    - intros l HF Hp. rewrite keys_plain_in_record in Hp. rewrite encode_record, jfold_in_obj.
      rewrite Forall_forall in HF. rewrite forallb_forall in Hp. apply orb_false_iff. split.
      + apply fold_only_plain_in. apply forallb_forall. intros kx Hkx. apply in_map_iff in Hkx.
        destruct Hkx as (kv & <- & Hkv). cbn [enc_field fst]. specialize (Hp kv Hkv). apply andb_true_iff in Hp. tauto.
      + apply ej_existsb_map_false. intros kv Hkv. cbn [enc_field snd]. apply HF; [exact Hkv|].
        specialize (Hp kv Hkv). apply andb_true_iff in Hp. tauto.
  Qed.

  Lemma spelling_rjfold sp : spelling sp -> forall u, rjfold (sp u) = false.
  Proof. intros Hsp u. destruct (Hsp u) as [-> | ->]; reflexivity. Qed.

  (* ---- the request under any spelling of its three uids ---- *)

  Definition enc_request_sp (sp1 sp2 sp3 : uid -> json) (rq : request) : json :=
    req_json (sp1 (rq_principal rq)) (sp2 (rq_action rq)) (sp3 (rq_resource rq)) (encr (rq_context rq)).

  Lemma enc_request_explicit rq :
    enc_request print_ip ord rq = enc_request_sp (enc_uid_explicit print_ip ord) (enc_uid_explicit print_ip ord)
                                                 (enc_uid_explicit print_ip ord) rq.
  Proof. reflexivity. Qed.

  Lemma rjfold_enc_request_sp sp1 sp2 sp3 rq : spelling sp1 -> spelling sp2 -> spelling sp3 -> request_wf rq ->
    rjfold (enc_request_sp sp1 sp2 sp3 rq) = false.
  Proof.
    intros H1 H2 H3 [_ Hp]. unfold enc_request_sp, EntityJson.enc_record.
    rewrite rjfold_req_json, (spelling_rjfold sp1 H1), (spelling_rjfold sp2 H2), (spelling_rjfold sp3 H3), (rjfold_enc _ Hp).
    reflexivity.
  Qed.

  Lemma jdups_enc_request_sp sp1 sp2 sp3 rq : spelling sp1 -> spelling sp2 -> spelling sp3 -> request_wf rq ->
    jdups (enc_request_sp sp1 sp2 sp3 rq) = false.
  Proof.
    intros H1 H2 H3 [Hs _]. unfold enc_request_sp, EntityJson.enc_record.
    rewrite jdups_req_json, (spelling_jdups print_ip ord sp1 H1), (spelling_jdups print_ip ord sp2 H2),
      (spelling_jdups print_ip ord sp3 H3), (jdups_enc print_ip ord ord_perm ip_ok _ Hs).
    reflexivity.
  Qed.

  (* the encoder output never hits the two document-wide DUnk guards of the decoder *)
  Theorem enc_request_guards_sp : forall sp1 sp2 sp3 rq, spelling sp1 -> spelling sp2 -> spelling sp3 -> request_wf rq ->
    any_fold_in req_fields (S (jdepth (enc_request_sp sp1 sp2 sp3 rq))) (enc_request_sp sp1 sp2 sp3 rq) = false /\
    any_dups (S (jdepth (enc_request_sp sp1 sp2 sp3 rq))) (enc_request_sp sp1 sp2 sp3 rq) = false.
  Proof.
    intros sp1 sp2 sp3 rq H1 H2 H3 Hw. apply dec_request_guards;
      [apply rjfold_enc_request_sp | apply jdups_enc_request_sp]; assumption.
  Qed.

  Theorem enc_request_guards : forall rq, request_wf rq ->
    any_fold_in req_fields (S (jdepth (enc_request print_ip ord rq))) (enc_request print_ip ord rq) = false /\
    any_dups (S (jdepth (enc_request print_ip ord rq))) (enc_request print_ip ord rq) = false.
  Proof.
    intros rq Hw. rewrite enc_request_explicit. apply enc_request_guards_sp; try exact Hw; apply spelling_explicit.
  Qed.

  (* what an encoded request decodes to, in terms of the record decoder alone *)
  Lemma dec_request_sp sp1 sp2 sp3 rq : spelling sp1 -> spelling sp2 -> spelling sp3 -> request_wf rq ->
    dec_request (enc_request_sp sp1 sp2 sp3 rq) =
    dbind (dec_record (Some (encr (rq_context rq)))) (fun c =>
      DOk {| rq_principal := rq_principal rq; rq_action := rq_action rq; rq_resource := rq_resource rq; rq_context := c |}).
  Proof.
    intros H1 H2 H3 Hw.
    pose proof (rjfold_enc_request_sp sp1 sp2 sp3 rq H1 H2 H3 Hw) as G1.
    pose proof (jdups_enc_request_sp sp1 sp2 sp3 rq H1 H2 H3 Hw) as G2.
    unfold enc_request_sp in *. rewrite (dec_request_obj _ _ _ _ G1 G2).
    rewrite (spelling_dec print_ip ord sp1 H1), (spelling_dec print_ip ord sp2 H2), (spelling_dec print_ip ord sp3 H3).
    reflexivity.
  Qed.

  (* the round trip under any spelling *)
  Theorem dec_enc_request_sp : forall sp1 sp2 sp3 rq, spelling sp1 -> spelling sp2 -> spelling sp3 -> request_wf rq ->
    exists rq', dec_request (enc_request_sp sp1 sp2 sp3 rq) = DOk rq' /\ request_equiv rq rq' /\
                wf_value (VRecord (rq_context rq')) = true /\ ((forall l, ord l = l) -> rq' = rq).
  Proof.
    intros sp1 sp2 sp3 rq H1 H2 H3 Hw. rewrite (dec_request_sp sp1 sp2 sp3 rq H1 H2 H3 Hw).
    destruct Hw as [Hs _].
    destruct (dec_enc_record print_ip ord ord_perm ip_ok ip_roundtrip _ Hs) as (c' & Hd & R1 & R2 & W & E).
    exists {| rq_principal := rq_principal rq; rq_action := rq_action rq; rq_resource := rq_resource rq; rq_context := c' |}.
    rewrite Hd. cbn [dbind]. split; [reflexivity|]. split; [|split].
    - unfold request_equiv. cbn [rq_principal rq_action rq_resource rq_context]. tauto.
    - exact W.
    - intros Hid. rewrite (E Hid). destruct rq; reflexivity.
  Qed.

  Theorem dec_enc_request : forall rq, request_wf rq ->
    exists rq', dec_request (enc_request print_ip ord rq) = DOk rq' /\ request_equiv rq rq'.
  Proof.
    intros rq Hw. rewrite enc_request_explicit.
    destruct (dec_enc_request_sp _ _ _ rq (spelling_explicit print_ip ord) (spelling_explicit print_ip ord)
                (spelling_explicit print_ip ord) Hw) as (rq' & Hd & He & _).
    exists rq'. auto.
  Qed.

  (* the decoded context is in canonical form (key-sorted, canonical sets) *)
  Theorem dec_enc_request_canon : forall rq rq', request_wf rq ->
    dec_request (enc_request print_ip ord rq) = DOk rq' -> wf_value (VRecord (rq_context rq')) = true.
  Proof.
    intros rq rq' Hw Hd. rewrite enc_request_explicit in Hd.
    destruct (dec_enc_request_sp _ _ _ rq (spelling_explicit print_ip ord) (spelling_explicit print_ip ord)
                (spelling_explicit print_ip ord) Hw) as (rq'' & Hd' & _ & W & _).
    rewrite Hd' in Hd. injection Hd as <-. exact W.
  Qed.

  (* contexts are key-sorted (json_safe), so with the identity member order the decoded request is the original one *)
  Theorem dec_enc_request_eq : forall rq, (forall l, ord l = l) -> request_wf rq ->
    dec_request (enc_request print_ip ord rq) = DOk rq.
  Proof.
    intros rq Hid Hw. rewrite enc_request_explicit.
    destruct (dec_enc_request_sp _ _ _ rq (spelling_explicit print_ip ord) (spelling_explicit print_ip ord)
                (spelling_explicit print_ip ord) Hw) as (rq' & Hd & _ & _ & E).
    rewrite Hd, (E Hid). reflexivity.
  Qed.

  Theorem request_second_encoding : forall rq rq', (forall l, ord l = l) -> request_wf rq ->
    dec_request (enc_request print_ip ord rq) = DOk rq' -> enc_request print_ip ord rq' = enc_request print_ip ord rq.
  Proof. intros rq rq' Hid Hw Hd. rewrite (dec_enc_request_eq rq Hid Hw) in Hd. injection Hd as <-. reflexivity. Qed.

  (* every accepted spelling of the three uids decodes to the same request *)
  Theorem request_spellings : forall sp1 sp2 sp3 rq, spelling sp1 -> spelling sp2 -> spelling sp3 -> request_wf rq ->
    dec_request (JObj [(k "principal", sp1 (rq_principal rq)); (k "action", sp2 (rq_action rq));
                       (k "resource", sp3 (rq_resource rq)); (k "context", encr (rq_context rq))])
    = dec_request (enc_request print_ip ord rq).
  Proof.
    intros sp1 sp2 sp3 rq H1 H2 H3 Hw. rewrite enc_request_explicit.
    change (JObj [(k "principal", sp1 (rq_principal rq)); (k "action", sp2 (rq_action rq));
                  (k "resource", sp3 (rq_resource rq)); (k "context", encr (rq_context rq))])
      with (enc_request_sp sp1 sp2 sp3 rq).
    rewrite (dec_request_sp sp1 sp2 sp3 rq H1 H2 H3 Hw).
    rewrite (dec_request_sp _ _ _ rq (spelling_explicit print_ip ord) (spelling_explicit print_ip ord)
               (spelling_explicit print_ip ord) Hw).
    reflexivity.
  Qed.

  (* the decoded request is again well-formed when the member order is the identity, so the round trip can be iterated *)
  Theorem request_wf_decoded : forall rq rq', (forall l, ord l = l) -> request_wf rq ->
    dec_request (enc_request print_ip ord rq) = DOk rq' -> request_wf rq'.
  Proof. intros rq rq' Hid Hw Hd. rewrite (dec_enc_request_eq rq Hid Hw) in Hd. injection Hd as <-. exact Hw. Qed.
End RequestJsonProofs.

(* ------------------------------------------------------------------------------------------ *)
(* The concrete printer (Impl/IPPrint.v) and the identity member order: no hypothesis left      *)
(* ------------------------------------------------------------------------------------------ *)

Definition rq_id : list json -> list json := fun l => l.

Lemma rq_id_perm : forall l, Permutation (rq_id l) l.
Proof. intros l. apply Permutation_refl. Qed.

Theorem rq_concrete_roundtrip : forall rq, request_wf ip_ok rq -> dec_request (enc_request print_ip rq_id rq) = DOk rq.
Proof.
  intros rq Hw. apply (dec_enc_request_eq print_ip rq_id rq_id_perm ip_ok parse_print_ip rq); [reflexivity | exact Hw].
Qed.

Theorem rq_concrete_spellings : forall sp1 sp2 sp3 rq,
  spelling print_ip rq_id sp1 -> spelling print_ip rq_id sp2 -> spelling print_ip rq_id sp3 -> request_wf ip_ok rq ->
  dec_request (JObj [(k "principal", sp1 (rq_principal rq)); (k "action", sp2 (rq_action rq));
                     (k "resource", sp3 (rq_resource rq)); (k "context", EntityJson.enc_record print_ip rq_id (rq_context rq))])
  = DOk rq.
Proof.
  intros sp1 sp2 sp3 rq H1 H2 H3 Hw.
  rewrite (request_spellings print_ip rq_id rq_id_perm ip_ok sp1 sp2 sp3 rq H1 H2 H3 Hw).
  apply rq_concrete_roundtrip. exact Hw.
Qed.

(* ------------------------------------------------------------------------------------------ *)
(* Examples (computed)                                                                          *)
(* ------------------------------------------------------------------------------------------ *)

(* a non-empty context with a nested set, a nested record, entity / decimal / datetime / duration / ip (v4 and v6) values; the keys
   "type", "id", "principal" are exact field names (fine), "uid" / "UID" are field names of the ENTITY codec only (fine here) *)
Definition rq_ex_request : request :=
  {| rq_principal := (s_of "User", s_of "alice");
     rq_action := (s_of "Action", s_of "view");
     rq_resource := (s_of "Photo::Album", s_of "a ""quoted"" id");
     rq_context :=
       [ (s_of "UID", VLong 7);
         (s_of "addr", VIP false 3232235777 24);
         (s_of "addr6", VIP true 42540766411282592856903984951653826561 64);
         (s_of "id", VSet [VLong 1; VDecimal 12500; VString (s_of "x"); VSet [VBool true; VBool false]; VSet []]);
         (s_of "principal", VRecord [(s_of "d", VDatetime 1700000000123); (s_of "e", VEntity (s_of "User") (s_of "bob"));
                                     (s_of "type", VDuration 90061001)]);
         (s_of "uid", VBool true) ] |}.

Example rq_ex_wf : request_wf ip_ok rq_ex_request.
Proof. split; vm_compute; reflexivity. Qed.

Example rq_ex_roundtrip : dec_request (enc_request print_ip (fun l => l) rq_ex_request) = DOk rq_ex_request.
Proof. vm_compute. reflexivity. Qed.

(* the same by the theorem *)
Example rq_ex_roundtrip_thm : dec_request (enc_request print_ip rq_id rq_ex_request) = DOk rq_ex_request.
Proof. apply rq_concrete_roundtrip. exact rq_ex_wf. Qed.

(* the implicit spelling of principal and resource decodes to the same request *)
Example rq_ex_spellings :
  dec_request (JObj [(k "principal", enc_uid_implicit (rq_principal rq_ex_request));
                     (k "action", enc_uid_explicit print_ip (fun l => l) (rq_action rq_ex_request));
                     (k "resource", enc_uid_implicit (rq_resource rq_ex_request));
                     (k "context", EntityJson.enc_record print_ip (fun l => l) (rq_context rq_ex_request))])
  = DOk rq_ex_request.
Proof. vm_compute. reflexivity. Qed.

(* with the reversed member order the decoded request is Cedar-equal (but its sets list their members in another order) *)
Example rq_ex_roundtrip_rev :
  match dec_request (enc_request print_ip (@rev json) rq_ex_request) with
  | DOk rq' => uid_eqb (rq_principal rq') (rq_principal rq_ex_request) && uid_eqb (rq_action rq') (rq_action rq_ex_request) &&
               uid_eqb (rq_resource rq') (rq_resource rq_ex_request) &&
               veq (VRecord (rq_context rq_ex_request)) (VRecord (rq_context rq')) &&
               veq (VRecord (rq_context rq')) (VRecord (rq_context rq_ex_request))
  | _ => false
  end = true.
Proof. vm_compute. reflexivity. Qed.

(* COUNTEREXAMPLE to the statement with EntityJsonProofs.keys_plain (plain with respect to the ENTITY codec's all_fields): the context key
   "Principal" is json_safe, wf and keys_plain, but it is one of the REQUEST decoder's field names up to case, so the model's decoder
   answers DUnk (outside its domain).  Conversely "UID" is not keys_plain but is fine for the request decoder.  request_wf therefore
   uses keys_plain_in req_fields. *)
Definition rq_ex_ctx (key : str) : request :=
  {| rq_principal := (s_of "U", s_of "a"); rq_action := (s_of "A", s_of "b"); rq_resource := (s_of "R", s_of "c");
     rq_context := [(key, VLong 1)] |}.

Example rq_ex_keys_plain_all_fields_insufficient :
  json_safe (fun _ _ _ => false) (VRecord (rq_context (rq_ex_ctx (s_of "Principal")))) = true /\
  wf_value (VRecord (rq_context (rq_ex_ctx (s_of "Principal")))) = true /\
  keys_plain (VRecord (rq_context (rq_ex_ctx (s_of "Principal")))) = true /\
  rkeys_plain (VRecord (rq_context (rq_ex_ctx (s_of "Principal")))) = false /\
  dec_request (enc_request print_ip (fun l => l) (rq_ex_ctx (s_of "Principal"))) = DUnk.
Proof. repeat split; vm_compute; reflexivity. Qed.

Example rq_ex_keys_plain_all_fields_unnecessary :
  keys_plain (VRecord (rq_context (rq_ex_ctx (s_of "UID")))) = false /\
  rkeys_plain (VRecord (rq_context (rq_ex_ctx (s_of "UID")))) = true /\
  dec_request (enc_request print_ip (fun l => l) (rq_ex_ctx (s_of "UID"))) = DOk (rq_ex_ctx (s_of "UID")).
Proof. repeat split; vm_compute; reflexivity. Qed.

(* a key with a special character (long s, C5 BF) is outside the model's decoder domain as for entities *)
Example rq_ex_special_key :
  json_safe (fun _ _ _ => false) (VRecord (rq_context (rq_ex_ctx [120; 197; 191]))) = true /\
  rkeys_plain (VRecord (rq_context (rq_ex_ctx [120; 197; 191]))) = false /\
  dec_request (enc_request print_ip (fun l => l) (rq_ex_ctx [120; 197; 191])) = DUnk.
Proof. repeat split; vm_compute; reflexivity. Qed.

(* null / missing members: the zero request *)
Example rq_ex_null :
  dec_request JNull = DOk {| rq_principal := ([], []); rq_action := ([], []); rq_resource := ([], []); rq_context := [] |} /\
  dec_request (JObj []) = DOk {| rq_principal := ([], []); rq_action := ([], []); rq_resource := ([], []); rq_context := [] |} /\
  dec_request (JObj [(k "principal", JNull)]) = DErr.
Proof. repeat split; vm_compute; reflexivity. Qed.

(* a diagnostic with two reasons and an error, at the edges of the int range *)
Definition rq_ex_diag : diagnostic :=
  {| dg_reasons :=
       [ {| rs_policy := s_of "policy0"; rs_pos := {| ps_file := s_of "a.cedar"; ps_offset := 0; ps_line := 1; ps_column := 1 |} |};
         {| rs_policy := s_of "policy1"; rs_pos := {| ps_file := []; ps_offset := max64; ps_line := min64; ps_column := -1 |} |} ];
     dg_errors :=
       [ {| de_policy := s_of "policy2"; de_pos := {| ps_file := s_of "b.cedar"; ps_offset := 120; ps_line := 7; ps_column := 3 |};
            de_message := s_of "type error: expected long, got string" |} ] |}.

Example rq_ex_diag_wf : diag_wf rq_ex_diag.
Proof. vm_compute. reflexivity. Qed.

Example rq_ex_diag_roundtrip : dec_diagnostic (enc_diagnostic rq_ex_diag) = DOk rq_ex_diag.
Proof. vm_compute. reflexivity. Qed.

(* the three shapes with an omitted list *)
Example rq_ex_diag_omitted :
  enc_diagnostic {| dg_reasons := []; dg_errors := [] |} = JObj [] /\
  dec_diagnostic (JObj []) = DOk {| dg_reasons := []; dg_errors := [] |} /\
  dec_diagnostic (enc_diagnostic {| dg_reasons := dg_reasons rq_ex_diag; dg_errors := [] |})
    = DOk {| dg_reasons := dg_reasons rq_ex_diag; dg_errors := [] |} /\
  dec_diagnostic (enc_diagnostic {| dg_reasons := []; dg_errors := dg_errors rq_ex_diag |})
    = DOk {| dg_reasons := []; dg_errors := dg_errors rq_ex_diag |}.
Proof. repeat split; vm_compute; reflexivity. Qed.

(* an int that does not fit 64 bits is rejected by the decoder (no silent wrap), so diag_wf is needed for the round trip *)
Example rq_ex_diag_out_of_range :
  let d := {| dg_reasons := [ {| rs_policy := []; rs_pos := {| ps_file := []; ps_offset := max64 + 1; ps_line := 0; ps_column := 0 |} |} ];
              dg_errors := [] |} in
  diag_wfb d = false /\ dec_diagnostic (enc_diagnostic d) = DErr.
Proof. split; vm_compute; reflexivity. Qed.

Example rq_ex_decision :
  dec_decision (enc_decision true) = true /\ dec_decision (enc_decision false) = false /\
  dec_decision (JStr (s_of "Allow")) = false /\ dec_decision JNull = false /\ dec_decision (JBool true) = false.
Proof. repeat split; vm_compute; reflexivity. Qed.

Print Assumptions dec_enc_request.
Print Assumptions dec_enc_request_eq.
Print Assumptions request_second_encoding.
Print Assumptions request_spellings.
Print Assumptions dec_enc_request_sp.
Print Assumptions dec_enc_request_canon.
Print Assumptions enc_request_guards.
Print Assumptions request_wf_decoded.
Print Assumptions dec_request_total.
Print Assumptions rq_concrete_roundtrip.
Print Assumptions rq_concrete_spellings.
Print Assumptions dec_enc_diagnostic.
Print Assumptions diagnostic_second_encoding.
Print Assumptions enc_diagnostic_guards.
Print Assumptions dec_diagnostic_total.
Print Assumptions diag_int_range.
Print Assumptions dec_enc_diagnostic_iff.
Print Assumptions dec_enc_decision.
