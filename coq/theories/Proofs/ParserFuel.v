(* Fuel monotonicity of the parser model (Impl/Parser.v): fuel only matters for PFuel.
   Once a function returns POk or PErr with some fuel, it returns the same with any larger fuel. *)
From Coq Require Import ZArith List Bool String Lia.
Import ListNotations.
From Cedar Require Import Base.Int64 Lang.Value Impl.Like Lang.Expr Impl.Eval Impl.Scanner Impl.Tokenizer Impl.Quote Impl.Parser.

Definition settled {A} (r : pres A) : Prop := r <> PFuel.

(* ------------------------------------------------------------------------------------------------------------ *)
(* The workhorse.  Goal shape:  X <> PFuel -> X' = X   where X' is X with the fuel f replaced by f'.
   - X is a match/if on something not mentioning f : destruct it (it occurs identically on both sides);
   - X is a match on a call c at fuel f : its f'-version c' equals c by a hypothesis found by [auto];
   - X is a tail call at fuel f : a hypothesis found by [auto];  X is PFuel : contradiction;  otherwise X' is X. *)
Ltac mono_call f f' c :=
  match c with
  | context C [f] =>
    let c' := context C [f'] in
    let H := fresh "Hcall" in
    assert (H : c <> PFuel -> c' = c) by (auto);
    revert H; case c;
    [ intros ? ? H; rewrite (H ltac:(discriminate)); clear H
    | intros H; rewrite (H ltac:(discriminate)); clear H
    | intros _ ]
  end.

Ltac mono_step f f' :=
  cbv beta iota zeta;
  lazymatch goal with
  | |- ?X <> PFuel -> ?X' = ?X =>
    lazymatch X with
    | (match ?c with _ => _ end) =>
      tryif (match c with context [f] => idtac end)
      then mono_call f f' c
      else destruct c
    | PFuel => let H := fresh in intros H; exfalso; apply H; reflexivity
    | context [f] => solve [auto]
    | _ => intros _; reflexivity
    end
  end.

Ltac mono f f' := repeat (mono_step f f').

Ltac intro_args :=
  lazymatch goal with
  | |- (_ <> _) -> _ => idtac
  | |- forall _, _ => intro; intro_args
  end.

(* ------------------------------------------------------------------------------------------------------------ *)
(* entities, paths, entity lists, scopes *)
Lemma entity_rest_mono : forall f f' ty ts, f <= f' -> entity_rest f ty ts <> PFuel -> entity_rest f' ty ts = entity_rest f ty ts.
Proof.
  induction f as [|f IH]; intros f' ty ts Hle.
  - intros H; exfalso; apply H; reflexivity.
  - destruct f' as [|f']; [lia|]. assert (Hle' : f <= f') by lia.
    pose proof (fun ty ts => IH f' ty ts Hle') as IH'. clear IH.
    cbn [entity_rest]. unfold exact. mono f f'.
Qed.

Lemma p_entity_mono : forall f f' ts, f <= f' -> p_entity f ts <> PFuel -> p_entity f' ts = p_entity f ts.
Proof.
  intros f f' ts Hle. pose proof (fun ty ts => entity_rest_mono f f' ty ts Hle) as H1.
  unfold p_entity. mono f f'.
Qed.

Lemma path_rest_mono : forall f f' ty ts, f <= f' -> path_rest f ty ts <> PFuel -> path_rest f' ty ts = path_rest f ty ts.
Proof.
  induction f as [|f IH]; intros f' ty ts Hle.
  - intros H; exfalso; apply H; reflexivity.
  - destruct f' as [|f']; [lia|]. assert (Hle' : f <= f') by lia.
    pose proof (fun ty ts => IH f' ty ts Hle') as IH'. clear IH.
    cbn [path_rest]. mono f f'.
Qed.

Lemma p_path_mono : forall f f' ts, f <= f' -> p_path f ts <> PFuel -> p_path f' ts = p_path f ts.
Proof.
  intros f f' ts Hle. pose proof (fun ty ts => path_rest_mono f f' ty ts Hle) as H1.
  unfold p_path. mono f f'.
Qed.

Lemma p_entlist_mono : forall f f' ts acc, f <= f' -> p_entlist f ts acc <> PFuel -> p_entlist f' ts acc = p_entlist f ts acc.
Proof.
  induction f as [|f IH]; intros f' ts acc Hle.
  - intros H; exfalso; apply H; reflexivity.
  - destruct f' as [|f']; [lia|]. assert (Hle' : f <= f') by lia.
    pose proof (fun ts acc => IH f' ts acc Hle') as IH'. clear IH.
    pose proof (fun ts => p_entity_mono f f' ts Hle') as H1.
    cbn [p_entlist]. mono f f'.
Qed.

Lemma p_scope_pr_mono : forall f f' ts, f <= f' -> p_scope_pr f ts <> PFuel -> p_scope_pr f' ts = p_scope_pr f ts.
Proof.
  intros f f' ts Hle.
  pose proof (fun ts => p_entity_mono f f' ts Hle) as H1.
  pose proof (fun ts => p_path_mono f f' ts Hle) as H2.
  unfold p_scope_pr. mono f f'.
Qed.

Lemma p_scope_action_mono : forall f f' ts, f <= f' -> p_scope_action f ts <> PFuel -> p_scope_action f' ts = p_scope_action f ts.
Proof.
  intros f f' ts Hle.
  pose proof (fun ts => p_entity_mono f f' ts Hle) as H1.
  pose proof (fun ts acc => p_entlist_mono f f' ts acc Hle) as H2.
  unfold p_scope_action. mono f f'.
Qed.

(* ------------------------------------------------------------------------------------------------------------ *)
(* the unary-operator prefix loop *)
Lemma unary_ops_mono : forall f f' ts acc, f <= f' -> unary_ops f ts acc <> None -> unary_ops f' ts acc = unary_ops f ts acc.
Proof.
  induction f as [|f IH]; intros f' ts acc Hle.
  - intros H; exfalso; apply H; reflexivity.
  - destruct f' as [|f']; [lia|]. assert (Hle' : f <= f') by lia.
    cbn [unary_ops]. cbv zeta.
    destruct (tx (peek ts) "-"); [apply IH; exact Hle'|].
    destruct (tx (peek ts) "!"); [apply IH; exact Hle'|].
    intros _; reflexivity.
Qed.

(* ------------------------------------------------------------------------------------------------------------ *)
(* the mutual block: one-step unfolding equations (the right-hand sides are the bodies with fuel f) *)
Ltac unfold_block t :=
  eval cbn [p_expression p_or p_or_loop p_and p_and_loop p_relation p_has_chain p_add p_add_loop p_mult p_mult_loop p_unary p_member p_access_loop p_primary p_entity_or_extfun p_expressions p_record] in t.

Lemma p_expression_S f ts : p_expression (S f) ts = ltac:(let t := unfold_block (p_expression (S f) ts) in exact t).
Proof. reflexivity. Qed.
Lemma p_expression_O ts : p_expression 0 ts = PFuel.
Proof. reflexivity. Qed.
Lemma p_or_S f ts : p_or (S f) ts = ltac:(let t := unfold_block (p_or (S f) ts) in exact t).
Proof. reflexivity. Qed.
Lemma p_or_O ts : p_or 0 ts = PFuel.
Proof. reflexivity. Qed.
Lemma p_or_loop_S f l ts : p_or_loop (S f) l ts = ltac:(let t := unfold_block (p_or_loop (S f) l ts) in exact t).
Proof. reflexivity. Qed.
Lemma p_or_loop_O l ts : p_or_loop 0 l ts = PFuel.
Proof. reflexivity. Qed.
Lemma p_and_S f ts : p_and (S f) ts = ltac:(let t := unfold_block (p_and (S f) ts) in exact t).
Proof. reflexivity. Qed.
Lemma p_and_O ts : p_and 0 ts = PFuel.
Proof. reflexivity. Qed.
Lemma p_and_loop_S f l ts : p_and_loop (S f) l ts = ltac:(let t := unfold_block (p_and_loop (S f) l ts) in exact t).
Proof. reflexivity. Qed.
Lemma p_and_loop_O l ts : p_and_loop 0 l ts = PFuel.
Proof. reflexivity. Qed.
Lemma p_relation_S f ts : p_relation (S f) ts = ltac:(let t := unfold_block (p_relation (S f) ts) in exact t).
Proof. reflexivity. Qed.
Lemma p_relation_O ts : p_relation 0 ts = PFuel.
Proof. reflexivity. Qed.
Lemma p_has_chain_S f res cur ts : p_has_chain (S f) res cur ts = ltac:(let t := unfold_block (p_has_chain (S f) res cur ts) in exact t).
Proof. reflexivity. Qed.
Lemma p_has_chain_O res cur ts : p_has_chain 0 res cur ts = PFuel.
Proof. reflexivity. Qed.
Lemma p_add_S f ts : p_add (S f) ts = ltac:(let t := unfold_block (p_add (S f) ts) in exact t).
Proof. reflexivity. Qed.
Lemma p_add_O ts : p_add 0 ts = PFuel.
Proof. reflexivity. Qed.
Lemma p_add_loop_S f l ts : p_add_loop (S f) l ts = ltac:(let t := unfold_block (p_add_loop (S f) l ts) in exact t).
Proof. reflexivity. Qed.
Lemma p_add_loop_O l ts : p_add_loop 0 l ts = PFuel.
Proof. reflexivity. Qed.
Lemma p_mult_S f ts : p_mult (S f) ts = ltac:(let t := unfold_block (p_mult (S f) ts) in exact t).
Proof. reflexivity. Qed.
Lemma p_mult_O ts : p_mult 0 ts = PFuel.
Proof. reflexivity. Qed.
Lemma p_mult_loop_S f l ts : p_mult_loop (S f) l ts = ltac:(let t := unfold_block (p_mult_loop (S f) l ts) in exact t).
Proof. reflexivity. Qed.
Lemma p_mult_loop_O l ts : p_mult_loop 0 l ts = PFuel.
Proof. reflexivity. Qed.
Lemma p_unary_S f ts : p_unary (S f) ts = ltac:(let t := unfold_block (p_unary (S f) ts) in exact t).
Proof. reflexivity. Qed.
Lemma p_unary_O ts : p_unary 0 ts = PFuel.
Proof. reflexivity. Qed.
Lemma p_member_S f ts : p_member (S f) ts = ltac:(let t := unfold_block (p_member (S f) ts) in exact t).
Proof. reflexivity. Qed.
Lemma p_member_O ts : p_member 0 ts = PFuel.
Proof. reflexivity. Qed.
Lemma p_access_loop_S f l ts : p_access_loop (S f) l ts = ltac:(let t := unfold_block (p_access_loop (S f) l ts) in exact t).
Proof. reflexivity. Qed.
Lemma p_access_loop_O l ts : p_access_loop 0 l ts = PFuel.
Proof. reflexivity. Qed.
Lemma p_primary_S f ts : p_primary (S f) ts = ltac:(let t := unfold_block (p_primary (S f) ts) in exact t).
Proof. reflexivity. Qed.
Lemma p_primary_O ts : p_primary 0 ts = PFuel.
Proof. reflexivity. Qed.
Lemma p_entity_or_extfun_S f pre ts : p_entity_or_extfun (S f) pre ts = ltac:(let t := unfold_block (p_entity_or_extfun (S f) pre ts) in exact t).
Proof. reflexivity. Qed.
Lemma p_entity_or_extfun_O pre ts : p_entity_or_extfun 0 pre ts = PFuel.
Proof. reflexivity. Qed.
Lemma p_expressions_S f close ts acc : p_expressions (S f) close ts acc = ltac:(let t := unfold_block (p_expressions (S f) close ts acc) in exact t).
Proof. reflexivity. Qed.
Lemma p_expressions_O close ts acc : p_expressions 0 close ts acc = PFuel.
Proof. reflexivity. Qed.
Lemma p_record_S f ts acc : p_record (S f) ts acc = ltac:(let t := unfold_block (p_record (S f) ts acc) in exact t).
Proof. reflexivity. Qed.
Lemma p_record_O ts acc : p_record 0 ts acc = PFuel.
Proof. reflexivity. Qed.

Lemma expr_block_mono : forall f f', f <= f' ->
  (forall ts, p_expression f ts <> PFuel -> p_expression f' ts = p_expression f ts) /\
  (forall ts, p_or f ts <> PFuel -> p_or f' ts = p_or f ts) /\
  (forall l ts, p_or_loop f l ts <> PFuel -> p_or_loop f' l ts = p_or_loop f l ts) /\
  (forall ts, p_and f ts <> PFuel -> p_and f' ts = p_and f ts) /\
  (forall l ts, p_and_loop f l ts <> PFuel -> p_and_loop f' l ts = p_and_loop f l ts) /\
  (forall ts, p_relation f ts <> PFuel -> p_relation f' ts = p_relation f ts) /\
  (forall res cur ts, p_has_chain f res cur ts <> PFuel -> p_has_chain f' res cur ts = p_has_chain f res cur ts) /\
  (forall ts, p_add f ts <> PFuel -> p_add f' ts = p_add f ts) /\
  (forall l ts, p_add_loop f l ts <> PFuel -> p_add_loop f' l ts = p_add_loop f l ts) /\
  (forall ts, p_mult f ts <> PFuel -> p_mult f' ts = p_mult f ts) /\
  (forall l ts, p_mult_loop f l ts <> PFuel -> p_mult_loop f' l ts = p_mult_loop f l ts) /\
  (forall ts, p_unary f ts <> PFuel -> p_unary f' ts = p_unary f ts) /\
  (forall ts, p_member f ts <> PFuel -> p_member f' ts = p_member f ts) /\
  (forall l ts, p_access_loop f l ts <> PFuel -> p_access_loop f' l ts = p_access_loop f l ts) /\
  (forall ts, p_primary f ts <> PFuel -> p_primary f' ts = p_primary f ts) /\
  (forall pre ts, p_entity_or_extfun f pre ts <> PFuel -> p_entity_or_extfun f' pre ts = p_entity_or_extfun f pre ts) /\
  (forall close ts acc, p_expressions f close ts acc <> PFuel -> p_expressions f' close ts acc = p_expressions f close ts acc) /\
  (forall ts acc, p_record f ts acc <> PFuel -> p_record f' ts acc = p_record f ts acc).
Proof.
  induction f as [|f IH]; intros f' Hle.
  - repeat match goal with |- _ /\ _ => split end; intro_args; intros H; exfalso; apply H; reflexivity.
  - destruct f' as [|f']; [lia|]. assert (Hle' : f <= f') by lia. specialize (IH f' Hle').
    pose proof (fun ts => p_path_mono f f' ts Hle') as Hpath. clear Hle Hle'.
    destruct IH as (IH1 & IH2 & IH3 & IH4 & IH5 & IH6 & IH7 & IH8 & IH9 & IH10 & IH11 & IH12 & IH13 & IH14 & IH15 & IH16 & IH17 & IH18).
    split; [intro_args; rewrite !p_expression_S; mono f f'|].
    split; [intro_args; rewrite !p_or_S; mono f f'|].
    split; [intro_args; rewrite !p_or_loop_S; mono f f'|].
    split; [intro_args; rewrite !p_and_S; mono f f'|].
    split; [intro_args; rewrite !p_and_loop_S; mono f f'|].
    split; [intro_args; rewrite !p_relation_S; mono f f'|].
    split; [intro_args; rewrite !p_has_chain_S; mono f f'|].
    split; [intro_args; rewrite !p_add_S; mono f f'|].
    split; [intro_args; rewrite !p_add_loop_S; mono f f'|].
    split; [intro_args; rewrite !p_mult_S; mono f f'|].
    split; [intro_args; rewrite !p_mult_loop_S; mono f f'|].
    split; [intro_args; rewrite !p_unary_S; mono f f'|].
    split; [intro_args; rewrite !p_member_S; mono f f'|].
    split; [intro_args; rewrite !p_access_loop_S; mono f f'|].
    split; [intro_args; rewrite !p_primary_S; mono f f'|].
    split; [intro_args; rewrite !p_entity_or_extfun_S; mono f f'|].
    split; [intro_args; rewrite !p_expressions_S; mono f f'|].
    intro_args; rewrite !p_record_S; mono f f'.
Qed.

Lemma p_expression_mono : forall f f' ts, f <= f' -> p_expression f ts <> PFuel -> p_expression f' ts = p_expression f ts.
Proof. intros f f' ts Hle. pose proof (expr_block_mono f f' Hle) as H. repeat (destruct H as [? H]); auto. Qed.
Lemma p_or_mono : forall f f' ts, f <= f' -> p_or f ts <> PFuel -> p_or f' ts = p_or f ts.
Proof. intros f f' ts Hle. pose proof (expr_block_mono f f' Hle) as H. repeat (destruct H as [? H]); auto. Qed.
Lemma p_or_loop_mono : forall f f' l ts, f <= f' -> p_or_loop f l ts <> PFuel -> p_or_loop f' l ts = p_or_loop f l ts.
Proof. intros f f' l ts Hle. pose proof (expr_block_mono f f' Hle) as H. repeat (destruct H as [? H]); auto. Qed.
Lemma p_and_mono : forall f f' ts, f <= f' -> p_and f ts <> PFuel -> p_and f' ts = p_and f ts.
Proof. intros f f' ts Hle. pose proof (expr_block_mono f f' Hle) as H. repeat (destruct H as [? H]); auto. Qed.
Lemma p_and_loop_mono : forall f f' l ts, f <= f' -> p_and_loop f l ts <> PFuel -> p_and_loop f' l ts = p_and_loop f l ts.
Proof. intros f f' l ts Hle. pose proof (expr_block_mono f f' Hle) as H. repeat (destruct H as [? H]); auto. Qed.
Lemma p_relation_mono : forall f f' ts, f <= f' -> p_relation f ts <> PFuel -> p_relation f' ts = p_relation f ts.
Proof. intros f f' ts Hle. pose proof (expr_block_mono f f' Hle) as H. repeat (destruct H as [? H]); auto. Qed.
Lemma p_has_chain_mono : forall f f' res cur ts, f <= f' -> p_has_chain f res cur ts <> PFuel -> p_has_chain f' res cur ts = p_has_chain f res cur ts.
Proof. intros f f' res cur ts Hle. pose proof (expr_block_mono f f' Hle) as H. repeat (destruct H as [? H]); auto. Qed.
Lemma p_add_mono : forall f f' ts, f <= f' -> p_add f ts <> PFuel -> p_add f' ts = p_add f ts.
Proof. intros f f' ts Hle. pose proof (expr_block_mono f f' Hle) as H. repeat (destruct H as [? H]); auto. Qed.
Lemma p_add_loop_mono : forall f f' l ts, f <= f' -> p_add_loop f l ts <> PFuel -> p_add_loop f' l ts = p_add_loop f l ts.
Proof. intros f f' l ts Hle. pose proof (expr_block_mono f f' Hle) as H. repeat (destruct H as [? H]); auto. Qed.
Lemma p_mult_mono : forall f f' ts, f <= f' -> p_mult f ts <> PFuel -> p_mult f' ts = p_mult f ts.
Proof. intros f f' ts Hle. pose proof (expr_block_mono f f' Hle) as H. repeat (destruct H as [? H]); auto. Qed.
Lemma p_mult_loop_mono : forall f f' l ts, f <= f' -> p_mult_loop f l ts <> PFuel -> p_mult_loop f' l ts = p_mult_loop f l ts.
Proof. intros f f' l ts Hle. pose proof (expr_block_mono f f' Hle) as H. repeat (destruct H as [? H]); auto. Qed.
Lemma p_unary_mono : forall f f' ts, f <= f' -> p_unary f ts <> PFuel -> p_unary f' ts = p_unary f ts.
Proof. intros f f' ts Hle. pose proof (expr_block_mono f f' Hle) as H. repeat (destruct H as [? H]); auto. Qed.
Lemma p_member_mono : forall f f' ts, f <= f' -> p_member f ts <> PFuel -> p_member f' ts = p_member f ts.
Proof. intros f f' ts Hle. pose proof (expr_block_mono f f' Hle) as H. repeat (destruct H as [? H]); auto. Qed.
Lemma p_access_loop_mono : forall f f' l ts, f <= f' -> p_access_loop f l ts <> PFuel -> p_access_loop f' l ts = p_access_loop f l ts.
Proof. intros f f' l ts Hle. pose proof (expr_block_mono f f' Hle) as H. repeat (destruct H as [? H]); auto. Qed.
Lemma p_primary_mono : forall f f' ts, f <= f' -> p_primary f ts <> PFuel -> p_primary f' ts = p_primary f ts.
Proof. intros f f' ts Hle. pose proof (expr_block_mono f f' Hle) as H. repeat (destruct H as [? H]); auto. Qed.
Lemma p_entity_or_extfun_mono : forall f f' pre ts, f <= f' -> p_entity_or_extfun f pre ts <> PFuel -> p_entity_or_extfun f' pre ts = p_entity_or_extfun f pre ts.
Proof. intros f f' pre ts Hle. pose proof (expr_block_mono f f' Hle) as H. repeat (destruct H as [? H]); auto. Qed.
Lemma p_expressions_mono : forall f f' close ts acc, f <= f' -> p_expressions f close ts acc <> PFuel -> p_expressions f' close ts acc = p_expressions f close ts acc.
Proof. intros f f' close ts acc Hle. pose proof (expr_block_mono f f' Hle) as H. repeat (destruct H as [? H]); auto. Qed.
Lemma p_record_mono : forall f f' ts acc, f <= f' -> p_record f ts acc <> PFuel -> p_record f' ts acc = p_record f ts acc.
Proof. intros f f' ts acc Hle. pose proof (expr_block_mono f f' Hle) as H. repeat (destruct H as [? H]); auto. Qed.

(* ------------------------------------------------------------------------------------------------------------ *)
(* annotations, conditions, policies *)
Lemma p_annotations_mono : forall f f' ts acc, f <= f' -> p_annotations f ts acc <> PFuel -> p_annotations f' ts acc = p_annotations f ts acc.
Proof.
  induction f as [|f IH]; intros f' ts acc Hle.
  - intros H; exfalso; apply H; reflexivity.
  - destruct f' as [|f']; [lia|]. assert (Hle' : f <= f') by lia.
    pose proof (fun ts acc => IH f' ts acc Hle') as IH'. clear IH.
    cbn [p_annotations]. mono f f'.
Qed.

Lemma p_conditions_mono : forall f f' ts acc, f <= f' -> p_conditions f ts acc <> PFuel -> p_conditions f' ts acc = p_conditions f ts acc.
Proof.
  induction f as [|f IH]; intros f' ts acc Hle.
  - intros H; exfalso; apply H; reflexivity.
  - destruct f' as [|f']; [lia|]. assert (Hle' : f <= f') by lia.
    pose proof (fun ts acc => IH f' ts acc Hle') as IH'. clear IH.
    pose proof (fun ts => p_expression_mono f f' ts Hle') as H1.
    cbn [p_conditions]. mono f f'.
Qed.

Lemma p_policy_mono : forall f f' ts, f <= f' -> p_policy f ts <> PFuel -> p_policy f' ts = p_policy f ts.
Proof.
  intros f f' ts Hle.
  pose proof (fun ts acc => p_annotations_mono f f' ts acc Hle) as H1.
  pose proof (fun ts => p_scope_pr_mono f f' ts Hle) as H2.
  pose proof (fun ts => p_scope_action_mono f f' ts Hle) as H3.
  pose proof (fun ts acc => p_conditions_mono f f' ts acc Hle) as H4.
  unfold p_policy, bind, bexact. mono f f'.
Qed.

Lemma p_policies_mono : forall f f' ts acc, f <= f' -> p_policies f ts acc <> PFuel -> p_policies f' ts acc = p_policies f ts acc.
Proof.
  induction f as [|f IH]; intros f' ts acc Hle.
  - intros H; exfalso; apply H; reflexivity.
  - destruct f' as [|f']; [lia|]. assert (Hle' : f <= f') by lia.
    pose proof (fun ts acc => IH f' ts acc Hle') as IH'. clear IH.
    pose proof (fun ts => p_policy_mono (S f) (S f') ts Hle) as H1.
    cbn [p_policies]. unfold bind. mono f f'.
Qed.

(* Two settled runs agree, whatever the fuels. *)
Lemma p_expression_agree : forall f1 f2 ts, p_expression f1 ts <> PFuel -> p_expression f2 ts <> PFuel -> p_expression f1 ts = p_expression f2 ts.
Proof.
  intros f1 f2 ts H1 H2. destruct (Nat.le_ge_cases f1 f2) as [Hle|Hle].
  - symmetry. apply p_expression_mono; assumption.
  - apply p_expression_mono; assumption.
Qed.

Lemma p_policy_agree : forall f1 f2 ts, p_policy f1 ts <> PFuel -> p_policy f2 ts <> PFuel -> p_policy f1 ts = p_policy f2 ts.
Proof.
  intros f1 f2 ts H1 H2. destruct (Nat.le_ge_cases f1 f2) as [Hle|Hle].
  - symmetry. apply p_policy_mono; assumption.
  - apply p_policy_mono; assumption.
Qed.

Lemma p_policies_agree : forall f1 f2 ts acc,
  p_policies f1 ts acc <> PFuel -> p_policies f2 ts acc <> PFuel -> p_policies f1 ts acc = p_policies f2 ts acc.
Proof.
  intros f1 f2 ts acc H1 H2. destruct (Nat.le_ge_cases f1 f2) as [Hle|Hle].
  - symmetry. apply p_policies_mono; assumption.
  - apply p_policies_mono; assumption.
Qed.

(* the same in "settled" form: more fuel keeps a settled result settled (and equal) *)
Lemma p_policies_settled : forall f f' ts acc, f <= f' -> settled (p_policies f ts acc) -> settled (p_policies f' ts acc).
Proof. unfold settled. intros f f' ts acc Hle H. rewrite (p_policies_mono f f' ts acc Hle H). exact H. Qed.

Lemma p_expression_settled : forall f f' ts, f <= f' -> settled (p_expression f ts) -> settled (p_expression f' ts).
Proof. unfold settled. intros f f' ts Hle H. rewrite (p_expression_mono f f' ts Hle H). exact H. Qed.

(* ------------------------------------------------------------------------------------------------------------ *)
(* When does the unary-operator loop of p_unary, run with fuel S (List.length ts), terminate?
   adv does not move past the last token, so on a NONEMPTY token list consisting only of "-" / "!" tokens the loop
   spins: unary_ops returns None for every fuel and p_unary returns PFuel for every fuel.  In every other case
   (ts = [] or some token is neither "-" nor "!", e.g. the final EOF token, whose text is empty) fuel S (List.length ts)
   is enough and the result is the operator prefix. *)
Definition is_op (t : token) : bool := tx t "-" || tx t "!".

Fixpoint ops_prefix (ts : list token) : list bool * list token :=
  match ts with
  | [] => ([], [])
  | t :: ts' =>
    if tx t "-" then (true :: fst (ops_prefix ts'), snd (ops_prefix ts'))
    else if tx t "!" then (false :: fst (ops_prefix ts'), snd (ops_prefix ts'))
    else ([], ts)
  end.

Definition has_non_op (ts : list token) : bool := existsb (fun t => negb (is_op t)) ts.

Lemma tx_empty_text : forall t s, t_text t = [] -> s <> EmptyString -> tx t s = false.
Proof.
  intros t s Ht Hs. unfold tx. rewrite Ht. destruct s as [|a s]; [congruence|]. reflexivity.
Qed.

Lemma is_op_empty_text : forall t, t_text t = [] -> is_op t = false.
Proof.
  intros t Ht. unfold is_op. rewrite !tx_empty_text by (auto; discriminate). reflexivity.
Qed.

Lemma adv_all_ops : forall ts, ts <> [] -> forallb is_op ts = true -> adv ts <> [] /\ forallb is_op (adv ts) = true.
Proof.
  intros ts Hne Hall. destruct ts as [|t ts']; [congruence|].
  destruct ts' as [|t' ts'']; cbn [adv].
  - split; [discriminate | exact Hall].
  - cbn [forallb] in Hall. apply andb_true_iff in Hall. destruct Hall as [_ Hall].
    split; [discriminate | exact Hall].
Qed.

(* the spin: a nonempty list of operator tokens defeats every fuel *)
Lemma unary_ops_spin : forall f ts acc, ts <> [] -> forallb is_op ts = true -> unary_ops f ts acc = None.
Proof.
  induction f as [|f IH]; intros ts acc Hne Hall; [reflexivity|].
  destruct (adv_all_ops ts Hne Hall) as [Hne' Hall'].
  cbn [unary_ops]. cbv zeta.
  destruct ts as [|t ts']; [congruence|]. cbn [peek].
  cbn [forallb] in Hall. apply andb_true_iff in Hall. destruct Hall as [Hop _].
  unfold is_op in Hop.
  destruct (tx t "-"); [apply IH; assumption|].
  destruct (tx t "!"); [apply IH; assumption|].
  discriminate Hop.
Qed.

(* the good case: exact result *)
Lemma unary_ops_result : forall ts acc f,
  List.length ts < f -> ts = [] \/ has_non_op ts = true ->
  unary_ops f ts acc = Some (acc ++ fst (ops_prefix ts), snd (ops_prefix ts)).
Proof.
  induction ts as [|t ts' IH]; intros acc f Hf Hc.
  - destruct f as [|f]; [cbn [List.length] in Hf; lia|].
    cbn [ops_prefix fst snd]. rewrite app_nil_r. reflexivity.
  - destruct f as [|f]; [lia|]. cbn [List.length] in Hf. assert (Hf' : List.length ts' < f) by lia.
    destruct Hc as [Hc|Hc]; [discriminate Hc|].
    unfold has_non_op in Hc. cbn [existsb] in Hc. unfold is_op in Hc.
    cbn [unary_ops ops_prefix peek]. cbv zeta.
    destruct (tx t "-") eqn:E1.
    + cbn [orb negb] in Hc.
      assert (Hts' : ts' <> []) by (intros ->; discriminate Hc).
      assert (Hadv : adv (t :: ts') = ts') by (destruct ts'; [congruence | reflexivity]).
      rewrite Hadv. rewrite (IH (acc ++ [true]) f Hf' (or_intror Hc)).
      cbn [fst snd]. rewrite <- app_assoc. reflexivity.
    + destruct (tx t "!") eqn:E2.
      * cbn [orb negb] in Hc.
        assert (Hts' : ts' <> []) by (intros ->; discriminate Hc).
        assert (Hadv : adv (t :: ts') = ts') by (destruct ts'; [congruence | reflexivity]).
        rewrite Hadv. rewrite (IH (acc ++ [false]) f Hf' (or_intror Hc)).
        cbn [fst snd]. rewrite <- app_assoc. reflexivity.
      * cbn [fst snd]. rewrite app_nil_r. reflexivity.
Qed.

Lemma no_non_op_all_ops : forall ts, has_non_op ts = false -> forallb is_op ts = true.
Proof.
  induction ts as [|t ts' IH]; intros H; [reflexivity|].
  unfold has_non_op in H. cbn [existsb] in H. apply orb_false_iff in H. destruct H as [H1 H2].
  cbn [forallb]. rewrite (IH H2). destruct (is_op t); [reflexivity | discriminate H1].
Qed.

(* the exact condition under which the loop bound used by p_unary suffices *)
Theorem unary_ops_some_iff : forall ts,
  unary_ops (S (List.length ts)) ts [] <> None <-> (ts = [] \/ has_non_op ts = true).
Proof.
  intros ts. split.
  - intros H. destruct ts as [|t ts']; [left; reflexivity|]. right.
    destruct (has_non_op (t :: ts')) eqn:E; [reflexivity|]. exfalso. apply H.
    apply unary_ops_spin; [discriminate | apply no_non_op_all_ops; exact E].
  - intros Hc. rewrite (unary_ops_result ts [] (S (List.length ts)) (Nat.lt_succ_diag_r _) Hc). discriminate.
Qed.

(* ... and then no fuel helps: None with fuel S (List.length ts) means None with every fuel *)
Theorem unary_ops_none_forever : forall ts, unary_ops (S (List.length ts)) ts [] = None -> forall f acc, unary_ops f ts acc = None.
Proof.
  intros ts H f acc.
  destruct ts as [|t ts']; [discriminate H|].
  destruct (has_non_op (t :: ts')) eqn:E.
  - exfalso. revert H. apply unary_ops_some_iff. right. exact E.
  - apply unary_ops_spin; [discriminate | apply no_non_op_all_ops; exact E].
Qed.

Lemma last_non_op : forall ts d, ts <> [] -> is_op (last ts d) = false -> has_non_op ts = true.
Proof.
  induction ts as [|t ts' IH]; intros d Hne Hl; [congruence|].
  unfold has_non_op. cbn [existsb].
  destruct ts' as [|t' ts''].
  - cbn [last] in Hl. rewrite Hl. reflexivity.
  - change (last (t :: t' :: ts'') d) with (last (t' :: ts'') d) in Hl.
    fold (has_non_op (t' :: ts'')). rewrite (IH d ltac:(discriminate) Hl). apply orb_true_r.
Qed.

(* real token lists end with the EOF token, whose text is empty: the loop of p_unary always terminates on them *)
Theorem unary_ops_eof_terminated : forall ts,
  t_text (last ts eof_token) = [] -> unary_ops (S (List.length ts)) ts [] <> None.
Proof.
  intros ts H. apply unary_ops_some_iff.
  destruct ts as [|t ts']; [left; reflexivity|]. right.
  apply (last_non_op (t :: ts') eof_token); [discriminate|]. apply is_op_empty_text. exact H.
Qed.

(* consequence for p_unary: on a nonempty all-operator token list it is PFuel for EVERY fuel *)
Theorem p_unary_spin : forall f ts, ts <> [] -> forallb is_op ts = true -> p_unary f ts = PFuel.
Proof.
  intros f ts Hne Hall. destruct f as [|f]; [reflexivity|].
  rewrite p_unary_S. rewrite (unary_ops_spin _ ts [] Hne Hall). reflexivity.
Qed.

(* concrete witness: the one-token list ["-"] (no EOF token behind it) *)
Definition minus_token : token := {| t_type := TOperator; t_off := 0; t_line := 1; t_col := 1; t_text := [45%Z] |}.

Example unary_ops_minus_none : unary_ops (S (List.length [minus_token])) [minus_token] [] = None.
Proof. reflexivity. Qed.

Example unary_ops_minus_none_any_fuel : forall f acc, unary_ops f [minus_token] acc = None.
Proof. intros f acc. apply unary_ops_spin; [discriminate | reflexivity]. Qed.

Example p_expression_minus_never_settles : forall f, p_expression f [minus_token] = PFuel.
Proof.
  intros f.
  destruct f as [|f]; [reflexivity|]. rewrite p_expression_S.
  replace (tx (peek [minus_token]) "if") with false by reflexivity.
  destruct f as [|f]; [reflexivity|]. rewrite p_or_S.
  destruct f as [|f]; [reflexivity|]. rewrite p_and_S.
  destruct f as [|f]; [reflexivity|]. rewrite p_relation_S.
  destruct f as [|f]; [reflexivity|]. rewrite p_add_S.
  destruct f as [|f]; [reflexivity|]. rewrite p_mult_S.
  rewrite (p_unary_spin f [minus_token]); [reflexivity | discriminate | reflexivity].
Qed.

(* with the EOF token behind it the loop stops (and the parse is an error, not PFuel) *)
Example unary_ops_minus_eof : unary_ops (S (List.length [minus_token; eof_token])) [minus_token; eof_token] [] = Some ([true], [eof_token]).
Proof. reflexivity. Qed.

Print Assumptions entity_rest_mono.
Print Assumptions p_entity_mono.
Print Assumptions path_rest_mono.
Print Assumptions p_path_mono.
Print Assumptions p_entlist_mono.
Print Assumptions p_scope_pr_mono.
Print Assumptions p_scope_action_mono.
Print Assumptions unary_ops_mono.
Print Assumptions expr_block_mono.
Print Assumptions p_expression_mono.
Print Assumptions p_record_mono.
Print Assumptions p_annotations_mono.
Print Assumptions p_conditions_mono.
Print Assumptions p_policy_mono.
Print Assumptions p_policies_mono.
Print Assumptions p_policies_agree.
Print Assumptions unary_ops_some_iff.
Print Assumptions unary_ops_none_forever.
Print Assumptions unary_ops_eof_terminated.
Print Assumptions p_unary_spin.
Print Assumptions p_expression_minus_never_settles.
