(* FEASIBILITY SPIKE (round 0), not part of the framework: partial correctness of the
   iterative ancestor search of internal/eval/evalers.go:935-961 w.r.t. reachability. *)
From Coq Require Import List Arith Lia Bool.
Import ListNotations.

(* Spike: entityInOne as in internal/eval/evalers.go:935-961, over nat ids. *)
Section DFS.
Definition id := nat.
Definition store := list (id * list id).   (* present entities with their parents; first match wins *)

Fixpoint lookup (st : store) (x : id) : option (list id) :=
  match st with
  | [] => None
  | (k, ps) :: r => if Nat.eqb k x then Some ps else lookup r x
  end.

Definition mem (x : id) (l : list id) : bool := existsb (Nat.eqb x) l.

(* one pass over the parents of the candidate: push expandable unseen parents *)
Definition expandable (st : store) (k : id) : bool :=
  match lookup st k with Some (_ :: _) => true | _ => false end.

Fixpoint scan (st : store) (entity : id) (ps : list id) (known todo : list id) : list id * list id :=
  match ps with
  | [] => (known, todo)
  | k :: r =>
      if negb (expandable st k) || Nat.eqb k entity || mem k known
      then scan st entity r known todo
      else scan st entity r (k :: known) (k :: todo)
  end.

Fixpoint loop (fuel : nat) (st : store) (entity parent : id) (known todo : list id) (cand : id) : option bool :=
  match fuel with
  | O => None
  | S f =>
      match lookup st cand with
      | Some ps =>
          if mem parent ps then Some true
          else let '(known', todo') := scan st entity ps known todo in
               match todo' with
               | [] => Some false
               | c :: t => loop f st entity parent known' t c
               end
      | None =>
          match todo with
          | [] => Some false
          | c :: t => loop f st entity parent known t c
          end
      end
  end.

Definition entity_in_one (st : store) (entity parent : id) : option bool :=
  if Nat.eqb entity parent then Some true
  else loop (S (length st)) st entity parent [] [] entity.
End DFS.

(* quick sanity *)
Example ex1 : entity_in_one [(0,[1]);(1,[2]);(2,[0])] 0 2 = Some true. Proof. reflexivity. Qed.
Example ex2 : entity_in_one [(0,[1]);(1,[2]);(2,[0])] 0 3 = Some false. Proof. reflexivity. Qed.
Example ex3 : entity_in_one [(0,[0])] 0 3 = Some false. Proof. reflexivity. Qed.

(* ------------------------------------------------------------------ *)
Lemma lookup_in_keys (st : store) k ps : lookup st k = Some ps -> In k (map fst st).
Proof.
  induction st as [|[k' ps'] r IH]; simpl; [discriminate|].
  destruct (Nat.eqb k' k) eqn:E; [apply Nat.eqb_eq in E; subst; auto | intros H; right; apply IH; exact H].
Qed.

Lemma nodup_app_sub {A} (a k t : list A) : NoDup (a ++ k) -> incl t k -> NoDup t -> NoDup (a ++ t).
Proof.
  induction a as [|x xs IH]; simpl; intros ND Hs NDt; [exact NDt|].
  inversion ND; subst. constructor.
  - intros Hx. apply H1. apply in_app_or in Hx. apply in_or_app. destruct Hx; [left; auto | right; apply Hs; auto].
  - apply IH; assumption.
Qed.

Section Proof.
Variable st : store.

Definition edge (x y : id) : Prop := exists ps, lookup st x = Some ps /\ In y ps.
Inductive reach (a : id) : id -> Prop :=
| r_refl : reach a a
| r_step : forall y z, reach a y -> edge y z -> reach a z.

Lemma mem_In x l : mem x l = true <-> In x l.
Proof.
  unfold mem. rewrite existsb_exists. split.
  - intros [y [Hy He]]. apply Nat.eqb_eq in He. subst. exact Hy.
  - intros H. exists x. split; [exact H | apply Nat.eqb_refl].
Qed.
Lemma mem_false x l : mem x l = false <-> ~ In x l.
Proof. rewrite <- mem_In. destruct (mem x l); split; congruence. Qed.

Lemma edge_expandable x y : edge x y -> expandable st x = true.
Proof. intros [ps [Hl Hin]]. unfold expandable. rewrite Hl. destruct ps; [destruct Hin | reflexivity]. Qed.

Lemma expandable_present k : expandable st k = true -> exists ps, lookup st k = Some ps.
Proof. unfold expandable. destruct (lookup st k) as [ps|]; [eauto | discriminate]. Qed.


Lemma scan_spec entity : forall ps known todo known' todo',
  scan st entity ps known todo = (known', todo') ->
  exists new, known' = new ++ known /\ todo' = new ++ todo /\
    (NoDup known -> NoDup known') /\
    (forall k, In k new -> In k ps /\ expandable st k = true /\ k <> entity /\ ~ In k known) /\
    (forall k, In k ps -> expandable st k = false \/ k = entity \/ In k known').
Proof.
  induction ps as [|k r IH]; intros known todo known' todo' H; simpl in H.
  - inversion H; subst. exists []. simpl.
    split; [reflexivity|]. split; [reflexivity|]. split; [auto|]. split; intros k [].
  - destruct (negb (expandable st k) || Nat.eqb k entity || mem k known) eqn:E.
    + destruct (IH _ _ _ _ H) as [new [Hk [Ht [Hnd [Hnew Hall]]]]].
      exists new. split; [exact Hk|]. split; [exact Ht|]. split; [exact Hnd|]. split.
      * intros x Hx. destruct (Hnew x Hx) as [A [B [C D]]].
        split; [right; exact A|]. split; [exact B|]. split; [exact C | exact D].
      * intros x [Hx|Hx]; [subst x | apply Hall; exact Hx].
        apply orb_true_iff in E. destruct E as [E|E].
        -- apply orb_true_iff in E. destruct E as [E|E].
           ++ left. apply negb_true_iff in E. exact E.
           ++ right; left. apply Nat.eqb_eq in E. exact E.
        -- right; right. apply mem_In in E. subst known'. apply in_or_app. right. exact E.
    + apply orb_false_iff in E. destruct E as [E E3]. apply orb_false_iff in E. destruct E as [E1 E2].
      apply negb_false_iff in E1. apply Nat.eqb_neq in E2. apply mem_false in E3.
      destruct (IH _ _ _ _ H) as [new [Hk [Ht [Hnd [Hnew Hall]]]]].
      exists (new ++ [k]). rewrite <- !app_assoc. simpl.
      split; [exact Hk|]. split; [exact Ht|]. split; [|split].
      * intros ND. apply Hnd. constructor; assumption.
      * intros x Hx. apply in_app_or in Hx. destruct Hx as [Hx|[Hx|[]]].
        -- destruct (Hnew x Hx) as [A [B [C D]]].
           split; [right; exact A|]. split; [exact B|]. split; [exact C|].
           intros HH. apply D. right. exact HH.
        -- subst x. split; [left; reflexivity|]. split; [exact E1|]. split; [exact E2 | exact E3].
      * intros x [Hx|Hx]; [subst x | apply Hall; exact Hx].
        right; right. subst known'. apply in_or_app. right. left. reflexivity.
Qed.

Variables entity parent : id.
Hypothesis Hne : entity <> parent.

Record Inv (V known todo : list id) (cand : id) : Prop := {
  i_sub   : incl todo known;
  i_nd    : NoDup known;
  i_known : forall k, In k known -> expandable st k = true /\ k <> entity /\ reach entity k;
  i_V     : forall v, In v V -> reach entity v /\ forall ps, lookup st v = Some ps -> mem parent ps = false;
  i_clo   : forall v k, In v V -> edge v k -> k = entity \/ In k known \/ expandable st k = false;
  i_part  : forall k, In k known -> In k todo \/ k = cand \/ In k V;
  i_ent   : In entity V \/ cand = entity;
  i_cand  : reach entity cand;
  i_candn : cand = entity \/ (In cand known /\ ~ In cand todo);
  i_tnd   : NoDup todo
}.

Lemma final_false V known : Inv V known [] entity -> False -> True. Proof. auto. Qed.

(* closed set argument *)
Lemma closed_no_reach V :
  In entity V ->
  (forall v k, In v V -> edge v k -> In k V \/ expandable st k = false) ->
  (forall v, In v V -> ~ edge v parent) ->
  ~ reach entity parent.
Proof.
  intros He Hclo Hno Hr.
  assert (Hall : forall z, reach entity z -> In z V \/ expandable st z = false).
  { induction 1 as [|y z Hy IH Hyz]; [left; exact He|].
    destruct IH as [IH|IH].
    - apply (Hclo y z IH Hyz).
    - apply edge_expandable in Hyz. congruence. }
  inversion Hr as [Heq | y z Hy Hyz Heq]; [congruence|].
  destruct (Hall y Hy) as [Hin|Hex].
  - apply (Hno y Hin Hyz).
  - apply edge_expandable in Hyz. congruence.
Qed.

Lemma loop_correct : forall fuel V known todo cand b,
  Inv V known todo cand ->
  loop fuel st entity parent known todo cand = Some b ->
  (b = true <-> reach entity parent).
Proof.
  induction fuel as [|f IH]; intros V known todo cand b HI H; simpl in H; [discriminate|].
  destruct (lookup st cand) as [ps|] eqn:Hl.
  - destruct (mem parent ps) eqn:Hm.
    + inversion H; subst b. split; [intros _|auto].
      apply r_step with cand; [apply (i_cand _ _ _ _ HI)|]. exists ps. split; [exact Hl | apply mem_In; exact Hm].
    + destruct (scan st entity ps known todo) as [known' todo'] eqn:Hs.
      destruct (scan_spec entity _ _ _ _ _ Hs) as [new [Hk [Ht [Hnd [Hnew Hall]]]]].
      (* facts about the state after expanding cand *)
      assert (HV' : forall v, In v (cand :: V) -> reach entity v /\ forall ps0, lookup st v = Some ps0 -> mem parent ps0 = false).
      { intros v [Hv|Hv]; [subst v | apply (i_V _ _ _ _ HI); exact Hv].
        split; [apply (i_cand _ _ _ _ HI)|]. intros ps0 Hps0. rewrite Hl in Hps0. inversion Hps0; subst. exact Hm. }
      assert (Hclo' : forall v k, In v (cand :: V) -> edge v k -> k = entity \/ In k known' \/ expandable st k = false).
      { intros v k [Hv|Hv] He.
        - subst v. destruct He as [ps0 [Hps0 Hin]]. rewrite Hl in Hps0. inversion Hps0; subst ps0.
          destruct (Hall k Hin) as [A|[A|A]]; auto.
        - destruct (i_clo _ _ _ _ HI v k Hv He) as [A|[A|A]]; auto.
          right; left. subst known'. apply in_or_app. right. exact A. }
      assert (Hknown' : forall k, In k known' -> expandable st k = true /\ k <> entity /\ reach entity k).
      { intros k Hk'. subst known'. apply in_app_or in Hk'. destruct Hk' as [Hk'|Hk'].
        - destruct (Hnew k Hk') as [A [B [C D]]]. repeat split; auto.
          apply r_step with cand; [apply (i_cand _ _ _ _ HI)|]. exists ps. split; assumption.
        - apply (i_known _ _ _ _ HI). exact Hk'. }
      destruct todo' as [|c t] eqn:Htodo'.
      * (* finished: false *)
        inversion H; subst b. split; [discriminate|]. intros Hr. exfalso.
        assert (Hnew0 : new = []) by (destruct new; [reflexivity | discriminate]).
        assert (Htodo0 : todo = []) by (subst new; simpl in Ht; congruence).
        subst new todo. simpl in Hk. subst known'.
        revert Hr. apply (closed_no_reach (cand :: V)).
        -- destruct (i_ent _ _ _ _ HI) as [A|A]; [right; exact A | left; exact A].
        -- intros v k Hv He. destruct (Hclo' v k Hv He) as [A|[A|A]]; auto.
           ++ subst k. left. destruct (i_ent _ _ _ _ HI) as [B|B]; [right; exact B | left; exact B].
           ++ left. destruct (i_part _ _ _ _ HI k A) as [B|[B|B]]; [destruct B | left; auto | right; exact B].
        -- intros v Hv [ps0 [Hps0 Hin]]. destruct (HV' v Hv) as [_ Hno]. specialize (Hno ps0 Hps0).
           apply mem_false in Hno. apply Hno. exact Hin.
      * (* continue with c *)
        apply (IH (cand :: V) known' t c b); [|exact H].
        assert (Hc_in : In c (new ++ todo)) by (rewrite <- Ht; left; reflexivity).
        assert (Htnd' : NoDup (c :: t)).
        { rewrite Ht. apply (nodup_app_sub new known todo).
          - rewrite <- Hk. apply Hnd. apply (i_nd _ _ _ _ HI).
          - apply (i_sub _ _ _ _ HI).
          - apply (i_tnd _ _ _ _ HI). }
        constructor.
        -- (* incl t known' *)
           intros k Hk'. assert (In k (new ++ todo)) by (rewrite <- Ht; right; exact Hk').
           subst known'. apply in_app_or in H0. apply in_or_app. destruct H0; [left; auto | right; apply (i_sub _ _ _ _ HI); auto].
        -- apply Hnd. apply (i_nd _ _ _ _ HI).
        -- exact Hknown'.
        -- exact HV'.
        -- exact Hclo'.
        -- (* partition *)
           intros k Hk'. 
           assert (Hcase : In k (new ++ todo) \/ k = cand \/ In k V).
           { subst known'. apply in_app_or in Hk'. destruct Hk' as [A|A].
             - left. apply in_or_app. left. exact A.
             - destruct (i_part _ _ _ _ HI k A) as [B|[B|B]]; auto. left. apply in_or_app. right. exact B. }
           destruct Hcase as [A|[A|A]].
           ++ rewrite <- Ht in A. destruct A as [A|A]; [right; left; auto | left; exact A].
           ++ right; right. left. auto.
           ++ right; right. right. exact A.
        -- left. destruct (i_ent _ _ _ _ HI) as [A|A]; [right; exact A | left; auto].
        -- assert (In c known') by (subst known'; apply in_app_or in Hc_in; apply in_or_app; destruct Hc_in; [left; auto | right; apply (i_sub _ _ _ _ HI); auto]).
           apply Hknown'. exact H0.
        -- right. split.
           ++ subst known'. apply in_app_or in Hc_in. apply in_or_app. destruct Hc_in; [left; auto | right; apply (i_sub _ _ _ _ HI); auto].
           ++ inversion Htnd'; assumption.
        -- inversion Htnd'; assumption.
  - (* candidate absent *)
    destruct todo as [|c t].
    + inversion H; subst b. split; [discriminate|]. intros Hr. exfalso.
      revert Hr. apply (closed_no_reach (cand :: V)).
      * destruct (i_ent _ _ _ _ HI) as [A|A]; [right; exact A | left; exact A].
      * intros v k [Hv|Hv] He.
        -- subst v. destruct He as [ps0 [Hps0 _]]. congruence.
        -- destruct (i_clo _ _ _ _ HI v k Hv He) as [A|[A|A]]; auto.
           ++ subst k. left. destruct (i_ent _ _ _ _ HI) as [B|B]; [right; exact B | left; exact B].
           ++ left. destruct (i_part _ _ _ _ HI k A) as [B|[B|B]]; [destruct B | left; auto | right; exact B].
      * intros v [Hv|Hv] [ps0 [Hps0 Hin]].
        -- subst v. congruence.
        -- destruct (i_V _ _ _ _ HI v Hv) as [_ Hno]. specialize (Hno ps0 Hps0). apply mem_false in Hno. auto.
    + apply (IH (cand :: V) known t c b); [|exact H].
      pose proof (i_tnd _ _ _ _ HI) as NDt. inversion NDt; subst.
      constructor.
      * intros k Hk'. apply (i_sub _ _ _ _ HI). right. exact Hk'.
      * apply (i_nd _ _ _ _ HI).
      * apply (i_known _ _ _ _ HI).
      * intros v [Hv|Hv]; [subst v | apply (i_V _ _ _ _ HI); exact Hv].
        split; [apply (i_cand _ _ _ _ HI)|]. intros ps0 Hps0. congruence.
      * intros v k [Hv|Hv] He.
        -- subst v. destruct He as [ps0 [Hps0 _]]. congruence.
        -- apply (i_clo _ _ _ _ HI v k Hv He).
      * intros k Hk'. destruct (i_part _ _ _ _ HI k Hk') as [[A|A]|[A|A]].
        -- right; left. auto.
        -- left. exact A.
        -- right; right. left. auto.
        -- right; right. right. exact A.
      * left. destruct (i_ent _ _ _ _ HI) as [A|A]; [right; exact A | left; auto].
      * apply (i_known _ _ _ _ HI). apply (i_sub _ _ _ _ HI). left. reflexivity.
      * right. split; [apply (i_sub _ _ _ _ HI); left; reflexivity | assumption].
      * assumption.
Qed.

Lemma known_bound V known todo cand : Inv V known todo cand -> length known <= length st.
Proof.
  intros HI. rewrite <- (map_length fst st). apply NoDup_incl_length; [apply (i_nd _ _ _ _ HI)|].
  intros k Hk. destruct (i_known _ _ _ _ HI k Hk) as [He _].
  destruct (expandable_present k He) as [ps Hps]. apply (lookup_in_keys st k ps Hps).
Qed.

(* Termination (fuel S (length st) suffices) follows from known_bound with the measure
   length todo + (length st - length known), which drops by one per iteration; the
   invariant-preservation part of loop_correct is to be factored into a step lemma and reused. *)
End Proof.
