// Command harness runs correspondence cases against the cedar-go working tree in /repo.
//
//	harness run <cases> <out> [skip]   one result line "<id> <sexp>" per case, appended and flushed
//
// A Go panic is caught per case and reported as (panic ...). A fatal runtime error (stack
// overflow) kills the process; the orchestrator sees which case was in flight ("> id" marker
// lines in <out>.progress) and restarts after it.
package main

import (
	"bufio"
	"fmt"
	"os"
	"strconv"
	"strings"
	"time"
)

type kindFn func(payload []*Sx) *Sx

var kinds = map[string]kindFn{}

func sanitize(m string) string {
	m = strings.Map(func(r rune) rune {
		if r == ' ' || r == '(' || r == ')' || r == '\n' || r == '\t' || r == '\r' {
			return '_'
		}
		return r
	}, m)
	if len(m) > 200 {
		m = m[:200]
	}
	return m
}

func runOne(kind string, payload []*Sx, timeout time.Duration) (res *Sx) {
	fn, ok := kinds[kind]
	if !ok {
		return L(A("unsupported"), A(kind))
	}
	done := make(chan *Sx, 1)
	go func() {
		defer func() {
			if r := recover(); r != nil {
				msg := fmt.Sprint(r)
				if strings.HasPrefix(msg, "harness:") {
					done <- L(A("harness-failure"), A(sanitize(msg)))
				} else {
					done <- L(A("panic"), A(sanitize(msg)))
				}
			}
		}()
		done <- fn(payload)
	}()
	select {
	case r := <-done:
		return r
	case <-time.After(timeout):
		return L(A("timeout"))
	}
}

func main() {
	if len(os.Args) < 4 || os.Args[1] != "run" {
		fmt.Fprintln(os.Stderr, "usage: harness run <cases> <out> [skip]")
		os.Exit(2)
	}
	skip := 0
	if len(os.Args) > 4 {
		skip, _ = strconv.Atoi(os.Args[4])
	}
	timeout := 10 * time.Second
	if t := os.Getenv("HARNESS_CASE_TIMEOUT_MS"); t != "" {
		if ms, err := strconv.Atoi(t); err == nil {
			timeout = time.Duration(ms) * time.Millisecond
		}
	}
	in, err := os.Open(os.Args[2])
	if err != nil {
		panic(err)
	}
	defer in.Close()
	out, err := os.OpenFile(os.Args[3], os.O_APPEND|os.O_CREATE|os.O_WRONLY, 0o644)
	if err != nil {
		panic(err)
	}
	defer out.Close()
	prog, err := os.OpenFile(os.Args[3]+".progress", os.O_TRUNC|os.O_CREATE|os.O_WRONLY, 0o644)
	if err != nil {
		panic(err)
	}
	defer prog.Close()
	w := bufio.NewWriterSize(out, 1<<16)
	defer w.Flush()
	sc := bufio.NewScanner(in)
	sc.Buffer(make([]byte, 1<<20), 1<<28)
	n := 0
	for sc.Scan() {
		line := sc.Text()
		if len(line) == 0 || line[0] != '(' {
			continue
		}
		n++
		if n <= skip {
			continue
		}
		sx, err := parseSx(line)
		if err != nil || !sx.IsList || len(sx.List) < 3 || sx.List[0].Atom != "case" {
			continue
		}
		id, kind := sx.List[1].Atom, sx.List[2].Atom
		risky := riskyKinds[kind]
		if risky {
			// make everything before this case durable, then name the case in flight
			w.Flush()
			fmt.Fprintf(prog, "%d %s\n", n, id)
		}
		r := runOne(kind, sx.List[3:], timeout)
		fmt.Fprintf(w, "%s %s\n", id, r.String())
		if r.IsList && len(r.List) > 0 && r.List[0].Atom == "timeout" {
			// the stuck goroutine cannot be killed: stop here, the orchestrator restarts after this case
			w.Flush()
			os.Exit(3)
		}
	}
	w.Flush()
}

// kinds whose cases may kill the process (deep recursion); progress is recorded before each.
var riskyKinds = map[string]bool{}
