package main

import (
	"encoding/json"
	"fmt"
	"sort"
	"strings"

	cedar "github.com/cedar-policy/cedar-go"
)

// file names are opaque to the loaders: whatever is given is what every position reports
var docNames = []string{"doc.cedar", "", "./p.cedar", "dir//p.cedar", "dir/../p.cedar", "dir/", "a b.cedar", "C:\\x\\p.cedar", "é.cedar", "../..", "/abs/./p"}

func init() { kinds["pshist"] = runPSHist }

var poolTexts = []string{
	`permit(principal, action, resource);`,
	`forbid(principal == User::"alice", action, resource);`,
	`permit(principal, action, resource) when { false };`,
	`forbid(principal, action, resource) when { context.missing };`,
	`@id("x") permit(principal in Group::"g", action, resource);`,
	`permit(principal, action, resource) when { 1 + "a" == 2 };`,
}

func poolPolicy(h int) *cedar.Policy {
	var p cedar.Policy
	if err := p.UnmarshalCedar([]byte(poolTexts[h])); err != nil {
		panic("harness: pool policy does not parse: " + err.Error())
	}
	return &p
}

var poolByText map[string]int

func handleOf(p *cedar.Policy) int {
	if poolByText == nil {
		poolByText = map[string]int{}
		for h := range poolTexts {
			poolByText[string(poolPolicy(h).MarshalCedar())] = h
		}
	}
	if p == nil {
		return -2
	}
	h, ok := poolByText[string(p.MarshalCedar())]
	if !ok {
		return -1
	}
	return h
}

func bindingsSx(m cedar.PolicyMap) *Sx {
	var ids []string
	for k := range m {
		ids = append(ids, string(k))
	}
	sort.Strings(ids)
	l := L(A("bindings"))
	for _, id := range ids {
		l.List = append(l.List, L(AS(id), AI(handleOf(m[cedar.PolicyID(id)]))))
	}
	return l
}

// payload: (ops op...) ; ops: (add id h) (remove id) (get id) (all) (mapmut id h) (cedar) (json) (cedarrt) (fromdoc h...) (authz)
func runPSHist(payload []*Sx) *Sx {
	ps := cedar.NewPolicySet()
	em, req := absEnv()
	out := L()
	// one policy OBJECT per pool entry and history: the same *Policy may be stored under several ids, in several sets and in copies
	shared := map[int]*cedar.Policy{}
	sharedPolicy := func(h int) *cedar.Policy {
		if shared[h] == nil {
			shared[h] = poolPolicy(h)
		}
		return shared[h]
	}
	// copies of the set taken earlier (All / Map) must not change when the set is modified afterwards
	var snaps []cedar.PolicyMap
	var snapWant []string
	for opIndex, op := range payload[0].List[1:] {
		var r *Sx
		switch op.Head() {
		case "add":
			added := sharedPolicy(int(mustInt64(op.List[2].Atom)))
			ok := ps.Add(cedar.PolicyID(op.List[1].Str()), added)
			r = L(A("bool"), A(fmt.Sprint(ok)))
			// a map hands back the very object that was stored
			if ps.Get(cedar.PolicyID(op.List[1].Str())) != added {
				r = L(A("get-after-add-is-another-object"))
			}
		case "iterrm":
			// removing entries that the iteration has not reached yet: they must not be produced afterwards (Go map semantics).
			// Done on a copy of the set, so the history itself is unchanged: the result is that of `all`.
			r = bindingsSx(ps.Map())
			target := cedar.PolicyID(op.List[1].Str())
			for variant := 0; variant < 2; variant++ {
				clone := cedar.NewPolicySet()
				for k, v := range ps.All() {
					clone.Add(k, v)
				}
				gone := map[cedar.PolicyID]bool{}
				first := true
				for k, pol := range clone.All() {
					if gone[k] || pol == nil {
						r = L(A("iteration-produced-a-removed-entry"), AS(string(k)))
					}
					if variant == 0 && k != target && !gone[target] {
						gone[target] = clone.Remove(target)
					}
					if variant == 1 && first {
						for id := range clone.Map() {
							if id != k {
								clone.Remove(id)
								gone[id] = true
							}
						}
					}
					first = false
				}
			}
		case "snap":
			m := cedar.PolicyMap{}
			for k, v := range ps.All() {
				m[k] = v
			}
			r = bindingsSx(m)
			snaps = append(snaps, m, ps.Map())
			snapWant = append(snapWant, r.String(), r.String())
		case "remove":
			ok := ps.Remove(cedar.PolicyID(op.List[1].Str()))
			r = L(A("bool"), A(fmt.Sprint(ok)))
		case "get":
			p := ps.Get(cedar.PolicyID(op.List[1].Str()))
			if p == nil {
				r = L(A("get"), A("none"))
			} else {
				r = L(A("get"), AI(handleOf(p)))
			}
			// lookup, iteration and the copy of the map all speak of the same stored objects
			for k, v := range ps.All() {
				if ps.Get(k) != v || ps.Map()[k] != v {
					r = L(A("get-all-map-hand-out-different-objects"), AS(string(k)))
				}
			}
		case "all":
			m := cedar.PolicyMap{}
			for k, v := range ps.All() {
				if _, dup := m[k]; dup {
					panic("All yields an id twice")
				}
				m[k] = v
			}
			r = bindingsSx(m)
			if r.String() != bindingsSx(ps.Map()).String() {
				r = L(A("all-map-disagree"))
			}
		case "mapmut":
			m := ps.Map()
			r = bindingsSx(m)
			delete(m, cedar.PolicyID(op.List[1].Str()))
			m[cedar.PolicyID("zz"+op.List[1].Str())] = poolPolicy(int(mustInt64(op.List[2].Atom)))
			for k := range m {
				delete(m, k)
				break
			}
		case "cedar":
			b := ps.MarshalCedar()
			pl, err := cedar.NewPolicyListFromBytes("m.cedar", b)
			if err != nil {
				r = L(A("marshal-does-not-parse"))
				break
			}
			r = L(A("list"))
			for _, p := range pl {
				r.List = append(r.List, AI(handleOf(p)))
			}
			// separator convention: exactly "\n\n" between policies, none at the end
			var texts []string
			for _, p := range pl {
				texts = append(texts, string(p.MarshalCedar()))
			}
			if strings.Join(texts, "\n\n") != string(b) {
				r = L(A("marshal-layout"))
			}
		case "json":
			b, err := json.Marshal(ps)
			if err != nil {
				r = L(A("json-marshal-error"))
				break
			}
			var ps2 cedar.PolicySet
			if err := json.Unmarshal(b, &ps2); err != nil {
				r = L(A("json-unmarshal-error"))
				break
			}
			ps = &ps2
			r = bindingsSx(ps.Map())
		case "cedarrt":
			b := ps.MarshalCedar()
			fileName := docNames[(opIndex+len(b))%len(docNames)]
			ps2, err := cedar.NewPolicySetFromBytes(fileName, b)
			if err != nil {
				r = L(A("cedar-reload-error"))
				break
			}
			ps = ps2
			r = bindingsSx(ps.Map())
			for _, p := range ps.Map() {
				if p.Position().Filename != fileName {
					r = L(A("bad-filename"))
				}
			}
			// the list loader stamps the same given name
			if pl, err := cedar.NewPolicyListFromBytes(fileName, b); err == nil {
				for _, p := range pl {
					if p.Position().Filename != fileName {
						r = L(A("bad-filename"))
					}
				}
			}
		case "fromdoc":
			var doc strings.Builder
			for _, h := range op.List[1:] {
				doc.WriteString(poolTexts[int(mustInt64(h.Atom))])
				doc.WriteString("\n// c\n  ")
			}
			fileName := docNames[(opIndex+doc.Len())%len(docNames)]
			ps2, err := cedar.NewPolicySetFromBytes(fileName, []byte(doc.String()))
			if err != nil {
				r = L(A("fromdoc-error"))
				break
			}
			ps = ps2
			r = bindingsSx(ps.Map())
			for _, p := range ps.Map() {
				if p.Position().Filename != fileName {
					r = L(A("bad-filename"))
				}
			}
		case "loadjson":
			// a document with the given bindings, unmarshalled INTO the current set object
			tmp := cedar.NewPolicySet()
			for _, b := range op.List[1:] {
				tmp.Add(cedar.PolicyID(b.List[0].Str()), poolPolicy(int(mustInt64(b.List[1].Atom))))
			}
			doc, err := tmp.MarshalJSON()
			if err != nil {
				r = L(A("json-marshal-error"))
				break
			}
			if err := ps.UnmarshalJSON(doc); err != nil {
				r = L(A("json-unmarshal-error"))
				break
			}
			r = bindingsSx(ps.Map())
		case "authz":
			dec, diag := ps.IsAuthorized(em, req)
			var rs, es []string
			for _, x := range diag.Reasons {
				rs = append(rs, AS(string(x.PolicyID)).Atom)
			}
			for _, x := range diag.Errors {
				es = append(es, AS(string(x.PolicyID)).Atom)
			}
			sort.Strings(rs)
			sort.Strings(es)
			d := "deny"
			if dec == cedar.Allow {
				d = "allow"
			}
			rl, el := L(), L()
			for _, x := range rs {
				rl.List = append(rl.List, A(x))
			}
			for _, x := range es {
				el.List = append(el.List, A(x))
			}
			r = L(A("decision"), A(d), rl, el)
		default:
			panic("harness: unknown pshist op " + op.String())
		}
		for i, m := range snaps {
			if bindingsSx(m).String() != snapWant[i] {
				r = L(A("earlier-copy-of-the-set-changed"), bindingsSx(m))
			}
		}
		out.List = append(out.List, r)
	}
	return out
}
