package main

import (
	"fmt"
	"iter"
	"sort"
	"strings"

	cedar "github.com/cedar-policy/cedar-go"
	"github.com/cedar-policy/cedar-go/types"
)

func init() {
	kinds["authz-abs"] = runAuthzAbs
}

var absSat = []string{
	`(principal, action, resource);`,
	`(principal, action, resource) when { true };`,
	`(principal == User::"alice", action == Action::"view", resource == Doc::"d1");`,
	`(principal in Group::"g", action in [Action::"view", Action::"edit"], resource is Doc) when { context.n == 1 } unless { false };`,
	`(principal is User in Group::"g", action, resource) when { 1 < 2 } when { principal has name || true };`,
}
var absUnsat = []string{
	`(principal, action, resource) when { false };`,
	`(principal, action, resource) unless { true };`,
	`(principal == User::"bob", action, resource);`,
	`(principal, action == Action::"edit", resource) when { 1 + "a" == 2 };`,
	`(principal, action, resource) when { true } when { context.n == 2 } when { 1 + "a" == 2 };`,
	`(principal, action, resource is User);`,
}
var absErr = []string{
	`(principal, action, resource) when { 1 + "a" == 2 };`,
	`(principal, action, resource) when { context.missing };`,
	`(principal, action, resource) when { 9223372036854775807 + context.n == 0 };`,
	`(principal, action, resource) when { 1 };`,
	`(principal, action, resource) unless { "x" };`,
	`(principal, action, resource) when { true } when { User::"nobody".name == "x" };`,
	`(principal, action, resource) when { decimal("1.23456") == decimal("1.0") };`,
	`(principal, action, resource) when { principal.getTag("zz") == 1 };`,
	// a connective checks BOTH operands even when the left one decides nothing, wherever its value is consumed
	`(principal, action, resource) when { (true && context.n) == 1 };`,
	`(principal, action, resource) unless { (false || context.n) == 7 };`,
	`(principal, action, resource) when { [true && 1].contains(1) };`,
	`(principal, action, resource) when { {k: false || "x"}.k == "x" };`,
}

type sliceIter struct {
	ids  []cedar.PolicyID
	pols []*cedar.Policy
}

func (s sliceIter) All() iter.Seq2[cedar.PolicyID, *cedar.Policy] {
	return func(yield func(cedar.PolicyID, *cedar.Policy) bool) {
		for i := range s.ids {
			if !yield(s.ids[i], s.pols[i]) {
				return
			}
		}
	}
}

func absEnv() (types.EntityMap, cedar.Request) {
	alice := types.NewEntityUID("User", "alice")
	g := types.NewEntityUID("Group", "g")
	em := types.EntityMap{
		alice: {UID: alice, Parents: types.NewEntityUIDSet(g), Attributes: types.NewRecord(types.RecordMap{"name": types.String("alice")})},
		g:     {UID: g},
	}
	req := cedar.Request{
		Principal: alice,
		Action:    types.NewEntityUID("Action", "view"),
		Resource:  types.NewEntityUID("Doc", "d1"),
		Context:   types.NewRecord(types.RecordMap{"n": types.Long(1)}),
	}
	return em, req
}

// payload: <iter> (pols (p idx permit|forbid t|f|e variant) ...)
func runAuthzAbs(payload []*Sx) *Sx {
	iterKind := payload[0].Atom
	var doc strings.Builder
	var idxs []int
	for _, p := range payload[1].List[1:] {
		idx := int(mustInt64(p.List[1].Atom))
		eff, out, variant := p.List[2].Atom, p.List[3].Atom, int(mustInt64(p.List[4].Atom))
		var tbl []string
		switch out {
		case "t":
			tbl = absSat
		case "f":
			tbl = absUnsat
		default:
			tbl = absErr
		}
		// some leading layout so that positions differ in line and column as well as in offset
		doc.WriteString(strings.Repeat(" ", idx%3))
		doc.WriteString(eff)
		doc.WriteString(" ")
		doc.WriteString(tbl[variant%len(tbl)])
		doc.WriteString("\n")
		if idx%2 == 1 {
			doc.WriteString("// é comment\n")
		}
		idxs = append(idxs, idx)
	}
	pl, err := cedar.NewPolicyListFromBytes("abs.cedar", []byte(doc.String()))
	if err != nil {
		panic("harness: abs document does not parse: " + err.Error())
	}
	if len(pl) != len(idxs) {
		panic("harness: abs document policy count")
	}
	byOffset := map[int]int{}
	idOf := map[int]cedar.PolicyID{}
	posOf := map[int]cedar.Position{}
	var it cedar.PolicyIterator
	switch iterKind {
	case "set":
		ps := cedar.NewPolicySet()
		for i, p := range pl {
			id := cedar.PolicyID(fmt.Sprintf("p%d", idxs[i]))
			ps.Add(id, p)
			idOf[idxs[i]] = id
		}
		it = ps
	case "slice", "dup":
		si := sliceIter{}
		for i, p := range pl {
			id := cedar.PolicyID(fmt.Sprintf("p%d", idxs[i]))
			if iterKind == "dup" {
				id = "dup"
			}
			si.ids = append(si.ids, id)
			si.pols = append(si.pols, p)
			idOf[idxs[i]] = id
		}
		it = si
	default:
		panic("harness: iter kind")
	}
	for i, p := range pl {
		byOffset[p.Position().Offset] = idxs[i]
		posOf[idxs[i]] = p.Position()
	}
	em, req := absEnv()
	dec, diag := cedar.Authorize(it, em, req)
	meta := "ok"
	resolve := func(id cedar.PolicyID, pos cedar.Position) int {
		idx, ok := byOffset[pos.Offset]
		if !ok {
			meta = "bad-position"
			return -1
		}
		if idOf[idx] != id {
			meta = "bad-id"
		}
		if posOf[idx] != pos || pos.Filename != "abs.cedar" {
			meta = "bad-position"
		}
		return idx
	}
	var rs, es []int
	for _, r := range diag.Reasons {
		rs = append(rs, resolve(r.PolicyID, r.Position))
	}
	for _, e := range diag.Errors {
		es = append(es, resolve(e.PolicyID, e.Position))
		if e.Message == "" {
			meta = "empty-message"
		}
	}
	sort.Ints(rs)
	sort.Ints(es)
	toL := func(xs []int) *Sx {
		l := L()
		for _, x := range xs {
			l.List = append(l.List, AI(x))
		}
		return l
	}
	d := "deny"
	if dec == cedar.Allow {
		d = "allow"
	}
	return L(L(A("dec"), A(d)), L(A("reasons"), toL(rs)), L(A("errors"), toL(es)), L(A("meta"), A(meta)))
}
