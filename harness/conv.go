package main

import (
	"fmt"
	"math/big"
	"net/netip"
	"sort"
	"strconv"
	"strings"

	cedar "github.com/cedar-policy/cedar-go"
	cedarast "github.com/cedar-policy/cedar-go/ast"
	"github.com/cedar-policy/cedar-go/types"
	xast "github.com/cedar-policy/cedar-go/x/exp/ast"
)

func mustInt64(a string) int64 {
	v, err := strconv.ParseInt(a, 10, 64)
	if err != nil {
		panic(fmt.Sprintf("harness: bad int %q", a))
	}
	return v
}

// ---------- values ----------

func decimalFromRaw(raw int64) types.Decimal {
	d, err := types.NewDecimal(raw, -4)
	if err != nil {
		panic("harness: NewDecimal(raw,-4) failed: " + err.Error())
	}
	return d
}

func decimalRaw(d types.Decimal) *big.Int {
	s := d.String()
	neg := strings.HasPrefix(s, "-")
	s = strings.TrimPrefix(s, "-")
	parts := strings.SplitN(s, ".", 2)
	frac := ""
	if len(parts) == 2 {
		frac = parts[1]
	}
	for len(frac) < 4 {
		frac += "0"
	}
	v, ok := new(big.Int).SetString(parts[0]+frac, 10)
	if !ok {
		panic("harness: cannot read decimal " + s)
	}
	if neg {
		v.Neg(v)
	}
	return v
}

func ipFromSx(s *Sx) types.IPAddr {
	fam := s.List[1].Atom
	addr, ok := new(big.Int).SetString(s.List[2].Atom, 10)
	if !ok {
		panic("harness: bad ip addr")
	}
	bits := int(mustInt64(s.List[3].Atom))
	var a netip.Addr
	if fam == "4" {
		var b [4]byte
		addr.FillBytes(b[:])
		a = netip.AddrFrom4(b)
	} else {
		var b [16]byte
		addr.FillBytes(b[:])
		a = netip.AddrFrom16(b)
	}
	return types.IPAddr(netip.PrefixFrom(a, bits))
}

func uidFromSx(s *Sx) types.EntityUID {
	if s.Head() != "e" {
		panic("harness: expected entity uid, got " + s.String())
	}
	return types.NewEntityUID(types.EntityType(s.List[1].Str()), types.String(s.List[2].Str()))
}

func valueFromSx(s *Sx) types.Value {
	switch s.Head() {
	case "b":
		return types.Boolean(s.List[1].Atom == "1")
	case "l":
		return types.Long(mustInt64(s.List[1].Atom))
	case "s":
		return types.String(s.List[1].Str())
	case "e":
		return uidFromSx(s)
	case "set":
		vals := make([]types.Value, 0, len(s.List)-1)
		for _, x := range s.List[1:] {
			vals = append(vals, valueFromSx(x))
		}
		return types.NewSet(vals...)
	case "rec":
		m := types.RecordMap{}
		for _, kv := range s.List[1:] {
			m[types.String(kv.List[0].Str())] = valueFromSx(kv.List[1])
		}
		return types.NewRecord(m)
	case "dec":
		return decimalFromRaw(mustInt64(s.List[1].Atom))
	case "dt":
		return types.NewDatetimeFromMillis(mustInt64(s.List[1].Atom))
	case "dur":
		return types.NewDurationFromMillis(mustInt64(s.List[1].Atom))
	case "ip":
		return ipFromSx(s)
	}
	panic("harness: unknown value form " + s.String())
}

// valueToSx renders a value canonically: set members and record keys sorted.
func valueToSx(v types.Value) *Sx {
	switch t := v.(type) {
	case types.Boolean:
		if t {
			return L(A("b"), A("1"))
		}
		return L(A("b"), A("0"))
	case types.Long:
		return L(A("l"), A(strconv.FormatInt(int64(t), 10)))
	case types.String:
		return L(A("s"), AS(string(t)))
	case types.EntityUID:
		return L(A("e"), AS(string(t.Type)), AS(string(t.ID)))
	case types.Set:
		var items []*Sx
		for x := range t.All() {
			items = append(items, valueToSx(x))
		}
		sort.Slice(items, func(i, j int) bool { return items[i].String() < items[j].String() })
		return L(append([]*Sx{A("set")}, items...)...)
	case types.Record:
		var keys []string
		for k := range t.Keys() {
			keys = append(keys, string(k))
		}
		sort.Strings(keys)
		items := []*Sx{A("rec")}
		for _, k := range keys {
			x, _ := t.Get(types.String(k))
			items = append(items, L(AS(k), valueToSx(x)))
		}
		return L(items...)
	case types.Decimal:
		return L(A("dec"), A(decimalRaw(t).String()))
	case types.Datetime:
		return L(A("dt"), A(strconv.FormatInt(t.Milliseconds(), 10)))
	case types.Duration:
		return L(A("dur"), A(strconv.FormatInt(t.ToMilliseconds(), 10)))
	case types.IPAddr:
		p := t.Prefix()
		a := p.Addr()
		fam := "6"
		var n *big.Int
		if a.Is4() {
			fam = "4"
			b := a.As4()
			n = new(big.Int).SetBytes(b[:])
		} else {
			b := a.As16()
			n = new(big.Int).SetBytes(b[:])
		}
		return L(A("ip"), A(fam), A(n.String()), AI(p.Bits()))
	case nil:
		return L(A("nil"))
	}
	return L(A("unknown-value"))
}

// ---------- expressions ----------

func patternFromSx(s *Sx) types.Pattern {
	var comps []any
	for _, c := range s.List[1:] {
		if c.IsList {
			comps = append(comps, types.Wildcard{})
		} else {
			comps = append(comps, types.String(c.Str()))
		}
	}
	return types.NewPattern(comps...)
}

func bin(s *Sx) xast.BinaryNode {
	return xast.BinaryNode{Left: exprFromSx(s.List[1]), Right: exprFromSx(s.List[2])}
}
func un(s *Sx) xast.UnaryNode { return xast.UnaryNode{Arg: exprFromSx(s.List[1])} }

func exprFromSx(s *Sx) xast.IsNode {
	switch s.Head() {
	case "lit":
		return xast.NodeValue{Value: valueFromSx(s.List[1])}
	case "var":
		return xast.NodeTypeVariable{Name: types.String(s.List[1].Atom)}
	case "and":
		return xast.NodeTypeAnd{BinaryNode: bin(s)}
	case "or":
		return xast.NodeTypeOr{BinaryNode: bin(s)}
	case "not":
		return xast.NodeTypeNot{UnaryNode: un(s)}
	case "neg":
		return xast.NodeTypeNegate{UnaryNode: un(s)}
	case "add":
		return xast.NodeTypeAdd{BinaryNode: bin(s)}
	case "sub":
		return xast.NodeTypeSub{BinaryNode: bin(s)}
	case "mul":
		return xast.NodeTypeMult{BinaryNode: bin(s)}
	case "eq":
		return xast.NodeTypeEquals{BinaryNode: bin(s)}
	case "ne":
		return xast.NodeTypeNotEquals{BinaryNode: bin(s)}
	case "lt":
		return xast.NodeTypeLessThan{BinaryNode: bin(s)}
	case "le":
		return xast.NodeTypeLessThanOrEqual{BinaryNode: bin(s)}
	case "gt":
		return xast.NodeTypeGreaterThan{BinaryNode: bin(s)}
	case "ge":
		return xast.NodeTypeGreaterThanOrEqual{BinaryNode: bin(s)}
	case "in":
		return xast.NodeTypeIn{BinaryNode: bin(s)}
	case "contains":
		return xast.NodeTypeContains{BinaryNode: bin(s)}
	case "containsAll":
		return xast.NodeTypeContainsAll{BinaryNode: bin(s)}
	case "containsAny":
		return xast.NodeTypeContainsAny{BinaryNode: bin(s)}
	case "isEmpty":
		return xast.NodeTypeIsEmpty{UnaryNode: un(s)}
	case "access":
		return xast.NodeTypeAccess{StrOpNode: xast.StrOpNode{Arg: exprFromSx(s.List[1]), Value: types.String(s.List[2].Str())}}
	case "has":
		return xast.NodeTypeHas{StrOpNode: xast.StrOpNode{Arg: exprFromSx(s.List[1]), Value: types.String(s.List[2].Str())}}
	case "getTag":
		return xast.NodeTypeGetTag{BinaryNode: bin(s)}
	case "hasTag":
		return xast.NodeTypeHasTag{BinaryNode: bin(s)}
	case "like":
		return xast.NodeTypeLike{Arg: exprFromSx(s.List[1]), Value: patternFromSx(s.List[2])}
	case "is":
		return xast.NodeTypeIs{Left: exprFromSx(s.List[1]), EntityType: types.EntityType(s.List[2].Str())}
	case "isIn":
		return xast.NodeTypeIsIn{NodeTypeIs: xast.NodeTypeIs{Left: exprFromSx(s.List[1]), EntityType: types.EntityType(s.List[2].Str())}, Entity: exprFromSx(s.List[3])}
	case "if":
		return xast.NodeTypeIfThenElse{If: exprFromSx(s.List[1]), Then: exprFromSx(s.List[2]), Else: exprFromSx(s.List[3])}
	case "mkset":
		els := make([]xast.IsNode, 0, len(s.List)-1)
		for _, x := range s.List[1:] {
			els = append(els, exprFromSx(x))
		}
		return xast.NodeTypeSet{Elements: els}
	case "mkrec":
		els := make([]xast.RecordElementNode, 0, len(s.List)-1)
		for _, kv := range s.List[1:] {
			els = append(els, xast.RecordElementNode{Key: types.String(kv.List[0].Str()), Value: exprFromSx(kv.List[1])})
		}
		return xast.NodeTypeRecord{Elements: els}
	case "perr":
		return xast.NodeTypeExtensionCall{Name: "__cedar::partialError", Args: []xast.IsNode{xast.NodeValue{Value: types.String(classMessage(s.List[1].Atom))}}}
	case "call":
		args := make([]xast.IsNode, 0, len(s.List)-2)
		for _, x := range s.List[2:] {
			args = append(args, exprFromSx(x))
		}
		return xast.NodeTypeExtensionCall{Name: types.Path(s.List[1].Str()), Args: args}
	}
	panic("harness: unknown expr form " + s.String())
}

// ---------- store / request / policy ----------

func recordFromKVs(items []*Sx) types.Record {
	m := types.RecordMap{}
	for _, kv := range items {
		m[types.String(kv.List[0].Str())] = valueFromSx(kv.List[1])
	}
	return types.NewRecord(m)
}

func storeFromSx(s *Sx) types.EntityMap {
	em := types.EntityMap{}
	for _, e := range s.List[1:] {
		uid := uidFromSx(e.List[1])
		var parents []types.EntityUID
		for _, p := range e.List[2].List[1:] {
			parents = append(parents, uidFromSx(p))
		}
		em[uid] = types.Entity{
			UID:        uid,
			Parents:    types.NewEntityUIDSet(parents...),
			Attributes: recordFromKVs(e.List[3].List[1:]),
			Tags:       recordFromKVs(e.List[4].List[1:]),
		}
	}
	return em
}

type reqParts struct{ P, A, R, C types.Value }

func reqFromSx(s *Sx) reqParts {
	return reqParts{valueFromSx(s.List[1]), valueFromSx(s.List[2]), valueFromSx(s.List[3]), valueFromSx(s.List[4])}
}

func (r reqParts) concrete() (cedar.Request, bool) {
	p, ok1 := r.P.(types.EntityUID)
	a, ok2 := r.A.(types.EntityUID)
	re, ok3 := r.R.(types.EntityUID)
	c, ok4 := r.C.(types.Record)
	return cedar.Request{Principal: p, Action: a, Resource: re, Context: c}, ok1 && ok2 && ok3 && ok4
}

func scopeFromSx(s *Sx) any {
	switch s.Head() {
	case "all":
		return xast.ScopeTypeAll{}
	case "eq":
		return xast.ScopeTypeEq{Entity: uidFromSx(s.List[1])}
	case "in":
		return xast.ScopeTypeIn{Entity: uidFromSx(s.List[1])}
	case "inset":
		var es []types.EntityUID
		for _, x := range s.List[1:] {
			es = append(es, uidFromSx(x))
		}
		return xast.ScopeTypeInSet{Entities: es}
	case "is":
		return xast.ScopeTypeIs{Type: types.EntityType(s.List[1].Str())}
	case "isin":
		return xast.ScopeTypeIsIn{Type: types.EntityType(s.List[1].Str()), Entity: uidFromSx(s.List[2])}
	}
	panic("harness: unknown scope " + s.String())
}

// (policy <id> permit|forbid scopeP scopeA scopeR (conds (when|unless expr)*) (annots (k v)*))
func policyFromSx(s *Sx) (string, *xast.Policy) {
	id := s.List[1].Str()
	p := &xast.Policy{Effect: xast.Effect(s.List[2].Atom == "permit")}
	p.Principal = scopeFromSx(s.List[3]).(xast.IsPrincipalScopeNode)
	p.Action = scopeFromSx(s.List[4]).(xast.IsActionScopeNode)
	p.Resource = scopeFromSx(s.List[5]).(xast.IsResourceScopeNode)
	for _, c := range s.List[6].List[1:] {
		p.Conditions = append(p.Conditions, xast.ConditionType{Condition: xast.Condition(c.List[0].Atom == "when"), Body: exprFromSx(c.List[1])})
	}
	if len(s.List) > 7 {
		for _, kv := range s.List[7].List[1:] {
			p.Annotations = append(p.Annotations, xast.AnnotationType{Key: types.Ident(kv.List[0].Str()), Value: types.String(kv.List[1].Str())})
		}
	}
	return id, p
}

// ---------- error classes ----------

func errClass(err error) string {
	m := err.Error()
	switch {
	case strings.Contains(m, "type error"):
		return "type"
	case strings.Contains(m, "integer overflow"):
		return "overflow"
	case strings.Contains(m, "does not have the attribute"):
		return "attr"
	case strings.Contains(m, "does not have the tag"):
		return "tag"
	case strings.Contains(m, "function does not exist"):
		return "unknownfn"
	case strings.Contains(m, "wrong number of arguments"):
		return "arity"
	case strings.Contains(m, "unspecified entity"):
		return "unspecified"
	case strings.Contains(m, "does not exist"):
		return "entity"
	}
	return "ext"
}

type cedarAST = cedarast.Policy

// classMessage is a representative error message of each class (for __cedar::partialError nodes).
func classMessage(class string) string {
	switch class {
	case "type":
		return "type error: expected bool, got long"
	case "overflow":
		return "integer overflow while attempting to add"
	case "attr":
		return "record does not have the attribute `x`"
	case "tag":
		return "`A::\"b\"` does not have the tag `x`"
	case "entity":
		return "entity `A::\"b\"` does not exist"
	case "unknownfn":
		return "function does not exist: f"
	case "arity":
		return "wrong number of arguments provided to extension function: f"
	case "unspecified":
		return "cannot access attribute `x` of unspecified entity"
	}
	return "error parsing decimal value: x"
}

type xastPolicy = xast.Policy
