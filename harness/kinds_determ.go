package main

import (
	"encoding/json"
	"fmt"
	"math/rand"
	"sort"
	"strings"

	cedar "github.com/cedar-policy/cedar-go"
	"github.com/cedar-policy/cedar-go/types"
	xeval "github.com/cedar-policy/cedar-go/x/exp/eval"
	"github.com/cedar-policy/cedar-go/x/exp/schema"
)

func init() {
	kinds["determ-eval"] = runDetermEval
	kinds["determ-authz"] = runDetermAuthz
	kinds["determ-policy"] = runDetermPolicy
	kinds["determ-entities"] = runDetermEntities
}

const reps = 40

func differs(what string, a, b string) *Sx {
	return L(A("differs"), A(what), AS(a), AS(b))
}

// determ-eval: <store> <req> <expr>: same value or same error MESSAGE on every repetition
func runDetermEval(payload []*Sx) *Sx {
	var first string
	for i := 0; i < reps; i++ {
		em := storeFromSx(payload[0]) // rebuilt each time: new maps, new iteration orders
		rq := reqFromSx(payload[1])
		n := exprFromSx(payload[2])
		env := xeval.Env{Entities: em, Principal: rq.P, Action: rq.A, Resource: rq.R, Context: rq.C}
		v, err := xeval.Eval(n, env)
		var s string
		if err != nil {
			s = "error: " + err.Error()
		} else {
			s = "value: " + valueToSx(v).String()
		}
		if i == 0 {
			first = s
		} else if s != first {
			return differs("eval", first, s)
		}
	}
	return L(A("same"))
}

func diagString(dec cedar.Decision, diag cedar.Diagnostic) string {
	var rs, es []string
	for _, r := range diag.Reasons {
		b, _ := json.Marshal(r)
		rs = append(rs, string(b))
	}
	for _, e := range diag.Errors {
		b, _ := json.Marshal(e)
		es = append(es, string(b))
	}
	sort.Strings(rs)
	sort.Strings(es)
	return dec.String() + " reasons=" + strings.Join(rs, ",") + " errors=" + strings.Join(es, ",")
}

// determ-authz: <store> <req> (policies ...): same decision, same SET of reasons, same SET of errors with the same messages,
// whatever the insertion order of policies and entities
func runDetermAuthz(payload []*Sx) *Sx {
	rng := rand.New(rand.NewSource(int64(len(payload[2].List))))
	var first string
	var firstCedar, firstJSON string
	for i := 0; i < reps; i++ {
		em := storeFromSx(payload[0])
		// re-insert the entities in a shuffled order
		var uids []types.EntityUID
		for u := range em {
			uids = append(uids, u)
		}
		rng.Shuffle(len(uids), func(a, b int) { uids[a], uids[b] = uids[b], uids[a] })
		em2 := types.EntityMap{}
		for _, u := range uids {
			em2[u] = em[u]
		}
		rq := reqFromSx(payload[1])
		req, ok := rq.concrete()
		if !ok {
			panic("harness: determ-authz needs a concrete request")
		}
		pols := append([]*Sx{}, payload[2].List[1:]...)
		rng.Shuffle(len(pols), func(a, b int) { pols[a], pols[b] = pols[b], pols[a] })
		ps := cedar.NewPolicySet()
		for _, p := range pols {
			id, pol := policyFromSx(p)
			ps.Add(cedar.PolicyID(id), cedar.NewPolicyFromAST((*cedarAST)(pol)))
		}
		dec, diag := cedar.Authorize(ps, em2, req)
		s := diagString(dec, diag)
		mc, ok1 := safeBytes(func() []byte { return ps.MarshalCedar() })
		mj, ok2 := safeBytes(func() []byte { b, _ := json.Marshal(ps); return b })
		if i == 0 {
			first, firstCedar, firstJSON = s, string(mc), string(mj)
			continue
		}
		if s != first {
			return differs("authorize", first, s)
		}
		if ok1 && string(mc) != firstCedar {
			return differs("policyset-cedar", firstCedar, string(mc))
		}
		if ok2 && string(mj) != firstJSON {
			return differs("policyset-json", firstJSON, string(mj))
		}
	}
	return L(A("same"))
}

func safeBytes(f func() []byte) (b []byte, ok bool) {
	defer func() {
		if r := recover(); r != nil {
			b, ok = nil, false
		}
	}()
	return f(), true
}

// determ-policy: <policy>: encoders are byte-deterministic; decode + re-encode is byte-deterministic
func runDetermPolicy(payload []*Sx) *Sx {
	_, a0 := policyFromSx(payload[0])
	p0 := cedar.NewPolicyFromAST((*cedarAST)(a0))
	c0, okc := safeBytes(p0.MarshalCedar)
	j0, okj := safeBytes(func() []byte { b, _ := p0.MarshalJSON(); return b })
	if !okc || !okj {
		return L(A("unrenderable"))
	}
	var fromJSONCedar, fromJSONJSON, fromCedarCedar, fromCedarJSON string
	for i := 0; i < reps; i++ {
		_, a := policyFromSx(payload[0])
		p := cedar.NewPolicyFromAST((*cedarAST)(a))
		if c := p.MarshalCedar(); string(c) != string(c0) {
			return differs("marshal-cedar", string(c0), string(c))
		}
		if j, _ := p.MarshalJSON(); string(j) != string(j0) {
			return differs("marshal-json", string(j0), string(j))
		}
		var pj cedar.Policy
		if err := pj.UnmarshalJSON(j0); err == nil {
			c := string(pj.MarshalCedar())
			jj, _ := pj.MarshalJSON()
			if i == 0 {
				fromJSONCedar, fromJSONJSON = c, string(jj)
			} else if c != fromJSONCedar {
				return differs("json-decode-then-cedar", fromJSONCedar, c)
			} else if string(jj) != fromJSONJSON {
				return differs("json-decode-then-json", fromJSONJSON, string(jj))
			}
		}
		var pc cedar.Policy
		if err := pc.UnmarshalCedar(c0); err == nil {
			c := string(pc.MarshalCedar())
			jj, _ := pc.MarshalJSON()
			if i == 0 {
				fromCedarCedar, fromCedarJSON = c, string(jj)
			} else if c != fromCedarCedar {
				return differs("cedar-decode-then-cedar", fromCedarCedar, c)
			} else if string(jj) != fromCedarJSON {
				return differs("cedar-decode-then-json", fromCedarJSON, string(jj))
			}
		}
	}
	return L(A("same"))
}

// determ-entities: <store> <value>: entity map / value encoders independent of insertion order and repetition
func runDetermEntities(payload []*Sx) *Sx {
	rng := rand.New(rand.NewSource(7))
	var first, firstV, firstVC string
	for i := 0; i < reps; i++ {
		em := storeFromSx(payload[0])
		var uids []types.EntityUID
		for u := range em {
			uids = append(uids, u)
		}
		rng.Shuffle(len(uids), func(a, b int) { uids[a], uids[b] = uids[b], uids[a] })
		em2 := types.EntityMap{}
		for _, u := range uids {
			em2[u] = em[u]
		}
		b, err := json.Marshal(em2)
		if err != nil {
			return L(A("marshal-error"))
		}
		v := valueFromSx(payload[1])
		vb, _ := json.Marshal(v)
		vc := string(v.MarshalCedar())
		if i == 0 {
			first, firstV, firstVC = string(b), string(vb), vc
			continue
		}
		if string(b) != first {
			return differs("entitymap-json", first, string(b))
		}
		if string(vb) != firstV {
			return differs("value-json", firstV, string(vb))
		}
		if vc != firstVC {
			return differs("value-cedar", firstVC, vc)
		}
	}
	return L(A("same"))
}

func init() { kinds["determ-batch"] = runDetermBatch }

// determ-batch: the payload of `batch` (mode none): status, number of callbacks and the multiset of delivered results
// (request, values, decision, reasons, errors) are the same on every repetition
func runDetermBatch(payload []*Sx) *Sx {
	var first string
	for i := 0; i < reps; i++ {
		out := runBatch(payload)
		s := L(out.List[0], out.List[1], out.List[2]).String()
		if out.List[0].String() != "(status ok)" {
			// a failing batch stops at an enumeration point that depends on the order in which Go's map yields the variables: the verdict counts
			s = out.List[0].String()
		}
		if i == 0 {
			first = s
		} else if s != first {
			return differs("batch", first, s)
		}
	}
	return L(A("same"))
}

func init() { kinds["determ-schema"] = runDetermSchema }

// determ-schema: <xschema> : encoding a schema (text, JSON) gives the same bytes on every repetition, in whatever order the two encoders
// are called, for every freshly built copy, and never changes the schema; decoding the same bytes and re-encoding gives the same bytes
func runDetermSchema(payload []*Sx) *Sx {
	build := func() *schema.Schema { return schema.NewSchemaFromAST(xschemaFromSx(payload[0])) }
	enc := func(f func() ([]byte, error)) string {
		b, err := f()
		if err != nil {
			return "error"
		}
		return "ok:" + string(b)
	}
	s := build()
	a0 := xschemaToSx(s.AST()).String()
	t0 := enc(s.MarshalCedar)
	j0 := enc(s.MarshalJSON)
	for i := 0; i < 12; i++ {
		if t := enc(s.MarshalCedar); t != t0 {
			return differs("schema text on repetition (after a JSON encoding)", t0, t)
		}
		if j := enc(s.MarshalJSON); j != j0 {
			return differs("schema JSON on repetition", j0, j)
		}
		if a := xschemaToSx(s.AST()).String(); a != a0 {
			return differs("the schema itself after encoding it", a0, a)
		}
		f := build()
		if i%2 == 0 {
			// the other call order
			if j := enc(f.MarshalJSON); j != j0 {
				return differs("schema JSON of a fresh copy", j0, j)
			}
		}
		if t := enc(f.MarshalCedar); t != t0 {
			return differs("schema text of a fresh copy", t0, t)
		}
		if j := enc(f.MarshalJSON); j != j0 {
			return differs("schema JSON of a fresh copy", j0, j)
		}
	}
	// decode the same bytes, re-encode
	for which, doc := range []string{j0, t0} {
		if !strings.HasPrefix(doc, "ok:") {
			continue
		}
		dec := func() *schema.Schema {
			var d schema.Schema
			var err error
			if which == 0 {
				err = d.UnmarshalJSON([]byte(doc[3:]))
			} else {
				err = d.UnmarshalCedar([]byte(doc[3:]))
			}
			if err != nil {
				return nil
			}
			return &d
		}
		d1, d2 := dec(), dec()
		if (d1 == nil) != (d2 == nil) {
			return differs("decoding the same schema bytes twice", fmt.Sprint(d1 == nil), fmt.Sprint(d2 == nil))
		}
		if d1 == nil {
			continue
		}
		t1 := enc(d1.MarshalCedar)
		j1 := enc(d1.MarshalJSON)
		t1b := enc(d1.MarshalCedar)
		j2 := enc(d2.MarshalJSON)
		t2 := enc(d2.MarshalCedar)
		if t1 != t1b || t1 != t2 {
			return differs("re-encoded schema text of the same decoded bytes", t1, t1b+" / "+t2)
		}
		if j1 != j2 {
			return differs("re-encoded schema JSON of the same decoded bytes", j1, j2)
		}
	}
	return L(A("same"))
}
