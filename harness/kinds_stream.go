package main

import (
	"errors"
	"fmt"
	"io"

	cedar "github.com/cedar-policy/cedar-go"
)

func init() { kinds["stream"] = runStream }

// scripted io.Reader
type scriptReader struct {
	data    []byte
	pos     int
	sizes   []int // chunk sizes; 0 = a zero-length read; when exhausted, the last size repeats (or 4096)
	i       int
	failAt  int  // -1 = never; otherwise fail once pos >= failAt
	failErr error
	eofWithData bool
}

func (r *scriptReader) Read(p []byte) (int, error) {
	if r.failAt >= 0 && r.pos >= r.failAt {
		return 0, r.failErr
	}
	n := 4096
	if len(r.sizes) > 0 {
		n = r.sizes[r.i%len(r.sizes)]
		r.i++
	}
	if n == 0 {
		if r.pos >= len(r.data) {
			return 0, io.EOF
		}
		return 0, nil
	}
	if n > len(p) {
		n = len(p)
	}
	rem := len(r.data) - r.pos
	if r.failAt >= 0 && r.failAt-r.pos < n {
		n = r.failAt - r.pos
		copy(p, r.data[r.pos:r.pos+n])
		r.pos += n
		if n == 0 || r.eofWithData {
			return n, r.failErr // the failure arrives together with the last bytes
		}
		return n, nil
	}
	if rem == 0 {
		return 0, io.EOF
	}
	if n >= rem {
		n = rem
		copy(p, r.data[r.pos:])
		r.pos += n
		if r.eofWithData {
			return n, io.EOF
		}
		return n, nil
	}
	copy(p, r.data[r.pos:r.pos+n])
	r.pos += n
	return n, nil
}

func policiesSx(pl []*cedar.Policy) *Sx {
	out := L(A("policies"))
	for _, p := range pl {
		pos := p.Position()
		out.List = append(out.List, L(AS(string(p.MarshalCedar())), AI(pos.Offset), AI(pos.Line), AI(pos.Column)))
	}
	return out
}

// stream: <xdoc> (sizes n...) (failat k | none) (eofwithdata 0|1)
func runStream(payload []*Sx) *Sx {
	doc := []byte(payload[0].Str())
	var sizes []int
	for _, s := range payload[1].List[1:] {
		sizes = append(sizes, int(mustInt64(s.Atom)))
	}
	failAt := -1
	if payload[2].List[1].Atom != "none" {
		failAt = int(mustInt64(payload[2].List[1].Atom))
	}
	ewd := payload[3].List[1].Atom == "1"
	failErr := errors.New("scripted reader failure")
	// whole-slice reference
	var whole *Sx
	wl, werr := cedar.NewPolicyListFromBytes("", doc)
	if werr != nil {
		whole = L(A("error"), AS(werr.Error()))
	} else {
		whole = policiesSx(wl)
	}
	// streaming
	rd := &scriptReader{data: doc, sizes: sizes, failAt: failAt, failErr: failErr, eofWithData: ewd}
	dec := cedar.NewDecoder(rd)
	var got []*cedar.Policy
	var serr error
	for {
		var p cedar.Policy
		err := dec.Decode(&p)
		if errors.Is(err, io.EOF) {
			break
		}
		if err != nil {
			serr = err
			break
		}
		got = append(got, &p)
		if len(got) > 100000 {
			return L(A("stream-does-not-end"))
		}
	}
	var stream *Sx
	if serr != nil {
		kind := "error"
		if errors.Is(serr, failErr) || fmt.Sprint(serr) != "" && containsStr(serr.Error(), "scripted reader failure") {
			kind = "reader-error"
		}
		stream = L(A(kind), AS(serr.Error()), AI(len(got)))
	} else {
		stream = policiesSx(got)
	}
	return L(L(A("whole"), whole), L(A("stream"), stream))
}

func containsStr(s, sub string) bool {
	for i := 0; i+len(sub) <= len(s); i++ {
		if s[i:i+len(sub)] == sub {
			return true
		}
	}
	return false
}
