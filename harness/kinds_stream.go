package main

import (
	"errors"
	"fmt"
	"io"

	cedar "github.com/cedar-policy/cedar-go"
	xeval "github.com/cedar-policy/cedar-go/x/exp/eval"
)

func init() { kinds["stream"] = runStream }

// scripted io.Reader
type scriptReader struct {
	data        []byte
	pos         int
	sizes       []int // chunk sizes; 0 = a zero-length read; when exhausted, the last size repeats (or 4096)
	i           int
	failAt      int // -1 = never; otherwise fail once pos >= failAt
	failErr     error
	eofWithData bool
	failOnce    bool // the failure is reported by exactly one Read (possibly together with data); afterwards a clean EOF
	failed      bool
}

func (r *scriptReader) Read(p []byte) (int, error) {
	if r.failOnce && r.failed {
		return 0, io.EOF
	}
	if r.failAt >= 0 && r.pos >= r.failAt {
		r.failed = true
		return 0, r.failErr
	}
	n := 4096
	if len(r.sizes) > 0 {
		n = r.sizes[r.i%len(r.sizes)]
		r.i++
	}
	if n == 0 {
		if r.pos >= len(r.data) {
			return 0, io.EOF
		}
		return 0, nil
	}
	if n > len(p) {
		n = len(p)
	}
	rem := len(r.data) - r.pos
	if r.failAt >= 0 && r.failAt-r.pos < n {
		n = r.failAt - r.pos
		copy(p, r.data[r.pos:r.pos+n])
		r.pos += n
		if n == 0 || r.eofWithData {
			r.failed = true
			return n, r.failErr // the failure arrives together with the last bytes
		}
		return n, nil
	}
	if rem == 0 {
		return 0, io.EOF
	}
	if n >= rem {
		n = rem
		copy(p, r.data[r.pos:])
		r.pos += n
		if r.eofWithData {
			return n, io.EOF
		}
		return n, nil
	}
	copy(p, r.data[r.pos:r.pos+n])
	r.pos += n
	return n, nil
}

func policiesSx(pl []*cedar.Policy) *Sx {
	out := L(A("policies"))
	for _, p := range pl {
		pos := p.Position()
		out.List = append(out.List, L(AS(string(p.MarshalCedar())), AI(pos.Offset), AI(pos.Line), AI(pos.Column)))
	}
	return out
}

// stream: <xdoc> (sizes n...) (failat k | none) (eofwithdata 0|1)
func runStream(payload []*Sx) *Sx {
	doc := []byte(payload[0].Str())
	var sizes []int
	for _, s := range payload[1].List[1:] {
		sizes = append(sizes, int(mustInt64(s.Atom)))
	}
	failAt := -1
	if payload[2].List[1].Atom != "none" {
		failAt = int(mustInt64(payload[2].List[1].Atom))
	}
	ewd := payload[3].List[1].Atom == "1"
	// a reader fails with whatever error its source has: a plain one, one that a truncated stream reports (io.ErrUnexpectedEOF), one that
	// WRAPS io.EOF (a dropped connection) - none of them is the clean end of the input
	failErrs := []error{errors.New("scripted reader failure"), fmt.Errorf("scripted reader failure: %w", io.ErrUnexpectedEOF),
		fmt.Errorf("scripted reader failure: %w", io.EOF), fmt.Errorf("%w (scripted reader failure)", io.ErrUnexpectedEOF)}
	failErr := failErrs[0]
	if failAt >= 0 {
		failErr = failErrs[(failAt+len(doc))%len(failErrs)]
	}
	// whole-slice reference
	var whole *Sx
	wl, werr := cedar.NewPolicyListFromBytes("", doc)
	if werr != nil {
		whole = L(A("error"), AS(werr.Error()))
	} else {
		whole = policiesSx(wl)
	}
	// streaming
	rd := &scriptReader{data: doc, sizes: sizes, failAt: failAt, failErr: failErr, eofWithData: ewd}
	if len(payload) > 4 {
		rd.failOnce = payload[4].List[1].Atom == "1"
	}
	dec := cedar.NewDecoder(rd)
	var got []*cedar.Policy
	var serr error
	for {
		var p cedar.Policy
		err := dec.Decode(&p)
		if errors.Is(err, io.EOF) {
			break
		}
		if err != nil {
			serr = err
			break
		}
		got = append(got, &p)
		if len(got) > 100000 {
			return L(A("stream-does-not-end"))
		}
	}
	// the outcome is final: further Decode calls repeat the error (or io.EOF); they never hand out policies from the rest of the input
	for i := 0; i < 3; i++ {
		var p cedar.Policy
		err := dec.Decode(&p)
		if serr != nil {
			if err == nil || err.Error() != serr.Error() {
				return L(L(A("whole"), whole), L(A("stream"), L(A("error-is-not-sticky"), AS(serr.Error()), AS(fmt.Sprint(err)))))
			}
		} else if !errors.Is(err, io.EOF) {
			return L(L(A("whole"), whole), L(A("stream"), L(A("decode-after-eof"), AS(fmt.Sprint(err)))))
		}
	}
	var stream *Sx
	if serr != nil {
		kind := "error"
		if errors.Is(serr, failErr) || fmt.Sprint(serr) != "" && containsStr(serr.Error(), "scripted reader failure") {
			kind = "reader-error"
		}
		stream = L(A(kind), AS(serr.Error()), AI(len(got)))
	} else {
		stream = policiesSx(got)
	}
	return L(L(A("whole"), whole), L(A("stream"), stream))
}

func containsStr(s, sub string) bool {
	for i := 0; i+len(sub) <= len(s); i++ {
		if s[i:i+len(sub)] == sub {
			return true
		}
	}
	return false
}

// modelReader mirrors Impl/Scanner.v `read`: a schedule of (size, fail) steps, then "as much as fits";
// a failing step fails forever; eofWithData delivers io.EOF together with the last bytes.
type modelStep struct {
	n    int
	fail bool
}
type modelReader struct {
	rest  []byte
	sched []modelStep
	ewd   bool
	err   error
	mode  string // sticky | once | oncedata
}

func (r *modelReader) Read(p []byte) (int, error) {
	n := len(p)
	if len(r.sched) > 0 {
		if r.sched[0].fail {
			switch r.mode {
			case "once":
				r.sched = r.sched[1:]
				return 0, r.err
			case "oncedata":
				k := r.sched[0].n
				r.sched = r.sched[1:]
				if len(p) < k {
					k = len(p)
				}
				if len(r.rest) < k {
					k = len(r.rest)
				}
				copy(p, r.rest[:k])
				r.rest = r.rest[k:]
				return k, r.err
			}
			return 0, r.err
		}
		n = r.sched[0].n
		r.sched = r.sched[1:]
	}
	if len(r.rest) == 0 {
		return 0, io.EOF
	}
	k := n
	if len(p) < k {
		k = len(p)
	}
	if len(r.rest) < k {
		k = len(r.rest)
	}
	if k == len(r.rest) && r.ewd && k != 0 {
		copy(p, r.rest)
		r.rest = nil
		return k, io.EOF
	}
	copy(p, r.rest[:k])
	r.rest = r.rest[k:]
	return k, nil
}

func init() { kinds["tokens"] = runTokens }

// tokens: <doc> (sched (n fail)...) (ewd 0|1)  ->  (ok (t type off line col text)...) | (error)
func runTokens(payload []*Sx) *Sx {
	doc := []byte(payload[0].Str())
	terrs := []error{errors.New("scripted reader failure"), fmt.Errorf("scripted reader failure: %w", io.ErrUnexpectedEOF), fmt.Errorf("scripted reader failure: %w", io.EOF)}
	rd := &modelReader{rest: doc, ewd: payload[2].List[1].Atom == "1", err: terrs[len(doc)%len(terrs)], mode: "sticky"}
	if len(payload) > 3 {
		rd.mode = payload[3].List[1].Atom
	}
	for _, s := range payload[1].List[1:] {
		rd.sched = append(rd.sched, modelStep{n: int(mustInt64(s.List[0].Atom)), fail: s.List[1].Atom == "1"})
	}
	toks, err := xeval.VerifTokenize(rd)
	if err != nil {
		return L(A("error"))
	}
	out := L(A("ok"))
	for _, t := range toks {
		out.List = append(out.List, L(A("t"), AI(t.Type), AI(t.Offset), AI(t.Line), AI(t.Column), AS(t.Text)))
	}
	return out
}
