package main

import (
	xeval "github.com/cedar-policy/cedar-go/x/exp/eval"
)

func init() { kinds["partial"] = runPartial }

// partial: <store> <req (parts may be or contain variable / ignore markers)> <policy>  ->  (drop) | (keep <residual policy>)
func runPartial(payload []*Sx) *Sx {
	em := storeFromSx(payload[0])
	rq := reqFromSx(payload[1])
	id, pol := policyFromSx(payload[2])
	env := xeval.Env{Entities: em, Principal: rq.P, Action: rq.A, Resource: rq.R, Context: rq.C}
	res, keep := xeval.PartialPolicy(env, pol)
	if !keep {
		return L(A("drop"))
	}
	return L(A("keep"), policyToSx(id, res))
}

func init() { kinds["psound"] = runPSound }

// psound: <store> <template req> <policy> (comps (c <req for the original> <req for the residual>)...)
// -> ((keep|drop) (o <outcome of original> <outcome of residual | na>)...)
func runPSound(payload []*Sx) *Sx {
	em := storeFromSx(payload[0])
	rq := reqFromSx(payload[1])
	_, pol := policyFromSx(payload[2])
	_, pol2 := policyFromSx(payload[2])
	env := xeval.Env{Entities: em, Principal: rq.P, Action: rq.A, Resource: rq.R, Context: rq.C}
	res, keep := xeval.PartialPolicy(env, pol)
	out := L()
	if keep {
		out.List = append(out.List, A("keep"))
	} else {
		out.List = append(out.List, A("drop"))
	}
	for _, c := range payload[3].List[1:] {
		r1 := reqFromSx(c.List[1])
		e1 := xeval.Env{Entities: em, Principal: r1.P, Action: r1.A, Resource: r1.R, Context: r1.C}
		v, err := xeval.Eval(xeval.PolicyToNode(pol2).AsIsNode(), e1)
		o := L(A("o"), outcomeSx(v, err))
		if keep {
			r2 := reqFromSx(c.List[2])
			e2 := xeval.Env{Entities: em, Principal: r2.P, Action: r2.A, Resource: r2.R, Context: r2.C}
			v2, err2 := xeval.Eval(xeval.PolicyToNode(res).AsIsNode(), e2)
			o.List = append(o.List, outcomeSx(v2, err2))
		} else {
			o.List = append(o.List, A("na"))
		}
		out.List = append(out.List, o)
	}
	return out
}
