package main

import (
	"github.com/cedar-policy/cedar-go/types"
	"github.com/cedar-policy/cedar-go/x/exp/schema/resolved"
	exptypes "github.com/cedar-policy/cedar-go/x/exp/types"
)

// Schema-guided coercion (x/exp/types/json.go) against the Coq model Impl/Coerce.v, through the hook VerifCoerceValue.
//
//	coerce:     <resolved type> <value> -> <value>
//	coercetags: <resolved type> <record> -> <record>
//
// resolved types: (string) (long) (bool) (ext xNAME) (set t) (rec (xKEY t optional01)...) (ent xTYPE)
func init() {
	kinds["coerce"] = runCoerce
	kinds["coercetags"] = runCoerceTags
}

func rtyFromSx(s *Sx) resolved.IsType {
	switch s.Head() {
	case "string":
		return resolved.StringType{}
	case "long":
		return resolved.LongType{}
	case "bool":
		return resolved.BoolType{}
	case "ext":
		return resolved.ExtensionType(s.List[1].Str())
	case "set":
		return resolved.SetType{Element: rtyFromSx(s.List[1])}
	case "rec":
		out := resolved.RecordType{}
		for _, f := range s.List[1:] {
			out[types.String(f.List[0].Str())] = resolved.Attribute{Type: rtyFromSx(f.List[1]), Optional: f.List[2].Atom == "1"}
		}
		return out
	case "ent":
		return resolved.EntityType(s.List[1].Str())
	}
	panic("harness: unknown resolved type " + s.String())
}

func runCoerce(payload []*Sx) *Sx {
	v := valueFromSx(payload[1])
	twin := valueFromSx(payload[1])
	out := exptypes.VerifCoerceValue(v, rtyFromSx(payload[0]))
	if !v.Equal(twin) || valueToSx(v).String() != valueToSx(twin).String() {
		return L(A("input-mutated"))
	}
	return valueToSx(out)
}

func runCoerceTags(payload []*Sx) *Sx {
	v := valueFromSx(payload[1]).(types.Record)
	out := exptypes.VerifCoerceTags(v, rtyFromSx(payload[0]))
	return valueToSx(out)
}
