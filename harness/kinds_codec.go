package main

import (
	"bytes"
	"encoding/json"
	"math"
	"sort"

	cedar "github.com/cedar-policy/cedar-go"
	"github.com/cedar-policy/cedar-go/types"
	xast "github.com/cedar-policy/cedar-go/x/exp/ast"
	xeval "github.com/cedar-policy/cedar-go/x/exp/eval"
)

func init() {
	kinds["policycodec"] = runPolicyCodec
	kinds["policysetcodec"] = runPolicySetCodec
	kinds["parse"] = runParse
}

// normJ: the normal form the JSON encoder documents: decimal / ip literal values become calls;
// record-literal entries are compared by key (later duplicate wins).
func normJ(n xast.IsNode) xast.IsNode { return normG(n, false) }

// normT: the normal form of the text syntax, which has no literals of set, record or extension type and no negation of a
// non-negative integer literal: such values become the constructor expressions that denote them, and -(n) becomes the literal -n.
func normT(n xast.IsNode) xast.IsNode { return normG(n, true) }

func valueNodeT(val types.Value) xast.IsNode {
	call := func(name, arg string) xast.IsNode {
		return xast.NodeTypeExtensionCall{Name: types.Path(name), Args: []xast.IsNode{xast.NodeValue{Value: types.String(arg)}}}
	}
	switch t := val.(type) {
	case types.Decimal:
		return call("decimal", t.String())
	case types.IPAddr:
		return call("ip", t.String())
	case types.Datetime:
		return call("datetime", t.String())
	case types.Duration:
		return call("duration", t.String())
	case types.Set:
		var els []xast.IsNode
		for e := range t.All() {
			els = append(els, valueNodeT(e))
		}
		return normG(xast.NodeTypeSet{Elements: els}, true)
	case types.Record:
		var els []xast.RecordElementNode
		for k, e := range t.All() {
			els = append(els, xast.RecordElementNode{Key: k, Value: valueNodeT(e)})
		}
		return normG(xast.NodeTypeRecord{Elements: els}, true)
	}
	return xast.NodeValue{Value: val}
}

func allConstant(ns []xast.IsNode) bool {
	for _, n := range ns {
		switch v := n.(type) {
		case xast.NodeValue:
		case xast.NodeTypeExtensionCall:
			if !allConstant(v.Args) {
				return false
			}
		case xast.NodeTypeSet:
			if !allConstant(v.Elements) {
				return false
			}
		case xast.NodeTypeRecord:
			for _, e := range v.Elements {
				if !allConstant([]xast.IsNode{e.Value}) {
					return false
				}
			}
		default:
			return false
		}
	}
	return true
}

func normG(n xast.IsNode, textMode bool) xast.IsNode {
	normJ := func(x xast.IsNode) xast.IsNode { return normG(x, textMode) }
	b := func(x xast.BinaryNode) xast.BinaryNode {
		return xast.BinaryNode{Left: normJ(x.Left), Right: normJ(x.Right)}
	}
	u := func(x xast.UnaryNode) xast.UnaryNode { return xast.UnaryNode{Arg: normJ(x.Arg)} }
	switch v := n.(type) {
	case xast.NodeValue:
		if textMode {
			return valueNodeT(v.Value)
		}
		switch t := v.Value.(type) {
		case types.Decimal:
			return xast.NodeTypeExtensionCall{Name: "decimal", Args: []xast.IsNode{xast.NodeValue{Value: types.String(t.String())}}}
		case types.IPAddr:
			return xast.NodeTypeExtensionCall{Name: "ip", Args: []xast.IsNode{xast.NodeValue{Value: types.String(t.String())}}}
		}
		return v
	case xast.NodeTypeAnd:
		return xast.NodeTypeAnd{BinaryNode: b(v.BinaryNode)}
	case xast.NodeTypeOr:
		return xast.NodeTypeOr{BinaryNode: b(v.BinaryNode)}
	case xast.NodeTypeNot:
		return xast.NodeTypeNot{UnaryNode: u(v.UnaryNode)}
	case xast.NodeTypeNegate:
		if textMode {
			if lv, ok := v.Arg.(xast.NodeValue); ok {
				if l, ok := lv.Value.(types.Long); ok && l >= 0 {
					return xast.NodeValue{Value: -l}
				}
			}
		}
		return xast.NodeTypeNegate{UnaryNode: u(v.UnaryNode)}
	case xast.NodeTypeAdd:
		return xast.NodeTypeAdd{BinaryNode: b(v.BinaryNode)}
	case xast.NodeTypeSub:
		return xast.NodeTypeSub{BinaryNode: b(v.BinaryNode)}
	case xast.NodeTypeMult:
		return xast.NodeTypeMult{BinaryNode: b(v.BinaryNode)}
	case xast.NodeTypeEquals:
		return xast.NodeTypeEquals{BinaryNode: b(v.BinaryNode)}
	case xast.NodeTypeNotEquals:
		return xast.NodeTypeNotEquals{BinaryNode: b(v.BinaryNode)}
	case xast.NodeTypeLessThan:
		return xast.NodeTypeLessThan{BinaryNode: b(v.BinaryNode)}
	case xast.NodeTypeLessThanOrEqual:
		return xast.NodeTypeLessThanOrEqual{BinaryNode: b(v.BinaryNode)}
	case xast.NodeTypeGreaterThan:
		return xast.NodeTypeGreaterThan{BinaryNode: b(v.BinaryNode)}
	case xast.NodeTypeGreaterThanOrEqual:
		return xast.NodeTypeGreaterThanOrEqual{BinaryNode: b(v.BinaryNode)}
	case xast.NodeTypeIn:
		return xast.NodeTypeIn{BinaryNode: b(v.BinaryNode)}
	case xast.NodeTypeContains:
		return xast.NodeTypeContains{BinaryNode: b(v.BinaryNode)}
	case xast.NodeTypeContainsAll:
		return xast.NodeTypeContainsAll{BinaryNode: b(v.BinaryNode)}
	case xast.NodeTypeContainsAny:
		return xast.NodeTypeContainsAny{BinaryNode: b(v.BinaryNode)}
	case xast.NodeTypeIsEmpty:
		return xast.NodeTypeIsEmpty{UnaryNode: u(v.UnaryNode)}
	case xast.NodeTypeGetTag:
		return xast.NodeTypeGetTag{BinaryNode: b(v.BinaryNode)}
	case xast.NodeTypeHasTag:
		return xast.NodeTypeHasTag{BinaryNode: b(v.BinaryNode)}
	case xast.NodeTypeAccess:
		return xast.NodeTypeAccess{StrOpNode: xast.StrOpNode{Arg: normJ(v.Arg), Value: v.Value}}
	case xast.NodeTypeHas:
		return xast.NodeTypeHas{StrOpNode: xast.StrOpNode{Arg: normJ(v.Arg), Value: v.Value}}
	case xast.NodeTypeLike:
		return xast.NodeTypeLike{Arg: normJ(v.Arg), Value: v.Value}
	case xast.NodeTypeIs:
		return xast.NodeTypeIs{Left: normJ(v.Left), EntityType: v.EntityType}
	case xast.NodeTypeIsIn:
		return xast.NodeTypeIsIn{NodeTypeIs: xast.NodeTypeIs{Left: normJ(v.Left), EntityType: v.EntityType}, Entity: normJ(v.Entity)}
	case xast.NodeTypeIfThenElse:
		return xast.NodeTypeIfThenElse{If: normJ(v.If), Then: normJ(v.Then), Else: normJ(v.Else)}
	case xast.NodeTypeSet:
		var els []xast.IsNode
		for _, e := range v.Elements {
			els = append(els, normJ(e))
		}
		if textMode && allConstant(els) {
			// a set VALUE is rendered in its iteration order; element order of a set expression whose elements are all
			// constants cannot matter beyond what evaluating it once shows (and the sampled environments do evaluate it)
			sort.SliceStable(els, func(i, j int) bool { return exprToSx(els[i]).String() < exprToSx(els[j]).String() })
		}
		return xast.NodeTypeSet{Elements: els}
	case xast.NodeTypeRecord:
		m := map[types.String]xast.IsNode{}
		for _, e := range v.Elements {
			m[e.Key] = normJ(e.Value)
		}
		var keys []string
		for k := range m {
			keys = append(keys, string(k))
		}
		sort.Strings(keys)
		var els []xast.RecordElementNode
		for _, k := range keys {
			els = append(els, xast.RecordElementNode{Key: types.String(k), Value: m[types.String(k)]})
		}
		return xast.NodeTypeRecord{Elements: els}
	case xast.NodeTypeExtensionCall:
		var args []xast.IsNode
		for _, a := range v.Args {
			args = append(args, normJ(a))
		}
		return xast.NodeTypeExtensionCall{Name: v.Name, Args: args}
	}
	return n
}

func normPolicyT(p *xast.Policy) *xast.Policy {
	q := normPolicyJ(p)
	q.Conditions = nil
	for _, c := range p.Conditions {
		q.Conditions = append(q.Conditions, xast.ConditionType{Condition: c.Condition, Body: normT(c.Body)})
	}
	return q
}

func normPolicyJ(p *xast.Policy) *xast.Policy {
	q := *p
	q.Annotations = append([]xast.AnnotationType{}, p.Annotations...)
	sort.SliceStable(q.Annotations, func(i, j int) bool { return q.Annotations[i].Key < q.Annotations[j].Key })
	q.Conditions = nil
	for _, c := range p.Conditions {
		q.Conditions = append(q.Conditions, xast.ConditionType{Condition: c.Condition, Body: normJ(c.Body)})
	}
	q.Position = xast.Position{}
	return &q
}

func policySig(p *xast.Policy) string { return policyToSx("p", p).String() }

// policySigT: signature in the text normal form; like patterns are compared as the sequence of maximal literal runs and
// single wildcards they denote (a builder-made pattern may hold empty or adjacent literal components)
func policySigT(p *xast.Policy) string { return normPatterns(policyToSx("p", normPolicyT(p))).String() }

func normPatterns(s *Sx) *Sx {
	if !s.IsList {
		return s
	}
	if len(s.List) > 0 && !s.List[0].IsList && s.List[0].Atom == "pat" {
		out := L(A("pat"))
		for _, c := range s.List[1:] {
			last := out.List[len(out.List)-1]
			if c.IsList { // wildcard
				if len(out.List) > 1 && last.IsList {
					continue
				}
				out.List = append(out.List, c)
				continue
			}
			if c.Atom == "x" {
				continue
			}
			if len(out.List) > 1 && !last.IsList {
				out.List[len(out.List)-1] = A(last.Atom + c.Atom[1:])
				continue
			}
			out.List = append(out.List, c)
		}
		return out
	}
	out := &Sx{IsList: true}
	for _, c := range s.List {
		out.List = append(out.List, normPatterns(c))
	}
	return out
}

func headSig(p *xast.Policy) string {
	q := *p
	q.Conditions = nil
	return policyToSx("p", &q).String()
}

func outcomesOn(p *xast.Policy, envs []*Sx) []string {
	var out []string
	for _, e := range envs {
		em := storeFromSx(e.List[1])
		rq := reqFromSx(e.List[2])
		env := xeval.Env{Entities: em, Principal: rq.P, Action: rq.A, Resource: rq.R, Context: rq.C}
		v, err := xeval.Eval(xeval.PolicyToNode(p).AsIsNode(), env)
		out = append(out, outcomeSx(v, err).String())
	}
	return out
}

func sameStrings(a, b []string) bool {
	if len(a) != len(b) {
		return false
	}
	for i := range a {
		if a[i] != b[i] {
			return false
		}
	}
	return true
}

func problem(name string, details ...string) *Sx {
	l := L(A("problem"), A(name))
	for _, d := range details {
		l.List = append(l.List, AS(d))
	}
	return l
}

// policycodec: <policy> (envs (env <store> <req>)...)
func runPolicyCodec(payload []*Sx) *Sx {
	_, a := policyFromSx(payload[0])
	envs := payload[1].List[1:]
	p := cedar.NewPolicyFromAST((*cedarAST)(a))
	text, ok := safeBytes(p.MarshalCedar)
	if !ok {
		return L(A("unrenderable"))
	}
	// the returned bytes belong to the caller: later renderings (of this or any other policy) must not change them
	snapshot := string(text)
	defer func() { _ = snapshot }()
	_ = cedar.NewPolicyFromAST((*cedarAST)(xast.Forbid().When(xast.String("some other policy, rendered in between")))).MarshalCedar()
	if string(text) != snapshot {
		return problem("second-rendering-differs", snapshot, string(text))
	}
	// what the streaming Encoder writes, the Decoder reads back as the same policy
	{
		var sb bytes.Buffer
		if err := cedar.NewEncoder(&sb).Encode(p); err != nil {
			return problem("encoder-error", err.Error())
		}
		var q cedar.Policy
		if err := cedar.NewDecoder(bytes.NewReader(sb.Bytes())).Decode(&q); err != nil {
			return problem("encoder-output-does-not-decode", sb.String(), err.Error())
		}
		if string(q.MarshalCedar()) != string(text) {
			return problem("stream-changes-policy", string(text), string(q.MarshalCedar()))
		}
	}
	var pt cedar.Policy
	if err := pt.UnmarshalCedar(text); err != nil {
		return problem("text-does-not-parse", string(text), err.Error())
	}
	at := (*xast.Policy)(pt.AST())
	at.Position = xast.Position{}
	if headSig(at) != headSig(a) {
		return problem("text-changes-effect-annotations-or-scope", string(text), headSig(a), headSig(at))
	}
	o0 := outcomesOn(a, envs)
	ot := outcomesOn(at, envs)
	if !sameStrings(o0, ot) {
		return problem("text-changes-meaning", string(text))
	}
	// the sufficient condition the check relies on beyond the sampled environments: the reparsed tree IS the rendered tree
	// (up to the normal form of the text syntax). When it fails, search for an environment that tells the two apart.
	if sa, st := policySigT(a), policySigT(at); sa != st {
		if w := distinguishingEnv(a, at, envs[0]); w != "" {
			return problem("text-changes-meaning", string(text), w)
		}
		return problem("text-changes-tree-no-witness", string(text), sa, st)
	}
	text2 := pt.MarshalCedar()
	if string(text2) != snapshot || string(text) != snapshot {
		return problem("second-rendering-differs", snapshot, string(text2))
	}
	_ = p.MarshalCedar()
	if string(text2) != snapshot {
		return problem("second-rendering-differs", snapshot, string(text2))
	}
	// JSON
	j, err := p.MarshalJSON()
	if err != nil {
		return problem("json-marshal-error", err.Error())
	}
	var pj cedar.Policy
	if err := pj.UnmarshalJSON(j); err != nil {
		return problem("json-does-not-decode", string(j), err.Error())
	}
	aj := (*xast.Policy)(pj.AST())
	if policySig(normPolicyJ(aj)) != policySig(normPolicyJ(a)) {
		return problem("json-changes-ast", string(j), policySig(normPolicyJ(a)), policySig(normPolicyJ(aj)))
	}
	j2, _ := pj.MarshalJSON()
	if !bytes.Equal(j, j2) {
		return problem("second-json-differs", string(j), string(j2))
	}
	if oj := outcomesOn(aj, envs); !sameStrings(o0, oj) {
		return problem("json-changes-meaning", string(j))
	}
	// text -> JSON -> text and JSON -> text -> JSON give what one format alone gives
	var ptj cedar.Policy
	tj, _ := pt.MarshalJSON()
	if err := ptj.UnmarshalJSON(tj); err != nil {
		return problem("json-of-parsed-text-does-not-decode", string(tj), err.Error())
	}
	atj := (*xast.Policy)(ptj.AST())
	if policySig(normPolicyJ(atj)) != policySig(normPolicyJ(at)) {
		return problem("text-json-changes-ast", string(tj))
	}
	jt, ok := safeBytes(pj.MarshalCedar)
	if !ok {
		return problem("json-decoded-policy-unrenderable", string(j))
	}
	var pjt cedar.Policy
	if err := pjt.UnmarshalCedar(jt); err != nil {
		return problem("text-of-decoded-json-does-not-parse", string(jt), err.Error())
	}
	ajt := (*xast.Policy)(pjt.AST())
	ajt.Position = xast.Position{}
	if policySig(normPolicyJ(ajt)) != policySig(normPolicyJ(at)) {
		return problem("json-text-differs-from-text-alone", string(jt), string(text))
	}
	return L(A("ok"))
}

// policysetcodec: (policies policy...): ids preserved by JSON; text lists policies in id order
func runPolicySetCodec(payload []*Sx) *Sx {
	ps := cedar.NewPolicySet()
	asts := map[string]*xast.Policy{}
	var ids []string
	for _, s := range payload[0].List[1:] {
		id, a := policyFromSx(s)
		if _, dup := asts[id]; dup {
			continue
		}
		pol := cedar.NewPolicyFromAST((*cedarAST)(a))
		if _, ok := safeBytes(pol.MarshalCedar); !ok {
			return L(A("unrenderable"))
		}
		ps.Add(cedar.PolicyID(id), pol)
		asts[id] = a
		ids = append(ids, id)
	}
	j, err := json.Marshal(ps)
	if err != nil {
		return problem("set-json-marshal-error", err.Error())
	}
	var ps2 cedar.PolicySet
	if err := json.Unmarshal(j, &ps2); err != nil {
		return problem("set-json-does-not-decode", string(j), err.Error())
	}
	m2 := ps2.Map()
	if len(m2) != len(ids) {
		return problem("set-json-changes-size")
	}
	for _, id := range ids {
		q, ok := m2[cedar.PolicyID(id)]
		if !ok {
			return problem("set-json-loses-id", id)
		}
		if policySig(normPolicyJ((*xast.Policy)(q.AST()))) != policySig(normPolicyJ(asts[id])) {
			return problem("set-json-changes-policy", id)
		}
	}
	text := ps.MarshalCedar()
	pl, err := cedar.NewPolicyListFromBytes("f", text)
	if err != nil {
		return problem("set-text-does-not-parse", string(text), err.Error())
	}
	sort.Strings(ids)
	if len(pl) != len(ids) {
		return problem("set-text-changes-size")
	}
	for i, id := range ids {
		var want cedar.Policy
		if err := want.UnmarshalCedar(ps.Get(cedar.PolicyID(id)).MarshalCedar()); err != nil {
			return problem("policy-text-does-not-parse", id)
		}
		aw := (*xast.Policy)(want.AST())
		aw.Position = xast.Position{}
		ag := (*xast.Policy)(pl[i].AST())
		ag.Position = xast.Position{}
		if policySig(ag) != policySig(aw) {
			return problem("set-text-order-or-content", id)
		}
	}
	// Encoder / Decoder stream
	var buf bytes.Buffer
	enc := cedar.NewEncoder(&buf)
	for _, id := range ids {
		if err := enc.Encode(ps.Get(cedar.PolicyID(id))); err != nil {
			return problem("encoder-error")
		}
	}
	dec := cedar.NewDecoder(bytes.NewReader(buf.Bytes()))
	for _, id := range ids {
		var q cedar.Policy
		if err := dec.Decode(&q); err != nil {
			return problem("decoder-error", id, err.Error())
		}
		if string(q.MarshalCedar()) != string(ps.Get(cedar.PolicyID(id)).MarshalCedar()) {
			return problem("stream-changes-policy", id)
		}
	}
	return L(A("ok"))
}

// parse: <xtext> -> (ok <policy>...) | (err): the AST the parser builds for a whole document
func runParse(payload []*Sx) *Sx {
	pl, err := cedar.NewPolicyListFromBytes("", []byte(payload[0].Str()))
	if err != nil {
		return L(A("err"))
	}
	out := L(A("ok"))
	for _, p := range pl {
		a := (*xast.Policy)(p.AST())
		out.List = append(out.List, policyToSx("p", a))
	}
	return out
}

// distinguishingEnv searches contexts over boundary values of the attributes the policy reads for one on which the two
// policies evaluate differently; "" when none is found.
func distinguishingEnv(a, b *xast.Policy, base *Sx) string {
	em := storeFromSx(base.List[1])
	rq := reqFromSx(base.List[2])
	keys := map[types.String]bool{}
	if rc, ok := rq.C.(types.Record); ok {
		for k := range rc.All() {
			keys[k] = true
		}
	}
	var collect func(n xast.IsNode)
	collect = func(n xast.IsNode) {
		switch v := n.(type) {
		case xast.NodeTypeAccess:
			keys[v.Value] = true
		case xast.NodeTypeHas:
			keys[v.Value] = true
		}
		forEachChild(n, collect)
	}
	for _, c := range a.Conditions {
		collect(c.Body)
	}
	var ks []types.String
	for k := range keys {
		ks = append(ks, k)
	}
	sort.Slice(ks, func(i, j int) bool { return ks[i] < ks[j] })
	vals := []types.Value{types.Long(0), types.Long(1), types.Long(-1), types.Long(2), types.Long(3), types.Long(math.MaxInt64), types.Long(math.MinInt64),
		types.Long(math.MaxInt64/2 + 1), types.True, types.False, types.String("a"), types.NewSet(types.Long(1))}
	rnd := uint64(88172645463325252)
	next := func() uint64 { rnd ^= rnd << 13; rnd ^= rnd >> 7; rnd ^= rnd << 17; return rnd }
	total := 1
	for range ks {
		if total < 5000 {
			total *= len(vals)
		}
	}
	if total > 5000 {
		total = 5000
	}
	for it := 0; it < total; it++ {
		m := types.RecordMap{}
		x := it
		for _, k := range ks {
			var idx int
			if total < 5000 {
				idx = x % len(vals)
				x /= len(vals)
			} else {
				idx = int(next() % uint64(len(vals)))
			}
			m[k] = vals[idx]
		}
		ctx := types.NewRecord(m)
		env := xeval.Env{Entities: em, Principal: rq.P, Action: rq.A, Resource: rq.R, Context: ctx}
		va, ea := xeval.Eval(xeval.PolicyToNode(a).AsIsNode(), env)
		vb, eb := xeval.Eval(xeval.PolicyToNode(b).AsIsNode(), env)
		if oa, ob := outcomeSx(va, ea).String(), outcomeSx(vb, eb).String(); oa != ob {
			return "context=" + ctx.String() + " original=" + oa + " reparsed=" + ob
		}
	}
	return ""
}

func forEachChild(n xast.IsNode, f func(xast.IsNode)) {
	switch v := n.(type) {
	case xast.NodeTypeAnd:
		f(v.Left)
		f(v.Right)
	case xast.NodeTypeOr:
		f(v.Left)
		f(v.Right)
	case xast.NodeTypeNot:
		f(v.Arg)
	case xast.NodeTypeNegate:
		f(v.Arg)
	case xast.NodeTypeAdd:
		f(v.Left)
		f(v.Right)
	case xast.NodeTypeSub:
		f(v.Left)
		f(v.Right)
	case xast.NodeTypeMult:
		f(v.Left)
		f(v.Right)
	case xast.NodeTypeEquals:
		f(v.Left)
		f(v.Right)
	case xast.NodeTypeNotEquals:
		f(v.Left)
		f(v.Right)
	case xast.NodeTypeLessThan:
		f(v.Left)
		f(v.Right)
	case xast.NodeTypeLessThanOrEqual:
		f(v.Left)
		f(v.Right)
	case xast.NodeTypeGreaterThan:
		f(v.Left)
		f(v.Right)
	case xast.NodeTypeGreaterThanOrEqual:
		f(v.Left)
		f(v.Right)
	case xast.NodeTypeIn:
		f(v.Left)
		f(v.Right)
	case xast.NodeTypeContains:
		f(v.Left)
		f(v.Right)
	case xast.NodeTypeContainsAll:
		f(v.Left)
		f(v.Right)
	case xast.NodeTypeContainsAny:
		f(v.Left)
		f(v.Right)
	case xast.NodeTypeIsEmpty:
		f(v.Arg)
	case xast.NodeTypeGetTag:
		f(v.Left)
		f(v.Right)
	case xast.NodeTypeHasTag:
		f(v.Left)
		f(v.Right)
	case xast.NodeTypeAccess:
		f(v.Arg)
	case xast.NodeTypeHas:
		f(v.Arg)
	case xast.NodeTypeLike:
		f(v.Arg)
	case xast.NodeTypeIs:
		f(v.Left)
	case xast.NodeTypeIsIn:
		f(v.Left)
		f(v.Entity)
	case xast.NodeTypeIfThenElse:
		f(v.If)
		f(v.Then)
		f(v.Else)
	case xast.NodeTypeSet:
		for _, e := range v.Elements {
			f(e)
		}
	case xast.NodeTypeRecord:
		for _, e := range v.Elements {
			f(e.Value)
		}
	case xast.NodeTypeExtensionCall:
		for _, e := range v.Args {
			f(e)
		}
	}
}

func init() {
	kinds["printpol"] = runPrintPol
	kinds["runeinfo"] = runRuneInfo
}

// printpol: <policy> [ignored...] -> (text bytes) | (unrenderable)
func runPrintPol(payload []*Sx) *Sx {
	_, a := policyFromSx(payload[0])
	p := cedar.NewPolicyFromAST((*cedarAST)(a))
	c, ok := safeBytes(p.MarshalCedar)
	if !ok {
		return L(A("unrenderable"))
	}
	return L(A("text"), AS(string(c)))
}

// runeinfo: (runes r...) -> ((r printable gext)...): the escaper's Unicode tables observed through types.String.MarshalCedar
// (a continuation character is written raw iff printable; a first character is additionally escaped iff grapheme-extend)
func runRuneInfo(payload []*Sx) *Sx {
	out := L()
	for _, x := range payload[0].List[1:] {
		r := rune(mustInt64(x.Atom))
		cont := string(types.String("a" + string(r)).MarshalCedar())
		first := string(types.String(string(r)).MarshalCedar())
		printable := cont == "\"a"+string(r)+"\""
		gext := printable && first != "\""+string(r)+"\""
		b := func(v bool) *Sx {
			if v {
				return A("1")
			}
			return A("0")
		}
		out.List = append(out.List, L(AI(int(r)), b(printable), b(gext)))
	}
	return out
}
