package main

import (
	"context"
	"errors"
	"fmt"
	"sort"
	"strings"
	"sync"
	"time"

	cedar "github.com/cedar-policy/cedar-go"
	"github.com/cedar-policy/cedar-go/types"
	"github.com/cedar-policy/cedar-go/x/exp/batch"
)

func init() { kinds["batch"] = runBatch }

func deepSubst(v types.Value, sigma map[string]types.Value) types.Value {
	switch t := v.(type) {
	case types.EntityUID:
		if t.Type == "__cedar::variable" {
			if w, ok := sigma[string(t.ID)]; ok {
				return w
			}
		}
		return t
	case types.Record:
		m := types.RecordMap{}
		for k, x := range t.All() {
			m[k] = deepSubst(x, sigma)
		}
		return types.NewRecord(m)
	case types.Set:
		var xs []types.Value
		for x := range t.All() {
			xs = append(xs, deepSubst(x, sigma))
		}
		return types.NewSet(xs...)
	}
	return v
}

func isIgnore(v types.Value) bool {
	e, ok := v.(types.EntityUID)
	return ok && e.Type == "__cedar::ignore"
}

func resultSx(req cedar.Request, vals map[string]types.Value, dec cedar.Decision, diag cedar.Diagnostic) *Sx {
	var keys []string
	for k := range vals {
		keys = append(keys, k)
	}
	sort.Strings(keys)
	vl := L(A("vals"))
	for _, k := range keys {
		vl.List = append(vl.List, L(AS(k), valueToSx(vals[k])))
	}
	var rs []string
	for _, r := range diag.Reasons {
		rs = append(rs, AS(string(r.PolicyID)).Atom)
	}
	sort.Strings(rs)
	rl := L(A("reasons"))
	for _, r := range rs {
		rl.List = append(rl.List, A(r))
	}
	d := "deny"
	if dec == cedar.Allow {
		d = "allow"
	}
	return L(A("r"), L(A("req"), valueToSx(req.Principal), valueToSx(req.Action), valueToSx(req.Resource), valueToSx(req.Context)), vl, A(d), rl)
}

func sortedList(head string, items []*Sx) *Sx {
	sort.Slice(items, func(i, j int) bool { return items[i].String() < items[j].String() })
	return L(append([]*Sx{A(head)}, items...)...)
}

// expiringCtx is a context that ends the way a deadline ends it (Err() = context.DeadlineExceeded), at a moment the harness chooses
type expiringCtx struct {
	context.Context
	done chan struct{}
	once sync.Once
}

func (c *expiringCtx) expire()               { c.once.Do(func() { close(c.done) }) }
func (c *expiringCtx) Done() <-chan struct{} { return c.done }
func (c *expiringCtx) Err() error {
	select {
	case <-c.done:
		return context.DeadlineExceeded
	default:
		return nil
	}
}

// batch: <store> <template req> (vars (name value...)...) (policies policy...) (mode none|failat k|cancelat k|expireat k)
func runBatch(payload []*Sx) *Sx {
	em := storeFromSx(payload[0])
	rq := reqFromSx(payload[1])
	vars := batch.Variables{}
	var names []string
	for _, v := range payload[2].List[1:] {
		name := v.List[0].Str()
		var vals []types.Value
		for _, x := range v.List[1:] {
			vals = append(vals, valueFromSx(x))
		}
		if vals == nil {
			vals = []types.Value{}
		}
		vars[types.String(name)] = vals
		names = append(names, name)
	}
	ps := cedar.NewPolicySet()
	for _, p := range payload[3].List[1:] {
		id, pol := policyFromSx(p)
		ps.Add(cedar.PolicyID(id), cedar.NewPolicyFromAST((*cedarAST)(pol)))
	}
	mode := payload[4].List[1].Atom
	k := 0
	if mode != "none" {
		k = int(mustInt64(payload[4].List[2].Atom))
	}
	var ctx context.Context
	ctx, cancel := context.WithCancel(context.Background())
	defer cancel()
	if mode == "expireat" {
		ec := &expiringCtx{Context: context.Background(), done: make(chan struct{})}
		ctx, cancel = ec, ec.expire
		if k == 0 {
			// a real deadline that has already passed
			var c2 context.CancelFunc
			ctx, c2 = context.WithDeadline(context.Background(), time.Now().Add(-time.Second))
			defer c2()
		}
		mode = "cancelat"
	}
	if mode == "cancelat" && k == 0 {
		cancel()
	}
	var delivered []*Sx
	calls := 0
	// the callback's own error: a plain one, or one that wraps the end of some OTHER context (a timed-out write to an audit log, say)
	var cbErr error
	switch k % 3 {
	case 0:
		cbErr = errors.New("callback failed")
	case 1:
		cbErr = fmt.Errorf("audit log: %w", context.DeadlineExceeded)
	default:
		cbErr = fmt.Errorf("audit log: %w", context.Canceled)
	}
	cb := func(r batch.Result) error {
		calls++
		vals := map[string]types.Value{}
		for kk, vv := range r.Values {
			vals[string(kk)] = vv
		}
		delivered = append(delivered, resultSx(r.Request, vals, r.Decision, r.Diagnostic))
		if mode == "failat" && calls == k+1 {
			return cbErr
		}
		if mode == "cancelat" && calls == k {
			cancel()
		}
		return nil
	}
	err := batch.Authorize(ctx, ps, em, batch.Request{Principal: rq.P, Action: rq.A, Resource: rq.R, Context: rq.C, Variables: vars}, cb)
	status := "ok"
	if err != nil {
		m := err.Error()
		switch {
		case errors.Is(err, cbErr):
			status = "callback"
		case errors.Is(err, context.Canceled), errors.Is(err, context.DeadlineExceeded):
			status = "cancelled"
		case strings.Contains(m, "unbound variable"):
			status = "unbound"
		case strings.Contains(m, "unused variable"):
			status = "unused"
		case strings.Contains(m, "invalid part"):
			status = "invalid"
		default:
			status = "other"
		}
	}
	ncalls := len(delivered)
	out := L(L(A("status"), A(status)), L(A("calls"), AI(ncalls)), sortedList("results", delivered))

	// brute force over the Cartesian product, with the ordinary authorizer
	var brute []*Sx
	bruteStatus := "ok"
	var rec func(i int, sigma map[string]types.Value)
	sort.Strings(names)
	rec = func(i int, sigma map[string]types.Value) {
		if i == len(names) {
			fix := func(v types.Value, which string) types.Value {
				v = deepSubst(v, sigma)
				if isIgnore(v) {
					if which == "context" {
						return types.Record{}
					}
					return types.NewEntityUID("__cedar::unknown", types.String(which))
				}
				return v
			}
			p, ok1 := fix(rq.P, "principal").(types.EntityUID)
			a, ok2 := fix(rq.A, "action").(types.EntityUID)
			r, ok3 := fix(rq.R, "resource").(types.EntityUID)
			c, ok4 := fix(rq.C, "context").(types.Record)
			if !(ok1 && ok2 && ok3 && ok4) {
				bruteStatus = "invalid"
				return
			}
			req := cedar.Request{Principal: p, Action: a, Resource: r, Context: c}
			dec, diag := cedar.Authorize(ps, em, req)
			vals := map[string]types.Value{}
			for kk, vv := range sigma {
				vals[kk] = vv
			}
			brute = append(brute, resultSx(req, vals, dec, diag))
			return
		}
		for _, v := range vars[types.String(names[i])] {
			sigma[names[i]] = v
			rec(i+1, sigma)
		}
		delete(sigma, names[i])
	}
	rec(0, map[string]types.Value{})
	out.List = append(out.List, L(A("brute-status"), A(bruteStatus)), sortedList("brute", brute))
	return out
}
