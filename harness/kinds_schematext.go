package main

import (
	"github.com/cedar-policy/cedar-go/x/exp/schema"
)

// The schema TEXT codec against the Coq model Impl/SchemaText.v (AST format: see kinds_schemaast.go).
//   stparse: <schema text as a string atom> -> (ok <xschema>) | (err)      Schema.UnmarshalCedar, then Schema.AST
//   stprint: <xschema> -> (text <bytes as a string atom>)                  NewSchemaFromAST, then Schema.MarshalCedar
// Error messages and positions are not part of the result.

func init() {
	kinds["stparse"] = runSTParse
	kinds["stprint"] = runSTPrint
	riskyKinds["stparse"] = true
}

func runSTParse(payload []*Sx) *Sx {
	var s schema.Schema
	if err := s.UnmarshalCedar([]byte(payload[0].Str())); err != nil {
		return L(A("err"))
	}
	return L(A("ok"), xschemaToSx(s.AST()))
}

func runSTPrint(payload []*Sx) *Sx {
	s := schema.NewSchemaFromAST(xschemaFromSx(payload[0]))
	b, err := s.MarshalCedar()
	if err != nil {
		return L(A("marshal-error"))
	}
	return L(A("text"), AS(string(b)))
}
