package main

import (
	"encoding/json"
	"sort"

	"github.com/cedar-policy/cedar-go/types"
)

func init() {
	kinds["ejsonenc"] = runEJSONEnc
	kinds["ejsondec"] = runEJSONDec
	kinds["ukeys"] = runUKeys
}

// storeToSx: (store (ent <uid> (parents uid...) (attrs (k v)...) (tags (k v)...))...) sorted by uid, parents sorted
func storeToSx(em types.EntityMap) *Sx {
	var ents []*Sx
	for uid, e := range em {
		var ps []*Sx
		for p := range e.Parents.All() {
			ps = append(ps, uidSx(p))
		}
		sort.Slice(ps, func(i, j int) bool { return ps[i].String() < ps[j].String() })
		pl := L(A("parents"))
		pl.List = append(pl.List, ps...)
		at := L(A("attrs"))
		at.List = append(at.List, valueToSx(e.Attributes).List[1:]...)
		tg := L(A("tags"))
		tg.List = append(tg.List, valueToSx(e.Tags).List[1:]...)
		// the key of the map and the uid inside the entity (they may differ in a hand-made map; decoding makes them equal)
		ents = append(ents, L(A("ent"), uidSx(uid), pl, at, tg, L(A("inner"), uidSx(e.UID))))
	}
	sort.Slice(ents, func(i, j int) bool { return ents[i].String() < ents[j].String() })
	out := L(A("store"))
	out.List = append(out.List, ents...)
	return out
}

// ejsonenc: <store> -> (tree <json tree of EntityMap.MarshalJSON>)
func runEJSONEnc(payload []*Sx) *Sx {
	em := storeFromSx(payload[0])
	b, err := json.Marshal(em)
	if err != nil {
		return L(A("marshal-error"))
	}
	t, err := jsonTreeSx(b)
	if err != nil {
		return L(A("output-is-not-json"))
	}
	return L(A("tree"), t)
}

// ejsondec: <json tree> -> (ok <store>) | (err)
func runEJSONDec(payload []*Sx) *Sx {
	var em types.EntityMap
	if err := json.Unmarshal([]byte(jsonTextOfSx(payload[0])), &em); err != nil {
		return L(A("err"))
	}
	return L(A("ok"), storeToSx(em))
}

// ukeys: (uids uid...) -> (keys (uid xKEY)...): EntityUID.String(), the sort key of EntityMap.MarshalJSON
func runUKeys(payload []*Sx) *Sx {
	out := L(A("keys"))
	for _, u := range payload[0].List[1:] {
		uid := uidFromSx(u)
		out.List = append(out.List, L(uidSx(uid), AS(uid.String())))
	}
	return out
}
