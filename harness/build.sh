#!/bin/sh
# Build the Go harness against /repo's current working tree (hooks on: -tags verif).
set -e
cd "$(dirname "$0")"
export GOFLAGS=-mod=mod GOPROXY=off GOSUMDB=off GOTOOLCHAIN=local
cp /repo/go.sum ./go.sum
mkdir -p bin
go build -tags verif -o bin/harness .
if [ "$VERIF_RACE" = 1 ]; then go build -race -tags verif -o bin/harness-race . ; fi
