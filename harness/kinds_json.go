package main

import (
	"bytes"
	"encoding/json"
	"fmt"
	xast "github.com/cedar-policy/cedar-go/x/exp/ast"
	"math/big"
	"sort"
	"strings"

	cedar "github.com/cedar-policy/cedar-go"
	"github.com/cedar-policy/cedar-go/types"
	"github.com/cedar-policy/cedar-go/x/exp/schema"
	exptypes "github.com/cedar-policy/cedar-go/x/exp/types"
)

func init() {
	kinds["entityjson"] = runEntityJSON
	kinds["spellings"] = runSpellings
}

// entityjson: <store> <req> — entity map, each entity, request and a diagnostic through JSON and back, twice
func runEntityJSON(payload []*Sx) *Sx {
	em := storeFromSx(payload[0])
	b1, err := json.Marshal(em)
	if err != nil {
		return L(A("entitymap-marshal-error"), A(sanitize(err.Error())))
	}
	var em2 types.EntityMap
	if err := json.Unmarshal(b1, &em2); err != nil {
		return L(A("entitymap-own-encoding-does-not-decode"), A(sanitize(err.Error())))
	}
	if len(em) != len(em2) {
		return L(A("entitymap-size-differs"))
	}
	for uid, e := range em {
		e2, ok := em2[uid]
		if !ok || !e.Equal(e2) || !e2.Equal(e) {
			return L(A("entity-differs"), valueToSx(uid))
		}
		eb, err := json.Marshal(e)
		if err != nil {
			return L(A("entity-marshal-error"))
		}
		var e3 types.Entity
		if err := json.Unmarshal(eb, &e3); err != nil || !e3.Equal(e) {
			return L(A("single-entity-differs"), valueToSx(uid))
		}
	}
	b2, err := json.Marshal(em2)
	if err != nil || !bytes.Equal(b1, b2) {
		return L(A("entitymap-second-encoding-differs"), AS(string(b1)), AS(string(b2)))
	}
	// decoding INTO a variable that already holds a value (a reused loop variable, a copy taken from a map): every entity decoded
	// earlier keeps what it was decoded to, and the map decoded over an old one equals the fresh decode
	{
		var uids []types.EntityUID
		for uid := range em {
			uids = append(uids, uid)
		}
		sort.Slice(uids, func(i, j int) bool { return uids[i].String() < uids[j].String() })
		collected := types.EntityMap{}
		var cur types.Entity
		for _, uid := range uids {
			eb, _ := json.Marshal(em[uid])
			if err := json.Unmarshal(eb, &cur); err != nil {
				return L(A("entity-does-not-decode-into-a-reused-variable"), valueToSx(uid))
			}
			collected[cur.UID] = cur
		}
		for _, uid := range uids {
			if got, ok := collected[uid]; !ok || !got.Equal(em[uid]) {
				return L(A("entity-decoded-earlier-changed-by-a-later-decode"), valueToSx(uid))
			}
		}
		over := em2.Clone()
		keep := em2.Clone()
		var small types.EntityMap
		if len(uids) > 0 {
			sb, _ := json.Marshal(types.EntityMap{uids[0]: em[uids[0]]})
			_ = json.Unmarshal(sb, &small)
		}
		for uid, e := range over {
			dst := e
			eb, _ := json.Marshal(types.Entity{UID: uid})
			_ = json.Unmarshal(eb, &dst)
			_ = dst
		}
		for uid, e := range keep {
			if e2, ok := em2[uid]; !ok || !e2.Equal(e) || !e.Equal(em[uid]) {
				return L(A("entity-in-a-map-changed-by-decoding-into-a-copy"), valueToSx(uid))
			}
		}
	}
	rq := reqFromSx(payload[1])
	req, ok := rq.concrete()
	if ok {
		rb, err := json.Marshal(req)
		if err != nil {
			return L(A("request-marshal-error"))
		}
		var req2 cedar.Request
		if err := json.Unmarshal(rb, &req2); err != nil {
			return L(A("request-own-encoding-does-not-decode"), A(sanitize(err.Error())))
		}
		if !req.Equal(req2) || !req2.Equal(req) {
			return L(A("request-differs"))
		}
		rb2, _ := json.Marshal(req2)
		if !bytes.Equal(rb, rb2) {
			return L(A("request-second-encoding-differs"), AS(string(rb)), AS(string(rb2)))
		}
		// a diagnostic of an authorization over these entities
		var p cedar.Policy
		_ = p.UnmarshalCedar([]byte(`permit(principal, action, resource) when { context.nosuch };`))
		ps := cedar.NewPolicySet()
		ps.Add("p0", &p)
		var p1 cedar.Policy
		_ = p1.UnmarshalCedar([]byte(`permit(principal, action, resource);`))
		p1.SetFilename("f.cedar")
		ps.Add("p1", &p1)
		dec, diag := cedar.Authorize(ps, em, req)
		db, err := json.Marshal(diag)
		if err != nil {
			return L(A("diagnostic-marshal-error"))
		}
		var diag2 cedar.Diagnostic
		if err := json.Unmarshal(db, &diag2); err != nil {
			return L(A("diagnostic-does-not-decode"))
		}
		db2, _ := json.Marshal(diag2)
		if !bytes.Equal(db, db2) || fmt.Sprint(diag) != fmt.Sprint(diag2) {
			return L(A("diagnostic-differs"))
		}
		decb, _ := json.Marshal(dec)
		var dec2 cedar.Decision
		if err := json.Unmarshal(decb, &dec2); err != nil || dec2 != dec {
			return L(A("decision-differs"))
		}
	}
	return L(A("ok"))
}

const spellSchema = `
entity Group;
entity User in [Group] {
  d: decimal, ip: ipaddr, dt: datetime, du: duration, e: User,
  sd: Set<decimal>, r: { x: decimal, y: Set<User> }, l: Long, s: String
} tags decimal;
action view appliesTo { principal: [User], resource: [User], context: {} };
`

func jsonOf(v any) string {
	b, err := json.Marshal(v)
	if err != nil {
		panic("harness: json: " + err.Error())
	}
	return string(b)
}

// spellings: (dec z) (ip ...) (dt z) (dur z) (e type id): every accepted spelling of the datum decodes to an equal value
func runSpellings(payload []*Sx) *Sx {
	dec := valueFromSx(payload[0]).(types.Decimal)
	ip := valueFromSx(payload[1]).(types.IPAddr)
	dt := valueFromSx(payload[2]).(types.Datetime)
	du := valueFromSx(payload[3]).(types.Duration)
	ent := valueFromSx(payload[4]).(types.EntityUID)
	var problems []string
	// 1. value positions: explicit escape only
	check := func(name string, js string, want types.Value) {
		var got types.Value
		if err := types.UnmarshalJSON([]byte(js), &got); err != nil {
			problems = append(problems, name+":error")
			return
		}
		if !got.Equal(want) || !want.Equal(got) {
			problems = append(problems, name+":differs")
		}
	}
	extn := func(fn, arg string) string { return `{"__extn":{"fn":` + jsonOf(fn) + `,"arg":` + jsonOf(arg) + `}}` }
	check("dec-explicit", extn("decimal", dec.String()), dec)
	check("ip-explicit", extn("ip", ip.String()), ip)
	check("dt-explicit", extn("datetime", dt.String()), dt)
	check("du-explicit", extn("duration", du.String()), du)
	check("ent-explicit", `{"__entity":{"type":`+jsonOf(string(ent.Type))+`,"id":`+jsonOf(string(ent.ID))+`}}`, ent)
	// the same spellings made long: JSON whitespace, leading zeros
	pad := strings.Repeat(" ", 1500) + "\n\t"
	check("ent-explicit-padded", `{`+pad+`"__entity"`+pad+`:{"type":`+jsonOf(string(ent.Type))+`,`+pad+`"id":`+jsonOf(string(ent.ID))+`}`+pad+`}`, ent)
	check("dec-explicit-padded", `{"__extn":{"fn":"decimal",`+pad+`"arg":`+jsonOf(dec.String())+`}}`, dec)
	if !strings.HasPrefix(dec.String(), "-") {
		check("dec-explicit-zeros", extn("decimal", strings.Repeat("0", 1200)+dec.String()), dec)
	}
	check("du-explicit-padded", `{"__extn":`+pad+`{"fn":"duration","arg":`+jsonOf(du.String())+`}}`, du)
	// 2. typed positions: explicit, {"fn","arg"} and bare string all equal
	typed := func(name string, target interface{ UnmarshalJSON([]byte) error }, js string, equal func() bool) {
		if err := target.UnmarshalJSON([]byte(js)); err != nil {
			problems = append(problems, name+":error")
			return
		}
		if !equal() {
			problems = append(problems, name+":differs")
		}
	}
	// a JSON string may spell any of its characters as an escape (a foreign encoder writes \/ for the solidus of a CIDR range, \u002b for a plus
	// sign): esc writes EVERY character of a string that way, and each spelling is also tried in that form
	esc := func(s string) string {
		var sb strings.Builder
		sb.WriteByte('"')
		for _, r := range s {
			if r == '/' {
				sb.WriteString(`\/`)
			} else {
				fmt.Fprintf(&sb, `\u%04x`, r)
			}
		}
		sb.WriteByte('"')
		return sb.String()
	}
	extnE := func(fn, arg string) string { return `{"__extn":{"fn":` + esc(fn) + `,"arg":` + esc(arg) + `}}` }
	for i, js := range []string{extnE("decimal", dec.String()), `{"fn":` + esc("decimal") + `,"arg":` + esc(dec.String()) + `}`, esc(dec.String())} {
		var d types.Decimal
		typed(fmt.Sprintf("dec-typed-escaped-%d", i), &d, js, func() bool { return d.Equal(dec) })
	}
	for i, js := range []string{extnE("ip", ip.String()), `{"fn":` + esc("ip") + `,"arg":` + esc(ip.String()) + `}`, esc(ip.String())} {
		var d types.IPAddr
		typed(fmt.Sprintf("ip-typed-escaped-%d", i), &d, js, func() bool { return d.Equal(ip) })
	}
	for i, js := range []string{extnE("datetime", dt.String()), esc(dt.String())} {
		var d types.Datetime
		typed(fmt.Sprintf("dt-typed-escaped-%d", i), &d, js, func() bool { return d.Equal(dt) })
	}
	for i, js := range []string{extnE("duration", du.String()), esc(du.String())} {
		var d types.Duration
		typed(fmt.Sprintf("du-typed-escaped-%d", i), &d, js, func() bool { return d.Equal(du) })
	}
	check("dec-explicit-escaped", extnE("decimal", dec.String()), dec)
	check("ip-explicit-escaped", extnE("ip", ip.String()), ip)
	for i, js := range []string{extn("decimal", dec.String()), `{"fn":"decimal","arg":` + jsonOf(dec.String()) + `}`, jsonOf(dec.String())} {
		var d types.Decimal
		typed(fmt.Sprintf("dec-typed-%d", i), &d, js, func() bool { return d.Equal(dec) })
	}
	for i, js := range []string{extn("ip", ip.String()), `{"fn":"ip","arg":` + jsonOf(ip.String()) + `}`, jsonOf(ip.String())} {
		var d types.IPAddr
		typed(fmt.Sprintf("ip-typed-%d", i), &d, js, func() bool { return d.Equal(ip) })
	}
	for i, js := range []string{extn("datetime", dt.String()), `{"fn":"datetime","arg":` + jsonOf(dt.String()) + `}`, jsonOf(dt.String())} {
		var d types.Datetime
		typed(fmt.Sprintf("dt-typed-%d", i), &d, js, func() bool { return d.Equal(dt) })
	}
	for i, js := range []string{extn("duration", du.String()), `{"fn":"duration","arg":` + jsonOf(du.String()) + `}`, jsonOf(du.String())} {
		var d types.Duration
		typed(fmt.Sprintf("du-typed-%d", i), &d, js, func() bool { return d.Equal(du) })
	}
	// ... and what a typed position must REJECT: another extension's name, a missing name, members of the wrong JSON kind, an argument
	// that is not a literal of that type, a number or null or an array in its place
	rejects := func(name string, target func() interface{ UnmarshalJSON([]byte) error }, own string, lit string) {
		others := []string{"decimal", "ip", "datetime", "duration", "", "Decimal", "nosuch"}
		for _, fn := range others {
			if fn == own {
				continue
			}
			for _, js := range []string{extn(fn, lit), `{"fn":` + jsonOf(fn) + `,"arg":` + jsonOf(lit) + `}`} {
				if err := target().UnmarshalJSON([]byte(js)); err == nil {
					problems = append(problems, name+":accepts-extension-named-"+fn)
				}
			}
		}
		for i, js := range []string{`{"__extn":{"fn":` + jsonOf(own) + `}}`, `{"__extn":{"arg":` + jsonOf(lit) + `}}`, `{"__extn":{"fn":` + jsonOf(own) + `,"arg":7}}`,
			`{"__extn":{"fn":7,"arg":` + jsonOf(lit) + `}}`, `{"__extn":` + jsonOf(lit) + `}`, `{"__extn":[]}`, `{}`, `[]`, `7`, `true`, `{"arg":` + jsonOf(lit) + `}`,
			`{"fn":` + jsonOf(own) + `}`, extn(own, "not a literal of any type"), jsonOf("not a literal of any type"), `{"fn":` + jsonOf(own) + `,"arg":["` + lit + `"]}`, `"` + lit} {
			if err := target().UnmarshalJSON([]byte(js)); err == nil {
				problems = append(problems, fmt.Sprintf("%s:accepts-malformed-%d", name, i))
			}
		}
	}
	rejects("dec", func() interface{ UnmarshalJSON([]byte) error } { return new(types.Decimal) }, "decimal", dec.String())
	rejects("ip", func() interface{ UnmarshalJSON([]byte) error } { return new(types.IPAddr) }, "ip", ip.String())
	rejects("dt", func() interface{ UnmarshalJSON([]byte) error } { return new(types.Datetime) }, "datetime", dt.String())
	rejects("du", func() interface{ UnmarshalJSON([]byte) error } { return new(types.Duration) }, "duration", du.String())
	entImplicit := `{"type":` + jsonOf(string(ent.Type)) + `,"id":` + jsonOf(string(ent.ID)) + `}`
	for i, js := range []string{`{"__entity":` + entImplicit + `}`, entImplicit} {
		var u types.EntityUID
		typed(fmt.Sprintf("ent-typed-%d", i), &u, js, func() bool { return u == ent })
	}
	// 3. schema-guided coercion of implicit forms inside an entity
	var s schema.Schema
	if err := s.UnmarshalCedar([]byte(spellSchema)); err != nil {
		panic("harness: spelling schema: " + err.Error())
	}
	rs, err := s.Resolve()
	if err != nil {
		panic("harness: spelling schema resolve: " + err.Error())
	}
	user := types.NewEntityUID("User", "u")
	other := types.NewEntityUID("User", ent.ID)
	otherImplicit := `{"type":"User","id":` + jsonOf(string(ent.ID)) + `}`
	explicitAttrs := `{"d":` + extn("decimal", dec.String()) + `,"ip":` + extn("ip", ip.String()) + `,"dt":` + extn("datetime", dt.String()) +
		`,"du":` + extn("duration", du.String()) + `,"e":{"__entity":` + otherImplicit + `},"sd":[` + extn("decimal", dec.String()) + `],"r":{"x":` +
		extn("decimal", dec.String()) + `,"y":[{"__entity":` + otherImplicit + `}]},"l":1,"s":"x"}`
	implicitAttrs := `{"d":` + jsonOf(dec.String()) + `,"ip":` + jsonOf(ip.String()) + `,"dt":` + jsonOf(dt.String()) + `,"du":` + jsonOf(du.String()) +
		`,"e":` + otherImplicit + `,"sd":[` + jsonOf(dec.String()) + `],"r":{"x":` + jsonOf(dec.String()) + `,"y":[` + otherImplicit + `]},"l":1,"s":"x"}`
	mk := func(attrs, tag string) string {
		return `[{"uid":{"type":"User","id":"u"},"parents":[],"attrs":` + attrs + `,"tags":{"t":` + tag + `}},` +
			`{"uid":` + otherImplicit + `,"parents":[],"attrs":` + attrs + `,"tags":{}}]`
	}
	var em1 types.EntityMap
	if err := json.Unmarshal([]byte(mk(explicitAttrs, extn("decimal", dec.String()))), &em1); err != nil {
		problems = append(problems, "schema-explicit:error")
	} else {
		var em2 exptypes.EntityMap
		if err := em2.UnmarshalJSONWithSchema([]byte(mk(implicitAttrs, jsonOf(dec.String()))), rs); err != nil {
			problems = append(problems, "schema-implicit:error:"+sanitize(err.Error()))
		} else if !em1[user].Equal(types.EntityMap(em2)[user]) || !em1[other].Equal(types.EntityMap(em2)[other]) {
			problems = append(problems, "schema-implicit:differs")
		}
		var em3 exptypes.EntityMap
		if err := em3.UnmarshalJSONWithSchema([]byte(mk(explicitAttrs, extn("decimal", dec.String()))), rs); err != nil {
			problems = append(problems, "schema-explicit-coerced:error:"+sanitize(err.Error()))
		} else if !em1[user].Equal(types.EntityMap(em3)[user]) {
			problems = append(problems, "schema-explicit-coerced:differs")
		}
	}
	// 4. mixed spellings inside one set / record: every combination of explicit and implicit members decodes to the same entity
	{
		var others []string
		for _, c := range []string{"1.5", "2.5", "-0.0001"} {
			if dc, err := types.ParseDecimal(c); err == nil && !dc.Equal(dec) {
				others = append(others, c)
			}
		}
		d2, d3 := others[0], others[1]
		ents := []string{`{"type":"User","id":"m1"}`, otherImplicit, `{"type":"User","id":"m3"}`}
		decs := []string{dec.String(), d2, d3}
		for mask := 0; mask < 8; mask++ {
			sd, sy, sdE, syE := "", "", "", ""
			for i := 0; i < 3; i++ {
				sep := ""
				if i > 0 {
					sep = ","
				}
				sdE += sep + extn("decimal", decs[i])
				syE += sep + `{"__entity":` + ents[i] + `}`
				if mask&(1<<i) != 0 {
					sd += sep + extn("decimal", decs[i])
					sy += sep + `{"__entity":` + ents[i] + `}`
				} else {
					sd += sep + jsonOf(decs[i])
					sy += sep + ents[i]
				}
			}
			attrs := func(sd, sy string) string {
				return `{"d":` + extn("decimal", dec.String()) + `,"ip":` + extn("ip", ip.String()) + `,"dt":` + extn("datetime", dt.String()) +
					`,"du":` + extn("duration", du.String()) + `,"e":{"__entity":` + otherImplicit + `},"sd":[` + sd + `],"r":{"x":` +
					jsonOf(dec.String()) + `,"y":[` + sy + `]},"l":1,"s":"x"}`
			}
			doc := func(a string) string {
				return `[{"uid":{"type":"User","id":"u"},"parents":[],"attrs":` + a + `,"tags":{}}]`
			}
			var want types.EntityMap
			if err := json.Unmarshal([]byte(doc(attrs(sdE, syE))), &want); err != nil {
				problems = append(problems, "schema-mixed-reference:error")
				break
			}
			// the reference has r.x explicit
			var got exptypes.EntityMap
			if err := got.UnmarshalJSONWithSchema([]byte(doc(attrs(sd, sy))), rs); err != nil {
				problems = append(problems, fmt.Sprintf("schema-mixed-%d:error:%s", mask, sanitize(err.Error())))
			} else {
				var wantC exptypes.EntityMap
				if err := wantC.UnmarshalJSONWithSchema([]byte(doc(attrs(sdE, syE))), rs); err != nil || !types.EntityMap(wantC)[user].Equal(types.EntityMap(got)[user]) {
					problems = append(problems, fmt.Sprintf("schema-mixed-%d:differs", mask))
				}
				sdv, _ := types.EntityMap(got)[user].Attributes.Get("sd")
				if set, ok := sdv.(types.Set); !ok || set.Len() != 3 {
					problems = append(problems, fmt.Sprintf("schema-mixed-%d:lost-members", mask))
				}
			}
		}
	}
	if len(problems) == 0 {
		return L(A("ok"))
	}
	sort.Strings(problems)
	out := L(A("problems"))
	for _, p := range problems {
		out.List = append(out.List, A(p))
	}
	return out
}

func init() {
	kinds["jsonenc"] = runJSONEnc
	kinds["jsondec"] = runJSONDec
}

// jsonTreeSx parses JSON text into the tree the Coq model works on (Base/Json.v): members in document order, duplicates kept.
func jsonTreeSx(b []byte) (*Sx, error) {
	dec := json.NewDecoder(bytes.NewReader(b))
	dec.UseNumber()
	var value func() (*Sx, error)
	value = func() (*Sx, error) {
		tok, err := dec.Token()
		if err != nil {
			return nil, err
		}
		switch t := tok.(type) {
		case json.Delim:
			switch t {
			case '[':
				out := L(A("arr"))
				for dec.More() {
					v, err := value()
					if err != nil {
						return nil, err
					}
					out.List = append(out.List, v)
				}
				_, err := dec.Token()
				return out, err
			case '{':
				out := L(A("obj"))
				for dec.More() {
					k, err := dec.Token()
					if err != nil {
						return nil, err
					}
					v, err := value()
					if err != nil {
						return nil, err
					}
					out.List = append(out.List, L(AS(k.(string)), v))
				}
				_, err := dec.Token()
				return out, err
			}
			return nil, fmt.Errorf("unexpected delimiter")
		case string:
			return L(A("str"), AS(t)), nil
		case json.Number:
			if _, ok := new(big.Int).SetString(t.String(), 10); ok && !strings.HasPrefix(t.String(), "-0") {
				return L(A("num"), A(t.String())), nil
			}
			return L(A("numother")), nil
		case bool:
			if t {
				return L(A("bool"), A("1")), nil
			}
			return L(A("bool"), A("0")), nil
		case nil:
			return L(A("null")), nil
		}
		return nil, fmt.Errorf("unexpected token")
	}
	return value()
}

func jsonTextOfSx(t *Sx) string {
	switch t.Head() {
	case "arr":
		parts := []string{}
		for _, x := range t.List[1:] {
			parts = append(parts, jsonTextOfSx(x))
		}
		return "[" + strings.Join(parts, ",") + "]"
	case "obj":
		parts := []string{}
		for _, kv := range t.List[1:] {
			parts = append(parts, jsonOf(kv.List[0].Str())+":"+jsonTextOfSx(kv.List[1]))
		}
		return "{" + strings.Join(parts, ",") + "}"
	case "str":
		return jsonOf(t.List[1].Str())
	case "num":
		return t.List[1].Atom
	case "numother":
		return "1.5e0"
	case "bool":
		if t.List[1].Atom == "1" {
			return "true"
		}
		return "false"
	}
	return "null"
}

// jsonenc: <value> -> (tree <json tree>)
func runJSONEnc(payload []*Sx) *Sx {
	v := valueFromSx(payload[0])
	b, err := json.Marshal(v)
	if err != nil {
		return L(A("marshal-error"))
	}
	t, err := jsonTreeSx(b)
	if err != nil {
		return L(A("output-is-not-json"))
	}
	return L(A("tree"), t)
}

// jsondec: <json tree> -> (ok <value>) | (err)
func runJSONDec(payload []*Sx) *Sx {
	var v types.Value
	if err := types.UnmarshalJSON([]byte(jsonTextOfSx(payload[0])), &v); err != nil {
		return L(A("err"))
	}
	return L(A("ok"), valueToSx(v))
}

func init() {
	kinds["pjsonenc"] = runPJSONEnc
	kinds["pjsondec"] = runPJSONDec
}

// pjsonenc: <policy> -> (tree <json tree of Policy.MarshalJSON>)
func runPJSONEnc(payload []*Sx) *Sx {
	_, a := policyFromSx(payload[0])
	p := cedar.NewPolicyFromAST((*cedarAST)(a))
	b, err := p.MarshalJSON()
	if err != nil {
		return L(A("marshal-error"))
	}
	t, err := jsonTreeSx(b)
	if err != nil {
		return L(A("output-is-not-json"))
	}
	return L(A("tree"), t)
}

// pjsondec: <json tree> -> (ok <policy>) | (err)
func runPJSONDec(payload []*Sx) *Sx {
	var p cedar.Policy
	if err := p.UnmarshalJSON([]byte(jsonTextOfSx(payload[0]))); err != nil {
		return L(A("err"))
	}
	return L(A("ok"), policyToSx("p", (*xast.Policy)(p.AST())))
}

func init() {
	kinds["psjsonenc"] = runPSJSONEnc
	kinds["psjsondec"] = runPSJSONDec
}

// psjsonenc: (policies <policy>...) -> (tree <json tree of PolicySet.MarshalJSON>)   (the id of each policy is its name)
func runPSJSONEnc(payload []*Sx) *Sx {
	ps := cedar.NewPolicySet()
	for _, p := range payload[0].List[1:] {
		id, a := policyFromSx(p)
		ps.Add(cedar.PolicyID(id), cedar.NewPolicyFromAST((*cedarAST)(a)))
	}
	b, err := ps.MarshalJSON()
	if err != nil {
		return L(A("marshal-error"))
	}
	t, err := jsonTreeSx(b)
	if err != nil {
		return L(A("output-is-not-json"))
	}
	return L(A("tree"), t)
}

// psjsondec: <json tree> -> (ok (policies <policy>...)) sorted by id | (err)
func runPSJSONDec(payload []*Sx) *Sx {
	var ps cedar.PolicySet
	if err := ps.UnmarshalJSON([]byte(jsonTextOfSx(payload[0]))); err != nil {
		return L(A("err"))
	}
	var ids []string
	for id := range ps.Map() {
		ids = append(ids, string(id))
	}
	sort.Strings(ids)
	out := L(A("policies"))
	for _, id := range ids {
		out.List = append(out.List, policyToSx(id, (*xast.Policy)(ps.Get(cedar.PolicyID(id)).AST())))
	}
	return L(A("ok"), out)
}
