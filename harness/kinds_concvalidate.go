package main

import (
	"fmt"
	"reflect"
	"runtime"
	"sort"
	"strconv"
	"strings"
	"sync"

	cedar "github.com/cedar-policy/cedar-go"
	"github.com/cedar-policy/cedar-go/x/exp/schema"
	"github.com/cedar-policy/cedar-go/x/exp/schema/validate"
)

func init() {
	kinds["concurrent-validate"] = runConcurrentValidate
	riskyKinds["concurrent-validate"] = true
}

// rawDumpCap renders any Go value structurally, order preserving, with every slice extended to its CAPACITY: a write into the spare
// room of a caller's slice (append on an aliased slice) shows up although len is unchanged.  Maps are sorted by rendered key.
func rawDumpCap(v reflect.Value) string {
	switch v.Kind() {
	case reflect.Invalid:
		return "invalid"
	case reflect.Pointer, reflect.Interface:
		if v.IsNil() {
			return "nil"
		}
		return rawDumpCap(v.Elem())
	case reflect.Struct:
		var sb strings.Builder
		sb.WriteString(v.Type().Name() + "{")
		for i := 0; i < v.NumField(); i++ {
			sb.WriteString(v.Type().Field(i).Name + ":" + rawDumpCap(v.Field(i)) + ";")
		}
		return sb.String() + "}"
	case reflect.Map:
		var items []string
		it := v.MapRange()
		for it.Next() {
			items = append(items, rawDumpCap(it.Key())+"=>"+rawDumpCap(it.Value()))
		}
		sort.Strings(items)
		return "map[" + strings.Join(items, ",") + "]"
	case reflect.Slice:
		if v.IsNil() {
			return "[]"
		}
		n := v.Len()
		full := v.Slice(0, v.Cap())
		var items []string
		for i := 0; i < full.Len(); i++ {
			s := rawDumpCap(full.Index(i))
			if i >= n {
				s = "spare:" + s
			}
			items = append(items, s)
		}
		return "[" + strings.Join(items, ",") + "]"
	case reflect.Array:
		var items []string
		for i := 0; i < v.Len(); i++ {
			items = append(items, rawDumpCap(v.Index(i)))
		}
		return "[" + strings.Join(items, ",") + "]"
	case reflect.String:
		return strconv.Quote(v.String())
	case reflect.Bool:
		return strconv.FormatBool(v.Bool())
	case reflect.Int, reflect.Int8, reflect.Int16, reflect.Int32, reflect.Int64:
		return strconv.FormatInt(v.Int(), 10)
	case reflect.Uint, reflect.Uint8, reflect.Uint16, reflect.Uint32, reflect.Uint64, reflect.Uintptr:
		return strconv.FormatUint(v.Uint(), 10)
	case reflect.Float32, reflect.Float64:
		return strconv.FormatFloat(v.Float(), 'g', -1, 64)
	}
	return fmt.Sprintf("<%s>", v.Kind())
}

// a verdict is nil or the SET of messages (errors.Join lists them in an order that depends on map iteration)
func errString(err error) string {
	if err == nil {
		return "<nil>"
	}
	lines := strings.Split(err.Error(), "\n")
	sort.Strings(lines)
	var out []string
	for i, l := range lines {
		if i == 0 || l != lines[i-1] {
			out = append(out, l)
		}
	}
	return strings.Join(out, " | ")
}

// concurrent-validate: <schema text> (policies <policy sx or text>...) <store> <req> <workers>
// Policies are parsed from TEXT (policies given as trees are rendered first), so their slices have the capacities the parser leaves.
// Validation (policies, entities, request; strict and permissive) is read-only: every worker's verdicts equal the sequential ones,
// nothing races, and the policies, entities and request are bit-for-bit what they were - spare slice capacity included.
func runConcurrentValidate(payload []*Sx) *Sx {
	var s schema.Schema
	if err := s.UnmarshalCedar([]byte(payload[0].Str())); err != nil {
		return L(A("schema-error"), AS(err.Error()))
	}
	rs, err := s.Resolve()
	if err != nil {
		return L(A("schema-resolve-error"), AS(err.Error()))
	}
	var pols []*cedar.Policy
	for _, x := range payload[1].List[1:] {
		var text []byte
		if x.IsList {
			_, a := policyFromSx(x)
			text = cedar.NewPolicyFromAST((*cedarAST)(a)).MarshalCedar()
		} else {
			text = []byte(x.Str())
		}
		var p cedar.Policy
		if err := p.UnmarshalCedar(text); err != nil {
			return L(A("policy-error"), AS(string(text)), AS(err.Error()))
		}
		pols = append(pols, &p)
	}
	em := storeFromSx(payload[2])
	rq := reqFromSx(payload[3])
	req, okReq := rq.concrete()
	workers := int(mustInt64(payload[4].Atom))

	vs := []*validate.Validator{validate.New(rs, validate.WithStrict()), validate.New(rs, validate.WithPermissive())}
	verdicts := func() string {
		var sb strings.Builder
		for _, v := range vs {
			for i, p := range pols {
				sb.WriteString(fmt.Sprintf("p%d:%s\n", i, errString(v.Policy(fmt.Sprint("p", i), (*xastPolicy)(p.AST())))))
			}
			// which non-conforming entity is reported depends on map iteration: the verdict is conforming or not
			sb.WriteString(fmt.Sprintf("entities-conform:%v\n", v.Entities(em) == nil))
			if okReq {
				sb.WriteString("request:" + errString(v.Request(cedar.Request(req))) + "\n")
			}
		}
		return sb.String()
	}
	snap := func() string {
		var sb strings.Builder
		for _, p := range pols {
			sb.WriteString(rawDumpCap(reflect.ValueOf(p.AST())))
			sb.Write(p.MarshalCedar())
		}
		sb.WriteString(rawDumpCap(reflect.ValueOf(em)))
		sb.WriteString(rawDumpCap(reflect.ValueOf(req)))
		return sb.String()
	}
	before := snap()
	want := verdicts()
	afterSeq := snap()
	var mu sync.Mutex
	var problems []string
	report := func(p string) {
		mu.Lock()
		problems = append(problems, p)
		mu.Unlock()
	}
	if before != afterSeq {
		report("inputs-mutated-by-sequential-validation")
	}
	var wg sync.WaitGroup
	for w := 0; w < workers; w++ {
		wg.Add(1)
		go func(w int) {
			defer wg.Done()
			defer func() {
				if r := recover(); r != nil {
					report(fmt.Sprintf("panic: %v", r))
				}
			}()
			for i := 0; i < 4; i++ {
				if got := verdicts(); got != want {
					report("validation-verdicts-differ: " + firstDiff(got, want))
				}
				runtime.Gosched()
			}
		}(w)
	}
	wg.Wait()
	if got := verdicts(); got != want {
		report("validation-verdicts-differ-after-concurrent-use")
	}
	if before != snap() {
		report("inputs-mutated")
	}
	if len(problems) == 0 {
		return L(A("ok"))
	}
	sort.Strings(problems)
	out := L(A("problems"))
	seen := map[string]bool{}
	for _, p := range problems {
		if !seen[p] {
			seen[p] = true
			out.List = append(out.List, A(sanitize(p)))
		}
	}
	return out
}

// firstDiff shows the first line on which two multi-line reports differ
func firstDiff(a, b string) string {
	la, lb := strings.Split(a, "\n"), strings.Split(b, "\n")
	for i := range la {
		if i >= len(lb) || la[i] != lb[i] {
			other := ""
			if i < len(lb) {
				other = lb[i]
			}
			// skip the common prefix of the two lines
			k := 0
			for k < len(la[i]) && k < len(other) && la[i][k] == other[k] {
				k++
			}
			if k > 40 {
				k -= 40
			} else {
				k = 0
			}
			return "concurrent ..." + la[i][k:] + " sequential ..." + other[k:]
		}
	}
	return "sequential report is longer"
}
