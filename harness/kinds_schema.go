package main

import (
	"bytes"
	"fmt"
	"reflect"
	"sort"
	"strconv"
	"strings"

	cedar "github.com/cedar-policy/cedar-go"
	"github.com/cedar-policy/cedar-go/x/exp/schema"
	"github.com/cedar-policy/cedar-go/x/exp/schema/resolved"
	"github.com/cedar-policy/cedar-go/x/exp/schema/validate"
)

func init() {
	kinds["schemarun"] = runSchemaRun
	kinds["schemacodec"] = runSchemaCodec
	riskyKinds["schemarun"] = true
	riskyKinds["schemacodec"] = true
}

func loadSchema(kind string, b []byte) (*schema.Schema, error) {
	var s schema.Schema
	var err error
	if kind == "json" {
		err = s.UnmarshalJSON(b)
	} else {
		err = s.UnmarshalCedar(b)
	}
	return &s, err
}

// schemarun: text|json <xschema> (policies <xtext>...) <store> <req> : resolution and validation return verdicts (no crash, no hang)
func runSchemaRun(payload []*Sx) *Sx {
	s, err := loadSchema(payload[0].Atom, []byte(payload[1].Str()))
	if err != nil {
		return L(A("parse-error"))
	}
	rs, err := s.Resolve()
	if err != nil {
		return L(A("resolve-error"))
	}
	n := 0
	for _, mode := range []validate.Option{validate.WithStrict(), validate.WithPermissive()} {
		v := validate.New(rs, mode)
		for _, pt := range payload[2].List[1:] {
			var p cedar.Policy
			if pt.IsList {
				_, a := policyFromSx(pt)
				p = *cedar.NewPolicyFromAST((*cedarAST)(a))
			} else if err := p.UnmarshalCedar([]byte(pt.Str())); err != nil {
				continue
			}
			_ = v.Policy("p", (*xastPolicy)(p.AST()))
			n++
		}
		em := storeFromSx(payload[3])
		_ = v.Entities(em)
		for _, e := range em {
			_ = v.Entity(e)
		}
		rq := reqFromSx(payload[4])
		if req, ok := rq.concrete(); ok {
			_ = v.Request(req)
		}
	}
	return L(A("ok"), AI(n))
}

func resolveOf(s *schema.Schema) (*resolved.Schema, error) { return s.Resolve() }

// canonDump renders any value with maps sorted by key and slices as sorted multisets (parent types, applies-to lists and
// enum values are sets semantically), nil and empty collections identified.
func canonDump(v reflect.Value) string {
	switch v.Kind() {
	case reflect.Pointer, reflect.Interface:
		if v.IsNil() {
			return "nil"
		}
		return canonDump(v.Elem())
	case reflect.Struct:
		out := v.Type().Name() + "{"
		for i := 0; i < v.NumField(); i++ {
			out += v.Type().Field(i).Name + ":" + canonDump(v.Field(i)) + ";"
		}
		return out + "}"
	case reflect.Map:
		var items []string
		it := v.MapRange()
		for it.Next() {
			items = append(items, canonDump(it.Key())+"=>"+canonDump(it.Value()))
		}
		sort.Strings(items)
		return "map[" + strings.Join(items, ",") + "]"
	case reflect.Slice, reflect.Array:
		var items []string
		for i := 0; i < v.Len(); i++ {
			items = append(items, canonDump(v.Index(i)))
		}
		sort.Strings(items)
		return "[" + strings.Join(items, ",") + "]"
	case reflect.String:
		return strconv.Quote(v.String())
	case reflect.Bool:
		return strconv.FormatBool(v.Bool())
	case reflect.Int, reflect.Int64, reflect.Int32:
		return strconv.FormatInt(v.Int(), 10)
	}
	return fmt.Sprintf("<%s>", v.Kind())
}

func sameResolved(a, b *resolved.Schema) bool {
	return canonDump(reflect.ValueOf(a)) == canonDump(reflect.ValueOf(b))
}

// schemacodec: text|json <xschema>: both renderings parse back to a schema that resolves to the same resolved schema,
// second renderings are byte-identical, conversion between the formats commutes with resolution
func runSchemaCodec(payload []*Sx) *Sx {
	s, err := loadSchema(payload[0].Atom, []byte(payload[1].Str()))
	if err != nil {
		return L(A("parse-error"), AS(err.Error()))
	}
	return schemaCodecChecks(s)
}

func schemaCodecChecks(s *schema.Schema) *Sx {
	r0, err0 := resolveOf(s)
	text, err := s.MarshalCedar()
	if err != nil {
		return problem("marshal-cedar-error", err.Error())
	}
	js, err := s.MarshalJSON()
	if err != nil {
		return problem("marshal-json-error", err.Error())
	}
	st, err := loadSchema("text", text)
	if err != nil {
		return problem("own-text-does-not-parse", string(text), err.Error())
	}
	sj, err := loadSchema("json", js)
	if err != nil {
		return problem("own-json-does-not-parse", string(js), err.Error())
	}
	text2, _ := st.MarshalCedar()
	if !bytes.Equal(text, text2) {
		return problem("second-text-differs", string(text), string(text2))
	}
	js2, _ := sj.MarshalJSON()
	if !bytes.Equal(js, js2) {
		return problem("second-json-differs", string(js), string(js2))
	}
	rt, errt := resolveOf(st)
	rj, errj := resolveOf(sj)
	if (err0 == nil) != (errt == nil) {
		return problem("text-changes-resolvability", string(text))
	}
	if (err0 == nil) != (errj == nil) {
		return problem("json-changes-resolvability", string(js))
	}
	if err0 == nil {
		if !sameResolved(r0, rt) {
			return problem("text-changes-resolved-schema", string(text))
		}
		if !sameResolved(r0, rj) {
			return problem("json-changes-resolved-schema", string(js))
		}
	}
	// cross conversions
	tj, _ := st.MarshalJSON()
	jt, _ := sj.MarshalCedar()
	stj, err := loadSchema("json", tj)
	if err != nil {
		return problem("text-json-does-not-parse", string(tj))
	}
	sjt, err := loadSchema("text", jt)
	if err != nil {
		return problem("json-text-does-not-parse", string(jt), err.Error())
	}
	if err0 == nil {
		r1, e1 := resolveOf(stj)
		r2, e2 := resolveOf(sjt)
		if e1 != nil || e2 != nil || !sameResolved(r0, r1) || !sameResolved(r0, r2) {
			return problem("format-conversion-does-not-commute-with-resolution", string(jt))
		}
		return L(A("ok"), A("resolved"))
	}
	return L(A("ok"), A("unresolvable"))
}

func init() { kinds["schemawhy"] = runSchemaWhy }

// schemawhy: text <xschema> -> the parse / resolve error text (generator tuning aid)
func runSchemaWhy(payload []*Sx) *Sx {
	s, err := loadSchema(payload[0].Atom, []byte(payload[1].Str()))
	if err != nil {
		return L(A("parse-error"), AS(err.Error()))
	}
	if _, err := s.Resolve(); err != nil {
		return L(A("resolve-error"), AS(err.Error()))
	}
	return L(A("ok"))
}
