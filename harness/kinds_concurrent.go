package main

import (
	"context"
	"encoding/json"
	"fmt"
	xast "github.com/cedar-policy/cedar-go/x/exp/ast"
	"reflect"
	"regexp"
	"runtime"
	"sort"
	"strings"
	"sync"

	cedar "github.com/cedar-policy/cedar-go"
	"github.com/cedar-policy/cedar-go/types"
	"github.com/cedar-policy/cedar-go/x/exp/batch"
)

func init() { kinds["concurrent"] = runConcurrent }

func snapshot(ps *cedar.PolicySet, em types.EntityMap, req cedar.Request, vals []types.Value) string {
	var sb strings.Builder
	pc, _ := safeBytes(ps.MarshalCedar)
	sb.Write(pc)
	pj, _ := json.Marshal(ps)
	sb.Write(pj)
	ej, _ := json.Marshal(em)
	sb.Write(ej)
	rj, _ := json.Marshal(req)
	sb.Write(rj)
	for _, v := range vals {
		sb.Write(v.MarshalCedar())
	}
	// the raw AST of every policy too (positions, annotations, conditions as the caller gave them)
	var ids []string
	for id := range ps.Map() {
		ids = append(ids, string(id))
	}
	sort.Strings(ids)
	for _, id := range ids {
		sb.WriteString(policyToSx(id, (*xastPolicy)(ps.Get(cedar.PolicyID(id)).AST())).String())
		// and structurally, every slice up to its capacity (a write into a caller's spare capacity is a mutation too)
		sb.WriteString(rawDumpCap(reflect.ValueOf(ps.Get(cedar.PolicyID(id)).AST())))
	}
	sb.WriteString(rawDumpCap(reflect.ValueOf(em)))
	sb.WriteString(rawDumpCap(reflect.ValueOf(req)))
	return sb.String()
}

func batchResultString(ps cedar.PolicyIterator, em types.EntityMap, breq batch.Request) string {
	var out []string
	err := batch.Authorize(context.Background(), ps, em, breq, func(r batch.Result) error {
		vals := map[string]types.Value{}
		for k, v := range r.Values {
			vals[string(k)] = v
		}
		out = append(out, resultSx(r.Request, vals, r.Decision, r.Diagnostic).String())
		return nil
	})
	sort.Strings(out)
	return fmt.Sprint(err) + strings.Join(out, "\n")
}

// concurrent: <store> <req> (policies ...) <batch template req> (vars (name v...)...) <workers>
// every worker repeats read-only operations on the SHARED policy set, entity map, request and values; each result must equal
// the sequential one, and the inputs must be unchanged afterwards.  Under -race the detector aborts the process on a race.
func runConcurrent(payload []*Sx) *Sx {
	em := storeFromSx(payload[0])
	rq := reqFromSx(payload[1])
	req, ok := rq.concrete()
	if !ok {
		panic("harness: concurrent needs a concrete request")
	}
	ps := cedar.NewPolicySet()
	for _, p := range payload[2].List[1:] {
		id, pol := policyFromSx(p)
		cp := cedar.NewPolicyFromAST((*cedarAST)(pol))
		if _, ok := safeBytes(cp.MarshalCedar); !ok {
			continue
		}
		ps.Add(cedar.PolicyID(id), cp)
	}
	tq := reqFromSx(payload[3])
	vars := batch.Variables{}
	for _, v := range payload[4].List[1:] {
		var vals []types.Value
		for _, x := range v.List[1:] {
			vals = append(vals, valueFromSx(x))
		}
		vars[types.String(v.List[0].Str())] = vals
	}
	breq := batch.Request{Principal: tq.P, Action: tq.A, Resource: tq.R, Context: tq.C, Variables: vars}
	workers := int(mustInt64(payload[5].Atom))
	vals := []types.Value{rq.C, tq.C}
	for _, e := range em {
		vals = append(vals, e.Attributes, e.Tags)
	}

	// optional: further requests, one per worker (round robin), each with its own sequential reference
	reqs := []cedar.Request{req}
	if len(payload) > 6 {
		for _, x := range payload[6].List[1:] {
			if c, ok := reqFromSx(x).concrete(); ok {
				reqs = append(reqs, c)
			}
		}
	}
	// the batch request (template and the caller's variable value slices, in their order) is an input too
	snapBatch := func() string { return rawDumpCap(reflect.ValueOf(breq)) }
	batchBefore := snapBatch()
	before := snapshot(ps, em, req, vals)
	// sequential reference results
	dec0, diag0 := cedar.Authorize(ps, em, req)
	auth0 := diagStringStable(dec0, diag0)
	authRef := make([]string, len(reqs))
	for i, q := range reqs {
		d, dg := cedar.Authorize(ps, em, q)
		authRef[i] = diagStringStable(d, dg)
	}
	batch0 := batchResultString(ps, em, breq)
	cedar0 := string(ps.MarshalCedar())
	json0, _ := json.Marshal(ps)
	emj0, _ := json.Marshal(em)

	var mu sync.Mutex
	var problems []string
	report := func(s string) {
		mu.Lock()
		problems = append(problems, s)
		mu.Unlock()
	}
	var wg sync.WaitGroup
	for w := 0; w < workers; w++ {
		wg.Add(1)
		go func(w int) {
			defer wg.Done()
			defer func() {
				if r := recover(); r != nil {
					report(fmt.Sprintf("panic: %v", r))
				}
			}()
			for i := 0; i < 6; i++ {
				switch (w + i) % 6 {
				case 0:
					d, dg := cedar.Authorize(ps, em, req)
					if diagStringStable(d, dg) != auth0 {
						report("authorize-differs")
					}
					for k := range reqs {
						qi := (w + k) % len(reqs)
						d, dg := cedar.Authorize(ps, em, reqs[qi])
						if got := diagStringStable(d, dg); got != authRef[qi] {
							report("authorize-differs-on-request-" + fmt.Sprint(qi) + ": concurrent " + got + " sequential " + authRef[qi])
						}
					}
				case 1:
					if batchResultString(ps, em, breq) != batch0 {
						report("batch-differs")
					}
				case 2:
					if string(ps.MarshalCedar()) != cedar0 {
						report("marshal-cedar-differs")
					}
				case 3:
					j, _ := json.Marshal(ps)
					if string(j) != string(json0) {
						report("marshal-json-differs")
					}
				case 4:
					j, _ := json.Marshal(em)
					if string(j) != string(emj0) {
						report("entitymap-json-differs")
					}
					for _, v := range vals {
						_ = v.MarshalCedar()
						if r, ok := v.(types.Record); ok {
							for range r.All() {
							}
							_ = r.Map()
						}
					}
				case 5:
					for id, p := range ps.All() {
						_ = p.Annotations()
						_ = p.Position()
						_ = ps.Get(id).AST()
						_ = p.Effect()
					}
					// accessor outputs belong to the caller: editing them must neither race with readers nor change the shared objects
					m := ps.Map()
					for id := range m {
						delete(m, id)
						break
					}
					m[cedar.PolicyID(fmt.Sprintf("scratch-%d-%d", w, i))] = cedar.NewPolicyFromAST((*cedarAST)(xast.Forbid()))
					for _, e := range em {
						sl := e.Parents.Slice()
						if len(sl) > 0 {
							sl[0] = types.NewEntityUID("Scratch", "x")
						}
						am := e.Attributes.Map()
						am["scratch"] = types.Long(int64(w))
						break
					}
				}
				runtime.Gosched()
			}
		}(w)
	}
	wg.Wait()
	// the shared objects must also still answer as before once everything is quiet again
	for i, q := range reqs {
		d, dg := cedar.Authorize(ps, em, q)
		if got := diagStringStable(d, dg); got != authRef[i] {
			problems = append(problems, "authorize-after-concurrent-use-differs-on-request-"+fmt.Sprint(i))
		}
	}
	after := snapshot(ps, em, req, vals)
	if before != after {
		problems = append(problems, "inputs-mutated")
	}
	if snapBatch() != batchBefore {
		problems = append(problems, "batch-request-mutated")
	}
	if len(problems) == 0 {
		return L(A("ok"))
	}
	sort.Strings(problems)
	out := L(A("problems"))
	seen := map[string]bool{}
	for _, p := range problems {
		if !seen[p] {
			seen[p] = true
			out.List = append(out.List, A(sanitize(p)))
		}
	}
	return out
}

// diagStringStable is diagString with the one message that legitimately varies from run to run cut short: for `x in [a, b, ..]` with
// several non-entity members the type error names whichever member map iteration meets first (known finding F23 of C14, decided there).
var anyEntityGot = regexp.MustCompile("expected \\(entity of type `any_entity_type`\\), got [^\"]*")

func diagStringStable(dec cedar.Decision, diag cedar.Diagnostic) string {
	return anyEntityGot.ReplaceAllString(diagString(dec, diag), "expected (entity of type `any_entity_type`), got ...")
}
