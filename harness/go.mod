module verif/harness

go 1.23.0

require github.com/cedar-policy/cedar-go v0.0.0

require golang.org/x/exp v0.0.0-20220921023135-46d9e7742f1e // indirect

replace github.com/cedar-policy/cedar-go => /repo
