package main

import (
	cedar "github.com/cedar-policy/cedar-go"
	"github.com/cedar-policy/cedar-go/types"
	xeval "github.com/cedar-policy/cedar-go/x/exp/eval"
	"github.com/cedar-policy/cedar-go/x/exp/schema"
	"github.com/cedar-policy/cedar-go/x/exp/schema/validate"
)

func init() {
	kinds["validate"] = runValidate
	riskyKinds["validate"] = true
}

// validate: <xschema text> strict|permissive <policy> (envs (env <store> <req>)...)
// -> (schema-error) | ((verdict accept|reject) (runs (conform 0|1 outcome)...))
func runValidate(payload []*Sx) *Sx {
	var s schema.Schema
	if err := s.UnmarshalCedar([]byte(payload[0].Str())); err != nil {
		return L(A("schema-error"), AS(err.Error()))
	}
	rs, err := s.Resolve()
	if err != nil {
		return L(A("schema-resolve-error"), AS(err.Error()))
	}
	var v *validate.Validator
	if payload[1].Atom == "strict" {
		v = validate.New(rs, validate.WithStrict())
	} else {
		v = validate.New(rs, validate.WithPermissive())
	}
	_, pol := policyFromSx(payload[2])
	verr := v.Policy("p", pol)
	verdict := "accept"
	if verr != nil {
		verdict = "reject"
	}
	runs := L(A("runs"))
	for _, e := range payload[3].List[1:] {
		// every environment twice: the store as given (nothing requires it to hold the action entities), and with the action
		// entities added, their parents being the transitive closure of their declared groups (what conformance asks of them)
		for _, withActions := range []bool{false, true} {
			em := storeFromSx(e.List[1])
			if withActions {
				for uid := range rs.Actions {
					if _, ok := em[uid]; ok {
						continue
					}
					seen := map[types.EntityUID]bool{}
					var walk func(u types.EntityUID)
					walk = func(u types.EntityUID) {
						if a, ok := rs.Actions[u]; ok {
							for p := range a.Entity.Parents.All() {
								if !seen[p] {
									seen[p] = true
									walk(p)
								}
							}
						}
					}
					walk(uid)
					var ps []types.EntityUID
					for p := range seen {
						ps = append(ps, p)
					}
					em[uid] = types.Entity{UID: uid, Parents: types.NewEntityUIDSet(ps...)}
				}
			}
			rq := reqFromSx(e.List[2])
			req, ok := rq.concrete()
			conform := ok && v.Entities(em) == nil && v.Request(cedar.Request(req)) == nil
			if !conform {
				runs.List = append(runs.List, L(A("0")))
				continue
			}
			env := xeval.Env{Entities: em, Principal: rq.P, Action: rq.A, Resource: rq.R, Context: rq.C}
			val, eerr := xeval.Eval(xeval.PolicyToNode(pol).AsIsNode(), env)
			runs.List = append(runs.List, L(A("1"), outcomeSx(val, eerr)))
		}
	}
	return L(L(A("verdict"), A(verdict)), runs)
}
