package main

import (
	"bytes"
	"encoding/json"
	"errors"
	"io"

	cedar "github.com/cedar-policy/cedar-go"
	"github.com/cedar-policy/cedar-go/types"
	"github.com/cedar-policy/cedar-go/x/exp/schema"
	"github.com/cedar-policy/cedar-go/x/exp/schema/validate"
)

func init() {
	kinds["decode"] = runDecode
	riskyKinds["decode"] = true
}

func useValue(v types.Value) {
	_ = v.MarshalCedar()
	_, _ = json.Marshal(v)
	_ = v.Equal(v)
}

func usePolicy(p *cedar.Policy) {
	_ = p.MarshalCedar()
	_, _ = p.MarshalJSON()
	_ = p.Annotations()
	em, req := absEnv()
	ps := cedar.NewPolicySet()
	ps.Add("p", p)
	cedar.Authorize(ps, em, req)
	_ = ps.MarshalCedar()
	_, _ = json.Marshal(ps)
}

// decode: <decoder name> <xbytes> -> (accepted) | (rejected); every accepted value goes through every encoder and the authorizer
func runDecode(payload []*Sx) *Sx {
	which := payload[0].Atom
	b := []byte(payload[1].Str())
	acc := func(err error) *Sx {
		if err != nil {
			return L(A("rejected"))
		}
		return L(A("accepted"))
	}
	switch which {
	case "policy-text":
		var p cedar.Policy
		err := p.UnmarshalCedar(b)
		if err == nil {
			usePolicy(&p)
		}
		return acc(err)
	case "policylist":
		pl, err := cedar.NewPolicyListFromBytes("f", b)
		if err == nil {
			for _, p := range pl {
				usePolicy(p)
			}
			_ = pl.MarshalCedar()
		}
		return acc(err)
	case "policyset-text":
		ps, err := cedar.NewPolicySetFromBytes("f", b)
		if err == nil {
			em, req := absEnv()
			cedar.Authorize(ps, em, req)
			_ = ps.MarshalCedar()
			_, _ = json.Marshal(ps)
		}
		return acc(err)
	case "stream":
		dec := cedar.NewDecoder(bytes.NewReader(b))
		n := 0
		for {
			var p cedar.Policy
			err := dec.Decode(&p)
			if errors.Is(err, io.EOF) {
				return L(A("accepted"))
			}
			if err != nil {
				return L(A("rejected"))
			}
			usePolicy(&p)
			n++
			if n > 100000 {
				return L(A("stream-does-not-end"))
			}
		}
	case "policy-json":
		var p cedar.Policy
		err := p.UnmarshalJSON(b)
		if err == nil {
			usePolicy(&p)
		}
		return acc(err)
	case "policyset-json":
		var ps cedar.PolicySet
		err := json.Unmarshal(b, &ps)
		if err == nil {
			em, req := absEnv()
			cedar.Authorize(&ps, em, req)
			_ = ps.MarshalCedar()
			_, _ = json.Marshal(&ps)
			for _, p := range ps.Map() {
				usePolicy(p)
			}
		}
		return acc(err)
	case "value-json":
		var v types.Value
		err := types.UnmarshalJSON(b, &v)
		if err == nil {
			useValue(v)
		}
		return acc(err)
	case "typed-value-json":
		// the typed value decoders, called directly on the bytes (encoding/json would screen them first)
		n := 0
		var ip types.IPAddr
		var dec types.Decimal
		var dt types.Datetime
		var du types.Duration
		var u types.EntityUID
		var set types.Set
		var rec types.Record
		var pat types.Pattern
		var dcn types.Decision
		var em types.EntityMap
		if ip.UnmarshalJSON(b) == nil {
			n++
			useValue(ip)
		}
		if dec.UnmarshalJSON(b) == nil {
			n++
			useValue(dec)
		}
		if dt.UnmarshalJSON(b) == nil {
			n++
			useValue(dt)
		}
		if du.UnmarshalJSON(b) == nil {
			n++
			useValue(du)
		}
		if u.UnmarshalJSON(b) == nil {
			n++
			useValue(u)
		}
		if set.UnmarshalJSON(b) == nil {
			n++
			useValue(set)
		}
		if rec.UnmarshalJSON(b) == nil {
			n++
			useValue(rec)
		}
		if pat.UnmarshalJSON(b) == nil {
			n++
			_ = pat.MarshalCedar()
			_, _ = pat.MarshalJSON()
			_ = pat.Match("abc")
		}
		if dcn.UnmarshalJSON(b) == nil {
			n++
			_, _ = dcn.MarshalJSON()
		}
		if em.UnmarshalJSON(b) == nil {
			n++
			_, _ = em.MarshalJSON()
		}
		var u2 types.EntityUID
		if u2.UnmarshalBinary(b) == nil {
			n++
			useValue(u2)
		}
		if n == 0 {
			return L(A("rejected"))
		}
		return L(A("accepted"))
	case "record-json":
		var r types.Record
		err := json.Unmarshal(b, &r)
		if err == nil {
			useValue(r)
		}
		return acc(err)
	case "entity-json":
		var e types.Entity
		err := json.Unmarshal(b, &e)
		if err == nil {
			_, _ = json.Marshal(e)
			useValue(e.Attributes)
			useValue(e.Tags)
		}
		return acc(err)
	case "entitymap-json":
		var em types.EntityMap
		err := json.Unmarshal(b, &em)
		if err == nil {
			_, _ = json.Marshal(em)
			_, req := absEnv()
			var p cedar.Policy
			_ = p.UnmarshalCedar([]byte(`permit(principal in Group::"g", action, resource) when { principal.name == "alice" && principal.hasTag("k") };`))
			ps := cedar.NewPolicySet()
			ps.Add("p", &p)
			cedar.Authorize(ps, em, req)
		}
		return acc(err)
	case "request-json":
		var r cedar.Request
		err := json.Unmarshal(b, &r)
		if err == nil {
			_, _ = json.Marshal(r)
		}
		return acc(err)
	case "uid-text":
		var u types.EntityUID
		err := u.UnmarshalCedar(b)
		if err == nil {
			useValue(u)
		}
		return acc(err)
	case "schema-text", "schema-json":
		var s schema.Schema
		var err error
		if which == "schema-text" {
			err = s.UnmarshalCedar(b)
		} else {
			err = s.UnmarshalJSON(b)
		}
		if err == nil {
			_, _ = s.MarshalCedar()
			_, _ = s.MarshalJSON()
			rs, rerr := s.Resolve()
			if rerr == nil {
				v := validate.New(rs)
				em, req := absEnv()
				_ = v.Entities(em)
				_ = v.Request(req)
				var p cedar.Policy
				_ = p.UnmarshalCedar([]byte(`permit(principal in Group::"g", action, resource) when { principal.name == "alice" };`))
				_ = v.Policy("p", (*xastPolicy)(p.AST()))
			}
		}
		return acc(err)
	}
	panic("harness: unknown decoder " + which)
}

func init() { kinds["render"] = runRender }

// render: policy | value | store -> the code's own encodings, used as mutation seeds by the generators
func runRender(payload []*Sx) *Sx {
	switch payload[0].Head() {
	case "policy":
		_, a := policyFromSx(payload[0])
		p := cedar.NewPolicyFromAST((*cedarAST)(a))
		c, ok := safeBytes(p.MarshalCedar)
		if !ok {
			return L(A("unrenderable"))
		}
		j, _ := p.MarshalJSON()
		return L(L(A("cedar"), AS(string(c))), L(A("json"), AS(string(j))))
	case "store":
		em := storeFromSx(payload[0])
		j, _ := json.Marshal(em)
		return L(L(A("json"), AS(string(j))))
	default:
		v := valueFromSx(payload[0])
		j, _ := json.Marshal(v)
		return L(L(A("cedar"), AS(string(v.MarshalCedar()))), L(A("json"), AS(string(j))))
	}
}
