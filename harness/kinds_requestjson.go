package main

import (
	"encoding/json"
	"strconv"

	cedar "github.com/cedar-policy/cedar-go"
	"github.com/cedar-policy/cedar-go/types"
)

// The JSON codecs of Request, Decision and Diagnostic against the Coq model Impl/RequestJson.v (on JSON trees).
//
//	rjsonenc: <req>       -> (tree <json tree of json.Marshal(Request)>)
//	rjsondec: <json tree> -> (ok (req p a r c)) | (err)
//	djsonenc: (diag (reasons (r xID xFILE off line col)...) (errors (e xID xFILE off line col xMSG)...)) -> (tree ...)
//	djsondec: <json tree> -> (ok (diag ...)) | (err)
//	decjson:  <json tree> -> (decision allow|deny|err)
func init() {
	kinds["rjsonenc"] = runRJSONEnc
	kinds["rjsondec"] = runRJSONDec
	kinds["djsonenc"] = runDJSONEnc
	kinds["djsondec"] = runDJSONDec
	kinds["decjson"] = runDecJSON
}

func fmt64(i int64) string { return strconv.FormatInt(i, 10) }

func treeOf(v any) *Sx {
	b, err := json.Marshal(v)
	if err != nil {
		return L(A("marshal-error"))
	}
	t, err := jsonTreeSx(b)
	if err != nil {
		return L(A("output-is-not-json"))
	}
	return L(A("tree"), t)
}

func runRJSONEnc(payload []*Sx) *Sx {
	req, ok := reqFromSx(payload[0]).concrete()
	if !ok {
		panic("harness: rjsonenc needs a concrete request")
	}
	return treeOf(req)
}

func runRJSONDec(payload []*Sx) *Sx {
	var req cedar.Request
	if err := json.Unmarshal([]byte(jsonTextOfSx(payload[0])), &req); err != nil {
		return L(A("err"))
	}
	return L(A("ok"), L(A("req"), valueToSx(req.Principal), valueToSx(req.Action), valueToSx(req.Resource), valueToSx(req.Context)))
}

func posFromSx(l []*Sx) types.Position {
	return types.Position{Filename: l[0].Str(), Offset: int(mustInt64(l[1].Atom)), Line: int(mustInt64(l[2].Atom)), Column: int(mustInt64(l[3].Atom))}
}

func posSx(p types.Position) []*Sx {
	return []*Sx{AS(p.Filename), A(fmt64(int64(p.Offset))), A(fmt64(int64(p.Line))), A(fmt64(int64(p.Column)))}
}

func diagFromSx(s *Sx) cedar.Diagnostic {
	var d cedar.Diagnostic
	for _, r := range s.List[1].List[1:] {
		d.Reasons = append(d.Reasons, types.DiagnosticReason{PolicyID: types.PolicyID(r.List[1].Str()), Position: posFromSx(r.List[2:6])})
	}
	for _, e := range s.List[2].List[1:] {
		d.Errors = append(d.Errors, types.DiagnosticError{PolicyID: types.PolicyID(e.List[1].Str()), Position: posFromSx(e.List[2:6]), Message: e.List[6].Str()})
	}
	return d
}

func diagSx(d cedar.Diagnostic) *Sx {
	rs := L(A("reasons"))
	for _, r := range d.Reasons {
		rs.List = append(rs.List, L(append([]*Sx{A("r"), AS(string(r.PolicyID))}, posSx(r.Position)...)...))
	}
	es := L(A("errors"))
	for _, e := range d.Errors {
		es.List = append(es.List, L(append(append([]*Sx{A("e"), AS(string(e.PolicyID))}, posSx(e.Position)...), AS(e.Message))...))
	}
	return L(A("diag"), rs, es)
}

func runDJSONEnc(payload []*Sx) *Sx { return treeOf(diagFromSx(payload[0])) }

func runDJSONDec(payload []*Sx) *Sx {
	var d cedar.Diagnostic
	if err := json.Unmarshal([]byte(jsonTextOfSx(payload[0])), &d); err != nil {
		return L(A("err"))
	}
	return L(A("ok"), diagSx(d))
}

func runDecJSON(payload []*Sx) *Sx {
	var d cedar.Decision
	if err := json.Unmarshal([]byte(jsonTextOfSx(payload[0])), &d); err != nil {
		return L(A("decision"), A("err"))
	}
	if d == cedar.Allow {
		return L(A("decision"), A("allow"))
	}
	return L(A("decision"), A("deny"))
}
