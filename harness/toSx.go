package main

import (
	"encoding/json"
	"strings"

	"github.com/cedar-policy/cedar-go/types"
	xast "github.com/cedar-policy/cedar-go/x/exp/ast"
)

// patternToSx recovers the components of a types.Pattern through its JSON form
// (["Wildcard", {"Literal": "..."}, ...]), the only public view of its structure.
func patternToSx(p types.Pattern) *Sx {
	b, err := p.MarshalJSON()
	if err != nil {
		panic("harness: pattern json: " + err.Error())
	}
	var comps []any
	if err := json.Unmarshal(b, &comps); err != nil {
		panic("harness: pattern json decode: " + err.Error())
	}
	l := L(A("pat"))
	for _, c := range comps {
		switch v := c.(type) {
		case string:
			l.List = append(l.List, L(A("w")))
		case map[string]any:
			l.List = append(l.List, AS(v["Literal"].(string)))
		}
	}
	return l
}

func bin2(name string, b xast.BinaryNode) *Sx { return L(A(name), exprToSx(b.Left), exprToSx(b.Right)) }

func exprToSx(n xast.IsNode) *Sx {
	switch v := n.(type) {
	case xast.NodeValue:
		return L(A("lit"), valueToSx(v.Value))
	case xast.NodeTypeVariable:
		return L(A("var"), A(string(v.Name)))
	case xast.NodeTypeAnd:
		return bin2("and", v.BinaryNode)
	case xast.NodeTypeOr:
		return bin2("or", v.BinaryNode)
	case xast.NodeTypeNot:
		return L(A("not"), exprToSx(v.Arg))
	case xast.NodeTypeNegate:
		return L(A("neg"), exprToSx(v.Arg))
	case xast.NodeTypeAdd:
		return bin2("add", v.BinaryNode)
	case xast.NodeTypeSub:
		return bin2("sub", v.BinaryNode)
	case xast.NodeTypeMult:
		return bin2("mul", v.BinaryNode)
	case xast.NodeTypeEquals:
		return bin2("eq", v.BinaryNode)
	case xast.NodeTypeNotEquals:
		return bin2("ne", v.BinaryNode)
	case xast.NodeTypeLessThan:
		return bin2("lt", v.BinaryNode)
	case xast.NodeTypeLessThanOrEqual:
		return bin2("le", v.BinaryNode)
	case xast.NodeTypeGreaterThan:
		return bin2("gt", v.BinaryNode)
	case xast.NodeTypeGreaterThanOrEqual:
		return bin2("ge", v.BinaryNode)
	case xast.NodeTypeIn:
		return bin2("in", v.BinaryNode)
	case xast.NodeTypeContains:
		return bin2("contains", v.BinaryNode)
	case xast.NodeTypeContainsAll:
		return bin2("containsAll", v.BinaryNode)
	case xast.NodeTypeContainsAny:
		return bin2("containsAny", v.BinaryNode)
	case xast.NodeTypeIsEmpty:
		return L(A("isEmpty"), exprToSx(v.Arg))
	case xast.NodeTypeAccess:
		return L(A("access"), exprToSx(v.Arg), AS(string(v.Value)))
	case xast.NodeTypeHas:
		return L(A("has"), exprToSx(v.Arg), AS(string(v.Value)))
	case xast.NodeTypeGetTag:
		return bin2("getTag", v.BinaryNode)
	case xast.NodeTypeHasTag:
		return bin2("hasTag", v.BinaryNode)
	case xast.NodeTypeLike:
		return L(A("like"), exprToSx(v.Arg), patternToSx(v.Value))
	case xast.NodeTypeIs:
		return L(A("is"), exprToSx(v.Left), AS(string(v.EntityType)))
	case xast.NodeTypeIsIn:
		return L(A("isIn"), exprToSx(v.Left), AS(string(v.EntityType)), exprToSx(v.Entity))
	case xast.NodeTypeIfThenElse:
		return L(A("if"), exprToSx(v.If), exprToSx(v.Then), exprToSx(v.Else))
	case xast.NodeTypeSet:
		l := L(A("mkset"))
		for _, e := range v.Elements {
			l.List = append(l.List, exprToSx(e))
		}
		return l
	case xast.NodeTypeRecord:
		l := L(A("mkrec"))
		for _, e := range v.Elements {
			l.List = append(l.List, L(AS(string(e.Key)), exprToSx(e.Value)))
		}
		return l
	case xast.NodeTypeExtensionCall:
		if v.Name == "__cedar::partialError" && len(v.Args) == 1 {
			if nv, ok := v.Args[0].(xast.NodeValue); ok {
				if s, ok := nv.Value.(types.String); ok {
					return L(A("perr"), A(errClassMsg(string(s))))
				}
			}
		}
		l := L(A("call"), AS(string(v.Name)))
		for _, a := range v.Args {
			l.List = append(l.List, exprToSx(a))
		}
		return l
	case nil:
		return L(A("nil-node"))
	}
	return L(A("unknown-node"))
}

type strErr string

func (e strErr) Error() string { return string(e) }

func errClassMsg(m string) string { return errClass(strErr(m)) }

func scopeToSx(s any) *Sx {
	switch v := s.(type) {
	case xast.ScopeTypeAll:
		return L(A("all"))
	case xast.ScopeTypeEq:
		return L(A("eq"), valueToSx(v.Entity))
	case xast.ScopeTypeIn:
		return L(A("in"), valueToSx(v.Entity))
	case xast.ScopeTypeInSet:
		l := L(A("inset"))
		for _, e := range v.Entities {
			l.List = append(l.List, valueToSx(e))
		}
		return l
	case xast.ScopeTypeIs:
		return L(A("is"), AS(string(v.Type)))
	case xast.ScopeTypeIsIn:
		return L(A("isin"), AS(string(v.Type)), valueToSx(v.Entity))
	case nil:
		return L(A("nil-scope"))
	}
	return L(A("unknown-scope"))
}

func policyToSx(id string, p *xast.Policy) *Sx {
	eff := "forbid"
	if p.Effect == xast.EffectPermit {
		eff = "permit"
	}
	conds := L(A("conds"))
	for _, c := range p.Conditions {
		k := "unless"
		if c.Condition == xast.ConditionWhen {
			k = "when"
		}
		conds.List = append(conds.List, L(A(k), exprToSx(c.Body)))
	}
	ann := L(A("annots"))
	for _, a := range p.Annotations {
		ann.List = append(ann.List, L(AS(string(a.Key)), AS(string(a.Value))))
	}
	return L(A("policy"), AS(id), A(eff), scopeToSx(p.Principal), scopeToSx(p.Action), scopeToSx(p.Resource), conds, ann)
}

var _ = strings.Contains
