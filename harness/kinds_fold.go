package main

import (
	"reflect"

	cedar "github.com/cedar-policy/cedar-go"
	xeval "github.com/cedar-policy/cedar-go/x/exp/eval"
)

func init() {
	kinds["fold"] = runFold
	kinds["foldexpr"] = runFoldExpr
}

func outcomeSx(v cedar.Value, err error) *Sx {
	if err != nil {
		return L(A("e"), A(errClass(err)))
	}
	if b, ok := v.(cedar.Boolean); ok {
		if b {
			return A("t")
		}
		return A("f")
	}
	return L(A("e"), A("type"))
}

// foldexpr: <expr>  ->  the folded tree (internal/eval.fold through the verif hook)
func runFoldExpr(payload []*Sx) *Sx {
	n := exprFromSx(payload[0])
	return exprToSx(xeval.VerifFold(n))
}

// fold: <store> <req> <policy> -> outcome of the compiled (folded) policy as the authorizer runs it,
// outcome of direct evaluation of the original tree, the folded policy, and whether the caller's AST was left alone
func runFold(payload []*Sx) *Sx {
	em := storeFromSx(payload[0])
	rq := reqFromSx(payload[1])
	req, ok := rq.concrete()
	if !ok {
		panic("harness: fold needs a concrete request")
	}
	id, a1 := policyFromSx(payload[2])
	_, a2 := policyFromSx(payload[2])
	pol := cedar.NewPolicyFromAST((*cedarAST)(a1))
	ps := cedar.NewPolicySet()
	ps.Add(cedar.PolicyID(id), pol)
	dec, diag := cedar.Authorize(ps, em, req)
	var compiled *Sx
	switch {
	case len(diag.Errors) > 0:
		compiled = L(A("e"), A(errClassMsg(diag.Errors[0].Message)))
	case len(diag.Reasons) > 0:
		compiled = A("t")
	default:
		compiled = A("f")
	}
	_ = dec
	env := xeval.Env{Entities: em, Principal: rq.P, Action: rq.A, Resource: rq.R, Context: rq.C}
	v, err := xeval.Eval(xeval.PolicyToNode(a2).AsIsNode(), env)
	unfolded := outcomeSx(v, err)
	same := "1"
	if !reflect.DeepEqual(a1, a2) {
		same = "0"
	}
	// text form before/after (a zero-argument method call cannot be rendered at all: that is C10's business, not C04's)
	b1, ok1 := safeMarshalCedar(pol)
	b2, ok2 := safeMarshalCedar(cedar.NewPolicyFromAST((*cedarAST)(a2)))
	if ok1 != ok2 || string(b1) != string(b2) {
		same = "0"
	}
	// JSON form before/after
	j1, e1 := pol.MarshalJSON()
	j2, e2 := cedar.NewPolicyFromAST((*cedarAST)(a2)).MarshalJSON()
	if (e1 == nil) != (e2 == nil) || string(j1) != string(j2) {
		same = "0"
	}
	// what Get / Map / All hand out is the policy that was added, in the same visible form
	if g := ps.Get(cedar.PolicyID(id)); g == nil {
		same = "0"
	} else if bg, okg := safeMarshalCedar(g); okg != ok2 || string(bg) != string(b2) {
		same = "0"
	}
	folded := xeval.VerifFoldPolicy(a2)
	_, a3 := policyFromSx(payload[2])
	if !reflect.DeepEqual(a2, a3) {
		same = "0" // folding a policy must not touch the tree it is given
	}
	return L(L(A("compiled"), compiled), L(A("unfolded"), unfolded), L(A("astsame"), A(same)), L(A("folded"), policyToSx(id, folded)))
}

func safeMarshalCedar(p *cedar.Policy) (b []byte, ok bool) {
	defer func() {
		if r := recover(); r != nil {
			b, ok = nil, false
		}
	}()
	return p.MarshalCedar(), true
}
