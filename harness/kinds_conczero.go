package main

import (
	"context"
	"encoding/json"
	"fmt"
	"reflect"
	"sync"

	cedar "github.com/cedar-policy/cedar-go"
	"github.com/cedar-policy/cedar-go/types"
	"github.com/cedar-policy/cedar-go/x/exp/batch"
)

func init() { kinds["concurrent-zero"] = runConcurrentZero }

// concurrent-zero: <workers> <rounds>
// Read-only use of containers that hold nothing yet - the zero value of PolicySet, the set returned beside a parse error, an empty set,
// a nil EntityMap, zero Record and Set - shared by several goroutines, a fresh batch of objects in every round (a lazy initialisation
// would happen once per object).  Nothing may race and no object may differ afterwards from a copy taken before.
func runConcurrentZero(payload []*Sx) *Sx {
	workers := int(mustInt64(payload[0].Atom))
	rounds := int(mustInt64(payload[1].Atom))
	em, req := absEnv()
	for round := 0; round < rounds; round++ {
		var zero cedar.PolicySet
		failed, _ := cedar.NewPolicySetFromBytes("x.cedar", []byte("permit(principal, action"))
		if failed == nil {
			failed = &cedar.PolicySet{}
		}
		empty := cedar.NewPolicySet()
		var nilEM types.EntityMap
		var rec types.Record
		var set types.Set
		var zeroReq cedar.Request
		zc, fc, ec, rc, sc, qc := zero, *failed, *empty, rec, set, zeroReq
		sets := []*cedar.PolicySet{&zero, failed, empty}
		var wg sync.WaitGroup
		errs := make([]string, workers)
		for w := 0; w < workers; w++ {
			wg.Add(1)
			go func(w int) {
				defer wg.Done()
				defer func() {
					if r := recover(); r != nil {
						errs[w] = fmt.Sprint("panic: ", r)
					}
				}()
				for _, ps := range sets {
					for _, e := range []types.EntityGetter{em, nilEM} {
						if dec, diag := cedar.Authorize(ps, e, req); dec != cedar.Deny || len(diag.Reasons)+len(diag.Errors) != 0 {
							errs[w] = "an empty policy set allowed a request"
						}
						if dec, _ := ps.IsAuthorized(e, zeroReq); dec != cedar.Deny {
							errs[w] = "an empty policy set allowed the zero request"
						}
					}
					if ps.Get("p") != nil {
						errs[w] = "Get on an empty set"
					}
					for range ps.All() {
						errs[w] = "All on an empty set yields"
					}
					if len(ps.Map()) != 0 {
						errs[w] = "Map on an empty set"
					}
					_ = ps.MarshalCedar()
					_, _ = json.Marshal(ps)
					calls := 0
					_ = batch.Authorize(context.Background(), ps, nilEM, batch.Request{Principal: req.Principal, Action: req.Action, Resource: req.Resource, Context: rec},
						func(batch.Result) error { calls++; return nil })
					if calls != 1 {
						errs[w] = fmt.Sprint("batch over an empty set: ", calls, " callbacks")
					}
				}
				_, _ = nilEM.Get(req.Principal)
				_, _ = json.Marshal(nilEM)
				_ = nilEM.Clone()
				_ = rec.Len()
				_, _ = rec.Get("a")
				_ = rec.Equal(rec)
				_ = rec.MarshalCedar()
				_, _ = json.Marshal(rec)
				_ = rec.Map()
				for range rec.All() {
					errs[w] = "zero record yields"
				}
				_ = set.Len()
				_ = set.Contains(types.Long(1))
				_ = set.Equal(set)
				_ = set.MarshalCedar()
				_, _ = json.Marshal(set)
				_ = set.Slice()
				for range set.All() {
					errs[w] = "zero set yields"
				}
				_, _ = json.Marshal(zeroReq)
			}(w)
		}
		wg.Wait()
		for _, e := range errs {
			if e != "" {
				return L(A("failed"), AS(e))
			}
		}
		same := func(name string, a, b any) *Sx {
			if !reflect.DeepEqual(a, b) || rawDumpCap(reflect.ValueOf(a)) != rawDumpCap(reflect.ValueOf(b)) {
				return L(A("input-modified"), AS(fmt.Sprintf("%s: before %#v, after %#v", name, a, b)))
			}
			return nil
		}
		for _, r := range []*Sx{same("zero PolicySet", zc, zero), same("PolicySet returned beside a parse error", fc, *failed), same("empty PolicySet", ec, *empty),
			same("zero Record", rc, rec), same("zero Set", sc, set), same("zero Request", qc, zeroReq)} {
			if r != nil {
				return r
			}
		}
		if nilEM != nil {
			return L(A("input-modified"), AS("nil EntityMap"))
		}
	}
	return L(A("ok"))
}
