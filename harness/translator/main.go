// Command translator reads cedar-go sources and writes Gallina files:
//
//	Kernels.v  straight-line int64 functions (checked arithmetic, duration unit conversions), every
//	           + - * wrapped to 64 bits, / and % as Go's truncated division
//	Tables.v   extension-function table (name, arity, method?), millisecond constants
//
// usage: translator <repo> <outdir>.  Files are only rewritten when their content changes.
package main

import (
	"fmt"
	"go/ast"
	"go/parser"
	"go/token"
	"os"
	"path/filepath"
	"reflect"
	"sort"
	"strconv"
	"strings"
)

type kernelSpec struct {
	file, name string
	recv       string // receiver type name for methods, "" for functions
}

var kernels = []kernelSpec{
	{"internal/eval/evalers.go", "checkedAddI64", ""},
	{"internal/eval/evalers.go", "checkedSubI64", ""},
	{"internal/eval/evalers.go", "checkedMulI64", ""},
	{"internal/eval/evalers.go", "checkedNegI64", ""},
	{"types/duration.go", "ToDays", "Duration"},
	{"types/duration.go", "ToHours", "Duration"},
	{"types/duration.go", "ToMinutes", "Duration"},
	{"types/duration.go", "ToSeconds", "Duration"},
	{"types/duration.go", "ToMilliseconds", "Duration"},
}

func fail(format string, a ...any) {
	fmt.Fprintf(os.Stderr, "translator: "+format+"\n", a...)
	os.Exit(1)
}

type tr struct {
	fset *token.FileSet
	fn   string
}

func isBoolExpr(e ast.Expr) bool {
	switch v := e.(type) {
	case *ast.ParenExpr:
		return isBoolExpr(v.X)
	case *ast.BinaryExpr:
		switch v.Op {
		case token.LSS, token.GTR, token.LEQ, token.GEQ, token.EQL, token.NEQ, token.LAND, token.LOR:
			return true
		}
	case *ast.UnaryExpr:
		return v.Op == token.NOT
	case *ast.Ident:
		return v.Name == "true" || v.Name == "false"
	}
	return false
}

func (t *tr) expr(e ast.Expr) string {
	switch v := e.(type) {
	case *ast.ParenExpr:
		return t.expr(v.X)
	case *ast.BasicLit:
		if v.Kind != token.INT {
			fail("%s: unsupported literal %s", t.fn, v.Value)
		}
		return strings.ReplaceAll(v.Value, "_", "")
	case *ast.Ident:
		return v.Name
	case *ast.SelectorExpr:
		// d.value -> d ; consts.MillisPerDay -> MillisPerDay
		if x, ok := v.X.(*ast.Ident); ok {
			if x.Name == "consts" {
				return v.Sel.Name
			}
			if v.Sel.Name == "value" {
				return x.Name
			}
		}
		fail("%s: unsupported selector", t.fn)
	case *ast.CallExpr:
		// conversions int64(x), types.Long(x) are the identity on the model
		if id, ok := v.Fun.(*ast.Ident); ok && (id.Name == "int64") && len(v.Args) == 1 {
			return t.expr(v.Args[0])
		}
		if se, ok := v.Fun.(*ast.SelectorExpr); ok && se.Sel.Name == "Long" && len(v.Args) == 1 {
			return t.expr(v.Args[0])
		}
		fail("%s: unsupported call", t.fn)
	case *ast.UnaryExpr:
		switch v.Op {
		case token.SUB:
			if lit, ok := v.X.(*ast.BasicLit); ok {
				return "(-" + strings.ReplaceAll(lit.Value, "_", "") + ")"
			}
			return "(wrap64 (- " + t.expr(v.X) + "))"
		case token.NOT:
			return "(negb " + t.expr(v.X) + ")"
		}
		fail("%s: unsupported unary %s", t.fn, v.Op)
	case *ast.BinaryExpr:
		l, r := t.expr(v.X), t.expr(v.Y)
		switch v.Op {
		case token.ADD:
			return "(wrap64 (" + l + " + " + r + "))"
		case token.SUB:
			return "(wrap64 (" + l + " - " + r + "))"
		case token.MUL:
			return "(wrap64 (" + l + " * " + r + "))"
		case token.QUO:
			return "(goquot " + l + " " + r + ")"
		case token.REM:
			return "(gorem " + l + " " + r + ")"
		case token.LSS:
			return "(" + l + " <? " + r + ")"
		case token.GTR:
			return "(" + l + " >? " + r + ")"
		case token.LEQ:
			return "(" + l + " <=? " + r + ")"
		case token.GEQ:
			return "(" + l + " >=? " + r + ")"
		case token.LAND:
			return "(" + l + " && " + r + ")"
		case token.LOR:
			return "(" + l + " || " + r + ")"
		case token.EQL, token.NEQ:
			var s string
			if isBoolExpr(v.X) || isBoolExpr(v.Y) {
				s = "(Bool.eqb " + l + " " + r + ")"
			} else {
				s = "(" + l + " =? " + r + ")"
			}
			if v.Op == token.NEQ {
				s = "(negb " + s + ")"
			}
			return s
		}
		fail("%s: unsupported operator %s", t.fn, v.Op)
	}
	fail("%s: unsupported expression %T", t.fn, e)
	return ""
}

func (t *tr) ret(r *ast.ReturnStmt) string {
	var parts []string
	for _, x := range r.Results {
		parts = append(parts, t.expr(x))
	}
	if len(parts) == 1 {
		return parts[0]
	}
	return "(" + strings.Join(parts, ", ") + ")"
}

func (t *tr) stmts(ss []ast.Stmt, indent string) string {
	if len(ss) == 0 {
		fail("%s: control reaches end of function", t.fn)
	}
	switch s := ss[0].(type) {
	case *ast.ReturnStmt:
		return indent + t.ret(s)
	case *ast.AssignStmt:
		if s.Tok != token.DEFINE || len(s.Lhs) != 1 || len(s.Rhs) != 1 {
			fail("%s: unsupported assignment", t.fn)
		}
		return indent + "let " + s.Lhs[0].(*ast.Ident).Name + " := " + t.expr(s.Rhs[0]) + " in\n" + t.stmts(ss[1:], indent)
	case *ast.IfStmt:
		if s.Init != nil || s.Else != nil {
			fail("%s: unsupported if form", t.fn)
		}
		return indent + "if " + t.expr(s.Cond) + " then\n" + t.stmts(s.Body.List, indent+"  ") + "\n" + indent + "else\n" + t.stmts(ss[1:], indent)
	}
	fail("%s: unsupported statement %T", t.fn, ss[0])
	return ""
}

func findFunc(f *ast.File, k kernelSpec) *ast.FuncDecl {
	for _, d := range f.Decls {
		fd, ok := d.(*ast.FuncDecl)
		if !ok || fd.Name.Name != k.name {
			continue
		}
		if k.recv == "" && fd.Recv == nil {
			return fd
		}
		if k.recv != "" && fd.Recv != nil && len(fd.Recv.List) == 1 {
			if id, ok := fd.Recv.List[0].Type.(*ast.Ident); ok && id.Name == k.recv {
				return fd
			}
		}
	}
	return nil
}

func writeIfChanged(path, content string) {
	old, err := os.ReadFile(path)
	if err == nil && string(old) == content {
		return
	}
	if err := os.WriteFile(path, []byte(content), 0o644); err != nil {
		fail("%v", err)
	}
}

func main() {
	if len(os.Args) != 3 {
		fail("usage: translator <repo> <outdir>")
	}
	repo, out := os.Args[1], os.Args[2]
	fset := token.NewFileSet()
	files := map[string]*ast.File{}
	parse := func(rel string) *ast.File {
		if f, ok := files[rel]; ok {
			return f
		}
		f, err := parser.ParseFile(fset, filepath.Join(repo, rel), nil, 0)
		if err != nil {
			fail("%v", err)
		}
		files[rel] = f
		return f
	}

	var kb strings.Builder
	kb.WriteString("(* GENERATED by harness/translator from /repo — do not edit. *)\n")
	kb.WriteString("From Coq Require Import ZArith Bool.\nFrom Cedar Require Import Base.Int64 Generated.Tables.\nLocal Open Scope Z_scope.\nLocal Open Scope bool_scope.\n\n")
	for _, k := range kernels {
		f := parse(k.file)
		fd := findFunc(f, k)
		if fd == nil {
			fail("function %s not found in %s", k.name, k.file)
		}
		t := &tr{fset: fset, fn: k.name}
		var params []string
		if fd.Recv != nil {
			params = append(params, fd.Recv.List[0].Names[0].Name)
		}
		for _, p := range fd.Type.Params.List {
			for _, n := range p.Names {
				params = append(params, n.Name)
			}
		}
		name := k.name
		if k.recv != "" {
			name = k.recv + "_" + k.name
		}
		fmt.Fprintf(&kb, "(* %s: func %s *)\nDefinition %s (%s : Z) :=\n%s.\n\n", k.file, k.name, name, strings.Join(params, " "), t.stmts(fd.Body.List, "  "))
	}

	// ---- tables
	var tb strings.Builder
	tb.WriteString("(* GENERATED by harness/translator from /repo — do not edit. *)\n")
	tb.WriteString("From Coq Require Import ZArith List String.\nImport ListNotations.\nLocal Open Scope Z_scope.\n\n")
	// consts
	cf := parse("internal/consts/consts.go")
	consts := map[string]string{}
	var order []string
	for _, d := range cf.Decls {
		gd, ok := d.(*ast.GenDecl)
		if !ok || gd.Tok != token.CONST {
			continue
		}
		for _, sp := range gd.Specs {
			vs := sp.(*ast.ValueSpec)
			for i, n := range vs.Names {
				if !strings.HasPrefix(n.Name, "Millis") || i >= len(vs.Values) {
					continue
				}
				consts[n.Name] = constExpr(vs.Values[i])
				order = append(order, n.Name)
			}
		}
	}
	for _, n := range order {
		fmt.Fprintf(&tb, "Definition %s : Z := %s.\n", n, consts[n])
	}
	// ExtMap
	ef := parse("internal/extensions/extensions.go")
	type ext struct {
		name   string
		args   string
		method string
	}
	var exts []ext
	ast.Inspect(ef, func(n ast.Node) bool {
		vs, ok := n.(*ast.ValueSpec)
		if !ok || len(vs.Names) != 1 || vs.Names[0].Name != "ExtMap" {
			return true
		}
		cl := vs.Values[0].(*ast.CompositeLit)
		for _, el := range cl.Elts {
			kv := el.(*ast.KeyValueExpr)
			name, _ := strconv.Unquote(kv.Key.(*ast.BasicLit).Value)
			e := ext{name: name, args: "0", method: "false"}
			for _, f := range kv.Value.(*ast.CompositeLit).Elts {
				fkv := f.(*ast.KeyValueExpr)
				switch fkv.Key.(*ast.Ident).Name {
				case "Args":
					e.args = fkv.Value.(*ast.BasicLit).Value
				case "IsMethod":
					e.method = fkv.Value.(*ast.Ident).Name
				}
			}
			exts = append(exts, e)
		}
		return false
	})
	if len(exts) == 0 {
		fail("ExtMap not found")
	}
	sort.Slice(exts, func(i, j int) bool { return exts[i].name < exts[j].name })
	tb.WriteString("\n(* internal/extensions/extensions.go: ExtMap (name, number of arguments, is a method) *)\nDefinition ext_table : list (string * (Z * bool)) := [\n")
	for i, e := range exts {
		sep := ";"
		if i == len(exts)-1 {
			sep = ""
		}
		fmt.Fprintf(&tb, "  (%q%%string, (%s, %s))%s\n", e.name, e.args, e.method, sep)
	}
	tb.WriteString("].\n")

	// extFuncTypes (x/exp/schema/validate/ext_funcs.go): the typechecker's signature of every extension function
	tf := parse("x/exp/schema/validate/ext_funcs.go")
	type tsig struct {
		name, ctor, ret string
		args            []string
	}
	tyName := func(e ast.Expr) string {
		cl, ok := e.(*ast.CompositeLit)
		if !ok {
			fail("extFuncTypes: type expression is not a composite literal")
		}
		id, ok := cl.Type.(*ast.Ident)
		if !ok {
			fail("extFuncTypes: unexpected type expression")
		}
		switch id.Name {
		case "typeString", "typeBool", "typeLong":
			if len(cl.Elts) != 0 {
				fail("extFuncTypes: %s with fields", id.Name)
			}
			return strings.TrimPrefix(id.Name, "type")
		case "typeExtension":
			if len(cl.Elts) != 1 {
				fail("extFuncTypes: typeExtension needs one field")
			}
			el := cl.Elts[0]
			if kv, ok := el.(*ast.KeyValueExpr); ok {
				el = kv.Value
			}
			bl, ok := el.(*ast.BasicLit)
			if !ok {
				fail("extFuncTypes: typeExtension name is not a literal")
			}
			n, _ := strconv.Unquote(bl.Value)
			return "ext:" + n
		}
		fail("extFuncTypes: type %s is outside the translated fragment", id.Name)
		return ""
	}
	var tsigs []tsig
	ast.Inspect(tf, func(n ast.Node) bool {
		vs, ok := n.(*ast.ValueSpec)
		if !ok || len(vs.Names) != 1 || vs.Names[0].Name != "extFuncTypes" {
			return true
		}
		cl := vs.Values[0].(*ast.CompositeLit)
		for _, el := range cl.Elts {
			kv := el.(*ast.KeyValueExpr)
			kl, ok := kv.Key.(*ast.BasicLit)
			if !ok {
				fail("extFuncTypes: key is not a literal")
			}
			name, _ := strconv.Unquote(kl.Value)
			e := tsig{name: name, ctor: "false"}
			for _, f := range kv.Value.(*ast.CompositeLit).Elts {
				fkv, ok := f.(*ast.KeyValueExpr)
				if !ok {
					fail("extFuncTypes: positional fields are outside the translated fragment")
				}
				switch fkv.Key.(*ast.Ident).Name {
				case "isConstructor":
					e.ctor = fkv.Value.(*ast.Ident).Name
				case "argTypes":
					for _, a := range fkv.Value.(*ast.CompositeLit).Elts {
						e.args = append(e.args, tyName(a))
					}
				case "returnType":
					e.ret = tyName(fkv.Value)
				default:
					fail("extFuncTypes: unknown field %s", fkv.Key.(*ast.Ident).Name)
				}
			}
			if e.ret == "" {
				fail("extFuncTypes: %s has no return type", name)
			}
			tsigs = append(tsigs, e)
		}
		return false
	})
	if len(tsigs) == 0 {
		fail("extFuncTypes not found")
	}
	sort.Slice(tsigs, func(i, j int) bool { return tsigs[i].name < tsigs[j].name })
	tb.WriteString("\n(* x/exp/schema/validate/ext_funcs.go: extFuncTypes (name, (is a constructor, argument types, return type)) *)\nDefinition tc_ext_table : list (string * (bool * list string * string)) := [\n")
	for i, e := range tsigs {
		sep := ";"
		if i == len(tsigs)-1 {
			sep = ""
		}
		fmt.Fprintf(&tb, "  (%q%%string, (%s, %s, %q%%string))%s\n", e.name, e.ctor, coqStrList(e.args), e.ret, sep)
	}
	tb.WriteString("].\n")

	// nodeJSON (internal/json/json.go): the JSON key of every typed field, and the order in which ToNode (json_unmarshal.go) examines them
	jf := parse("internal/json/json.go")
	fieldKey := map[string]string{}
	var fieldOrder []string
	ast.Inspect(jf, func(n ast.Node) bool {
		ts, ok := n.(*ast.TypeSpec)
		if !ok || ts.Name.Name != "nodeJSON" {
			return true
		}
		st, ok := ts.Type.(*ast.StructType)
		if !ok {
			fail("nodeJSON is not a struct")
		}
		for _, f := range st.Fields.List {
			if f.Tag == nil || len(f.Names) != 1 {
				continue
			}
			tag, _ := strconv.Unquote(f.Tag.Value)
			js := reflect.StructTag(tag).Get("json")
			if js == "" {
				continue
			}
			key := js
			if i := strings.LastIndex(js, ","); i >= 0 {
				key = js[:i]
			}
			if _, isPtr := f.Type.(*ast.StarExpr); !isPtr {
				continue // the catch-all map of extension calls is not a typed field
			}
			fieldKey[f.Names[0].Name] = key
			fieldOrder = append(fieldOrder, f.Names[0].Name)
		}
		return false
	})
	if len(fieldKey) == 0 {
		fail("nodeJSON fields not found")
	}
	uf := parse("internal/json/json_unmarshal.go")
	var toNodeKeys []string
	for _, d := range uf.Decls {
		fd, ok := d.(*ast.FuncDecl)
		if !ok || fd.Name.Name != "ToNode" || fd.Recv == nil {
			continue
		}
		if id, ok := fd.Recv.List[0].Type.(*ast.Ident); !ok || id.Name != "nodeJSON" {
			continue
		}
		recv := fd.Recv.List[0].Names[0].Name
		for _, st := range fd.Body.List {
			sw, ok := st.(*ast.SwitchStmt)
			if !ok || sw.Tag != nil {
				continue
			}
			for _, c := range sw.Body.List {
				cc := c.(*ast.CaseClause)
				if cc.List == nil {
					continue
				}
				if len(cc.List) != 1 {
					fail("nodeJSON.ToNode: a case with several conditions is outside the translated fragment")
				}
				be, ok := cc.List[0].(*ast.BinaryExpr)
				if !ok || be.Op != token.NEQ {
					fail("nodeJSON.ToNode: case is not `field != nil`")
				}
				sel, ok := be.X.(*ast.SelectorExpr)
				if !ok {
					fail("nodeJSON.ToNode: case does not test a field")
				}
				if x, ok := sel.X.(*ast.Ident); !ok || x.Name != recv {
					fail("nodeJSON.ToNode: case does not test a field of the receiver")
				}
				if y, ok := be.Y.(*ast.Ident); !ok || y.Name != "nil" {
					fail("nodeJSON.ToNode: case does not compare with nil")
				}
				key, ok := fieldKey[sel.Sel.Name]
				if !ok {
					fail("nodeJSON.ToNode: field %s has no JSON key", sel.Sel.Name)
				}
				toNodeKeys = append(toNodeKeys, key)
			}
		}
	}
	if len(toNodeKeys) == 0 {
		fail("nodeJSON.ToNode switch not found")
	}
	var declKeys []string
	for _, f := range fieldOrder {
		declKeys = append(declKeys, fieldKey[f])
	}
	sort.Strings(declKeys)
	fmt.Fprintf(&tb, "\n(* internal/json/json.go: the JSON keys of the typed (pointer) fields of nodeJSON, sorted *)\nDefinition node_json_field_keys : list string := %s.\n", coqStrList(declKeys))
	fmt.Fprintf(&tb, "\n(* internal/json/json_unmarshal.go: nodeJSON.ToNode - the keys of the fields in the order the switch examines them *)\nDefinition node_json_tonode_keys : list string := %s.\n", coqStrList(toNodeKeys))

	// ---- ToEval (convert.go) and fold (fold.go): node type -> evaluator constructor
	toeval := switchTable(parse("internal/eval/convert.go"), "ToEval")
	foldt := switchTable(parse("internal/eval/fold.go"), "fold")
	tb.WriteString("\n(* internal/eval/convert.go: ToEval — node type, evaluator constructors used in its case *)\nDefinition toeval_table : list (string * list string) := [\n")
	writeTable(&tb, toeval)
	tb.WriteString("].\n")
	tb.WriteString("\n(* internal/eval/fold.go: fold — node type, evaluator constructors used in its case (newErrorEval = never folded),\n   and whether the case tests its operand for types.EntityUID before evaluating *)\nDefinition fold_table : list (string * (list string * bool)) := [\n")
	for i, e := range foldt {
		sep := ";"
		if i == len(foldt)-1 {
			sep = ""
		}
		fmt.Fprintf(&tb, "  (%q%%string, (%s, %v))%s\n", e.node, coqStrList(e.ctors), e.guard, sep)
	}
	tb.WriteString("].\n")

	if err := os.MkdirAll(out, 0o755); err != nil {
		fail("%v", err)
	}
	writeIfChanged(filepath.Join(out, "Tables.v"), tb.String())
	writeIfChanged(filepath.Join(out, "Kernels.v"), kb.String())
}

func constExpr(e ast.Expr) string {
	switch v := e.(type) {
	case *ast.BasicLit:
		return strings.ReplaceAll(v.Value, "_", "")
	case *ast.Ident:
		return v.Name
	case *ast.ParenExpr:
		return "(" + constExpr(v.X) + ")"
	case *ast.CallExpr:
		if len(v.Args) == 1 {
			return constExpr(v.Args[0])
		}
	case *ast.BinaryExpr:
		return "(" + constExpr(v.X) + " " + v.Op.String() + " " + constExpr(v.Y) + ")"
	}
	fail("unsupported constant expression %T", e)
	return ""
}

type caseEntry struct {
	node  string
	ctors []string
	guard bool
}

func coqStrList(xs []string) string {
	var parts []string
	for _, x := range xs {
		parts = append(parts, fmt.Sprintf("%q%%string", x))
	}
	return "[" + strings.Join(parts, "; ") + "]"
}

func writeTable(tb *strings.Builder, es []caseEntry) {
	for i, e := range es {
		sep := ";"
		if i == len(es)-1 {
			sep = ""
		}
		fmt.Fprintf(tb, "  (%q%%string, %s)%s\n", e.node, coqStrList(e.ctors), sep)
	}
}

// switchTable finds the type switch in function fn and lists, per `case ast.NodeTypeX:`, the
// evaluator constructors (identifiers new...Eval, and the binary/unary helper targets) it mentions.
func switchTable(f *ast.File, fn string) []caseEntry {
	var res []caseEntry
	for _, d := range f.Decls {
		fd, ok := d.(*ast.FuncDecl)
		if !ok || fd.Name.Name != fn || fd.Recv != nil {
			continue
		}
		ast.Inspect(fd.Body, func(n ast.Node) bool {
			ts, ok := n.(*ast.TypeSwitchStmt)
			if !ok {
				return true
			}
			for _, c := range ts.Body.List {
				cc := c.(*ast.CaseClause)
				for _, te := range cc.List {
					se, ok := te.(*ast.SelectorExpr)
					if !ok {
						continue
					}
					e := caseEntry{node: se.Sel.Name}
					seen := map[string]bool{}
					for _, st := range cc.Body {
						ast.Inspect(st, func(m ast.Node) bool {
							switch v := m.(type) {
							case *ast.Ident:
								if strings.HasPrefix(v.Name, "new") && strings.HasSuffix(v.Name, "Eval") && !seen[v.Name] {
									seen[v.Name] = true
									e.ctors = append(e.ctors, v.Name)
								}
							case *ast.TypeAssertExpr:
								if s2, ok := v.Type.(*ast.SelectorExpr); ok && s2.Sel.Name == "EntityUID" {
									e.guard = true
								}
							}
							return true
						})
					}
					sort.Strings(e.ctors)
					res = append(res, e)
				}
			}
			return false
		})
	}
	if len(res) == 0 {
		fail("type switch of %s not found", fn)
	}
	sort.Slice(res, func(i, j int) bool { return res[i].node < res[j].node })
	return res
}
