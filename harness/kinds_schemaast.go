package main

import (
	"sort"

	"github.com/cedar-policy/cedar-go/types"
	"github.com/cedar-policy/cedar-go/x/exp/schema"
	sast "github.com/cedar-policy/cedar-go/x/exp/schema/ast"
)

// Schema ASTs with everything the codecs carry (annotations, enum values), as S-expressions:
//   (xschema (ns <name> (annots (k v)...) (entities (ent n (annots) (parents p...) (shape none|<rec>) (tags none|<ty>))...)
//                (enums (enum n (annots) (values v...))...) (commons (ct n (annots) <ty>)...)
//                (actions (act n (annots) (parents (type id)...) (applies none|(ap (principals..) (resources..) (context none|<ty>))))...))...)
//   <ty> = (string)|(long)|(bool)|(ext n)|(set t)|(rec (k t opt (annots))...)|(ent r)|(ref r)
// The namespace named "" holds the bare declarations.  Output is sorted by name at every level.

func init() {
	kinds["schemaast"] = runSchemaAST
	kinds["sjsonenc"] = runSJSONEnc
	kinds["sjsondec"] = runSJSONDec
	riskyKinds["schemaast"] = true
	riskyKinds["sjsondec"] = true
}

func xannotsFromSx(s *Sx) sast.Annotations {
	if len(s.List) <= 1 {
		return nil
	}
	a := sast.Annotations{}
	for _, kv := range s.List[1:] {
		a[types.Ident(kv.List[0].Str())] = types.String(kv.List[1].Str())
	}
	return a
}

func xannotsToSx(a sast.Annotations) *Sx {
	out := L(A("annots"))
	var ks []string
	for k := range a {
		ks = append(ks, string(k))
	}
	sort.Strings(ks)
	for _, k := range ks {
		out.List = append(out.List, L(AS(k), AS(string(a[types.Ident(k)]))))
	}
	return out
}

func xtyFromSx(s *Sx) sast.IsType {
	switch s.Head() {
	case "string":
		return sast.StringType{}
	case "long":
		return sast.LongType{}
	case "bool":
		return sast.BoolType{}
	case "ext":
		return sast.ExtensionType(s.List[1].Str())
	case "set":
		return sast.Set(xtyFromSx(s.List[1]))
	case "rec":
		return xrecFromSx(s)
	case "ent":
		return sast.EntityTypeRef(s.List[1].Str())
	case "ref":
		return sast.TypeRef(s.List[1].Str())
	}
	panic("harness: bad schema type " + s.String())
}

func xrecFromSx(s *Sx) sast.RecordType {
	r := sast.RecordType{}
	for _, f := range s.List[1:] {
		r[types.String(f.List[0].Str())] = sast.Attribute{Type: xtyFromSx(f.List[1]), Optional: f.List[2].Atom == "1", Annotations: xannotsFromSx(f.List[3])}
	}
	return r
}

func xtyToSx(t sast.IsType) *Sx {
	switch v := t.(type) {
	case sast.SetType:
		return L(A("set"), xtyToSx(v.Element))
	case sast.RecordType:
		out := L(A("rec"))
		var keys []string
		for k := range v {
			keys = append(keys, string(k))
		}
		sort.Strings(keys)
		for _, k := range keys {
			a := v[types.String(k)]
			o := "0"
			if a.Optional {
				o = "1"
			}
			out.List = append(out.List, L(AS(k), xtyToSx(a.Type), A(o), xannotsToSx(a.Annotations)))
		}
		return out
	}
	return styToSx(t)
}

func xnsFromSx(s *Sx) (string, sast.Namespace) {
	ns := sast.Namespace{Annotations: xannotsFromSx(s.List[2])}
	for _, e := range s.List[3].List[1:] {
		ent := sast.Entity{Annotations: xannotsFromSx(e.List[2])}
		for _, p := range e.List[3].List[1:] {
			ent.ParentTypes = append(ent.ParentTypes, sast.EntityTypeRef(p.Str()))
		}
		if sh := e.List[4].List[1]; sh.IsList {
			ent.Shape = xrecFromSx(sh)
		}
		if tg := e.List[5].List[1]; tg.IsList {
			ent.Tags = xtyFromSx(tg)
		}
		if ns.Entities == nil {
			ns.Entities = sast.Entities{}
		}
		ns.Entities[types.Ident(e.List[1].Str())] = ent
	}
	for _, e := range s.List[4].List[1:] {
		en := sast.Enum{Annotations: xannotsFromSx(e.List[2])}
		for _, v := range e.List[3].List[1:] {
			en.Values = append(en.Values, types.String(v.Str()))
		}
		if ns.Enums == nil {
			ns.Enums = sast.Enums{}
		}
		ns.Enums[types.Ident(e.List[1].Str())] = en
	}
	for _, c := range s.List[5].List[1:] {
		if ns.CommonTypes == nil {
			ns.CommonTypes = sast.CommonTypes{}
		}
		ns.CommonTypes[types.Ident(c.List[1].Str())] = sast.CommonType{Annotations: xannotsFromSx(c.List[2]), Type: xtyFromSx(c.List[3])}
	}
	for _, a := range s.List[6].List[1:] {
		act := sast.Action{Annotations: xannotsFromSx(a.List[2])}
		for _, p := range a.List[3].List[1:] {
			if p.List[0].Str() == "" {
				act.Parents = append(act.Parents, sast.ParentRefFromID(types.String(p.List[1].Str())))
			} else {
				act.Parents = append(act.Parents, sast.NewParentRef(sast.EntityTypeRef(p.List[0].Str()), types.String(p.List[1].Str())))
			}
		}
		if ap := a.List[4].List[1]; ap.IsList {
			at := &sast.AppliesTo{}
			for _, p := range ap.List[1].List[1:] {
				at.Principals = append(at.Principals, sast.EntityTypeRef(p.Str()))
			}
			for _, p := range ap.List[2].List[1:] {
				at.Resources = append(at.Resources, sast.EntityTypeRef(p.Str()))
			}
			if cx := ap.List[3].List[1]; cx.IsList {
				at.Context = xtyFromSx(cx)
			}
			act.AppliesTo = at
		}
		if ns.Actions == nil {
			ns.Actions = sast.Actions{}
		}
		ns.Actions[types.String(a.List[1].Str())] = act
	}
	return s.List[1].Str(), ns
}

func xschemaFromSx(s *Sx) *sast.Schema {
	out := &sast.Schema{}
	for _, n := range s.List[1:] {
		name, ns := xnsFromSx(n)
		if name == "" {
			out.Entities, out.Enums, out.Actions, out.CommonTypes = ns.Entities, ns.Enums, ns.Actions, ns.CommonTypes
		} else {
			if out.Namespaces == nil {
				out.Namespaces = sast.Namespaces{}
			}
			out.Namespaces[types.Path(name)] = ns
		}
	}
	return out
}

func xnsToSx(name string, ns sast.Namespace) *Sx {
	es := L(A("entities"))
	var names []string
	for n := range ns.Entities {
		names = append(names, string(n))
	}
	sort.Strings(names)
	for _, n := range names {
		e := ns.Entities[types.Ident(n)]
		ps := L(A("parents"))
		for _, p := range e.ParentTypes {
			ps.List = append(ps.List, AS(string(p)))
		}
		shape := L(A("shape"), A("none"))
		if e.Shape != nil {
			shape = L(A("shape"), xtyToSx(e.Shape))
		}
		tags := L(A("tags"), A("none"))
		if e.Tags != nil {
			tags = L(A("tags"), xtyToSx(e.Tags))
		}
		es.List = append(es.List, L(A("ent"), AS(n), xannotsToSx(e.Annotations), ps, shape, tags))
	}
	en := L(A("enums"))
	names = nil
	for n := range ns.Enums {
		names = append(names, string(n))
	}
	sort.Strings(names)
	for _, n := range names {
		e := ns.Enums[types.Ident(n)]
		vs := L(A("values"))
		for _, v := range e.Values {
			vs.List = append(vs.List, AS(string(v)))
		}
		en.List = append(en.List, L(A("enum"), AS(n), xannotsToSx(e.Annotations), vs))
	}
	cs := L(A("commons"))
	names = nil
	for n := range ns.CommonTypes {
		names = append(names, string(n))
	}
	sort.Strings(names)
	for _, n := range names {
		c := ns.CommonTypes[types.Ident(n)]
		cs.List = append(cs.List, L(A("ct"), AS(n), xannotsToSx(c.Annotations), xtyToSx(c.Type)))
	}
	as := L(A("actions"))
	names = nil
	for n := range ns.Actions {
		names = append(names, string(n))
	}
	sort.Strings(names)
	for _, n := range names {
		a := ns.Actions[types.String(n)]
		ps := L(A("parents"))
		for _, p := range a.Parents {
			ps.List = append(ps.List, L(AS(string(p.Type)), AS(string(p.ID))))
		}
		ap := L(A("applies"), A("none"))
		if a.AppliesTo != nil {
			pr := L(A("principals"))
			for _, p := range a.AppliesTo.Principals {
				pr.List = append(pr.List, AS(string(p)))
			}
			rs := L(A("resources"))
			for _, p := range a.AppliesTo.Resources {
				rs.List = append(rs.List, AS(string(p)))
			}
			cx := L(A("context"), A("none"))
			if a.AppliesTo.Context != nil {
				cx = L(A("context"), xtyToSx(a.AppliesTo.Context))
			}
			ap = L(A("applies"), L(A("ap"), pr, rs, cx))
		}
		as.List = append(as.List, L(A("act"), AS(n), xannotsToSx(a.Annotations), ps, ap))
	}
	return L(A("ns"), AS(name), xannotsToSx(ns.Annotations), es, en, cs, as)
}

func xschemaToSx(a *sast.Schema) *Sx {
	out := L(A("xschema"))
	if len(a.Entities) > 0 || len(a.Enums) > 0 || len(a.Actions) > 0 || len(a.CommonTypes) > 0 {
		out.List = append(out.List, xnsToSx("", sast.Namespace{Entities: a.Entities, Enums: a.Enums, Actions: a.Actions, CommonTypes: a.CommonTypes}))
	}
	var nss []string
	for n := range a.Namespaces {
		nss = append(nss, string(n))
	}
	sort.Strings(nss)
	for _, n := range nss {
		out.List = append(out.List, xnsToSx(n, a.Namespaces[types.Path(n)]))
	}
	return out
}

// schemaast: <xschema> : the codec obligations of schemacodec, for a schema born as an AST
func runSchemaAST(payload []*Sx) *Sx {
	return schemaCodecChecks(schema.NewSchemaFromAST(xschemaFromSx(payload[0])))
}

// sjsonenc: <xschema> -> (tree <json tree of Schema.MarshalJSON>)
func runSJSONEnc(payload []*Sx) *Sx {
	s := schema.NewSchemaFromAST(xschemaFromSx(payload[0]))
	b, err := s.MarshalJSON()
	if err != nil {
		return L(A("marshal-error"))
	}
	t, err := jsonTreeSx(b)
	if err != nil {
		return L(A("output-is-not-json"))
	}
	return L(A("tree"), t)
}

// sjsondec: <json tree> -> (ok <xschema>) | (err)
func runSJSONDec(payload []*Sx) *Sx {
	var s schema.Schema
	if err := s.UnmarshalJSON([]byte(jsonTextOfSx(payload[0]))); err != nil {
		return L(A("err"))
	}
	return L(A("ok"), xschemaToSx(s.AST()))
}
