package main

import (
	"sort"

	"github.com/cedar-policy/cedar-go/types"
	"github.com/cedar-policy/cedar-go/x/exp/schema"
	sast "github.com/cedar-policy/cedar-go/x/exp/schema/ast"
	"github.com/cedar-policy/cedar-go/x/exp/schema/resolved"
	"github.com/cedar-policy/cedar-go/x/exp/schema/validate"
)

func init() { kinds["schemaresolve"] = runSchemaResolve }

func styToSx(t sast.IsType) *Sx {
	switch v := t.(type) {
	case sast.StringType:
		return L(A("string"))
	case sast.LongType:
		return L(A("long"))
	case sast.BoolType:
		return L(A("bool"))
	case sast.ExtensionType:
		return L(A("ext"), AS(string(v)))
	case sast.SetType:
		return L(A("set"), styToSx(v.Element))
	case sast.RecordType:
		return srecToSx(v)
	case sast.EntityTypeRef:
		return L(A("ent"), AS(string(v)))
	case sast.TypeRef:
		return L(A("ref"), AS(string(v)))
	}
	panic("harness: unknown schema type")
}

func srecToSx(r sast.RecordType) *Sx {
	out := L(A("rec"))
	var keys []string
	for k := range r {
		keys = append(keys, string(k))
	}
	sort.Strings(keys)
	for _, k := range keys {
		a := r[types.String(k)]
		o := "0"
		if a.Optional {
			o = "1"
		}
		out.List = append(out.List, L(AS(k), styToSx(a.Type), A(o)))
	}
	return out
}

func nsToSx(name string, ents sast.Entities, enums sast.Enums, commons sast.CommonTypes, actions sast.Actions) *Sx {
	es := L(A("entities"))
	var names []string
	for n := range ents {
		names = append(names, string(n))
	}
	sort.Strings(names)
	for _, n := range names {
		e := ents[types.Ident(n)]
		ps := L(A("parents"))
		for _, p := range e.ParentTypes {
			ps.List = append(ps.List, AS(string(p)))
		}
		shape := L(A("shape"), A("none"))
		if e.Shape != nil {
			shape = L(A("shape"), srecToSx(e.Shape))
		}
		tags := L(A("tags"), A("none"))
		if e.Tags != nil {
			tags = L(A("tags"), styToSx(e.Tags))
		}
		es.List = append(es.List, L(A("ent"), AS(n), ps, shape, tags))
	}
	en := L(A("enums"))
	names = nil
	for n := range enums {
		names = append(names, string(n))
	}
	sort.Strings(names)
	for _, n := range names {
		en.List = append(en.List, AS(n))
	}
	cs := L(A("commons"))
	names = nil
	for n := range commons {
		names = append(names, string(n))
	}
	sort.Strings(names)
	for _, n := range names {
		cs.List = append(cs.List, L(AS(n), styToSx(commons[types.Ident(n)].Type)))
	}
	as := L(A("actions"))
	names = nil
	for n := range actions {
		names = append(names, string(n))
	}
	sort.Strings(names)
	for _, n := range names {
		a := actions[types.String(n)]
		ps := L(A("parents"))
		for _, p := range a.Parents {
			ps.List = append(ps.List, L(AS(string(p.Type)), AS(string(p.ID))))
		}
		ap := L(A("applies"), A("none"))
		if a.AppliesTo != nil {
			pr := L(A("principals"))
			for _, p := range a.AppliesTo.Principals {
				pr.List = append(pr.List, AS(string(p)))
			}
			rs := L(A("resources"))
			for _, p := range a.AppliesTo.Resources {
				rs.List = append(rs.List, AS(string(p)))
			}
			cx := L(A("context"), A("none"))
			if a.AppliesTo.Context != nil {
				cx = L(A("context"), styToSx(a.AppliesTo.Context))
			}
			ap = L(A("applies"), L(A("ap"), pr, rs, cx))
		}
		as.List = append(as.List, L(A("act"), AS(n), ps, ap))
	}
	return L(A("ns"), AS(name), es, en, cs, as)
}

func rtyToSx(t resolved.IsType) *Sx {
	switch v := t.(type) {
	case resolved.StringType:
		return L(A("string"))
	case resolved.LongType:
		return L(A("long"))
	case resolved.BoolType:
		return L(A("bool"))
	case resolved.ExtensionType:
		return L(A("ext"), AS(string(v)))
	case resolved.SetType:
		return L(A("set"), rtyToSx(v.Element))
	case resolved.RecordType:
		return rrecToSx(v)
	case resolved.EntityType:
		return L(A("ent"), AS(string(v)))
	}
	panic("harness: unknown resolved type")
}

func rrecToSx(r resolved.RecordType) *Sx {
	out := L(A("rec"))
	var keys []string
	for k := range r {
		keys = append(keys, string(k))
	}
	sort.Strings(keys)
	for _, k := range keys {
		a := r[types.String(k)]
		o := "0"
		if a.Optional {
			o = "1"
		}
		out.List = append(out.List, L(AS(k), rtyToSx(a.Type), A(o)))
	}
	return out
}

func uidSx(u types.EntityUID) *Sx { return L(A("e"), AS(string(u.Type)), AS(string(u.ID))) }

// schemaresolve: <schema text> -> (parse-error) | ((ast (schema ns...)) (verdict (ok (entities ...) (actions ...)) | (err)))
func runSchemaResolve(payload []*Sx) *Sx {
	var s schema.Schema
	if len(payload) > 1 && payload[1].Head() == "json" {
		if err := s.UnmarshalJSON([]byte(payload[0].Str())); err != nil {
			return L(A("parse-error"))
		}
	} else if err := s.UnmarshalCedar([]byte(payload[0].Str())); err != nil {
		return L(A("parse-error"))
	}
	a := s.AST()
	astSx := L(A("schema"), nsToSx("", a.Entities, a.Enums, a.CommonTypes, a.Actions))
	var nss []string
	for n := range a.Namespaces {
		nss = append(nss, string(n))
	}
	sort.Strings(nss)
	for _, n := range nss {
		ns := a.Namespaces[types.Path(n)]
		astSx.List = append(astSx.List, nsToSx(n, ns.Entities, ns.Enums, ns.CommonTypes, ns.Actions))
	}
	rs, err := s.Resolve()
	if err != nil {
		return L(L(A("ast"), astSx), L(A("verdict"), L(A("err"))))
	}
	es := L(A("entities"))
	var names []string
	for n := range rs.Entities {
		names = append(names, string(n))
	}
	sort.Strings(names)
	for _, n := range names {
		e := rs.Entities[types.EntityType(n)]
		ps := L(A("parents"))
		for _, p := range e.ParentTypes {
			ps.List = append(ps.List, AS(string(p)))
		}
		shape := L(A("shape"), A("none"))
		if e.Shape != nil {
			shape = L(A("shape"), rrecToSx(e.Shape))
		}
		tags := L(A("tags"), A("none"))
		if e.Tags != nil {
			tags = L(A("tags"), rtyToSx(e.Tags))
		}
		es.List = append(es.List, L(AS(n), ps, shape, tags))
	}
	as := L(A("actions"))
	var uids []types.EntityUID
	for u := range rs.Actions {
		uids = append(uids, u)
	}
	sort.Slice(uids, func(i, j int) bool { return uids[i].String() < uids[j].String() })
	for _, u := range uids {
		act := rs.Actions[u]
		var ps []*Sx
		for p := range act.Entity.Parents.All() {
			ps = append(ps, uidSx(p))
		}
		sort.Slice(ps, func(i, j int) bool { return ps[i].String() < ps[j].String() })
		pl := L(A("parents"))
		pl.List = append(pl.List, ps...)
		ap := L(A("applies"), A("none"))
		if act.AppliesTo != nil {
			pr := L(A("principals"))
			for _, p := range act.AppliesTo.Principals {
				pr.List = append(pr.List, AS(string(p)))
			}
			rr := L(A("resources"))
			for _, p := range act.AppliesTo.Resources {
				rr.List = append(rr.List, AS(string(p)))
			}
			ap = L(A("applies"), L(A("ap"), pr, rr, rrecToSx(act.AppliesTo.Context)))
		}
		as.List = append(as.List, L(uidSx(u), pl, ap))
	}
	return L(L(A("ast"), astSx), L(A("verdict"), L(A("ok"), es, as)))
}

func init() {
	kinds["schemainfo"] = runSchemaInfo
	kinds["typeof"] = runTypeOf
	kinds["vverdict"] = runVVerdict
}

// schemainfo: <schema text> -> (parse-error) | (resolve-error) | (info (entities (name (parents..) (shape..) (tags..))...) (enums name...) (actions uid...))
func runSchemaInfo(payload []*Sx) *Sx {
	var s schema.Schema
	if err := s.UnmarshalCedar([]byte(payload[0].Str())); err != nil {
		return L(A("parse-error"))
	}
	rs, err := s.Resolve()
	if err != nil {
		return L(A("resolve-error"))
	}
	es := L(A("entities"))
	var names []string
	for n := range rs.Entities {
		names = append(names, string(n))
	}
	sort.Strings(names)
	for _, n := range names {
		e := rs.Entities[types.EntityType(n)]
		ps := L(A("parents"))
		for _, p := range e.ParentTypes {
			ps.List = append(ps.List, AS(string(p)))
		}
		shape := L(A("shape"), L(A("rec")))
		if e.Shape != nil {
			shape = L(A("shape"), rrecToSx(e.Shape))
		}
		tags := L(A("tags"), A("none"))
		if e.Tags != nil {
			tags = L(A("tags"), rtyToSx(e.Tags))
		}
		es.List = append(es.List, L(AS(n), ps, shape, tags))
	}
	en := L(A("enums"))
	names = nil
	for n := range rs.Enums {
		names = append(names, string(n))
	}
	sort.Strings(names)
	for _, n := range names {
		en.List = append(en.List, AS(n))
	}
	as := L(A("actions"))
	var uids []types.EntityUID
	for u := range rs.Actions {
		uids = append(uids, u)
	}
	sort.Slice(uids, func(i, j int) bool { return uids[i].String() < uids[j].String() })
	for _, u := range uids {
		act := rs.Actions[u]
		cx := L(A("context"), A("none"))
		if act.AppliesTo != nil {
			cx = L(A("context"), rrecToSx(act.AppliesTo.Context))
		}
		var ps []*Sx
		for p := range act.Entity.Parents.All() {
			ps = append(ps, uidSx(p))
		}
		sort.Slice(ps, func(i, j int) bool { return ps[i].String() < ps[j].String() })
		pl := L(A("parents"))
		pl.List = append(pl.List, ps...)
		ap := L(A("applies"), A("none"))
		if act.AppliesTo != nil {
			pr := L(A("principals"))
			for _, p := range act.AppliesTo.Principals {
				pr.List = append(pr.List, AS(string(p)))
			}
			rr := L(A("resources"))
			for _, p := range act.AppliesTo.Resources {
				rr.List = append(rr.List, AS(string(p)))
			}
			ap = L(A("applies"), pr, rr)
		}
		as.List = append(as.List, L(uidSx(u), cx, pl, ap))
	}
	return L(A("info"), es, en, as)
}

// typeof: <schema text> <info (ignored)> strict|permissive <principal type> <action uid> <resource type> <expr> -> (ok xTYPENAME) | (err)
func runTypeOf(payload []*Sx) *Sx {
	var s schema.Schema
	if err := s.UnmarshalCedar([]byte(payload[0].Str())); err != nil {
		return L(A("parse-error"))
	}
	rs, err := s.Resolve()
	if err != nil {
		return L(A("resolve-error"))
	}
	opt := validate.WithStrict()
	if payload[2].Atom == "permissive" {
		opt = validate.WithPermissive()
	}
	v := validate.New(rs, opt)
	act := valueFromSx(payload[4]).(types.EntityUID)
	e := exprFromSx(payload[6])
	name, terr := v.VerifTypeOf(types.EntityType(payload[3].Str()), act, types.EntityType(payload[5].Str()), e)
	if terr != nil {
		return L(A("err"))
	}
	return L(A("ok"), AS(name))
}

// vverdict: <schema text> <info (ignored)> strict|permissive <policy> -> (accept) | (reject)
func runVVerdict(payload []*Sx) *Sx {
	var s schema.Schema
	if err := s.UnmarshalCedar([]byte(payload[0].Str())); err != nil {
		return L(A("schema-error"))
	}
	rs, err := s.Resolve()
	if err != nil {
		return L(A("schema-error"))
	}
	var v *validate.Validator
	if payload[2].Atom == "strict" {
		v = validate.New(rs, validate.WithStrict())
	} else {
		v = validate.New(rs, validate.WithPermissive())
	}
	_, pol := policyFromSx(payload[3])
	if v.Policy("p", pol) != nil {
		return L(A("reject"))
	}
	return L(A("accept"))
}
