package main

import (
	"bytes"
	"encoding/json"
	"fmt"
	"strings"
	"time"

	cedar "github.com/cedar-policy/cedar-go"
	"github.com/cedar-policy/cedar-go/types"
	xeval "github.com/cedar-policy/cedar-go/x/exp/eval"
)

func init() {
	kinds["valops"] = runValOps
	kinds["setorder"] = runSetOrder
	kinds["scalar"] = runScalar
	kinds["cedarvalue"] = runCedarValue
	kinds["uidparse"] = runUIDParse
	riskyKinds["uidparse"] = true
	kinds["valuejson"] = runValueJSON
}

func bit(b bool) *Sx {
	if b {
		return A("1")
	}
	return A("0")
}

func valuesFrom(s *Sx) []types.Value {
	var vs []types.Value
	for _, x := range s.List[1:] {
		vs = append(vs, valueFromSx(x))
	}
	return vs
}

// valops: (vals v...) (probes p...)
func runValOps(payload []*Sx) *Sx {
	vals := valuesFrom(payload[0])
	probes := valuesFrom(payload[1])
	s := types.NewSet(vals...)
	contains := L(A("contains"))
	for _, p := range probes {
		contains.List = append(contains.List, bit(s.Contains(p)))
	}
	rev := make([]types.Value, len(vals))
	for i, v := range vals {
		rev[len(vals)-1-i] = v
	}
	dup := append(append([]types.Value{}, vals...), vals...)
	srev, sdup := types.NewSet(rev...), types.NewSet(dup...)
	eqm := L(A("eq"))
	for _, a := range probes {
		for _, b := range probes {
			eqm.List = append(eqm.List, bit(a.Equal(b)))
		}
	}
	// Slice / All / Iterate agree with Len and Contains
	consistent := s.Len() == len(s.Slice())
	n := 0
	for v := range s.All() {
		n++
		if !s.Contains(v) {
			consistent = false
		}
	}
	if n != s.Len() {
		consistent = false
	}
	// immutability: mutate the constructor's input and the accessor's output
	immut := true
	before := string(s.MarshalCedar())
	if len(vals) > 0 {
		vals[0] = types.String("mutated!")
		sl := s.Slice()
		sl[0] = types.String("mutated too")
		if string(s.MarshalCedar()) != before {
			immut = false
		}
	}
	if len(probes) >= 2 {
		m := types.RecordMap{"a": probes[0], "b": probes[1]}
		r := types.NewRecord(m)
		rb := string(r.MarshalCedar())
		m["a"] = types.String("mutated!")
		m["c"] = types.Long(1)
		mm := r.Map()
		mm["b"] = types.Long(7)
		delete(mm, "a")
		if string(r.MarshalCedar()) != rb || r.Len() != 2 {
			immut = false
		}
		// record equality: same keys with equal values
		r2 := types.NewRecord(types.RecordMap{"b": probes[1], "a": probes[0]})
		r3 := types.NewRecord(types.RecordMap{"a": probes[1], "b": probes[0]})
		if !r.Equal(r2) || !r2.Equal(r) || (r.Equal(r3) != (probes[0].Equal(probes[1]))) {
			consistent = false
		}
	}
	// the JSON forms of equal values decode to equal values, of unequal values to unequal values (generic decoder)
	{
		dec := make([]types.Value, len(probes))
		for i, p := range probes {
			if b, err := json.Marshal(p); err == nil {
				var d types.Value
				if types.UnmarshalJSON(b, &d) == nil {
					dec[i] = d
					if !d.Equal(p) || !p.Equal(d) {
						consistent = false
					}
				}
			}
		}
		for i := range probes {
			for j := range probes {
				if dec[i] != nil && dec[j] != nil && dec[i].Equal(dec[j]) != probes[i].Equal(probes[j]) {
					consistent = false
				}
			}
		}
	}
	// the JSON form of a value decodes to an equal value WHATEVER the destination held before (a reused loop variable, a slice element):
	// records and sets decoded into typed destinations that already hold another record / set, the empty ones included
	for _, p := range probes {
		b, err := json.Marshal(p)
		if err != nil {
			continue
		}
		switch pv := p.(type) {
		case types.Record:
			for _, old := range []types.Record{types.NewRecord(types.RecordMap{"old": types.Long(1), "a": types.String("x")}), {}, pv} {
				dst := old
				if err := json.Unmarshal(b, &dst); err == nil && (!dst.Equal(pv) || !pv.Equal(dst)) {
					consistent = false
				}
				hold := []types.Record{old}
				if err := json.Unmarshal(append(append([]byte("["), b...), ']'), &hold); err == nil && (len(hold) != 1 || !hold[0].Equal(pv)) {
					consistent = false
				}
			}
		case types.Set:
			for _, old := range []types.Set{types.NewSet(types.Long(41), types.String("old")), {}, pv} {
				dst := old
				if err := json.Unmarshal(b, &dst); err == nil && (!dst.Equal(pv) || !pv.Equal(dst)) {
					consistent = false
				}
			}
		}
	}
	// constructor inputs of EVERY size, the empty ones included: an empty (non-nil) map, an empty and a one-element slice, then mutated
	{
		em := types.RecordMap{}
		er := types.NewRecord(em)
		em["late"] = types.Long(1)
		one := types.RecordMap{"k": types.Long(1)}
		or := types.NewRecord(one)
		one["k"] = types.Long(2)
		delete(one, "k")
		if er.Len() != 0 || !er.Equal(types.Record{}) || string(er.MarshalCedar()) != "{}" || or.Len() != 1 || !or.Equal(types.NewRecord(types.RecordMap{"k": types.Long(1)})) ||
			!types.NewSet(er).Contains(types.Record{}) {
			immut = false
		}
		es := make([]types.Value, 0, 4)
		eset := types.NewSet(es...)
		es = append(es, types.Long(1))
		_ = es
		o1 := []types.Value{types.Long(1)}
		oset := types.NewSet(o1...)
		o1[0] = types.Long(2)
		if eset.Len() != 0 || !eset.Equal(types.NewSet()) || oset.Len() != 1 || !oset.Contains(types.Long(1)) {
			immut = false
		}
		// accessor outputs of empty values are the caller's too
		mm := er.Map()
		if mm != nil {
			mm["x"] = types.Long(1)
		}
		if er.Len() != 0 {
			immut = false
		}
	}
	// every byte-slice accessor of every value: scribbling over what it returned must not change the value (or any equal one)
	scribble := func(b []byte) {
		for i := range b {
			b[i] = 'X'
		}
	}
	all := append(append([]types.Value{types.True, types.False, s}, valuesFrom(payload[0])...), probes...)
	for _, v := range all {
		c0 := string(v.MarshalCedar())
		st0 := v.String()
		scribble(v.MarshalCedar())
		if mj, ok := v.(interface{ MarshalJSON() ([]byte, error) }); ok {
			j0, _ := mj.MarshalJSON()
			js := string(j0)
			scribble(j0)
			j1, _ := mj.MarshalJSON()
			if string(j1) != js {
				immut = false
			}
		}
		if ej, ok := v.(interface{ ExplicitMarshalJSON() ([]byte, error) }); ok {
			j0, _ := ej.ExplicitMarshalJSON()
			js := string(j0)
			scribble(j0)
			j1, _ := ej.ExplicitMarshalJSON()
			if string(j1) != js {
				immut = false
			}
		}
		if string(v.MarshalCedar()) != c0 || v.String() != st0 {
			immut = false
		}
	}
	if string(types.True.MarshalCedar()) != "true" || string(types.False.MarshalCedar()) != "false" || types.Long(7).String() != "7" {
		immut = false
	}
	return L(L(A("len"), AI(s.Len())), contains, L(A("eqrev"), bit(s.Equal(srev) && srev.Equal(s))), L(A("eqdup"), bit(s.Equal(sdup) && sdup.Equal(s))),
		eqm, L(A("consistent"), bit(consistent)), L(A("immutable"), bit(immut)))
}

// setorder: (vals v...) -> members in the order MarshalJSON emits them (ascending slot order of the table).
// Members are identified by their own JSON bytes, so nothing has to be decoded.
func runSetOrder(payload []*Sx) *Sx {
	vals := valuesFrom(payload[0])
	s := types.NewSet(vals...)
	b, err := s.MarshalJSON()
	if err != nil {
		return L(A("marshal-error"))
	}
	var raw []json.RawMessage
	if err := json.Unmarshal(b, &raw); err != nil {
		return L(A("set-json-is-not-an-array"))
	}
	byBytes := map[string]types.Value{}
	for _, v := range vals {
		vb, err := json.Marshal(v)
		if err != nil {
			return L(A("marshal-error"))
		}
		if _, dup := byBytes[string(vb)]; !dup {
			byBytes[string(vb)] = v
		}
	}
	out := L(A("order"))
	for _, r := range raw {
		v, ok := byBytes[string(r)]
		if !ok {
			return L(A("member-not-among-inputs"), AS(string(r)))
		}
		out.List = append(out.List, valueToSx(v))
	}
	return out
}

// ambientZones: what a value prints as, and what a text parses to, must not depend on the process's local time zone (time.Local is what
// $TZ / /etc/localtime set in a real process); the harness is single-threaded per case, so it may swap the variable
var ambientZones = []*time.Location{time.UTC, time.FixedZone("UTC+05:30", 5*3600+1800), time.FixedZone("UTC-08:00", -8*3600), time.FixedZone("UTC+14", 14*3600)}

func underZones(f func() *Sx) (*Sx, bool) {
	saved := time.Local
	defer func() { time.Local = saved }()
	var first *Sx
	same := true
	for i, z := range ambientZones {
		time.Local = z
		r := f()
		if i == 0 {
			first = r
		} else if r.String() != first.String() {
			same = false
		}
	}
	return first, same
}

// scalar: (parse <type> <xstr>) | (print <value>)
func runScalar(payload []*Sx) *Sx {
	res, same := underZones(func() *Sx { return runScalarIn(payload) })
	if !same {
		return L(A("depends-on-the-local-time-zone"))
	}
	return res
}

func runScalarIn(payload []*Sx) *Sx {
	op := payload[0]
	switch op.Head() {
	case "parse":
		s := op.List[2].Str()
		var v types.Value
		var err error
		switch op.List[1].Atom {
		case "decimal":
			v, err = types.ParseDecimal(s)
		case "duration":
			v, err = types.ParseDuration(s)
		case "datetime":
			v, err = types.ParseDatetime(s)
		case "ip":
			v, err = types.ParseIPAddr(s)
		default:
			panic("harness: scalar type")
		}
		if err != nil {
			return L(A("err"))
		}
		return L(A("ok"), valueToSx(v))
	case "print":
		v := valueFromSx(op.List[1])
		type stringer interface{ String() string }
		return L(A("s"), AS(v.(stringer).String()))
	case "newdecimal":
		d, err := types.NewDecimal(mustInt64(op.List[1].Atom), int(mustInt64(op.List[2].Atom)))
		if err != nil {
			return L(A("err"))
		}
		return L(A("ok"), valueToSx(d))
	}
	panic("harness: scalar op")
}

// uidparse: <bytes> -> (ok xTYPE xID) | (err): EntityUID.UnmarshalCedar; UnmarshalBinary must agree
func runUIDParse(payload []*Sx) *Sx {
	b := []byte(payload[0].Str())
	var u, u2 types.EntityUID
	err := u.UnmarshalCedar(b)
	err2 := u2.UnmarshalBinary(append([]byte{}, b...))
	if (err == nil) != (err2 == nil) || u != u2 {
		return L(A("text-and-binary-differ"))
	}
	if err != nil {
		return L(A("err"))
	}
	return L(A("ok"), AS(string(u.Type)), AS(string(u.ID)))
}

// cedarvalue: <value> -> does the Cedar rendering of the value parse and evaluate to an equal value?
func runCedarValue(payload []*Sx) *Sx {
	res, same := underZones(func() *Sx { return runCedarValueIn(payload) })
	if !same {
		return L(A("rendering-depends-on-the-local-time-zone"))
	}
	return res
}

func runCedarValueIn(payload []*Sx) *Sx {
	v := valueFromSx(payload[0])
	text := v.MarshalCedar()
	var p cedar.Policy
	src := append(append([]byte("permit(principal, action, resource) when { "), text...), []byte(" };")...)
	if err := p.UnmarshalCedar(src); err != nil {
		return L(A("rendering-does-not-parse"), AS(string(text)))
	}
	cond := p.AST().Conditions[0].Body
	got, err := xeval.Eval(cond, xeval.Env{Entities: types.EntityMap{}})
	if err != nil {
		return L(A("rendering-does-not-evaluate"), AS(string(text)), A(errClass(err)))
	}
	if !got.Equal(v) || !v.Equal(got) {
		return L(A("rendering-evaluates-to-different-value"), AS(string(text)), valueToSx(got))
	}
	// an entity uid has a parser of its own (EntityUID.UnmarshalCedar / UnmarshalBinary): its printed form must read back too
	if uid, ok := v.(types.EntityUID); ok {
		var u2, u3 types.EntityUID
		if err := u2.UnmarshalCedar(uid.MarshalCedar()); err != nil || u2 != uid {
			return L(A("uid-text-does-not-read-back"), AS(string(text)))
		}
		bin, err := uid.MarshalBinary()
		if err != nil || u3.UnmarshalBinary(bin) != nil || u3 != uid {
			return L(A("uid-binary-does-not-read-back"), AS(string(text)))
		}
		if uid.String() != string(uid.MarshalCedar()) {
			return L(A("uid-string-differs-from-cedar-text"), AS(uid.String()))
		}
	}
	// rendering the reparsed value gives the same bytes
	if !bytes.Equal(got.MarshalCedar(), text) {
		return L(A("ok-second-rendering-differs"), AS(string(text)), AS(string(got.MarshalCedar())))
	}
	return L(A("ok"))
}

// valuejson: <value> -> JSON round trip, stability, equality
func runValueJSON(payload []*Sx) *Sx {
	res, same := underZones(func() *Sx { return runValueJSONIn(payload) })
	if !same {
		return L(A("json-depends-on-the-local-time-zone"))
	}
	return res
}

func runValueJSONIn(payload []*Sx) *Sx {
	v := valueFromSx(payload[0])
	b1, err := json.Marshal(v)
	if err != nil {
		return L(A("marshal-error"), A(sanitize(err.Error())))
	}
	var v2 types.Value
	if err := types.UnmarshalJSON(b1, &v2); err != nil {
		return L(A("own-encoding-does-not-decode"), AS(string(b1)), A(sanitize(err.Error())))
	}
	if !v.Equal(v2) || !v2.Equal(v) {
		return L(A("decoded-value-differs"), AS(string(b1)), valueToSx(v2))
	}
	b2, err := json.Marshal(v2)
	if err != nil {
		return L(A("marshal-error-2"))
	}
	if !bytes.Equal(b1, b2) {
		return L(A("second-encoding-differs"), AS(string(b1)), AS(string(b2)))
	}
	return L(A("ok"), AS(string(b1)))
}

var _ = fmt.Sprint
var _ = strings.Contains
