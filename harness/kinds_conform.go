package main

import (
	"sort"

	cedar "github.com/cedar-policy/cedar-go"
	"github.com/cedar-policy/cedar-go/types"
	"github.com/cedar-policy/cedar-go/x/exp/schema"
	"github.com/cedar-policy/cedar-go/x/exp/schema/validate"
	exptypes "github.com/cedar-policy/cedar-go/x/exp/types"
)

// conform: <schema text> <info> <enumvals> <store> <req> -> (conform (entities (uid 0|1)...) (all 0|1) (request 0|1))
// The verdicts of Validator.Entity for every entity of the store, Validator.Entities for the store and Validator.Request, against the
// Coq model Impl/Conform.v (which reads the schema from <info> and <enumvals>).
func init() {
	kinds["conform"] = runConform
	kinds["ejsonschema"] = runEJSONSchema
	kinds["gettag-message"] = runGetTagMessage
}

// gettag-message: <depth> -> (len N): the length of Validator.Policy's error text for an unguarded getTag whose key is <depth> nested
// constant conditionals (probe for known finding F48: the text doubles with every level)
func runGetTagMessage(payload []*Sx) *Sx {
	d := int(mustInt64(payload[0].Atom))
	var s schema.Schema
	if err := s.UnmarshalCedar([]byte(`entity User tags String; action a appliesTo { principal: [User], resource: [User], context: {} };`)); err != nil {
		return L(A("schema-error"))
	}
	rs, err := s.Resolve()
	if err != nil {
		return L(A("schema-resolve-error"))
	}
	key := `"k"`
	for i := 0; i < d; i++ {
		key = `(if true then ` + key + ` else "z")`
	}
	var p cedar.Policy
	if err := p.UnmarshalCedar([]byte(`permit(principal, action, resource) when { principal.getTag(` + key + `) == "x" };`)); err != nil {
		return L(A("policy-error"))
	}
	verr := validate.New(rs, validate.WithStrict()).Policy("p", (*xastPolicy)(p.AST()))
	n := 0
	if verr != nil {
		n = len(verr.Error())
	}
	return L(A("len"), AI(n))
}

// ejsonschema: <schema text> <info> <enumvals> <json tree> -> (ok <store>) | (err): EntityMap.UnmarshalJSONWithSchema, the public path that
// decodes, coerces along the schema and validates; against the composition of the three Coq models
func runEJSONSchema(payload []*Sx) *Sx {
	var s schema.Schema
	if err := s.UnmarshalCedar([]byte(payload[0].Str())); err != nil {
		return L(A("schema-error"), AS(err.Error()))
	}
	rs, err := s.Resolve()
	if err != nil {
		return L(A("schema-resolve-error"), AS(err.Error()))
	}
	var em exptypes.EntityMap
	if err := em.UnmarshalJSONWithSchema([]byte(jsonTextOfSx(payload[3])), rs); err != nil {
		return L(A("err"))
	}
	return L(A("ok"), storeToSx(types.EntityMap(em)))
}

func runConform(payload []*Sx) *Sx {
	var s schema.Schema
	if err := s.UnmarshalCedar([]byte(payload[0].Str())); err != nil {
		return L(A("schema-error"), AS(err.Error()))
	}
	rs, err := s.Resolve()
	if err != nil {
		return L(A("schema-resolve-error"), AS(err.Error()))
	}
	b := func(err error) *Sx {
		if err == nil {
			return A("1")
		}
		return A("0")
	}
	em := storeFromSx(payload[3])
	req, ok := reqFromSx(payload[4]).concrete()
	if !ok {
		panic("harness: conform needs a concrete request")
	}
	// strict and permissive validators must agree: conformance does not depend on the mode
	vs, vp := validate.New(rs, validate.WithStrict()), validate.New(rs, validate.WithPermissive())
	var per []*Sx
	for uid, e := range em {
		r := b(vs.Entity(e))
		if r.Atom != b(vp.Entity(e)).Atom {
			return L(A("modes-disagree"), uidSx(uid))
		}
		per = append(per, L(uidSx(uid), r))
	}
	sort.Slice(per, func(i, j int) bool { return per[i].String() < per[j].String() })
	ents := L(A("entities"))
	ents.List = append(ents.List, per...)
	all := b(vs.Entities(em))
	// Entities = every Entity
	want := "1"
	for _, p := range per {
		if p.List[1].Atom == "0" {
			want = "0"
		}
	}
	if all.Atom != want {
		return L(A("entities-differs-from-entity"), ents)
	}
	return L(A("conform"), ents, L(A("all"), all), L(A("request"), b(vs.Request(req))))
}
