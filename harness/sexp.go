package main

import (
	"encoding/hex"
	"fmt"
	"strings"
)

// Sx is an S-expression: an atom (List == nil, IsList false) or a list.
type Sx struct {
	Atom   string
	List   []*Sx
	IsList bool
}

func A(s string) *Sx       { return &Sx{Atom: s} }
func L(items ...*Sx) *Sx   { return &Sx{List: items, IsList: true} }
func AI(i int) *Sx         { return A(fmt.Sprint(i)) }
func AS(s string) *Sx      { return A("x" + hex.EncodeToString([]byte(s))) }
func (s *Sx) Head() string { return s.List[0].Atom }

func (s *Sx) String() string {
	var b strings.Builder
	s.write(&b)
	return b.String()
}

func (s *Sx) write(b *strings.Builder) {
	if !s.IsList {
		b.WriteString(s.Atom)
		return
	}
	b.WriteByte('(')
	for i, x := range s.List {
		if i > 0 {
			b.WriteByte(' ')
		}
		x.write(b)
	}
	b.WriteByte(')')
}

func parseSx(s string) (*Sx, error) {
	pos := 0
	var item func() (*Sx, error)
	skip := func() {
		for pos < len(s) && (s[pos] == ' ' || s[pos] == '\t' || s[pos] == '\n' || s[pos] == '\r') {
			pos++
		}
	}
	item = func() (*Sx, error) {
		skip()
		if pos >= len(s) {
			return nil, fmt.Errorf("sexp: eof")
		}
		if s[pos] == '(' {
			pos++
			res := &Sx{IsList: true}
			for {
				skip()
				if pos >= len(s) {
					return nil, fmt.Errorf("sexp: unterminated")
				}
				if s[pos] == ')' {
					pos++
					return res, nil
				}
				x, err := item()
				if err != nil {
					return nil, err
				}
				res.List = append(res.List, x)
			}
		}
		st := pos
		for pos < len(s) && s[pos] != ' ' && s[pos] != '(' && s[pos] != ')' && s[pos] != '\n' && s[pos] != '\t' && s[pos] != '\r' {
			pos++
		}
		return &Sx{Atom: s[st:pos]}, nil
	}
	return item()
}

// str decodes an "x<hex>" atom.
func (s *Sx) Str() string {
	if s.IsList || len(s.Atom) == 0 || s.Atom[0] != 'x' {
		panic(fmt.Sprintf("harness: bad string atom %v", s))
	}
	b, err := hex.DecodeString(s.Atom[1:])
	if err != nil {
		panic(err)
	}
	return string(b)
}
