package main

import (
	"sort"

	cedar "github.com/cedar-policy/cedar-go"
	xast "github.com/cedar-policy/cedar-go/x/exp/ast"
	xeval "github.com/cedar-policy/cedar-go/x/exp/eval"
)

func init() {
	kinds["eval"] = runEval
	kinds["authz"] = runAuthz
}

func resToSx(v cedar.Value, err error) *Sx {
	if err != nil {
		return L(A("err"), A(errClass(err)))
	}
	return L(A("ok"), valueToSx(v))
}

// eval: <store> <req> <expr> — the unfolded evaluator (x/exp/eval.Eval = ToEval + Eval)
func runEval(payload []*Sx) *Sx {
	em := storeFromSx(payload[0])
	rq := reqFromSx(payload[1])
	n := exprFromSx(payload[2])
	env := xeval.Env{Entities: em, Principal: rq.P, Action: rq.A, Resource: rq.R, Context: rq.C}
	v, err := xeval.Eval(n, env)
	return resToSx(v, err)
}

// authz: <store> <req> (policies policy...) — cedar.Authorize over a PolicySet of compiled (folded) policies
func runAuthz(payload []*Sx) *Sx {
	em := storeFromSx(payload[0])
	rq := reqFromSx(payload[1])
	req, ok := rq.concrete()
	if !ok {
		panic("harness: authz needs a concrete request")
	}
	ps := cedar.NewPolicySet()
	for _, p := range payload[2].List[1:] {
		id, pol := policyFromSx(p)
		ps.Add(cedar.PolicyID(id), cedar.NewPolicyFromAST((*cedarAST)(pol)))
	}
	dec, diag := cedar.Authorize(ps, em, req)
	var rs, es []string
	for _, r := range diag.Reasons {
		rs = append(rs, AS(string(r.PolicyID)).Atom)
	}
	for _, e := range diag.Errors {
		es = append(es, AS(string(e.PolicyID)).Atom)
	}
	sort.Strings(rs)
	sort.Strings(es)
	toL := func(xs []string) *Sx {
		l := L()
		for _, x := range xs {
			l.List = append(l.List, A(x))
		}
		return l
	}
	d := "deny"
	if dec == cedar.Allow {
		d = "allow"
	}
	return L(L(A("dec"), A(d)), L(A("reasons"), toL(rs)), L(A("errors"), toL(es)))
}

var _ = xast.True
