(* Model driver: reads one case per line, runs the extracted Coq model, prints "<id> <result>". *)
open Sexp

let () =
  let ic = if Array.length Sys.argv > 1 then open_in Sys.argv.(1) else stdin in
  let oc = if Array.length Sys.argv > 2 then open_out Sys.argv.(2) else stdout in
  (try
    while true do
      let line = input_line ic in
      if String.length line > 0 && line.[0] = '(' then begin
        match parse line with
        | L (A "case" :: A id :: A kind :: payload) ->
          let clean m = String.map (fun c -> if c = ' ' || c = '(' || c = ')' then '_' else c) m in
          let r = (try Cases.run_case kind payload with
              | Failure m -> L [A "model-failure"; A (clean m)]
              | Not_found -> L [A "model-failure"; A "not-found"]
              | Match_failure _ -> L [A "model-failure"; A "match-failure"]
              | Stack_overflow -> L [A "model-failure"; A "stack-overflow"]) in
          output_string oc (id ^ " " ^ to_string r ^ "\n")
        | _ -> ()
      end
    done
  with End_of_file -> ());
  close_out oc
