(* Minimal S-expression reader/printer shared by the model driver. *)
type t = A of string | L of t list

let parse (s : string) : t =
  let n = String.length s in
  let pos = ref 0 in
  let is_ws c = c = ' ' || c = '\t' || c = '\n' || c = '\r' in
  let rec skip () = if !pos < n && is_ws s.[!pos] then (incr pos; skip ()) in
  let rec item () =
    skip ();
    if !pos >= n then failwith "sexp: eof";
    if s.[!pos] = '(' then begin
      incr pos;
      let acc = ref [] in
      let fin = ref false in
      while not !fin do
        skip ();
        if !pos >= n then failwith "sexp: unterminated";
        if s.[!pos] = ')' then (incr pos; fin := true)
        else acc := item () :: !acc
      done;
      L (List.rev !acc)
    end else begin
      let st = !pos in
      while !pos < n && not (is_ws s.[!pos]) && s.[!pos] <> '(' && s.[!pos] <> ')' do incr pos done;
      A (String.sub s st (!pos - st))
    end
  in
  item ()

let rec to_buf b = function
  | A a -> Buffer.add_string b a
  | L l ->
    Buffer.add_char b '(';
    List.iteri (fun i x -> if i > 0 then Buffer.add_char b ' '; to_buf b x) l;
    Buffer.add_char b ')'

let to_string x = let b = Buffer.create 64 in to_buf b x; Buffer.contents b
