(* Case kinds: decode payload, run the extracted model, encode the result. *)
open Sexp
open Model
open Conv

let atom = function A a -> a | L _ -> failwith "expected atom"
let lst = function L l -> l | A a -> failwith ("expected list, got " ^ a)
let head = function L (A h :: _) -> h | _ -> failwith "expected headed list"

(* ---------- values ---------- *)
let rec value_of_sx (s : Sexp.t) : value =
  match s with
  | L [A "b"; A x] -> VBool (x = "1")
  | L [A "l"; A x] -> VLong (cz_of_string x)
  | L [A "s"; A x] -> VString (str_of_atom x)
  | L [A "e"; A t; A i] -> VEntity (str_of_atom t, str_of_atom i)
  | L (A "set" :: xs) -> mk_set (List.map value_of_sx xs)
  | L (A "rec" :: kvs) -> mk_record (List.map kv_of_sx kvs)
  | L [A "dec"; A x] -> VDecimal (cz_of_string x)
  | L [A "dt"; A x] -> VDatetime (cz_of_string x)
  | L [A "dur"; A x] -> VDuration (cz_of_string x)
  | L [A "ip"; A fam; A addr; A bits] -> VIP (fam = "6", cz_of_string addr, cz_of_string bits)
  | _ -> failwith ("bad value " ^ to_string s)
and kv_of_sx = function
  | L [A k; v] -> (str_of_atom k, value_of_sx v)
  | s -> failwith ("bad kv " ^ to_string s)

let rec sx_of_value (v : value) : Sexp.t =
  match v with
  | VBool b -> L [A "b"; A (if b then "1" else "0")]
  | VLong z -> L [A "l"; A (string_of_cz z)]
  | VString s -> L [A "s"; A (atom_of_str s)]
  | VEntity (t, i) -> L [A "e"; A (atom_of_str t); A (atom_of_str i)]
  | VSet l -> L (A "set" :: List.map sx_of_value l)
  | VRecord l -> L (A "rec" :: List.map (fun (k, x) -> L [A (atom_of_str k); sx_of_value x]) l)
  | VDecimal z -> L [A "dec"; A (string_of_cz z)]
  | VDatetime z -> L [A "dt"; A (string_of_cz z)]
  | VDuration z -> L [A "dur"; A (string_of_cz z)]
  | VIP (v6, a, p) -> L [A "ip"; A (if v6 then "6" else "4"); A (string_of_cz a); A (string_of_cz p)]

let uid_of_sx = function
  | L [A "e"; A t; A i] -> (str_of_atom t, str_of_atom i)
  | s -> failwith ("bad uid " ^ to_string s)

(* ---------- expressions ---------- *)
let errk_of_string = function
  | "type" -> EType | "overflow" -> EOverflow | "attr" -> EAttr | "tag" -> ETag | "entity" -> EEntity
  | "unknownfn" -> EUnknownFn | "arity" -> EArity | "ext" -> EExt | "unspecified" -> EUnspecified
  | s -> failwith ("bad error class " ^ s)

let string_of_errk = function
  | EType -> "type" | EOverflow -> "overflow" | EAttr -> "attr" | ETag -> "tag" | EEntity -> "entity"
  | EUnknownFn -> "unknownfn" | EArity -> "arity" | EExt -> "ext" | EUnspecified -> "unspecified"
  | EFuel -> "model-out-of-fuel"

let pattern_of_sx = function
  | L (A "pat" :: cs) ->
    compile_pattern (List.map (function L _ -> None | A a -> Some (str_of_atom a)) cs)
  | s -> failwith ("bad pattern " ^ to_string s)

let rec expr_of_sx (s : Sexp.t) : expr =
  let e = expr_of_sx in
  match s with
  | L [A "lit"; v] -> ELit (value_of_sx v)
  | L [A "var"; A x] ->
    EVar (match x with "principal" -> VPrincipal | "action" -> VAction | "resource" -> VResource
                     | "context" -> VContext | _ -> failwith "bad var")
  | L [A "and"; a; b] -> EAnd (e a, e b) | L [A "or"; a; b] -> EOr (e a, e b)
  | L [A "not"; a] -> ENot (e a) | L [A "neg"; a] -> ENeg (e a)
  | L [A "add"; a; b] -> EAdd (e a, e b) | L [A "sub"; a; b] -> ESub (e a, e b) | L [A "mul"; a; b] -> EMul (e a, e b)
  | L [A "eq"; a; b] -> EEq (e a, e b) | L [A "ne"; a; b] -> ENe (e a, e b)
  | L [A "lt"; a; b] -> ELt (e a, e b) | L [A "le"; a; b] -> ELe (e a, e b)
  | L [A "gt"; a; b] -> EGt (e a, e b) | L [A "ge"; a; b] -> EGe (e a, e b)
  | L [A "in"; a; b] -> EIn (e a, e b)
  | L [A "contains"; a; b] -> EContains (e a, e b)
  | L [A "containsAll"; a; b] -> EContainsAll (e a, e b)
  | L [A "containsAny"; a; b] -> EContainsAny (e a, e b)
  | L [A "isEmpty"; a] -> EIsEmpty (e a)
  | L [A "access"; a; A k] -> EAccess (e a, str_of_atom k)
  | L [A "has"; a; A k] -> EHas (e a, str_of_atom k)
  | L [A "getTag"; a; b] -> EGetTag (e a, e b) | L [A "hasTag"; a; b] -> EHasTag (e a, e b)
  | L [A "like"; a; p] -> ELike (e a, pattern_of_sx p)
  | L [A "is"; a; A t] -> EIs (e a, str_of_atom t)
  | L [A "isIn"; a; A t; b] -> EIsIn (e a, str_of_atom t, e b)
  | L [A "if"; c; t; f] -> EIf (e c, e t, e f)
  | L (A "mkset" :: es) -> ESet (List.map e es)
  | L (A "mkrec" :: kvs) -> ERecord (List.map (function L [A k; x] -> (str_of_atom k, e x) | _ -> failwith "bad mkrec") kvs)
  | L (A "call" :: A n :: args) -> ECall (str_of_atom n, List.map e args)
  | L [A "perr"; A k] -> EPartialError (errk_of_string k)
  | _ -> failwith ("bad expr " ^ to_string s)

(* ---------- store / request / policy ---------- *)
let store_of_sx = function
  | L (A "store" :: es) ->
    List.map (function
        | L [A "ent"; u; L (A "parents" :: ps); L (A "attrs" :: attrs); L (A "tags" :: tags)] ->
          (uid_of_sx u, { e_parents = List.map uid_of_sx ps;
                          e_attrs = rec_of_list (List.map kv_of_sx attrs);
                          e_tags = rec_of_list (List.map kv_of_sx tags) })
        | s -> failwith ("bad entity " ^ to_string s)) es
  | s -> failwith ("bad store " ^ to_string s)

let env_of_sx store req =
  match req with
  | L [A "req"; p; a; r; c] ->
    { e_store = store_of_sx store; e_principal = value_of_sx p; e_action = value_of_sx a;
      e_resource = value_of_sx r; e_context = value_of_sx c }
  | s -> failwith ("bad req " ^ to_string s)

let scope_of_sx = function
  | L [A "all"] -> SAll
  | L [A "eq"; u] -> SEq (uid_of_sx u)
  | L [A "in"; u] -> SIn (uid_of_sx u)
  | L (A "inset" :: us) -> SInSet (List.map uid_of_sx us)
  | L [A "is"; A t] -> SIs (str_of_atom t)
  | L [A "isin"; A t; u] -> SIsIn (str_of_atom t, uid_of_sx u)
  | s -> failwith ("bad scope " ^ to_string s)

let policy_of_sx = function
  | L (A "policy" :: A id :: A eff :: sp :: sa :: sr :: L (A "conds" :: cs) :: _) ->
    (id, { p_effect = (eff = "permit"); p_principal = scope_of_sx sp; p_action = scope_of_sx sa;
           p_resource = scope_of_sx sr;
           p_conds = List.map (function L [A k; x] -> (k = "when", expr_of_sx x) | _ -> failwith "bad cond") cs })
  | s -> failwith ("bad policy " ^ to_string s)

let sx_of_pattern (p : (bool * Model.z list) list) : Sexp.t =
  if p = [] then L [A "pat"; A "x"] else      (* the JSON view of the empty pattern is one empty literal *)
  L (A "pat" :: List.concat_map (fun (w, lit) ->
      (if w then [L [A "w"]] else []) @ (if (not w) || lit <> [] then [A (atom_of_str lit)] else [])) p)

let rec sx_of_expr (e : expr) : Sexp.t =
  let x = sx_of_expr in
  match e with
  | ELit v -> L [A "lit"; sx_of_value v]
  | EVar v -> L [A "var"; A (match v with VPrincipal -> "principal" | VAction -> "action" | VResource -> "resource" | VContext -> "context")]
  | EAnd (a, b) -> L [A "and"; x a; x b] | EOr (a, b) -> L [A "or"; x a; x b]
  | ENot a -> L [A "not"; x a] | ENeg a -> L [A "neg"; x a]
  | EAdd (a, b) -> L [A "add"; x a; x b] | ESub (a, b) -> L [A "sub"; x a; x b] | EMul (a, b) -> L [A "mul"; x a; x b]
  | EEq (a, b) -> L [A "eq"; x a; x b] | ENe (a, b) -> L [A "ne"; x a; x b]
  | ELt (a, b) -> L [A "lt"; x a; x b] | ELe (a, b) -> L [A "le"; x a; x b]
  | EGt (a, b) -> L [A "gt"; x a; x b] | EGe (a, b) -> L [A "ge"; x a; x b]
  | EIn (a, b) -> L [A "in"; x a; x b]
  | EContains (a, b) -> L [A "contains"; x a; x b]
  | EContainsAll (a, b) -> L [A "containsAll"; x a; x b]
  | EContainsAny (a, b) -> L [A "containsAny"; x a; x b]
  | EIsEmpty a -> L [A "isEmpty"; x a]
  | EAccess (a, k) -> L [A "access"; x a; A (atom_of_str k)]
  | EHas (a, k) -> L [A "has"; x a; A (atom_of_str k)]
  | EGetTag (a, b) -> L [A "getTag"; x a; x b] | EHasTag (a, b) -> L [A "hasTag"; x a; x b]
  | ELike (a, p) -> L [A "like"; x a; sx_of_pattern p]
  | EIs (a, t) -> L [A "is"; x a; A (atom_of_str t)]
  | EIsIn (a, t, b) -> L [A "isIn"; x a; A (atom_of_str t); x b]
  | EIf (c, t, f) -> L [A "if"; x c; x t; x f]
  | ESet es -> L (A "mkset" :: List.map x es)
  | ERecord kvs -> L (A "mkrec" :: List.map (fun (k, v) -> L [A (atom_of_str k); x v]) kvs)
  | ECall (n, args) -> L (A "call" :: A (atom_of_str n) :: List.map x args)
  | EPartialError k -> L [A "perr"; A (string_of_errk k)]

let sx_of_uid (t, i) = L [A "e"; A (atom_of_str t); A (atom_of_str i)]

let sx_of_scope = function
  | SAll -> L [A "all"]
  | SEq u -> L [A "eq"; sx_of_uid u]
  | SIn u -> L [A "in"; sx_of_uid u]
  | SInSet us -> L (A "inset" :: List.map sx_of_uid us)
  | SIs t -> L [A "is"; A (atom_of_str t)]
  | SIsIn (t, u) -> L [A "isin"; A (atom_of_str t); sx_of_uid u]

let sx_of_policy id annots (p : policy) : Sexp.t =
  L [A "policy"; A id; A (if p.p_effect then "permit" else "forbid");
     sx_of_scope p.p_principal; sx_of_scope p.p_action; sx_of_scope p.p_resource;
     L (A "conds" :: List.map (fun (w, e) -> L [A (if w then "when" else "unless"); sx_of_expr e]) p.p_conds);
     annots]

let sx_of_res = function
  | Ok v -> L [A "ok"; sx_of_value v]
  | Err k -> L [A "err"; A (string_of_errk k)]

(* ---- eval: <store> <req> <expr> ---- *)
let run_eval payload =
  match payload with
  | [store; req; ex] -> sx_of_res (eval (env_of_sx store req) (expr_of_sx ex))
  | _ -> failwith "eval payload"

let outcome_of_res = function
  | Ok (VBool true) -> OTrue
  | Ok (VBool false) -> OFalse
  | Ok _ -> OErr
  | Err _ -> OErr

(* ---- authz: <store> <req> (policies policy...) ---- *)
let run_authz payload =
  match payload with
  | [store; req; L (A "policies" :: ps)] ->
    let en = env_of_sx store req in
    let pols = List.map policy_of_sx ps in
    let r = authorize (fun (_, p) -> if p.p_effect then Permit else Forbid)
        (fun (_, p) -> outcome_of_res (bool_eval en (policy_to_expr p))) pols in
    let ids l = L (List.map (fun (id, _) -> A id) l) in
    L [L [A "dec"; A (match r.dec with Allow -> "allow" | Deny -> "deny")];
       L [A "reasons"; ids r.reasons]; L [A "errors"; ids r.errs]]
  | _ -> failwith "authz payload"

(* ---- authz-abs: <iter> (pols (p idx permit|forbid t|f|e variant) ...) ---- *)
let run_authz_abs payload =
  let pols = match payload with
    | _iter :: L (A "pols" :: ps) :: _ -> ps
    | _ -> failwith "authz-abs payload" in
  let ps = List.map (fun p -> match lst p with
      | [A "p"; A idx; A eff; A out; _] ->
        (int_of_string idx,
         ((match eff with "permit" -> Permit | "forbid" -> Forbid | _ -> failwith "eff"),
          (match out with "t" -> OTrue | "f" -> OFalse | "e" -> OErr | _ -> failwith "out")))
      | _ -> failwith "pol") pols in
  let r = authorize (fun p -> fst (snd p)) (fun p -> snd (snd p)) ps in
  let ids l = L (List.map (fun p -> A (string_of_int (fst p))) l) in
  L [L [A "dec"; A (match r.dec with Allow -> "allow" | Deny -> "deny")];
     L [A "reasons"; ids r.reasons]; L [A "errors"; ids r.errs]]

let outcome_sx = function
  | Ok (VBool true) -> A "t"
  | Ok (VBool false) -> A "f"
  | Ok _ -> L [A "e"; A "type"]
  | Err k -> L [A "e"; A (string_of_errk k)]

(* ---- fold: <store> <req> <policy> ---- *)
let run_fold payload =
  match payload with
  | [store; req; pol] ->
    let en = env_of_sx store req in
    let (id, p) = policy_of_sx pol in
    let annots = (match pol with L l when List.length l > 7 -> List.nth l 7 | _ -> L [A "annots"]) in
    let fp = fold_policy fold_table p in
    L [L [A "compiled"; outcome_sx (bool_eval en (policy_to_expr fp))];
       L [A "unfolded"; outcome_sx (bool_eval en (policy_to_expr p))];
       L [A "astsame"; A "1"];
       L [A "folded"; sx_of_policy id annots fp]]
  | _ -> failwith "fold payload"

let run_foldexpr payload =
  match payload with
  | [e] -> sx_of_expr (fold fold_table (expr_of_sx e))
  | _ -> failwith "foldexpr payload"

(* ---- partial: <store> <req> <policy> ---- *)
let run_partial payload =
  match payload with
  | [store; req; pol] ->
    let en = env_of_sx store req in
    let (id, p) = policy_of_sx pol in
    let annots = (match pol with L l when List.length l > 7 -> List.nth l 7 | _ -> L [A "annots"]) in
    (match partial_policy en p with
     | None -> L [A "drop"]
     | Some r -> L [A "keep"; sx_of_policy id annots r])
  | _ -> failwith "partial payload"

(* ---- psound: <store> <template req> <policy> (comps (c req1 req2)...) ---- *)
let run_psound payload =
  match payload with
  | [store; req; pol; L (A "comps" :: comps)] ->
    let en = env_of_sx store req in
    let (_, p) = policy_of_sx pol in
    let r = partial_policy en p in
    let outs = List.map (function
        | L [A "c"; r1; r2] ->
          let o1 = outcome_sx (bool_eval (env_of_sx store r1) (policy_to_expr p)) in
          let o2 = (match r with
              | Some rp -> outcome_sx (bool_eval (env_of_sx store r2) (policy_to_expr rp))
              | None -> A "na") in
          L [A "o"; o1; o2]
        | _ -> failwith "bad comp") comps in
    L (A (match r with Some _ -> "keep" | None -> "drop") :: outs)
  | _ -> failwith "psound payload"

(* ---- batch: <store> <req> (vars (name v...)...) (policies ...) (mode none|failat k|cancelat k) ---- *)
let run_batch payload =
  match payload with
  | [store; req; L (A "vars" :: vars); L (A "policies" :: ps); L (A "mode" :: mode)] ->
    let en = env_of_sx store req in
    let vars = List.map (function L (A n :: vs) -> (str_of_atom n, List.map value_of_sx vs) | _ -> failwith "bad var") vars in
    let vars = List.stable_sort (fun (_, a) (_, b) -> compare (List.length a) (List.length b)) vars in
    let pols = List.map (fun p -> let (id, pol) = policy_of_sx p in (str_of_atom id, pol)) ps in
    let (cancel, budget) = (match mode with
        | [A "none"] -> (false, None)
        | [A "failat"; A k] -> (false, Some (nat_of_int (int_of_string k)))
        | [A "cancelat"; A k] | [A "expireat"; A k] -> (true, Some (nat_of_int (int_of_string k)))
        | _ -> failwith "bad mode") in
    let (rs, st) = batch_authorize cancel vars en pols budget in
    let sx_of_r r =
      let (((p, a), rr), c) = r.br_request in
      let vals = List.sort compare (List.map (fun (k, v) -> (atom_of_str k, v)) r.br_values) in
      L [A "r"; L [A "req"; sx_of_value p; sx_of_value a; sx_of_value rr; sx_of_value c];
         L (A "vals" :: List.map (fun (k, v) -> L [A k; sx_of_value v]) vals);
         A (match r.br_decision with Allow -> "allow" | Deny -> "deny");
         L (A "reasons" :: List.sort compare (List.map (fun k -> A (atom_of_str k)) r.br_reasons))] in
    L [L [A "status"; A (match st with BOk -> "ok" | BUnbound -> "unbound" | BUnused -> "unused" | BInvalidPart -> "invalid"
                                   | BCallbackFailed -> "callback" | BCancelled -> "cancelled")];
       L [A "calls"; A (string_of_int (List.length rs))];
       L (A "results" :: List.map sx_of_r rs)]
  | _ -> failwith "batch payload"

(* ---- valops: (vals v...) (probes p...) ---- *)
let raw_values = function
  | L (A _ :: vs) -> List.map value_of_sx vs
  | _ -> failwith "bad value list"
let bit b = A (if b then "1" else "0")

let run_valops payload =
  match payload with
  | [vals; probes] ->
    let vs = raw_values vals and ps = raw_values probes in
    let s = mk_set vs in
    let members = (match s with VSet l -> l | _ -> []) in
    L [L [A "len"; A (string_of_int (List.length members))];
       L (A "contains" :: List.map (fun p -> bit (vmem p members)) ps);
       L [A "eqrev"; bit (veq s (mk_set (List.rev vs)) && veq (mk_set (List.rev vs)) s)];
       L [A "eqdup"; bit (veq s (mk_set (vs @ vs)) && veq (mk_set (vs @ vs)) s)];
       L (A "eq" :: List.concat_map (fun a -> List.map (fun b -> bit (veq a b)) ps) ps);
       L [A "consistent"; A "1"]; L [A "immutable"; A "1"]]
  | _ -> failwith "valops payload"

let run_setorder payload =
  match payload with
  | [vals] ->
    (match marshal_order (raw_values vals) with
     | Some l -> L (A "order" :: List.map sx_of_value l)
     | None -> L [A "model-out-of-fuel"])
  | _ -> failwith "setorder payload"

let run_scalar payload =
  match payload with
  | [L [A "parse"; A ty; A s]] ->
    let str = str_of_atom s in
    let some f = function Some z -> L [A "ok"; sx_of_value (f z)] | None -> L [A "err"] in
    (match ty with
     | "decimal" -> some (fun z -> VDecimal z) (parse_decimal str)
     | "duration" -> some (fun z -> VDuration z) (parse_duration str)
     | "datetime" -> some (fun z -> VDatetime z) (parse_datetime str)
     | "ip" -> some (fun ((v6, a), p) -> VIP (v6, a, p)) (parse_ip str)
     | _ -> failwith "scalar type")
  | [L [A "print"; v]] ->
    (match value_of_sx v with
     | VDecimal z -> L [A "s"; A (atom_of_str (print_decimal z))]
     | VDuration z -> L [A "s"; A (atom_of_str (print_duration z))]
     | VDatetime z -> L [A "s"; A (atom_of_str (print_datetime z))]
     | _ -> L [A "unsupported"; A "print"])
  | [L [A "newdecimal"; A i; A e]] ->
    (match new_decimal_exp (cz_of_string i) (cz_of_string e) with
     | Some z -> L [A "ok"; sx_of_value (VDecimal z)]
     | None -> L [A "err"])
  | _ -> failwith "scalar payload"

(* ---- pshist: (ops op...) ---- *)
let pool_eff h = match int_of_cz h with 1 | 3 -> Forbid | _ -> Permit
let pool_ev h = match int_of_cz h with 0 | 1 | 4 -> OTrue | 2 -> OFalse | _ -> OErr

let run_pshist payload =
  let ops = match payload with [L (A "ops" :: ops)] -> ops | _ -> failwith "pshist payload" in
  let op_of = function
    | L [A "add"; A id; A h] -> OAdd (str_of_atom id, cz_of_string h)
    | L [A "remove"; A id] -> ORemove (str_of_atom id)
    | L [A "get"; A id] -> OGet (str_of_atom id)
    | L [A "all"] -> OAll
    | L [A "iterrm"; A _] -> OAll   (* iteration with removals on a copy of the set: an observer; the harness answers like `all` unless a removed entry is produced *)
    | L [A "snap"] -> OAll          (* a copy of the set: the harness keeps it and checks after every later operation that it did not change *)
    | L [A "mapmut"; A id; A h] -> OMapMutate (str_of_atom id, cz_of_string h)
    | L [A "cedar"] -> OMarshalCedar
    | L [A "json"] -> OJsonRoundTrip
    | L [A "cedarrt"] -> OCedarRoundTrip
    | L (A "fromdoc" :: hs) -> OFromDoc (List.map (fun h -> cz_of_string (atom h)) hs)
    | L (A "loadjson" :: bs) -> OLoadJson (List.map (function L [A id; A h] -> (str_of_atom id, cz_of_string h) | _ -> failwith "loadjson") bs)
    | L [A "authz"] -> OAuthorize
    | s -> failwith ("bad op " ^ to_string s) in
  let outs = run pool_eff pool_ev [] (List.map op_of ops) in
  let sx_of_out = function
    | RBool b -> L [A "bool"; A (if b then "true" else "false")]
    | RGet None -> L [A "get"; A "none"]
    | RGet (Some h) -> L [A "get"; A (string_of_cz h)]
    | RBindings l -> L (A "bindings" :: List.map (fun (k, h) -> L [A (atom_of_str k); A (string_of_cz h)]) l)
    | RList l -> L (A "list" :: List.map (fun h -> A (string_of_cz h)) l)
    | RDecision (d, rs, es) ->
      let ids l = L (List.sort compare (List.map (fun k -> A (atom_of_str k)) l)) in
      L [A "decision"; A (match d with Allow -> "allow" | Deny -> "deny"); ids rs; ids es] in
  L (List.map sx_of_out outs)

(* ---- tokens: <doc> (sched (n fail)...) (ewd 0|1) ---- *)
let run_tokens payload =
  match payload with
  | A doc :: L (A "sched" :: steps) :: L [A "ewd"; A ewd] :: more ->
    let mode = match more with [L [A "mode"; A "once"]] -> FOnce | [L [A "mode"; A "oncedata"]] -> FOnceData | _ -> FSticky in
    let src = str_of_atom doc in
    let sched = List.map (function L [A n; A f] -> (nat_of_int (int_of_string n), f = "1") | _ -> failwith "sched") steps in
    let has_fail = List.exists (fun (_, f) -> f) sched in
    let rd = { r_rest = src; r_sched = sched; r_eof_with_data = (ewd = "1"); r_fail_mode = mode } in
    let fuel = nat_of_int (List.length src + List.length sched + 16) in
    let ty = function TEOF -> 0 | TIdent -> 1 | TInt -> 2 | TReserved -> 3 | TString -> 4 | TOperator -> 5 | TUnknown -> 6 in
    let show = function
      | None -> L [A "out-of-fuel"]
      | Some None -> L [A "error"]
      | Some (Some ts) ->
        L (A "ok" :: List.map (fun t -> L [A "t"; A (string_of_int (ty t.t_type)); A (string_of_cz t.t_off); A (string_of_cz t.t_line);
                                           A (string_of_cz t.t_col); A (atom_of_str (match t.t_type with TEOF -> [] | _ -> t.t_text))]) ts) in
    let m = show (tokenize fuel (nat_of_int 1024) rd) in
    let sp = show (spec_tokenize fuel src) in
    if (not has_fail) && m <> sp then L [A "model-differs-from-spec"; m; sp] else m
  | _ -> failwith "tokens payload"

(* ---- parse: <text>  ->  (ok policy...) | (err) ; the model pipeline: specification tokenizer + parser ---- *)
let run_parse payload =
  match payload with
  | [A doc] ->
    let src = str_of_atom doc in
    let n = List.length src in
    (match spec_tokenize (nat_of_int (n + 2)) src with
     | Some (Some ts) ->
       (match p_policies (nat_of_int (12 * List.length ts + 100)) ts [] with
        | POk (ps, _) ->
          L (A "ok" :: List.map (fun p ->
              sx_of_policy "x70" (L (A "annots" :: List.map (fun (k, v) -> L [A (atom_of_str k); A (atom_of_str v)]) p.pp_annots)) p.pp_policy) ps)
        | PErr0 -> L [A "err"]
        | PFuel -> L [A "out-of-fuel"])
     | Some None -> L [A "err"]
     | None -> L [A "out-of-fuel"])
  | _ -> failwith "parse payload"

(* the Unicode tables of the string escaper on the few runes the generators use (checked by the byte comparison itself) *)
let printable_rune (r : Model.z) : bool =
  let r = int_of_cz r in
  (r >= 0x20 && r < 0x7f) || List.mem r [0xe9; 0x65e5; 0x1f600; 0xfb01; 0xfffd; 0x301; 0x4e2d]
let gext_rune (r : Model.z) : bool = List.mem (int_of_cz r) [0x301]

let set_order_idx (l : value list) : Model.nat list =
  match marshal_order l with
  | Some o -> List.map (fun v -> let rec idx i = function [] -> failwith "set order" | x :: r -> if x = v then i else idx (i + 1) r in nat_of_int (idx 0 l)) o
  | None -> List.mapi (fun i _ -> nat_of_int i) l

(* ---- printpol: <policy>  ->  (text xBYTES (toks (ty text)...)) ---- *)
let run_printpol payload =
  let table = match payload with
    | _ :: L (A "runes" :: rs) :: _ -> List.map (function L [A r; A p; A g] -> (int_of_string r, (p = "1", g = "1")) | _ -> failwith "runes") rs
    | _ -> [] in
  let printable_rune r = let i = int_of_cz r in if i < 0x7f then i >= 0x20 else (match List.assoc_opt i table with Some (p, _) -> p | None -> printable_rune r) in
  let gext_rune r = match List.assoc_opt (int_of_cz r) table with Some (_, g) -> g | None -> gext_rune r in
  match payload with
  | p :: _ ->
    let (id, pol) = policy_of_sx p in
    let ann = match p with
      | L l -> (match List.rev l with
                | L (A "annots" :: kvs) :: _ -> List.map (function L [A k; A v] -> (str_of_atom k, str_of_atom v) | _ -> failwith "annot") kvs
                | _ -> [])
      | _ -> [] in
    let items = policy_items printable_rune gext_rune set_order_idx print_ip (fun _ -> false) ann pol in
    L [A "text"; A (atom_of_str (render items))]
  | _ -> failwith "printpol payload"

(* ---- JSON trees (Base/Json.v) ---- *)
let rec sx_of_json (j : json) : Sexp.t =
  match j with
  | JNull -> L [A "null"]
  | JBool b -> L [A "bool"; A (if b then "1" else "0")]
  | JNum z -> L [A "num"; A (string_of_cz z)]
  | JNumOther -> L [A "numother"]
  | JStr s -> L [A "str"; A (atom_of_str s)]
  | JArr l -> L (A "arr" :: List.map sx_of_json l)
  | JObj l -> L (A "obj" :: List.map (fun (k, v) -> L [A (atom_of_str k); sx_of_json v]) l)

let rec json_of_sx (s : Sexp.t) : json =
  match s with
  | L [A "null"] -> JNull
  | L [A "bool"; A b] -> JBool (b = "1")
  | L [A "num"; A z] -> JNum (cz_of_string z)
  | L [A "numother"] -> JNumOther
  | L [A "str"; A x] -> JStr (str_of_atom x)
  | L (A "arr" :: l) -> JArr (List.map json_of_sx l)
  | L (A "obj" :: l) -> JObj (List.map (function L [A k; v] -> (str_of_atom k, json_of_sx v) | _ -> failwith "obj member") l)
  | s -> failwith ("bad json tree " ^ to_string s)

let run_jsonenc payload =
  match payload with
  | [v] -> L [A "tree"; sx_of_json (encode_value print_ip (fun l -> l) (value_of_sx v))]
  | _ -> failwith "jsonenc payload"

let run_jsondec payload =
  match payload with
  | [t] -> (match decode_value (json_of_sx t) with Some v -> L [A "ok"; sx_of_value v] | None -> L [A "err"])
  | _ -> failwith "jsondec payload"

(* ---- policy JSON (EST) on trees ---- *)
let annots_of_policy_sx p = match p with
  | L l -> (match List.rev l with
            | L (A "annots" :: kvs) :: _ -> List.map (function L [A k; A v] -> (str_of_atom k, str_of_atom v) | _ -> failwith "annot") kvs
            | _ -> [])
  | _ -> []

let run_pjsonenc payload =
  match payload with
  | p :: _ ->
    let (_, pol) = policy_of_sx p in
    L [A "tree"; sx_of_json (enc_policy print_ip (fun l -> l) (annots_of_policy_sx p) pol)]
  | _ -> failwith "pjsonenc payload"

let run_pjsondec payload =
  match payload with
  | [t] ->
    (match dec_policy (json_of_sx t) with
     | DOk (annots, pol) ->
       L [A "ok"; sx_of_policy "x70" (L (A "annots" :: List.map (fun (k, v) -> L [A (atom_of_str k); A (atom_of_str v)]) annots)) pol]
     | DErr -> L [A "err"]
     | DUnk -> L [A "unmodelled"]
     | DFuel -> L [A "out-of-fuel"])
  | _ -> failwith "pjsondec payload"

(* ---- policy-set JSON ---- *)
let run_psjsonenc payload =
  match payload with
  | [L (A "policies" :: ps)] ->
    let l = List.map (fun p -> let (id, pol) = policy_of_sx p in (str_of_atom id, (annots_of_policy_sx p, pol))) ps in
    L [A "tree"; sx_of_json (enc_policy_set print_ip (fun l -> l) l)]
  | _ -> failwith "psjsonenc payload"

let run_psjsondec payload =
  match payload with
  | [t] ->
    (match dec_policy_set (json_of_sx t) with
     | DOk l ->
       let l = List.sort (fun (a, _) (b, _) -> compare (atom_of_str a) (atom_of_str b)) l in
       L [A "ok"; L (A "policies" :: List.map (fun (id, (annots, pol)) ->
           sx_of_policy (atom_of_str id) (L (A "annots" :: List.map (fun (k, v) -> L [A (atom_of_str k); A (atom_of_str v)]) annots)) pol) l)]
     | DErr -> L [A "err"]
     | DUnk -> L [A "unmodelled"]
     | DFuel -> L [A "out-of-fuel"])
  | _ -> failwith "psjsondec payload"

(* ---- schema resolution ---- *)
let rec sty_of_sx (s : Sexp.t) : sty =
  match s with
  | L [A "string"] -> TyString | L [A "long"] -> TyLong | L [A "bool"] -> TyBool
  | L [A "ext"; A n] -> TyExt (str_of_atom n)
  | L [A "set"; t] -> TySet (sty_of_sx t)
  | L (A "rec" :: fs) -> TyRec (srec_of_sx fs)
  | L [A "ent"; A r] -> TyEnt (str_of_atom r)
  | L [A "ref"; A r] -> TyRef (str_of_atom r)
  | s -> failwith ("bad schema type " ^ to_string s)
and srec_of_sx fs = List.map (function L [A k; t; A o] -> (str_of_atom k, (sty_of_sx t, o = "1")) | _ -> failwith "rec field") fs

let rec sx_of_rty (t : rty) : Sexp.t =
  match t with
  | RString -> L [A "string"] | RLong -> L [A "long"] | RBool0 -> L [A "bool"]
  | RExt n -> L [A "ext"; A (atom_of_str n)]
  | RSet e -> L [A "set"; sx_of_rty e]
  | RRec fs -> sx_of_rrec fs
  | REnt n -> L [A "ent"; A (atom_of_str n)]
and sx_of_rrec fs =
  let fs = List.sort (fun (a, _) (b, _) -> compare (atom_of_str a) (atom_of_str b)) fs in
  (* later duplicate keys win in a Go map: keep the last binding of each key *)
  let rec dedup = function [] -> [] | (k, v) :: r -> if List.exists (fun (k2, _) -> k2 = k) r then dedup r else (k, v) :: dedup r in
  L (A "rec" :: List.map (fun (k, (t, o)) -> L [A (atom_of_str k); sx_of_rty t; A (if o then "1" else "0")]) (dedup fs))

let run_schemaresolve payload =
  match payload with
  | [L (A "schema" :: nss)] ->
    let ns_of = function
      | L [A "ns"; A name; L (A "entities" :: es); L (A "enums" :: ens); L (A "commons" :: cs); L (A "actions" :: acts)] ->
        { sn_name = str_of_atom name;
          sn_entities = List.map (function
              | L [A "ent"; A n; L (A "parents" :: ps); L [A "shape"; sh]; L [A "tags"; tg]] ->
                { se_name = str_of_atom n; se_parents = List.map (fun p -> str_of_atom (atom p)) ps;
                  se_shape = (match sh with A "none" -> None | L (A "rec" :: fs) -> Some (srec_of_sx fs) | _ -> failwith "shape");
                  se_tags = (match tg with A "none" -> None | t -> Some (sty_of_sx t)) }
              | _ -> failwith "ent") es;
          sn_enums = List.map (fun e -> str_of_atom (atom e)) ens;
          sn_commons = List.map (function L [A n; t] -> (str_of_atom n, sty_of_sx t) | _ -> failwith "common") cs;
          sn_actions = List.map (function
              | L [A "act"; A n; L (A "parents" :: ps); L [A "applies"; ap]] ->
                { sac_name = str_of_atom n;
                  sac_parents = List.map (function L [A t; A i] -> (str_of_atom t, str_of_atom i) | _ -> failwith "aparent") ps;
                  sac_applies = (match ap with
                      | A "none" -> None
                      | L [A "ap"; L (A "principals" :: pr); L (A "resources" :: rr); L [A "context"; cx]] ->
                        Some { sa_principals = List.map (fun p -> str_of_atom (atom p)) pr; sa_resources = List.map (fun p -> str_of_atom (atom p)) rr;
                               sa_context = (match cx with A "none" -> None | t -> Some (sty_of_sx t)) }
                      | _ -> failwith "applies") }
              | _ -> failwith "act") acts }
      | _ -> failwith "ns" in
    (match resolve_schema (List.map ns_of nss) with
     | VErr -> L [A "err"]
     | VFuel -> L [A "out-of-fuel"]
     | VOk r ->
       let uid_sx (t, i) = L [A "e"; A (atom_of_str t); A (atom_of_str i)] in
       (* Go maps: the last registration of a name wins; present sorted *)
       let last_wins key l = let rec go = function [] -> [] | x :: r -> if List.exists (fun y -> key y = key x) r then go r else x :: go r in go l in
       let ents = List.sort compare (List.map (fun (n, ((ps, sh), tg)) ->
           to_string (L [A (atom_of_str n); L (A "parents" :: List.map (fun p -> A (atom_of_str p)) ps);
                         L [A "shape"; (match sh with None -> A "none" | Some fs -> sx_of_rrec fs)];
                         L [A "tags"; (match tg with None -> A "none" | Some t -> sx_of_rty t)]])) (last_wins fst r.rs_entities)) in
       let acts = List.sort compare (List.map (fun (u, (ps, ap)) ->
           let ps = List.sort_uniq compare (List.map (fun p -> to_string (uid_sx p)) ps) in
           to_string (L [uid_sx u; L (A "parents" :: List.map (fun p -> parse p) ps);
                         L [A "applies"; (match ap with None -> A "none" | Some ((pr, rr), cx) ->
                             L [A "ap"; L (A "principals" :: List.map (fun p -> A (atom_of_str p)) pr); L (A "resources" :: List.map (fun p -> A (atom_of_str p)) rr); sx_of_rrec cx])]]))
           (last_wins fst r.rs_actions)) in
       L [A "ok"; L (A "entities" :: List.map parse ents); L (A "actions" :: List.map parse acts)])
  | _ -> failwith "schemaresolve payload"

(* ---- schema JSON codec on trees (Impl/SchemaJson.v); the rich AST format of harness/kinds_schemaast.go ---- *)
let xannots_of_sx = function
  | L (A "annots" :: kvs) -> List.map (function L [A k; A v] -> (str_of_atom k, str_of_atom v) | _ -> failwith "xannot") kvs
  | _ -> failwith "xannots"
let sx_of_xannots a =
  let a = List.sort (fun (x, _) (y, _) -> compare (atom_of_str x) (atom_of_str y)) a in
  L (A "annots" :: List.map (fun (k, v) -> L [A (atom_of_str k); A (atom_of_str v)]) a)
let rec xty_of_sx (s : Sexp.t) : xty =
  match s with
  | L [A "string"] -> XString | L [A "long"] -> XLong | L [A "bool"] -> XBool
  | L [A "ext"; A n] -> XExt (str_of_atom n)
  | L [A "set"; t] -> XSet (xty_of_sx t)
  | L (A "rec" :: fs) -> XRec (xrec_of_sx fs)
  | L [A "ent"; A r] -> XEnt (str_of_atom r)
  | L [A "ref"; A r] -> XRef (str_of_atom r)
  | s -> failwith ("bad xschema type " ^ to_string s)
and xrec_of_sx fs = List.map (function L [A k; t; A o; an] -> (str_of_atom k, ((xty_of_sx t, o = "1"), xannots_of_sx an)) | _ -> failwith "xrec field") fs
let by_key l = List.sort (fun (x, _) (y, _) -> compare (atom_of_str x) (atom_of_str y)) l
let rec sx_of_xty (t : xty) : Sexp.t =
  match t with
  | XString -> L [A "string"] | XLong -> L [A "long"] | XBool -> L [A "bool"]
  | XExt n -> L [A "ext"; A (atom_of_str n)]
  | XSet e -> L [A "set"; sx_of_xty e]
  | XRec fs -> L (A "rec" :: List.map (fun (k, ((t, o), an)) -> L [A (atom_of_str k); sx_of_xty t; A (if o then "1" else "0"); sx_of_xannots an]) (by_key fs))
  | XEnt r -> L [A "ent"; A (atom_of_str r)]
  | XRef r -> L [A "ref"; A (atom_of_str r)]
let xns_of_sx = function
  | L [A "ns"; A name; an; L (A "entities" :: es); L (A "enums" :: ens); L (A "commons" :: cs); L (A "actions" :: acts)] ->
    (str_of_atom name,
     { xs_annots = xannots_of_sx an;
       xs_entities = List.map (function
           | L [A "ent"; A n; ean; L (A "parents" :: ps); L [A "shape"; sh]; L [A "tags"; tg]] ->
             (str_of_atom n, { xe_annots = xannots_of_sx ean; xe_parents = List.map (fun p -> str_of_atom (atom p)) ps;
                               xe_shape = (match sh with A "none" -> None | L (A "rec" :: fs) -> Some (xrec_of_sx fs) | _ -> failwith "xshape");
                               xe_tags = (match tg with A "none" -> None | t -> Some (xty_of_sx t)) })
           | _ -> failwith "xent") es;
       xs_enums = List.map (function
           | L [A "enum"; A n; ean; L (A "values" :: vs)] -> (str_of_atom n, { xn_annots = xannots_of_sx ean; xn_values = List.map (fun v -> str_of_atom (atom v)) vs })
           | _ -> failwith "xenum") ens;
       xs_commons = List.map (function L [A "ct"; A n; can; t] -> (str_of_atom n, { xc_annots = xannots_of_sx can; xc_type = xty_of_sx t }) | _ -> failwith "xct") cs;
       xs_actions = List.map (function
           | L [A "act"; A n; aan; L (A "parents" :: ps); L [A "applies"; ap]] ->
             (str_of_atom n, { xac_annots = xannots_of_sx aan;
                               xac_parents = List.map (function L [A t; A i] -> (str_of_atom t, str_of_atom i) | _ -> failwith "xaparent") ps;
                               xac_applies = (match ap with
                                   | A "none" -> None
                                   | L [A "ap"; L (A "principals" :: pr); L (A "resources" :: rr); L [A "context"; cx]] ->
                                     Some { xa_principals = List.map (fun p -> str_of_atom (atom p)) pr; xa_resources = List.map (fun p -> str_of_atom (atom p)) rr;
                                            xa_context = (match cx with A "none" -> None | t -> Some (xty_of_sx t)) }
                                   | _ -> failwith "xapplies") })
           | _ -> failwith "xact") acts })
  | _ -> failwith "xns"
let sx_of_xns (name, n) =
  L [A "ns"; A (atom_of_str name); sx_of_xannots n.xs_annots;
     L (A "entities" :: List.map (fun (k, e) ->
         L [A "ent"; A (atom_of_str k); sx_of_xannots e.xe_annots; L (A "parents" :: List.map (fun p -> A (atom_of_str p)) e.xe_parents);
            L [A "shape"; (match e.xe_shape with None -> A "none" | Some fs -> sx_of_xty (XRec fs))];
            L [A "tags"; (match e.xe_tags with None -> A "none" | Some t -> sx_of_xty t)]]) (by_key n.xs_entities));
     L (A "enums" :: List.map (fun (k, e) ->
         L [A "enum"; A (atom_of_str k); sx_of_xannots e.xn_annots; L (A "values" :: List.map (fun v -> A (atom_of_str v)) e.xn_values)]) (by_key n.xs_enums));
     L (A "commons" :: List.map (fun (k, c) -> L [A "ct"; A (atom_of_str k); sx_of_xannots c.xc_annots; sx_of_xty c.xc_type]) (by_key n.xs_commons));
     L (A "actions" :: List.map (fun (k, a) ->
         L [A "act"; A (atom_of_str k); sx_of_xannots a.xac_annots;
            L (A "parents" :: List.map (fun (t, i) -> L [A (atom_of_str t); A (atom_of_str i)]) a.xac_parents);
            L [A "applies"; (match a.xac_applies with
                | None -> A "none"
                | Some ap -> L [A "ap"; L (A "principals" :: List.map (fun p -> A (atom_of_str p)) ap.xa_principals);
                                L (A "resources" :: List.map (fun p -> A (atom_of_str p)) ap.xa_resources);
                                L [A "context"; (match ap.xa_context with None -> A "none" | Some t -> sx_of_xty t)]])]]) (by_key n.xs_actions))]

let run_sjsonenc payload =
  match payload with
  | [L (A "xschema" :: nss)] -> L [A "tree"; sx_of_json (enc_schema (List.map xns_of_sx nss))]
  | _ -> failwith "sjsonenc payload"

let run_sjsondec payload =
  match payload with
  | [t] ->
    (match dec_schema (json_of_sx t) with
     | DOk s ->
       (* the bare namespace is listed only if it declares something (Go has no object for it) *)
       let s = List.filter (fun (name, n) -> name <> [] || n.xs_entities <> [] || n.xs_enums <> [] || n.xs_commons <> [] || n.xs_actions <> []) s in
       L [A "ok"; L (A "xschema" :: List.map sx_of_xns (by_key s))]
     | DErr -> L [A "err"]
     | DUnk -> L [A "unmodelled"]
     | DFuel -> L [A "out-of-fuel"])
  | _ -> failwith "sjsondec payload"

(* ---- schema TEXT codec (Impl/SchemaText.v): kinds stparse / stprint, the AST format of harness/kinds_schemaast.go ---- *)
(* stparse: <schema text as a string atom> -> (ok <xschema>) | (err) | (unmodelled) *)
let run_stparse payload =
  match payload with
  | [A text] ->
    (match parse_schema (str_of_atom text) with
     | SOk s ->
       let s = List.filter (fun (name, n) -> name <> [] || n.xs_entities <> [] || n.xs_enums <> [] || n.xs_commons <> [] || n.xs_actions <> []) s in
       L [A "ok"; L (A "xschema" :: List.map sx_of_xns (by_key s))]
     | SErr -> L [A "err"]
     | SUnk -> L [A "unmodelled"]
     | SFuel -> L [A "out-of-fuel"])
  | _ -> failwith "stparse payload"

(* stprint: <xschema> -> (text <bytes as a string atom>) *)
let run_stprint payload =
  match payload with
  | [L (A "xschema" :: nss)] -> L [A "text"; A (atom_of_str (print_schema (List.map xns_of_sx nss)))]
  | _ -> failwith "stprint payload"

(* ---- typeof: the expression type checker in one request environment ---- *)
let rec cty_of_rsx (s : Sexp.t) : cty =
  match s with
  | L [A "string"] -> CString | L [A "long"] -> CLong | L [A "bool"] -> CBool
  | L [A "ext"; A n] -> CExt (str_of_atom n)
  | L [A "set"; t] -> CSet (cty_of_rsx t)
  | L (A "rec" :: fs) -> CRec (crec_of_rsx fs)
  | L [A "ent"; A r] -> CEnt [str_of_atom r]
  | s -> failwith ("bad resolved type " ^ to_string s)
and crec_of_rsx fs = List.map (function L [A k; t; A o] -> (str_of_atom k, (cty_of_rsx t, o <> "1")) | _ -> failwith "rec field") fs

let bytes_of_str (s : Model.z list) : Stdlib.String.t = String.concat "" (List.map (fun c -> String.make 1 (Char.chr (int_of_cz c))) s)

let rec cty_name (t : cty) : Stdlib.String.t =
  match t with
  | CNever -> "__cedar::internal::Never" | CTrue -> "__cedar::internal::True" | CFalse -> "__cedar::internal::False"
  | CBool -> "Bool" | CLong -> "Long" | CString -> "String"
  | CSet e -> "Set<" ^ cty_name e ^ ">"
  | CRec [] -> "{}"
  | CRec fs ->
    let fs = List.sort (fun (a, _) (b, _) -> compare (bytes_of_str a) (bytes_of_str b)) fs in
    "{" ^ String.concat "" (List.map (fun (k, (t, req)) -> bytes_of_str k ^ (if req then "" else "?") ^ ": " ^ cty_name t ^ ",") fs) ^ "}"
  | CEnt [x] -> bytes_of_str x
  | CEnt l -> "__cedar::internal::Union<" ^ String.concat ", " (List.map bytes_of_str l) ^ ">"
  | CExt n -> bytes_of_str n

let atom_of_bytes (s : Stdlib.String.t) : Stdlib.String.t =
  let b = Buffer.create 16 in Buffer.add_char b 'x'; String.iter (fun c -> Buffer.add_string b (Printf.sprintf "%02x" (Char.code c))) s; Buffer.contents b

let tschema_of_info es ens acts =
    { ts_entities = List.map (function
        | L [A n; L (A "parents" :: ps); L [A "shape"; L (A "rec" :: fs)]; L [A "tags"; tg]] ->
          (str_of_atom n, { te_parents = List.map (fun p -> str_of_atom (atom p)) ps; te_shape = crec_of_rsx fs;
                            te_tags = (match tg with A "none" -> None | t -> Some (cty_of_rsx t)) })
        | _ -> failwith "info entity") es;
        ts_enums = List.map (fun x -> str_of_atom (atom x)) ens;
        ts_actions = List.map (function L (L [A "e"; A t; A i] :: _) -> (str_of_atom t, str_of_atom i) | _ -> failwith "info action") acts;
        ts_agraph = List.map (function
            | L (L [A "e"; A t; A i] :: _ :: L (A "parents" :: ps) :: _) ->
              ((str_of_atom t, str_of_atom i), List.map (function L [A "e"; A pt; A pi] -> (str_of_atom pt, str_of_atom pi) | _ -> failwith "info action parent") ps)
            | _ -> failwith "info action") acts }

let run_typeof payload =
  match payload with
  | [_; L [A "info"; L (A "entities" :: es); L (A "enums" :: ens); L (A "actions" :: acts)]; A mode; A pt; act; A rt; e] ->
    let sch = tschema_of_info es ens acts in
    let (at, ai) = match act with L [A "e"; A t; A i] -> (str_of_atom t, str_of_atom i) | _ -> failwith "action uid" in
    let ctx = List.fold_left (fun acc a -> match a with
        | L (L [A "e"; A t; A i] :: L [A "context"; L (A "rec" :: fs)] :: _) when str_of_atom t = at && str_of_atom i = ai -> crec_of_rsx fs
        | _ -> acc) [] acts in
    let env = { tv_principal = str_of_atom pt; tv_action = (at, ai); tv_resource = str_of_atom rt; tv_context = ctx } in
    (match typeof (mode = "strict") sch env (expr_of_sx e) [] with
     | TOk (t, _) -> L [A "ok"; A (atom_of_bytes (cty_name t))]
     | TErr -> L [A "err"]
     | TUnk -> L [A "unmodelled"])
  | _ -> failwith "typeof payload"

(* ---- entity / entity-map JSON on trees (Impl/EntityJson.v) ---- *)
let sx_of_store (m : ((Model.z list * Model.z list) * entity) list) : Sexp.t =
  let uid_sx (t, i) = L [A "e"; A (atom_of_str t); A (atom_of_str i)] in
  let ents = List.map (fun (u, e) ->
      let ps = List.sort compare (List.map (fun p -> to_string (uid_sx p)) e.e_parents) in
      to_string (L [A "ent"; uid_sx u; L (A "parents" :: List.map parse ps);
                    L (A "attrs" :: List.map (fun (k, x) -> L [A (atom_of_str k); sx_of_value x]) e.e_attrs);
                    L (A "tags" :: List.map (fun (k, x) -> L [A (atom_of_str k); sx_of_value x]) e.e_tags);
                    L [A "inner"; uid_sx u]])) m in
  L (A "store" :: List.map parse (List.sort compare ents))

let run_ejsonenc payload =
  match payload with
  | [store; L (A "keys" :: keys)] ->
    let table = List.map (function L [u; A key] -> (uid_of_sx u, str_of_atom key) | _ -> failwith "ukey") keys in
    let ukey u = (match List.assoc_opt u table with Some k -> k | None -> failwith "ukey: uid without a key") in
    (* the parents of a Go entity are a SET: the generator may list one twice *)
    let rec dedup = function [] -> [] | x :: r -> x :: dedup (List.filter (fun y -> y <> x) r) in
    let st = List.map (fun (u, e) -> (u, { e with e_parents = dedup e.e_parents })) (store_of_sx store) in
    (* ... and so are the keys of the map: a later entity with the same uid replaces the earlier one *)
    let rec last_wins = function [] -> [] | (u, e) :: r -> if List.exists (fun (u2, _) -> u2 = u) r then last_wins r else (u, e) :: last_wins r in
    L [A "tree"; sx_of_json (enc_entity_map print_ip (fun l -> l) ukey (last_wins st))]
  | _ -> failwith "ejsonenc payload"

let run_ejsondec payload =
  match payload with
  | [t] ->
    (match dec_entity_map (json_of_sx t) with
     | DOk m -> L [A "ok"; sx_of_store m]
     | DErr -> L [A "err"]
     | DUnk -> L [A "unmodelled"]
     | DFuel -> L [A "out-of-fuel"])
  | _ -> failwith "ejsondec payload"

(* ---- Request / Diagnostic / Decision JSON on trees (Impl/RequestJson.v) ---- *)
let dres_sx f = function
  | DOk x -> L [A "ok"; f x]
  | DErr -> L [A "err"]
  | DUnk -> L [A "unmodelled"]
  | DFuel -> L [A "out-of-fuel"]

let run_rjsonenc payload =
  match payload with
  | [L [A "req"; p; a; r; c]] ->
    let ctx = (match value_of_sx c with VRecord kvs -> kvs | _ -> failwith "rjsonenc: context") in
    L [A "tree"; sx_of_json (enc_request print_ip (fun l -> l)
                               { rq_principal = uid_of_sx p; rq_action = uid_of_sx a; rq_resource = uid_of_sx r; rq_context = ctx })]
  | _ -> failwith "rjsonenc payload"

let run_rjsondec payload =
  match payload with
  | [t] ->
    let uid_v (t, i) = sx_of_value (VEntity (t, i)) in
    dres_sx (fun rq -> L [A "req"; uid_v rq.rq_principal; uid_v rq.rq_action; uid_v rq.rq_resource; sx_of_value (VRecord rq.rq_context)])
      (dec_request (json_of_sx t))
  | _ -> failwith "rjsondec payload"

let pos_of_sx = function
  | [A f; A o; A l; A c] -> { ps_file = str_of_atom f; ps_offset = cz_of_string o; ps_line = cz_of_string l; ps_column = cz_of_string c }
  | _ -> failwith "position"
let sx_of_pos p = [A (atom_of_str p.ps_file); A (string_of_cz p.ps_offset); A (string_of_cz p.ps_line); A (string_of_cz p.ps_column)]

let run_djsonenc payload =
  match payload with
  | [L [A "diag"; L (A "reasons" :: rs); L (A "errors" :: es)]] ->
    let d = { dg_reasons = List.map (function L (A "r" :: A id :: pos) -> { rs_policy = str_of_atom id; rs_pos = pos_of_sx pos } | _ -> failwith "reason") rs;
              dg_errors = List.map (function L [A "e"; A id; f; o; l; c; A msg] -> { de_policy = str_of_atom id; de_pos = pos_of_sx [f; o; l; c]; de_message = str_of_atom msg }
                                           | _ -> failwith "error") es } in
    L [A "tree"; sx_of_json (enc_diagnostic d)]
  | _ -> failwith "djsonenc payload"

let run_djsondec payload =
  match payload with
  | [t] ->
    dres_sx (fun d -> L [A "diag";
                         L (A "reasons" :: List.map (fun r -> L (A "r" :: A (atom_of_str r.rs_policy) :: sx_of_pos r.rs_pos)) d.dg_reasons);
                         L (A "errors" :: List.map (fun e -> L ((A "e" :: A (atom_of_str e.de_policy) :: sx_of_pos e.de_pos) @ [A (atom_of_str e.de_message)])) d.dg_errors)])
      (dec_diagnostic (json_of_sx t))
  | _ -> failwith "djsondec payload"

let run_decjson payload =
  match payload with
  | [t] -> L [A "decision"; A (if dec_decision (json_of_sx t) then "allow" else "deny")]
  | _ -> failwith "decjson payload"

(* ---- conform: Validator.Entity / Entities / Request verdicts (Impl/Conform.v) ---- *)
let acts_of_info acts =
  List.map (function
      | L [L [A "e"; A t; A i]; L [A "context"; cx]; _; L (A "applies" :: ap)] ->
        ((str_of_atom t, str_of_atom i),
         (match ap with
          | [A "none"] -> None
          | [L (A "principals" :: pr); L (A "resources" :: rr)] ->
            let ctx = (match cx with L (A "rec" :: fs) -> crec_of_rsx fs | _ -> []) in
            Some ((List.map (fun x -> str_of_atom (atom x)) pr, List.map (fun x -> str_of_atom (atom x)) rr), ctx)
          | _ -> failwith "info applies"))
      | _ -> failwith "info action (conform)") acts

let run_conform payload =
  match payload with
  | [_; L [A "info"; L (A "entities" :: es); L (A "enums" :: ens); L (A "actions" :: acts)]; L (A "enumvals" :: evs); store; L [A "req"; p; a; r; c]] ->
    let sch = tschema_of_info es ens acts in
    let acts' = acts_of_info acts in
    let enums = List.map (function L (A n :: ids) -> (str_of_atom n, List.map (fun x -> str_of_atom (atom x)) ids) | _ -> failwith "enumvals") evs in
    let rec dedup = function [] -> [] | x :: r -> x :: dedup (List.filter (fun y -> y <> x) r) in
    let rec last_wins = function [] -> [] | (u, e) :: r -> if List.exists (fun (u2, _) -> u2 = u) r then last_wins r else (u, e) :: last_wins r in
    let st = last_wins (List.map (fun (u, e) -> (u, { e with e_parents = dedup e.e_parents })) (store_of_sx store)) in
    let uid_sx (t, i) = L [A "e"; A (atom_of_str t); A (atom_of_str i)] in
    let b x = A (if x then "1" else "0") in
    let per = List.sort compare (List.map (fun (u, e) -> to_string (L [uid_sx u; b (check_entity sch enums (u, e))])) st) in
    let ctx = (match value_of_sx c with VRecord kvs -> kvs | _ -> failwith "conform: context") in
    L [A "conform"; L (A "entities" :: List.map parse per); L [A "all"; b (check_entities sch enums st)];
       L [A "request"; b (check_request sch acts' (uid_of_sx p) (uid_of_sx a) (uid_of_sx r) ctx)]]
  | _ -> failwith "conform payload"

(* ---- ejsonschema: EntityMap.UnmarshalJSONWithSchema = decode (Impl/EntityJson.v), coerce (Impl/Coerce.v), validate (Impl/Conform.v) ---- *)
let run_ejsonschema payload =
  match payload with
  | [_; L [A "info"; L (A "entities" :: es); L (A "enums" :: ens); L (A "actions" :: acts)]; L (A "enumvals" :: evs); t] ->
    let sch = tschema_of_info es ens acts in
    let enums = List.map (function L (A n :: ids) -> (str_of_atom n, List.map (fun x -> str_of_atom (atom x)) ids) | _ -> failwith "enumvals") evs in
    (match dec_entity_map (json_of_sx t) with
     | DOk m ->
       let m' = List.map (coerce_entity sch) m in
       if check_entities sch enums m' then L [A "ok"; sx_of_store m'] else L [A "err"]
     | DErr -> L [A "err"]
     | DUnk -> L [A "unmodelled"]
     | DFuel -> L [A "out-of-fuel"])
  | _ -> failwith "ejsonschema payload"

(* ---- uidparse: EntityUID.UnmarshalCedar (Impl/UidText.v) ---- *)
let run_uidparse payload =
  match payload with
  | [A b] -> (match parse_uid (str_of_atom b) with Some (t, i) -> L [A "ok"; A (atom_of_str t); A (atom_of_str i)] | None -> L [A "err"])
  | _ -> failwith "uidparse payload"

(* ---- coerce: schema-guided coercion of one value along one declared type (Impl/Coerce.v) ---- *)
let run_coerce payload =
  match payload with
  | [t; v] -> sx_of_value (coerce (cty_of_rsx t) (value_of_sx v))
  | _ -> failwith "coerce payload"

let run_coercetags payload =
  match payload with
  | [t; v] ->
    (match value_of_sx v with
     | VRecord kvs -> sx_of_value (VRecord (coerce_tags (Some (cty_of_rsx t)) kvs))
     | _ -> failwith "coercetags: record expected")
  | _ -> failwith "coercetags payload"

(* ---- vverdict: Validator.Policy accept / reject (Impl/ValidatePolicy.v) ---- *)
let run_vverdict payload =
  match payload with
  | [_; L [A "info"; L (A "entities" :: es); L (A "enums" :: ens); L (A "actions" :: acts)]; A mode; p] ->
    let sch = tschema_of_info es ens acts in
    let acts' = List.map (function
        | L [L [A "e"; A t; A i]; L [A "context"; cx]; _; L (A "applies" :: ap)] ->
          ((str_of_atom t, str_of_atom i),
           (match ap with
            | [A "none"] -> None
            | [L (A "principals" :: pr); L (A "resources" :: rr)] ->
              let ctx = (match cx with L (A "rec" :: fs) -> crec_of_rsx fs | _ -> []) in
              Some ((List.map (fun x -> str_of_atom (atom x)) pr, List.map (fun x -> str_of_atom (atom x)) rr), ctx)
            | _ -> failwith "info applies"))
        | _ -> failwith "info action (vverdict)") acts in
    let (_, pol) = policy_of_sx p in
    if validate_policy (mode = "strict") sch acts' pol then L [A "accept"] else L [A "reject"]
  | _ -> failwith "vverdict payload"

let run_case kind payload =
  match kind with
  | "vverdict" -> run_vverdict payload
  | "uidparse" -> run_uidparse payload
  | "conform" -> run_conform payload
  | "ejsonschema" -> run_ejsonschema payload
  | "coerce" -> run_coerce payload
  | "coercetags" -> run_coercetags payload
  | "rjsonenc" -> run_rjsonenc payload
  | "rjsondec" -> run_rjsondec payload
  | "djsonenc" -> run_djsonenc payload
  | "djsondec" -> run_djsondec payload
  | "decjson" -> run_decjson payload
  | "ejsonenc" -> run_ejsonenc payload
  | "ejsondec" -> run_ejsondec payload
  | "typeof" -> run_typeof payload
  | "sjsonenc" -> run_sjsonenc payload
  | "sjsondec" -> run_sjsondec payload
  | "stparse" -> run_stparse payload
  | "stprint" -> run_stprint payload
  | "schemaresolve" -> run_schemaresolve payload
  | "psjsonenc" -> run_psjsonenc payload
  | "psjsondec" -> run_psjsondec payload
  | "pjsonenc" -> run_pjsonenc payload
  | "pjsondec" -> run_pjsondec payload
  | "jsonenc" -> run_jsonenc payload
  | "jsondec" -> run_jsondec payload
  | "parse" -> run_parse payload
  | "printpol" -> run_printpol payload
  | "tokens" -> run_tokens payload
  | "authz-abs" -> run_authz_abs payload
  | "eval" -> run_eval payload
  | "authz" -> run_authz payload
  | "pshist" -> run_pshist payload
  | "fold" -> run_fold payload
  | "partial" -> run_partial payload
  | "psound" -> run_psound payload
  | "batch" -> run_batch payload
  | "valops" -> run_valops payload
  | "setorder" -> run_setorder payload
  | "scalar" -> run_scalar payload
  | "foldexpr" -> run_foldexpr payload
  | k -> L [A "unsupported"; A k]
