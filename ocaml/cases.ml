(* Case kinds: decode payload, run the extracted model, encode the result. *)
open Sexp
open Model
open Conv

let atom = function A a -> a | L _ -> failwith "expected atom"
let lst = function L l -> l | A a -> failwith ("expected list, got " ^ a)

(* ---- authz-abs: <iter> (pols (p idx permit|forbid t|f|e variant) ...) ---- *)
let run_authz_abs payload =
  let pols = match payload with
    | _iter :: L (A "pols" :: ps) :: _ -> ps
    | _ -> failwith "authz-abs payload" in
  let ps = List.map (fun p -> match lst p with
      | [A "p"; A idx; A eff; A out; _] ->
        (int_of_string idx,
         ((match eff with "permit" -> Permit | "forbid" -> Forbid | _ -> failwith "eff"),
          (match out with "t" -> OTrue | "f" -> OFalse | "e" -> OErr | _ -> failwith "out")))
      | _ -> failwith "pol") pols in
  let r = authorize (fun p -> fst (snd p)) (fun p -> snd (snd p)) ps in
  let ids l = L (List.map (fun p -> A (string_of_int (fst p))) l) in
  L [L [A "dec"; A (match r.dec with Allow -> "allow" | Deny -> "deny")];
     L [A "reasons"; ids r.reasons]; L [A "errors"; ids r.errs]]

let run_case kind payload =
  match kind with
  | "authz-abs" -> run_authz_abs payload
  | k -> L [A "unsupported"; A k]
