#!/bin/sh
# Extract the Coq model and build the OCaml driver. Run from anywhere.
set -e
cd "$(dirname "$0")"
mkdir -p gen _build
( cd gen && coqc -Q ../../coq/theories Cedar ../../coq/theories/Extract/Extract.v >/dev/null )
cp gen/model.ml gen/model.mli sexp.ml conv.ml cases.ml driver.ml _build/
cd _build
ocamlfind ocamlopt -w -a -package zarith -linkpkg model.mli model.ml sexp.ml conv.ml cases.ml driver.ml -o driver
