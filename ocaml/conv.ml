(* Conversions between S-expressions / OCaml data and the extracted Coq datatypes. *)
module BZ = Z

let rec pos_of_z (z : BZ.t)  : Model.positive =
  if BZ.equal z BZ.one then Model.XH
  else if BZ.is_even z then Model.XO (pos_of_z (BZ.shift_right z 1))
  else Model.XI (pos_of_z (BZ.shift_right z 1))

let cz_of_z (z : BZ.t) : Model.z =
  if BZ.equal z BZ.zero then Model.Z0
  else if BZ.sign z > 0 then Model.Zpos (pos_of_z z)
  else Model.Zneg (pos_of_z (BZ.neg z))

let rec z_of_pos = function
  | Model.XH -> BZ.one
  | Model.XO p -> BZ.shift_left (z_of_pos p) 1
  | Model.XI p -> BZ.succ (BZ.shift_left (z_of_pos p) 1)

let z_of_cz = function
  | Model.Z0 -> BZ.zero
  | Model.Zpos p -> z_of_pos p
  | Model.Zneg p -> BZ.neg (z_of_pos p)

let cz_of_string s = cz_of_z (BZ.of_string s)
let string_of_cz z = BZ.to_string (z_of_cz z)
let cz_of_int i = cz_of_z (BZ.of_int i)
let int_of_cz z = BZ.to_int (z_of_cz z)

let rec nat_of_int i = if i <= 0 then Model.O else Model.S (nat_of_int (i - 1))
let rec int_of_nat = function Model.O -> 0 | Model.S n -> 1 + int_of_nat n

(* strings travel as atoms "x" ^ hex bytes; in the model they are lists of Z bytes *)
let str_of_atom (a : string) : Model.z list =
  if String.length a = 0 || a.[0] <> 'x' then failwith ("bad string atom " ^ a);
  let n = (String.length a - 1) / 2 in
  List.init n (fun i -> cz_of_int (int_of_string ("0x" ^ String.sub a (1 + 2 * i) 2)))

let atom_of_str (s : Model.z list) : string =
  let b = Buffer.create 16 in
  Buffer.add_char b 'x';
  List.iter (fun c -> Buffer.add_string b (Printf.sprintf "%02x" (int_of_cz c))) s;
  Buffer.contents b
